/-
Executable model of libdialect's separation-constraint store (cola/libdialect/constraints.{h,cpp},
the SEPCO branch of io.cpp). Hand-written, mirrors the C++ statement by statement; tied to the
code by the exhaustive correspondence of Driver/C18.lean + harness/c18.cpp.
Doubles whose sign bit is observed (`std::signbit(xgap)`) are `SZ`; everything computed from them
for VPSC is `Rat`. Core Lean only.
-/
import AdaptaVerif.Num.SZ
namespace AdaptaVerif.Model.Sep
open AdaptaVerif.Num

/-! ## enums (constraints.h) -/

inductive GapType where
  | centre | bdry
  deriving DecidableEq, Repr, Inhabited

inductive SepDir where
  | east | south | west | north      -- cardinal: separation + alignment
  | right | down | left | up         -- lateral: separation only
  deriving DecidableEq, Repr, Inhabited

inductive SepType where
  | none | eq | ineq
  deriving DecidableEq, Repr, Inhabited

inductive CardinalDir where
  | east | south | west | north
  deriving DecidableEq, Repr, Inhabited

/-- The seven `SepTransform` values of the C++ plus the identity (= not calling `transform`),
    which makes the eight symmetries of the square. -/
inductive SepTransform where
  | ident | rotate90cw | rotate90acw | rotate180 | flipv | fliph | flipmd | flipod
  deriving DecidableEq, Repr, Inhabited

inductive Dim where
  | x | y
  deriving DecidableEq, Repr, Inhabited

def SepTransform.all : List SepTransform :=
  [.ident, .rotate90cw, .rotate90acw, .rotate180, .flipv, .fliph, .flipmd, .flipod]

def SepDir.all : List SepDir := [.east, .south, .west, .north, .right, .down, .left, .up]

/-! ## free functions on SepDir -/

def negateSepDir : SepDir → SepDir
  | .east => .west | .south => .north | .west => .east | .north => .south
  | .right => .left | .down => .up | .left => .right | .up => .down

def sepDirIsCardinal : SepDir → Bool
  | .east | .south | .west | .north => true
  | _ => false

def lateralWeakening : SepDir → SepDir
  | .east => .right | .south => .down | .west => .left | .north => .up
  | sd => sd

def cardinalStrengthening : SepDir → SepDir
  | .right => .east | .down => .south | .left => .west | .up => .north
  | sd => sd

/-- `sepDirToCardinalDir`; `none` = `COLA_ASSERT(false)` -/
def sepDirToCardinalDir : SepDir → Option CardinalDir
  | .east => some .east | .south => some .south | .west => some .west | .north => some .north
  | _ => none

def cardinalDirToSepDir : CardinalDir → SepDir
  | .east => .east | .south => .south | .west => .west | .north => .north

/-- `Compass::cardFlip` -/
def cardFlip : CardinalDir → CardinalDir
  | .east => .west | .south => .north | .west => .east | .north => .south

/-! ## SepPair -/

structure SepPair where
  src : Nat := 0
  tgt : Nat := 0
  xgt : GapType := .centre
  ygt : GapType := .centre
  xst : SepType := .none
  yst : SepType := .none
  xgap : SZ := SZ.zero
  ygap : SZ := SZ.zero
  tglfPrecision : Nat := 3
  flippedRetrieval : Bool := false
  deriving DecidableEq, Repr, Inhabited

namespace SepPair

/-- `SepPair::addSep` -/
def addSep (sp : SepPair) (gt : GapType) (sd : SepDir) (st : SepType) (gap : SZ) : SepPair :=
  if st = .none then sp else
  match sd with
  | .east  => { sp with xgt := gt, xst := st, xgap := gap,  ygt := .centre, yst := .eq, ygap := SZ.zero }
  | .south => { sp with xgt := .centre, xst := .eq, xgap := SZ.zero, ygt := gt, yst := st, ygap := gap }
  | .west  => { sp with xgt := gt, xst := st, xgap := -gap, ygt := .centre, yst := .eq, ygap := SZ.zero }
  | .north => { sp with xgt := .centre, xst := .eq, xgap := SZ.zero, ygt := gt, yst := st, ygap := -gap }
  | .right => { sp with xgt := gt, xst := st, xgap := gap }
  | .down  => { sp with ygt := gt, yst := st, ygap := gap }
  | .left  => { sp with xgt := gt, xst := st, xgap := -gap }
  | .up    => { sp with ygt := gt, yst := st, ygap := -gap }

/-- `SepPair::transform` (identity added) -/
def transform (tf : SepTransform) (sp : SepPair) : SepPair :=
  match tf with
  | .ident => sp
  | .rotate90cw  => { sp with xst := sp.yst, yst := sp.xst, xgt := sp.ygt, ygt := sp.xgt,
                              xgap := -sp.ygap, ygap := sp.xgap }
  | .rotate90acw => { sp with xst := sp.yst, yst := sp.xst, xgt := sp.ygt, ygt := sp.xgt,
                              xgap := sp.ygap, ygap := -sp.xgap }
  | .rotate180   => { sp with xgap := -sp.xgap, ygap := -sp.ygap }
  | .flipv       => { sp with xgap := -sp.xgap }
  | .fliph       => { sp with ygap := -sp.ygap }
  | .flipmd      => { sp with xst := sp.yst, yst := sp.xst, xgt := sp.ygt, ygt := sp.xgt,
                              xgap := sp.ygap, ygap := sp.xgap }
  | .flipod      => { sp with xst := sp.yst, yst := sp.xst, xgt := sp.ygt, ygt := sp.xgt,
                              xgap := -sp.ygap, ygap := -sp.xgap }

/-- one gap of `SepPair::roundGapsUpAbs` -/
def roundUpAbs (g : SZ) : SZ := if g.signbit then g.floor else g.ceil

/-- `SepPair::roundGapsUpAbs` -/
def roundGapsUpAbs (sp : SepPair) : SepPair :=
  { sp with xgap := roundUpAbs sp.xgap, ygap := roundUpAbs sp.ygap }

def isVAlign (sp : SepPair) : Bool := sp.xgt == .centre && sp.xst == .eq && sp.xgap.isZero
def isHAlign (sp : SepPair) : Bool := sp.ygt == .centre && sp.yst == .eq && sp.ygap.isZero

def isVerticalCardinal (sp : SepPair) : Bool :=
  sp.xgt == .centre && sp.xst == .eq && sp.xgap.isZero && sp.yst != .none
    && (sp.ygt == .bdry || !sp.ygap.isZero)

def isHorizontalCardinal (sp : SepPair) : Bool :=
  sp.ygt == .centre && sp.yst == .eq && sp.ygap.isZero && sp.xst != .none
    && (sp.xgt == .bdry || !sp.xgap.isZero)

def isCardinal (sp : SepPair) : Bool := sp.isVerticalCardinal || sp.isHorizontalCardinal

/-- `SepPair::getCardinalDir`; `none` = throws `runtime_error` -/
def getCardinalDir (sp : SepPair) : Option CardinalDir :=
  if sp.isVerticalCardinal then
    some (if sp.ygap.signbit then .north else .south)
  else if sp.isHorizontalCardinal then
    some (if sp.xgap.signbit then .west else .east)
  else none

def hasConstraintInDim (sp : SepPair) : Dim → Bool
  | .x => sp.xst != .none
  | .y => sp.yst != .none

end SepPair

/-! ## translation to VPSC (`SepPair::generateSeparationConstraint`) -/

/-- A generated constraint in one dimension, with the *role* of the left variable instead of its id:
    `left + gap ≤ right` (or `=`), where left is the src node iff `leftIsSrc`. -/
structure GenCon where
  leftIsSrc : Bool
  gap : Rat
  equality : Bool
  deriving DecidableEq, Repr, Inhabited

/-- One dimension of `generateSeparationConstraint`: separation type, gap type and gap of that
    dimension; `extra` = `m->getExtraBdryGap()`; `szSrc`/`szTgt` = the extents of the two rectangles
    in that dimension (width for x, height for y). The sign **bit** of the gap selects left/right. -/
def genCon (st : SepType) (gt : GapType) (g : SZ) (extra szSrc szTgt : Rat) : Option GenCon :=
  if st = .none then none else
  let equality := st == .eq
  let leftIsSrc := !g.signbit
  let gap := if g.signbit then (-g).toRat else g.toRat
  -- (width(left) + width(right)) / 2 + extra
  let szL := if leftIsSrc then szSrc else szTgt
  let szR := if leftIsSrc then szTgt else szSrc
  let gap := if gt = .bdry then gap + ((szL + szR) / 2 + extra) else gap
  some { leftIsSrc := leftIsSrc, gap := gap, equality := equality }

/-- the `vpsc::Constraint` with variable ids -/
structure VCon where
  left : Nat
  right : Nat
  gap : Rat
  equality : Bool
  deriving DecidableEq, Repr, Inhabited

/-- `SepPair::generateSeparationConstraint(dim, cgr, m, vs)`; `size id dim` = extent of node `id`'s
    rectangle in `dim`. `none` = `nullptr`. -/
def SepPair.generateSeparationConstraint (sp : SepPair) (dim : Dim) (extra : Rat)
    (size : Nat → Dim → Rat) : Option VCon :=
  let g := match dim with
    | .x => genCon sp.xst sp.xgt sp.xgap extra (size sp.src .x) (size sp.tgt .x)
    | .y => genCon sp.yst sp.ygt sp.ygap extra (size sp.src .y) (size sp.tgt .y)
  g.map fun c =>
    { left := if c.leftIsSrc then sp.src else sp.tgt,
      right := if c.leftIsSrc then sp.tgt else sp.src,
      gap := c.gap, equality := c.equality }

/-! ## TGLF, token level (`SepPair::writeTglf`, SEPCO branch of `buildGraphFromTglf`) -/

/-- a decimal numeral as printed by `%.<prec>f`: sign, digits without the point, precision -/
structure Dec where
  neg : Bool
  units : Nat
  prec : Nat
  deriving DecidableEq, Repr, Inhabited

def pow10 (p : Nat) : Nat := 10 ^ p

def Dec.toRat (d : Dec) : Rat :=
  let v : Rat := (d.units : Rat) / (pow10 d.prec : Rat)
  if d.neg then -v else v

/-- what `iss >> gap` (strtod) makes of the numeral: sign bit from the `-` character -/
def Dec.toSZ (d : Dec) : SZ := ⟨d.neg, (d.units : Rat) / (pow10 d.prec : Rat)⟩

def padLeft (s : String) (n : Nat) (c : Char) : String :=
  String.ofList (List.replicate (n - s.length) c) ++ s

/-- the characters printf produces -/
def Dec.render (d : Dec) : String :=
  let ip := d.units / pow10 d.prec
  let fp := d.units % pow10 d.prec
  (if d.neg then "-" else "") ++ toString ip ++
    (if d.prec = 0 then "" else "." ++ padLeft (toString fp) d.prec '0')

/-- round a non-negative rational to the nearest integer, ties to even (what glibc's printf does
    with the exact binary value of the double in the default rounding mode) -/
def roundHalfEven (q : Rat) : Nat :=
  let f := q.floor
  let r := q - (f : Rat)
  let n := if r < 1/2 then f else if 1/2 < r then f + 1 else if f % 2 = 0 then f else f + 1
  n.toNat

/-- `string_format("%.<p>f", v)` for the double `v` -/
def fmtFixed (p : Nat) (v : SZ) : Dec :=
  { neg := v.signbit, units := roundHalfEven (v.mag * (pow10 p : Rat)), prec := p }

inductive DirLetter where
  | E | S | W | N | R | D | L | U | X | Y
  deriving DecidableEq, Repr, Inhabited

def DirLetter.toChar : DirLetter → Char
  | .E => 'E' | .S => 'S' | .W => 'W' | .N => 'N' | .R => 'R' | .D => 'D' | .L => 'L' | .U => 'U'
  | .X => 'X' | .Y => 'Y'

def DirLetter.ofChar? : Char → Option DirLetter
  | 'E' => some .E | 'S' => some .S | 'W' => some .W | 'N' => some .N | 'R' => some .R
  | 'D' => some .D | 'L' => some .L | 'U' => some .U | 'X' => some .X | 'Y' => some .Y
  | _ => none

/-- the `switch(dir)` of the SEPCO reader -/
def DirLetter.toSepDir : DirLetter → SepDir
  | .E => .east | .S => .south | .W => .west | .N => .north
  | .R => .right | .D => .down | .L => .left | .U => .up
  | .X => .right | .Y => .down

/-- one SEPCO line: `src tgt <B|C> <letter> <==|>=> <gap>` -/
structure TglfLine where
  src : Nat
  tgt : Nat
  gt : GapType
  dir : DirLetter
  isEq : Bool
  gap : Dec
  deriving DecidableEq, Repr, Inhabited

def TglfLine.render (l : TglfLine) : String :=
  toString l.src ++ " " ++ toString l.tgt ++ " " ++ (if l.gt = .bdry then "B" else "C") ++ " " ++
    String.singleton l.dir.toChar ++ " " ++ (if l.isEq then "==" else ">=") ++ " " ++ l.gap.render

/-- the literal `0` of the `C X == 0` / `C Y == 0` lines -/
def Dec.zeroLit : Dec := ⟨false, 0, 0⟩

/-- `SepPair::writeTglf(id2ext, m)` with the identity id map; `extra = m.getExtraBdryGap()`.
    `none` = throws `runtime_error("... constrained to coincide!")`. -/
def SepPair.writeTglf (sp : SepPair) (extra : Rat) : Option (List TglfLine) :=
  if sp.xst = .none ∧ sp.yst = .none then some [] else
  let xExtra : Rat := if sp.xgt = .bdry then extra else 0
  let yExtra : Rat := if sp.ygt = .bdry then extra else 0
  let p := sp.tglfPrecision
  let xgapStr := fmtFixed p (sp.xgap.addRat xExtra)
  let ygapStr := fmtFixed p (sp.ygap.addRat yExtra)
  let nxgapStr := fmtFixed p ((-sp.xgap).addRat xExtra)
  let nygapStr := fmtFixed p ((-sp.ygap).addRat yExtra)
  let line (gt : GapType) (d : DirLetter) (isEq : Bool) (g : Dec) : TglfLine :=
    { src := sp.src, tgt := sp.tgt, gt := gt, dir := d, isEq := isEq, gap := g }
  -- Vertically aligned
  if sp.xgt = .centre ∧ sp.xst = .eq ∧ sp.xgap.isZero then
    match sp.yst with
    | .eq =>
      match sp.ygt with
      | .centre =>
        if sp.ygap.ltZero then some [line .centre .N true nygapStr]
        else if sp.ygap.gtZero then some [line .centre .S true ygapStr]
        else none
      | .bdry =>
        if sp.ygap.signbit then some [line .bdry .N true nygapStr]
        else some [line .bdry .S true ygapStr]
    | .ineq =>
      if sp.ygap.signbit then some [line sp.ygt .N false nygapStr]
      else some [line sp.ygt .S false ygapStr]
    | .none => some [line .centre .X true Dec.zeroLit]
  -- Horizontally aligned
  else if sp.ygt = .centre ∧ sp.yst = .eq ∧ sp.ygap.isZero then
    match sp.xst with
    | .eq =>
      match sp.xgt with
      | .centre =>
        if sp.xgap.ltZero then some [line .centre .W true nxgapStr]
        else if sp.xgap.gtZero then some [line .centre .E true xgapStr]
        else none
      | .bdry =>
        if sp.xgap.signbit then some [line .bdry .W true nxgapStr]
        else some [line .bdry .E true xgapStr]
    | .ineq =>
      if sp.xgap.signbit then some [line sp.xgt .W false nxgapStr]
      else some [line sp.xgt .E false xgapStr]
    | .none => some [line .centre .Y true Dec.zeroLit]
  -- Anything else
  else
    let xl : List TglfLine :=
      if sp.xst = .none then [] else
        if sp.xgap.signbit then [line sp.xgt .L (sp.xst == .eq) nxgapStr]
        else [line sp.xgt .R (sp.xst == .eq) xgapStr]
    let yl : List TglfLine :=
      if sp.yst = .none then [] else
        if sp.ygap.signbit then [line sp.ygt .U (sp.yst == .eq) nygapStr]
        else [line sp.ygt .D (sp.yst == .eq) ygapStr]
    some (xl ++ yl)

/-! ## SepMatrix: association list keyed by (smaller id, larger id), kept sorted like the
    nested `std::map`s so that iteration order (writeTglf, generateSeparationConstraints) agrees -/

structure SepMatrix where
  pairs : List ((Nat × Nat) × SepPair) := []
  extraBdryGap : Rat := 0
  deriving DecidableEq, Repr, Inhabited

def keyLt (a b : Nat × Nat) : Bool := a.1 < b.1 || (a.1 == b.1 && a.2 < b.2)

namespace SepMatrix

def empty : SepMatrix := {}

def lookupL (k : Nat × Nat) : List ((Nat × Nat) × SepPair) → Option SepPair
  | [] => none
  | (k', sp) :: rest => if k' = k then some sp else lookupL k rest

/-- replace the entry for `k`, or insert it at its sorted position -/
def upsertL (k : Nat × Nat) (sp : SepPair) : List ((Nat × Nat) × SepPair) → List ((Nat × Nat) × SepPair)
  | [] => [(k, sp)]
  | (k', sp') :: rest =>
    if k' = k then (k, sp) :: rest
    else if keyLt k k' then (k, sp) :: (k', sp') :: rest
    else (k', sp') :: upsertL k sp rest

def lookup (m : SepMatrix) (k : Nat × Nat) : Option SepPair := lookupL k m.pairs
def upsert (m : SepMatrix) (k : Nat × Nat) (sp : SepPair) : SepMatrix :=
  { m with pairs := upsertL k sp m.pairs }

def key (id1 id2 : Nat) : Nat × Nat := if id1 < id2 then (id1, id2) else (id2, id1)

/-- `SepMatrix::getSepPair(id1, id2)`: the pair as the caller sees it (the caller mutates it in
    place; the model's callers write it back with `upsert`). `none` = throws (id1 == id2).

    `fixedFlag = false` is the code as it stands: `flippedRetrieval` is written **only when the pair
    is created**; an existing pair keeps whatever value the flag had. `fixedFlag = true` is the
    proposed repair: the flag is set on every retrieval. -/
def getSepPair (fixedFlag : Bool) (m : SepMatrix) (id1 id2 : Nat) : Option SepPair :=
  if id1 = id2 then none else
  let flipped : Bool := id2 < id1
  let k := key id1 id2
  match m.lookup k with
  | some sp => some (if fixedFlag then { sp with flippedRetrieval := flipped } else sp)
  | none => some { src := k.1, tgt := k.2, flippedRetrieval := flipped }

/-- `SepMatrix::checkSepPair(id1, id2)`: returns the stored pair (not a copy, despite the comment in
    the header: `SepPair_SP sp = (*jt).second` copies the shared pointer) after **writing**
    `flippedRetrieval := (id2 < id1)` into it. Result: updated matrix and the pair, `none` = nullptr. -/
def checkSepPair (m : SepMatrix) (id1 id2 : Nat) : SepMatrix × Option SepPair :=
  if id1 = id2 then (m, none) else
  let flipped : Bool := id2 < id1
  let k := key id1 id2
  match m.lookup k with
  | none => (m, none)
  | some sp =>
    let sp' := { sp with flippedRetrieval := flipped }
    (m.upsert k sp', some sp')

/-- `SepMatrix::addSep`; `none` = exception (matrix unchanged) -/
def addSep (fixedFlag : Bool) (m : SepMatrix) (id1 id2 : Nat) (gt : GapType) (sd : SepDir)
    (st : SepType) (gap : SZ) : Option SepMatrix :=
  match getSepPair fixedFlag m id1 id2 with
  | none => none
  | some sp =>
    let gap := if sp.flippedRetrieval then -gap else gap
    some (m.upsert (key id1 id2) (sp.addSep gt sd st gap))

/-- `SepMatrix::addFixedRelativeSep(id1, id2, dx, dy)` -/
def addFixedRelativeSep (fixedFlag : Bool) (m : SepMatrix) (id1 id2 : Nat) (dx dy : SZ) :
    Option SepMatrix :=
  match getSepPair fixedFlag m id1 id2 with
  | none => none
  | some sp =>
    let dx := if sp.flippedRetrieval then -dx else dx
    let dy := if sp.flippedRetrieval then -dy else dy
    some (m.upsert (key id1 id2)
      ((sp.addSep .centre .right .eq dx).addSep .centre .down .eq dy))

def setCardinalOP (fixedFlag : Bool) (m : SepMatrix) (id1 id2 : Nat) (dir : CardinalDir) :=
  addSep fixedFlag m id1 id2 .bdry (cardinalDirToSepDir dir) .ineq SZ.zero

def hAlign (fixedFlag : Bool) (m : SepMatrix) (id1 id2 : Nat) :=
  addSep fixedFlag m id1 id2 .centre .down .eq SZ.zero

def vAlign (fixedFlag : Bool) (m : SepMatrix) (id1 id2 : Nat) :=
  addSep fixedFlag m id1 id2 .centre .right .eq SZ.zero

def alignByEquatedCoord (fixedFlag : Bool) (m : SepMatrix) (id1 id2 : Nat) (eqCoord : Dim) :=
  match eqCoord with
  | .x => vAlign fixedFlag m id1 id2
  | .y => hAlign fixedFlag m id1 id2

def mapPairs (m : SepMatrix) (f : (Nat × Nat) → SepPair → SepPair) : SepMatrix :=
  { m with pairs := m.pairs.map fun (k, sp) => (k, f k sp) }

/-- `SepMatrix::transform` -/
def transform (m : SepMatrix) (tf : SepTransform) : SepMatrix :=
  m.mapPairs fun _ sp => sp.transform tf

/-- `SepMatrix::transformClosedSubset`: both ids in the set -/
def transformClosedSubset (m : SepMatrix) (tf : SepTransform) (ids : List Nat) : SepMatrix :=
  m.mapPairs fun k sp => if ids.contains k.1 && ids.contains k.2 then sp.transform tf else sp

/-- `SepMatrix::transformOpenSubset`: at least one id in the set -/
def transformOpenSubset (m : SepMatrix) (tf : SepTransform) (ids : List Nat) : SepMatrix :=
  m.mapPairs fun k sp => if ids.contains k.1 || ids.contains k.2 then sp.transform tf else sp

/-- `SepMatrix::free` -/
def free (m : SepMatrix) (id1 id2 : Nat) : SepMatrix :=
  if id1 = id2 then m else { m with pairs := m.pairs.filter fun (k, _) => k != key id1 id2 }

/-- `SepMatrix::removeNode` -/
def removeNode (m : SepMatrix) (id : Nat) : SepMatrix :=
  { m with pairs := m.pairs.filter fun (k, _) => k.1 != id && k.2 != id }

/-- `SepMatrix::clear` -/
def clear (m : SepMatrix) : SepMatrix := { m with pairs := [] }

/-- `SepMatrix::roundGapsUpward` -/
def roundGapsUpward (m : SepMatrix) : SepMatrix :=
  { (m.mapPairs fun _ sp => sp.roundGapsUpAbs) with
    extraBdryGap := ((m.extraBdryGap.ceil : Int) : Rat) }

def setExtraBdryGap (m : SepMatrix) (e : Rat) : SepMatrix := { m with extraBdryGap := e }

/-- result of `SepMatrix::getCardinalDir(id1, id2)` -/
inductive CardRes where
  | dir (d : CardinalDir)
  | noConstraint        -- runtime_error("No constraint.")
  | notCardinal         -- runtime_error("Nodes do not have cardinal separation!")
  deriving DecidableEq, Repr, Inhabited

def getCardinalDir (m : SepMatrix) (id1 id2 : Nat) : SepMatrix × CardRes :=
  match checkSepPair m id1 id2 with
  | (m', none) => (m', .noConstraint)
  | (m', some sp) =>
    match sp.getCardinalDir with
    | none => (m', .notCardinal)
    | some d => (m', .dir (if sp.flippedRetrieval then cardFlip d else d))

def areHAligned (m : SepMatrix) (id1 id2 : Nat) : SepMatrix × Bool :=
  match checkSepPair m id1 id2 with
  | (m', none) => (m', false)
  | (m', some sp) => (m', sp.isHAlign)

def areVAligned (m : SepMatrix) (id1 id2 : Nat) : SepMatrix × Bool :=
  match checkSepPair m id1 id2 with
  | (m', none) => (m', false)
  | (m', some sp) => (m', sp.isVAlign)

/-- `SepMatrix::writeTglf` with the identity id map; `none` = some pair throws -/
def writeTglf (m : SepMatrix) : Option (List TglfLine) :=
  m.pairs.foldl (fun acc (_, sp) =>
    match acc, sp.writeTglf m.extraBdryGap with
    | some ls, some l => some (ls ++ l)
    | _, _ => none) (some [])

/-- `SepMatrix::generateSeparationConstraints(dim, …)` -/
def generateSeparationConstraints (m : SepMatrix) (dim : Dim) (size : Nat → Dim → Rat) : List VCon :=
  m.pairs.filterMap fun (_, sp) => sp.generateSeparationConstraint dim m.extraBdryGap size

end SepMatrix

/-! ## the SEPCO reader -/

/-- what one SEPCO line asks for: `addSep(j1, j2, gt, sd, st, gap)` -/
def TglfLine.apply (fixedFlag : Bool) (m : SepMatrix) (l : TglfLine) : Option SepMatrix :=
  m.addSep fixedFlag l.src l.tgt l.gt l.dir.toSepDir (if l.isEq then .eq else .ineq) l.gap.toSZ

/-- the SEPCO section of `buildGraphFromTglf` on a fresh graph (extra boundary gap 0) -/
def readSepcos (fixedFlag : Bool) (ls : List TglfLine) : Option SepMatrix :=
  ls.foldlM (TglfLine.apply fixedFlag) SepMatrix.empty

/-! ## operation histories on one SepMatrix (driver mode "history") -/

inductive Op where
  | addSep (id1 id2 : Nat) (gt : GapType) (sd : SepDir) (st : SepType) (gap : SZ)
  | addFixedRelativeSep (id1 id2 : Nat) (dx dy : SZ)
  | setCardinalOP (id1 id2 : Nat) (dir : CardinalDir)
  | hAlign (id1 id2 : Nat)
  | vAlign (id1 id2 : Nat)
  | alignByEquatedCoord (id1 id2 : Nat) (d : Dim)
  | free (id1 id2 : Nat)
  | removeNode (id : Nat)
  | clear
  | transform (tf : SepTransform)
  | transformClosed (tf : SepTransform) (ids : List Nat)
  | transformOpen (tf : SepTransform) (ids : List Nat)
  | roundGapsUpward
  | setExtraBdryGap (e : Rat)
  | getCardinalDir (id1 id2 : Nat)
  | areHAligned (id1 id2 : Nat)
  | areVAligned (id1 id2 : Nat)
  deriving Repr, Inhabited

inductive OpRes where
  | done
  | threw
  | card (r : SepMatrix.CardRes)
  | bool (b : Bool)
  deriving DecidableEq, Repr, Inhabited

def Op.step (fixedFlag : Bool) (m : SepMatrix) : Op → SepMatrix × OpRes
  | .addSep a b gt sd st g =>
    match m.addSep fixedFlag a b gt sd st g with | some m' => (m', .done) | none => (m, .threw)
  | .addFixedRelativeSep a b dx dy =>
    match m.addFixedRelativeSep fixedFlag a b dx dy with | some m' => (m', .done) | none => (m, .threw)
  | .setCardinalOP a b d =>
    match m.setCardinalOP fixedFlag a b d with | some m' => (m', .done) | none => (m, .threw)
  | .hAlign a b => match m.hAlign fixedFlag a b with | some m' => (m', .done) | none => (m, .threw)
  | .vAlign a b => match m.vAlign fixedFlag a b with | some m' => (m', .done) | none => (m, .threw)
  | .alignByEquatedCoord a b d =>
    match m.alignByEquatedCoord fixedFlag a b d with | some m' => (m', .done) | none => (m, .threw)
  | .free a b => (m.free a b, .done)
  | .removeNode a => (m.removeNode a, .done)
  | .clear => (m.clear, .done)
  | .transform tf => (m.transform tf, .done)
  | .transformClosed tf ids => (m.transformClosedSubset tf ids, .done)
  | .transformOpen tf ids => (m.transformOpenSubset tf ids, .done)
  | .roundGapsUpward => (m.roundGapsUpward, .done)
  | .setExtraBdryGap e => (m.setExtraBdryGap e, .done)
  | .getCardinalDir a b => let (m', r) := m.getCardinalDir a b; (m', .card r)
  | .areHAligned a b => let (m', r) := m.areHAligned a b; (m', .bool r)
  | .areVAligned a b => let (m', r) := m.areVAligned a b; (m', .bool r)

def runOps (fixedFlag : Bool) (m : SepMatrix) (ops : List Op) : SepMatrix :=
  ops.foldl (fun m op => (op.step fixedFlag m).1) m

/-! ## the symmetry group of the square -/

/-- `comp a b` = "first `b`, then `a`" -/
def SepTransform.comp : SepTransform → SepTransform → SepTransform
  | .ident, b => b
  | a, .ident => a
  | .rotate90cw, .rotate90cw => .rotate180
  | .rotate90cw, .rotate90acw => .ident
  | .rotate90cw, .rotate180 => .rotate90acw
  | .rotate90cw, .flipv => .flipod
  | .rotate90cw, .fliph => .flipmd
  | .rotate90cw, .flipmd => .flipv
  | .rotate90cw, .flipod => .fliph
  | .rotate90acw, .rotate90cw => .ident
  | .rotate90acw, .rotate90acw => .rotate180
  | .rotate90acw, .rotate180 => .rotate90cw
  | .rotate90acw, .flipv => .flipmd
  | .rotate90acw, .fliph => .flipod
  | .rotate90acw, .flipmd => .fliph
  | .rotate90acw, .flipod => .flipv
  | .rotate180, .rotate90cw => .rotate90acw
  | .rotate180, .rotate90acw => .rotate90cw
  | .rotate180, .rotate180 => .ident
  | .rotate180, .flipv => .fliph
  | .rotate180, .fliph => .flipv
  | .rotate180, .flipmd => .flipod
  | .rotate180, .flipod => .flipmd
  | .flipv, .rotate90cw => .flipmd
  | .flipv, .rotate90acw => .flipod
  | .flipv, .rotate180 => .fliph
  | .flipv, .flipv => .ident
  | .flipv, .fliph => .rotate180
  | .flipv, .flipmd => .rotate90cw
  | .flipv, .flipod => .rotate90acw
  | .fliph, .rotate90cw => .flipod
  | .fliph, .rotate90acw => .flipmd
  | .fliph, .rotate180 => .flipv
  | .fliph, .flipv => .rotate180
  | .fliph, .fliph => .ident
  | .fliph, .flipmd => .rotate90acw
  | .fliph, .flipod => .rotate90cw
  | .flipmd, .rotate90cw => .fliph
  | .flipmd, .rotate90acw => .flipv
  | .flipmd, .rotate180 => .flipod
  | .flipmd, .flipv => .rotate90acw
  | .flipmd, .fliph => .rotate90cw
  | .flipmd, .flipmd => .ident
  | .flipmd, .flipod => .rotate180
  | .flipod, .rotate90cw => .flipv
  | .flipod, .rotate90acw => .fliph
  | .flipod, .rotate180 => .flipmd
  | .flipod, .flipv => .rotate90cw
  | .flipod, .fliph => .rotate90acw
  | .flipod, .flipmd => .rotate180
  | .flipod, .flipod => .ident

/-- the plane map of a transform (graphics plane, y pointing down): where the point `(x, y)` goes -/
def SepTransform.applyPt (tf : SepTransform) (x y : Rat) : Rat × Rat :=
  match tf with
  | .ident => (x, y)
  | .rotate90cw => (-y, x)
  | .rotate90acw => (y, -x)
  | .rotate180 => (-x, -y)
  | .flipv => (-x, y)
  | .fliph => (x, -y)
  | .flipmd => (y, x)
  | .flipod => (-y, -x)

/-- does the transform exchange the axes (hence widths and heights)? -/
def SepTransform.swapsAxes : SepTransform → Bool
  | .rotate90cw | .rotate90acw | .flipmd | .flipod => true
  | _ => false

end AdaptaVerif.Model.Sep
