/-
Executable model of libcola's compound constraints (cola/libcola/compound_constraints.{h,cpp},
cc_nonoverlapconstraints.cpp, cc_clustercontainmentconstraints.cpp): which auxiliary vpsc
variables `generateVariables(dim, vars)` appends and which vpsc separation constraints
`generateSeparationConstraints(dim, vars, cs, bbs)` appends, for every constraint type, in the
order the code produces them. Variable ids are positions in `vars` (the code numbers a new variable
`vars.size()`). Doubles are exact rationals. Core Lean only (linked into the driver).

A vpsc separation constraint `(left, right, gap, equality)` means
`pos left + gap ≤ pos right` (or `=` when `equality`).
-/
namespace AdaptaVerif.Model.Compound

inductive Dim where
  | x
  | y
  deriving DecidableEq, Repr, BEq, Inhabited

def Dim.ofNat' (n : Nat) : Dim := if n = 0 then .x else .y
def Dim.toNat' : Dim → Nat
  | .x => 0
  | .y => 1
def Dim.other : Dim → Dim
  | .x => .y
  | .y => .x

/-- what the harness can observe of a `vpsc::Variable` right after generation -/
structure Var where
  desired : Rat
  weight : Rat
  fixed : Bool          -- `fixedDesiredPosition`
  deriving DecidableEq, Repr, BEq, Inhabited

/-- a vpsc separation constraint, without bookkeeping -/
structure Sep where
  left : Nat
  right : Nat
  gap : Rat
  eq : Bool
  deriving DecidableEq, Repr, BEq, Inhabited

/-- a generated constraint together with the index of its `creator` compound constraint -/
structure TSep where
  sep : Sep
  creator : Nat
  deriving DecidableEq, Repr, BEq, Inhabited

structure Rect where
  minX : Rat
  maxX : Rat
  minY : Rat
  maxY : Rat
  deriving DecidableEq, Repr, BEq, Inhabited

def Rect.width (r : Rect) : Rat := r.maxX - r.minX
def Rect.height (r : Rect) : Rat := r.maxY - r.minY
/-- `getCentreD(dim)` = `getMinD(dim) + length(dim)/2` (borders are 0 outside makeFeasible) -/
def Rect.centre (r : Rect) : Dim → Rat
  | .x => r.minX + r.width / 2
  | .y => r.minY + r.height / 2
def Rect.len (r : Rect) : Dim → Rat
  | .x => r.width
  | .y => r.height
def Rect.min (r : Rect) : Dim → Rat
  | .x => r.minX
  | .y => r.minY
def Rect.max (r : Rect) : Dim → Rat
  | .x => r.maxX
  | .y => r.maxY

/-- `static const double freeWeight = 0.0001` — the exact value of that double -/
def freeWeight : Rat := (7378697629483821 : Rat) / 73786976294838206464
/-- weight given to fixed guidelines / fixed-relative shapes -/
def fixedWeight : Rat := 100000

/-- `RelativeOffset` of `FixedRelativeConstraint`: `pos[second] = pos[first] + offset` in `dim` -/
structure RelOff where
  first : Nat
  second : Nat
  dim : Dim
  off : Rat
  deriving DecidableEq, Repr, BEq, Inhabited

/-- The compound constraints. References to other constraints (`AlignmentConstraint *` in the
    code) are indices into the list of compound constraints. -/
inductive CC where
  | boundary (dim : Dim) (pos : Rat) (offs : List (Nat × Rat))
  | alignment (dim : Dim) (pos : Rat) (fixed : Bool) (offs : List (Nat × Rat))
  | separation (dim : Dim) (l r : Nat) (gap : Rat) (eq : Bool)
  | sepAlign (dim : Dim) (l r : Nat) (gap : Rat) (eq : Bool)
  | multiSep (dim : Dim) (sep : Rat) (eq : Bool) (pairs : List (Nat × Nat))
  | distribution (dim : Dim) (sep : Rat) (pairs : List (Nat × Nat))
  | fixedRel (fixedPos : Bool) (shapeVars : List Nat) (rel : List RelOff)
  | pageBounds (xLow xHigh yLow yHigh weight : Rat) (shapes : List (Nat × Rat × Rat))
  deriving Repr, Inhabited

/-! ### FixedRelativeConstraint constructor -/

def insertSorted (a : Nat) : List Nat → List Nat
  | [] => [a]
  | b :: t => if a ≤ b then a :: b :: t else b :: insertSorted a t

/-- `std::sort` + `std::unique` on the shape ids -/
def sortDedup (l : List Nat) : List Nat :=
  (l.foldr insertSorted []).eraseDups

/-- the `_subConstraintInfo` built by the constructor: for every id after the first, an x-offset
    then a y-offset relative to the first id, taken from the rectangles' current centres -/
def fixedRelOffsets (rs : Array Rect) (ids : List Nat) : List RelOff :=
  match sortDedup ids with
  | [] => []
  | f :: rest =>
    rest.flatMap fun t =>
      [ { first := f, second := t, dim := .x, off := (rs.getD t default).centre .x - (rs.getD f default).centre .x },
        { first := f, second := t, dim := .y, off := (rs.getD t default).centre .y - (rs.getD f default).centre .y } ]

def mkFixedRel (rs : Array Rect) (ids : List Nat) (fixedPos : Bool) : CC :=
  .fixedRel fixedPos (sortDedup ids) (fixedRelOffsets rs ids)

/-! ### generateVariables -/

/-- ids of the auxiliary variables a compound constraint currently owns -/
structure Aux where
  main : Option Nat := none     -- boundary line / guideline variable
  pageL : Option Nat := none
  pageR : Option Nat := none
  deriving Repr, Inhabited, DecidableEq

def markFixed (vars : Array Var) (ids : List Nat) : Array Var :=
  ids.foldl (fun vs i => if h : i < vs.size then vs.set i { vs[i] with fixed := true, weight := fixedWeight } else vs) vars

/-- one `cc->generateVariables(dim, vars)` call: new variable list and the ids this constraint
    now refers to (`prev` = what it referred to before the call; the code keeps stale pointers when
    the call is for the other dimension) -/
def genVarsOne (dim : Dim) (cc : CC) (vars : Array Var) (prev : Aux) : Array Var × Aux :=
  match cc with
  | .boundary d pos _ =>
    if dim = d then (vars.push { desired := pos, weight := freeWeight, fixed := false }, { prev with main := some vars.size })
    else (vars, prev)
  | .alignment d pos fixed _ =>
    if dim = d then
      (vars.push { desired := pos, weight := if fixed then fixedWeight else freeWeight, fixed := fixed },
       { prev with main := some vars.size })
    else (vars, prev)
  | .separation .. => (vars, prev)
  | .sepAlign .. => (vars, prev)
  | .multiSep .. => (vars, prev)
  | .distribution .. => (vars, prev)
  | .fixedRel fixedPos shapeVars _ =>
    if fixedPos then (markFixed vars shapeVars, prev) else (vars, prev)
  | .pageBounds xLow xHigh yLow yHigh weight _ =>
    let lo := match dim with | .x => xLow | .y => yLow
    let hi := match dim with | .x => xHigh | .y => yHigh
    if weight ≠ 0 then
      let v1 := vars.push { desired := lo, weight := weight, fixed := true }
      let v2 := v1.push { desired := hi, weight := weight, fixed := true }
      (v2, { prev with pageL := some vars.size, pageR := some v1.size })
    else (vars, { prev with pageL := none, pageR := none })

/-- `for_each(ccs, GenerateVariables(dim, vars))` -/
def genVars (dim : Dim) : List CC → Array Var → List Aux → Array Var × List Aux
  | [], vars, _ => (vars, [])
  | cc :: rest, vars, prevs =>
    let (v1, a) := genVarsOne dim cc vars (prevs.headD {})
    let (v2, as) := genVars dim rest v1 prevs.tail
    (v2, a :: as)

/-! ### generateSeparationConstraints, one function per constraint type -/

/-- BoundaryConstraint with line variable `v`: negative offset ⇒ shape left of the line -/
def boundarySeps (v : Nat) (offs : List (Nat × Rat)) : List Sep :=
  offs.map fun p => if p.2 < 0 then { left := p.1, right := v, gap := -p.2, eq := false }
                    else { left := v, right := p.1, gap := p.2, eq := false }

/-- AlignmentConstraint with guideline variable `v`: `pos[shape] = pos[v] + offset` -/
def alignmentSeps (v : Nat) (offs : List (Nat × Rat)) : List Sep :=
  offs.map fun p => { left := v, right := p.1, gap := p.2, eq := true }

/-- SeparationConstraint (between two shapes or, with `l r` the guideline variables, two alignments) -/
def separationSeps (l r : Nat) (gap : Rat) (eq : Bool) : List Sep :=
  [{ left := l, right := r, gap := gap, eq := eq }]

/-- MultiSeparationConstraint / DistributionConstraint over pairs of guideline variables -/
def multiSeps (pairs : List (Nat × Nat)) (sep : Rat) (eq : Bool) : List Sep :=
  pairs.map fun p => { left := p.1, right := p.2, gap := sep, eq := eq }

/-- FixedRelativeConstraint in dimension `dim` -/
def fixedRelSeps (dim : Dim) (rel : List RelOff) : List Sep :=
  (rel.filter fun o => o.dim = dim).map fun o => { left := o.first, right := o.second, gap := o.off, eq := true }

/-- PageBoundaryConstraints in `dim` with (optional) boundary variables `vl`, `vr` -/
def pageSeps (dim : Dim) (vl vr : Option Nat) (shapes : List (Nat × Rat × Rat)) : List Sep :=
  shapes.flatMap fun s =>
    let half := match dim with | .x => s.2.1 | .y => s.2.2
    (match vl with | some l => [{ left := l, right := s.1, gap := half, eq := false }] | none => []) ++
    (match vr with | some r => [{ left := s.1, right := r, gap := half, eq := false }] | none => [])

/-! ### the dispatcher, with the code's error paths -/

inductive GenErr where
  | invalidIndex (cc : Nat) (index : Nat)      -- `InvalidVariableIndexException`
  | invalidConstraint (cc : Nat)               -- `InvalidConstraint` (alignment without variable)
  | undefinedBehaviour (cc : Nat)              -- the C++ would dereference a null/stale pointer
  deriving Repr, DecidableEq, Inhabited

/-- first index of `ids` that is not a valid variable index -/
def firstInvalid (nvars : Nat) (ids : List Nat) : Option Nat := ids.find? (fun i => decide (nvars ≤ i))

/-- One sub-constraint as the code processes it: the variable indices it validates with
    `assertValidVariableIndex` (in that order) and the constraints it then pushes; `bad` = the code
    throws `InvalidConstraint` (an alignment without variable). -/
inductive Item where
  | ok (ids : List Nat) (seps : List Sep)
  | bad
  deriving Repr, Inhabited

def Item.seps : Item → List Sep
  | .ok _ s => s
  | .bad => []

/-- run the sub-constraints in order; an exception keeps what was pushed before it -/
def runItems (nvars cc : Nat) : List Item → List Sep → List Sep × Option GenErr
  | [], acc => (acc, none)
  | .bad :: _, acc => (acc, some (.invalidConstraint cc))
  | .ok ids seps :: rest, acc =>
    match firstInvalid nvars ids with
    | some i => (acc, some (.invalidIndex cc i))
    | none => runItems nvars cc rest (acc ++ seps)

/-- guideline variable of the alignment that compound constraint `j` is -/
def guideOf (aux : List Aux) (j : Nat) : Option Nat := (aux.getD j {}).main

def pairItems (aux : List Aux) (pairs : List (Nat × Nat)) (sep : Rat) (eq : Bool) : List Item :=
  pairs.map fun p =>
    match guideOf aux p.1, guideOf aux p.2 with
    | some a, some b => .ok [] (multiSeps [(a, b)] sep eq)
    | _, _ => .bad

/-- the sub-constraints of one `cc->generateSeparationConstraints(dim, vars, cs, bbs)` call;
    `none` = the C++ would dereference a null / stale pointer (never generated by the harness) -/
def itemsOf (dim : Dim) (aux : List Aux) (idx : Nat) (cc : CC) : Option (List Item) :=
  match cc with
  | .boundary d _ offs =>
    if dim = d then (guideOf aux idx).map fun v => offs.map fun p => .ok [p.1] (boundarySeps v [p])
    else some []
  | .alignment d _ _ offs =>
    if dim = d then (guideOf aux idx).map fun v => offs.map fun p => .ok [p.1] (alignmentSeps v [p])
    else some []
  | .separation d l r gap eq =>
    if dim = d then some [.ok [l, r] (separationSeps l r gap eq)] else some []
  | .sepAlign d l r gap eq =>
    if dim = d then
      match guideOf aux l, guideOf aux r with
      | some vl, some vr => some [.ok [vl, vr] (separationSeps vl vr gap eq)]
      | _, _ => none
    else some []
  | .multiSep d sep eq pairs => if dim = d then some (pairItems aux pairs sep eq) else some []
  | .distribution d sep pairs => if dim = d then some (pairItems aux pairs sep true) else some []
  | .fixedRel _ _ rel =>
    some ((rel.filter fun o => o.dim = dim).map fun o => .ok [o.first, o.second] (fixedRelSeps dim [o]))
  | .pageBounds _ _ _ _ _ shapes =>
    let a := aux.getD idx {}
    some (shapes.map fun s => .ok [s.1] (pageSeps dim a.pageL a.pageR [s]))

/-- one `cc->generateSeparationConstraints(dim, vars, cs, bbs)` call -/
def genSepsOne (dim : Dim) (nvars : Nat) (aux : List Aux) (idx : Nat) (cc : CC) : List Sep × Option GenErr :=
  match itemsOf dim aux idx cc with
  | none => ([], some (.undefinedBehaviour idx))
  | some items => runItems nvars idx items []

/-- `for_each(ccs, GenerateSeparationConstraints(dim, vars, cs, bbs))`; on an exception the
    constraints pushed so far stay in `cs` -/
def genSepsFrom (dim : Dim) (nvars : Nat) (aux : List Aux) : Nat → List CC → List TSep → List TSep × Option GenErr
  | _, [], acc => (acc, none)
  | idx, cc :: rest, acc =>
    let (seps, err) := genSepsOne dim nvars aux idx cc
    let acc' := acc ++ seps.map fun s => { sep := s, creator := idx }
    match err with
    | some e => (acc', some e)
    | none => genSepsFrom dim nvars aux (idx + 1) rest acc'

structure GenResult where
  vars : Array Var
  aux : List Aux
  seps : List TSep
  err : Option GenErr
  deriving Repr, Inhabited

/-- `setupVarsAndConstraints` / `GradientProjection` constructor for one dimension: all
    generateVariables calls, then all generateSeparationConstraints calls -/
def generate (dim : Dim) (ccs : List CC) (vars0 : Array Var) (prev : List Aux) : GenResult :=
  let (vars, aux) := genVars dim ccs vars0 prev
  let (seps, err) := genSepsFrom dim vars.size aux 0 ccs []
  { vars := vars, aux := aux, seps := seps, err := err }

/-- `getCurrSubConstraintAlternatives` iterated over all sub-constraints of compound constraint
    `idx` (the encoding `makeFeasible` uses): after generateVariables for x (state `gx`) and then y
    (state `gy`), every type yields one alternative per sub-constraint — the same constraint that
    generateSeparationConstraints produces, in the constraint's own dimension; fixed-relative
    offsets alternate x, y; page boundaries yield nothing. -/
def alternativesOf (gx gy : GenResult) (idx : Nat) (cc : CC) : List (Dim × Sep) :=
  match cc with
  | .pageBounds .. => []
  | .fixedRel _ _ rel => rel.map fun o => (o.dim, { left := o.first, right := o.second, gap := o.off, eq := true })
  | .boundary d .. | .alignment d .. | .separation d .. | .sepAlign d .. | .multiSep d .. | .distribution d .. =>
    let g := match d with | .x => gx | .y => gy
    (genSepsOne d g.vars.size g.aux idx cc).1.map fun s => (d, s)

/-- node variables as `setupVarsAndConstraints` creates them: desired = centre, weight 1 -/
def nodeVars (dim : Dim) (rs : Array Rect) : Array Var :=
  rs.map fun r => { desired := r.centre dim, weight := 1, fixed := false }

/-! ### C08: non-overlap and cluster containment -/

/-- `Rectangle::overlapX/overlapY` with zero borders, on the interval `[lo,hi]` and centre -/
def overlap1 (uLo uHi uC vLo vHi vC : Rat) : Rat :=
  if uC ≤ vC ∧ vLo < uHi then uHi - vLo
  else if vC ≤ uC ∧ uLo < vHi then vHi - uLo
  else 0

def Rect.overlapD (u v : Rect) (d : Dim) : Rat :=
  overlap1 (u.min d) (u.max d) (u.centre d) (v.min d) (v.max d) (v.centre d)

/-- the threshold in `NonOverlapConstraints::generateSeparationConstraints`:
    the exact value of the double `0.0005` -/
def overlapThreshold : Rat := (1152921504606847 : Rat) / 2305843009213693952

/-- A participant of non-overlap: a plain shape (variable `id`, half sizes) or a cluster
    (boundary variables `varId`, `varId+1`, current bounds, margin box) -/
inductive NoShape where
  | shape (id : Nat) (halfW halfH : Rat)
  | cluster (varId : Nat) (bounds : Rect) (mMinX mMaxX mMinY mMaxY : Rat)
  deriving Repr, Inhabited

def NoShape.key : NoShape → Nat
  | .shape id _ _ => id
  | .cluster v .. => v

/-- `Rectangle::isValid` -/
def Rect.isValid (r : Rect) : Bool := decide (r.minX ≤ r.maxX) && decide (r.minY ≤ r.maxY)

/-- `Box::rectangleByApplyingBox`: an invalid rectangle (e.g. the never-computed bounds of a cluster
    nested inside a rectangle-based cluster) is returned unchanged -/
def applyBox (r : Rect) (mMinX mMaxX mMinY mMaxY : Rat) : Rect :=
  if r.isValid then
    { minX := r.minX - mMinX, maxX := r.maxX + mMaxX, minY := r.minY - mMinY, maxY := r.maxY + mMaxY }
  else r

/-- half width for x, half height for y -/
def halfOf (d : Dim) (hw hh : Rat) : Rat :=
  match d with
  | .x => hw
  | .y => hh

/-- rectangle used for the overlap test, (left var, right var), (below, above) extents in `dim` -/
def NoShape.view (s : NoShape) (bbs : Array Rect) (dim : Dim) : Rect × Rat × Nat × Nat × Rat × Rat :=
  match s with
  | .shape id hw hh =>
    (bbs.getD id default, (bbs.getD id default).centre dim, id, id, halfOf dim hw hh, halfOf dim hw hh)
  | .cluster v b a c d e =>
    let lo := match dim with | .x => a | .y => d
    let hi := match dim with | .x => c | .y => e
    (applyBox b a c d e, b.centre dim, v, v + 1, lo, hi)

/-- the (at most one) constraint generated for an ordered pair of participants in `dim` -/
def nonOverlapPair (bbs : Array Rect) (dim : Dim) (s1 s2 : NoShape) : Option Sep :=
  let (r1, pos1, l1, rt1, below1, above1) := s1.view bbs dim
  let (r2, pos2, l2, rt2, below2, above2) := s2.view bbs dim
  if r1.overlapD r2 dim.other > overlapThreshold then
    if pos1 < pos2 then some { left := rt1, right := l2, gap := above1 + below2, eq := false }
    else some { left := rt2, right := l1, gap := below1 + above2, eq := false }
  else none

/-- `NonOverlapConstraints::generateSeparationConstraints` over the pair list (pairs of keys,
    smaller key first, in list order) -/
def nonOverlapSeps (bbs : Array Rect) (dim : Dim) (shapes : List NoShape) (pairs : List (Nat × Nat)) : List Sep :=
  pairs.filterMap fun p =>
    match shapes.find? (·.key == p.1), shapes.find? (·.key == p.2) with
    | some s1, some s2 => nonOverlapPair bbs dim s1 s2
    | _, _ => none

/-- state of a `NonOverlapConstraints` object: `shapeOffsets` (a std::map, so kept sorted by key;
    each entry with its group) and `pairInfoList` in insertion order -/
structure NocState where
  entries : List (NoShape × Nat) := []
  pairs : List (Nat × Nat) := []
  deriving Repr, Inhabited

/-- `shapeOffsets[id] = …` : insert or replace, keeping key order -/
def insertEntry (e : NoShape × Nat) : List (NoShape × Nat) → List (NoShape × Nat)
  | [] => [e]
  | h :: t =>
    if e.1.key < h.1.key then e :: h :: t
    else if e.1.key = h.1.key then e :: t
    else h :: insertEntry e t

/-- `NonOverlapConstraints::addShape(id, halfW, halfH, group)`: a pair with every existing entry of
    the same group that is not exempt -/
def NocState.addShape (exempt : Nat → Nat → Bool) (st : NocState) (id : Nat) (hw hh : Rat) (group : Nat) : NocState :=
  let newPairs := st.entries.filterMap fun e =>
    if e.2 = group ∧ e.1.key ≠ id ∧ ¬ exempt e.1.key id then some (Nat.min e.1.key id, Nat.max e.1.key id) else none
  { entries := insertEntry (.shape id hw hh, group) st.entries, pairs := st.pairs ++ newPairs }

/-- `NonOverlapConstraints::addCluster(cluster, group)`: a pair with every existing entry of the
    same group that is not one of the cluster's own child nodes -/
def NocState.addCluster (st : NocState) (c : NoShape) (childNodes : List Nat) (group : Nat) : NocState :=
  let id := c.key
  let newPairs := st.entries.filterMap fun e =>
    if e.2 = group ∧ ¬ childNodes.contains e.1.key then some (Nat.min e.1.key id, Nat.max e.1.key id) else none
  { entries := insertEntry (c, group) st.entries, pairs := st.pairs ++ newPairs }

def NocState.seps (st : NocState) (bbs : Array Rect) (dim : Dim) : List Sep :=
  nonOverlapSeps bbs dim (st.entries.map (·.1)) st.pairs

/-- `RectangularCluster::generateFixedRectangleConstraints` in one dimension, for a cluster built from
    node rectangle `rect` (half size `half` in that dimension) with boundary variables `v`, `v+1`:
    two equalities pinning the cluster box to the container rectangle -/
def fixedRectSeps (v rect : Nat) (half : Rat) : List Sep :=
  [{ left := v, right := rect, gap := half, eq := true },
   { left := rect, right := v + 1, gap := half, eq := true }]

/-- `xSepL += 10e-10`: the tiny extra separation makeFeasible asks for -/
def feasibleEps : Rat := 1 / 1000000000

/-- the four alternatives `NonOverlapConstraints::getCurrSubConstraintAlternatives` offers for an
    overlapping pair of plain shapes `id1 < id2` (left, right, below, above — before cost sorting);
    gaps are exact sums here, the code rounds `h1 + h2 + 10e-10` in double -/
def shapeAlternatives (id1 id2 : Nat) (w1 h1 w2 h2 : Rat) : List (Dim × Sep) :=
  [ (.x, { left := id2, right := id1, gap := w1 + w2 + feasibleEps, eq := false }),
    (.x, { left := id1, right := id2, gap := w1 + w2 + feasibleEps, eq := false }),
    (.y, { left := id2, right := id1, gap := h1 + h2 + feasibleEps, eq := false }),
    (.y, { left := id1, right := id2, gap := h1 + h2 + feasibleEps, eq := false }) ]

/-- `ClusterContainmentConstraints` for one cluster with boundary variables `v`, `v+1` in one
    dimension: child node `(id, half size)`; child cluster `(varId, margin.min, margin.max)`;
    `pMin pMax` the cluster's padding in that dimension. -/
def containmentSeps (v : Nat) (pMin pMax : Rat) (nodes : List (Nat × Rat)) (children : List (Nat × Rat × Rat)) : List Sep :=
  (nodes.flatMap fun p =>
    [{ left := v, right := p.1, gap := p.2 + pMin, eq := false },
     { left := p.1, right := v + 1, gap := p.2 + pMax, eq := false }]) ++
  (children.flatMap fun c =>
    [{ left := v, right := c.1, gap := pMin + c.2.1, eq := false },
     { left := c.1 + 1, right := v + 1, gap := pMax + c.2.2, eq := false }])

end AdaptaVerif.Model.Compound
