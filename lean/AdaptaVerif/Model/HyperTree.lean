/-
Executable model of libavoid's hyperedge tree (cola/libavoid/hyperedgetree.{h,cpp}) and of the
structural rewrites of the hyperedge improver (cola/libavoid/hyperedgeimprover.cpp), over exact
rationals.  Core Lean only (linked into the compiled driver `driver_c12`).

The C++ structure is a pointer graph: a `HyperedgeTreeNode` owns a `std::list` of incident edge
pointers, a `HyperedgeTreeEdge` has a pair of end pointers.  The model keeps exactly this redundant,
doubly linked representation (so that "which node survives a splice", "which edge object is kept",
"in which order do the edges hang off a node" are modelled, and so that the invariant *the two
directions agree* is a statement that can fail): objects are numbered, a pointer is a `Nat`, a null
pointer is `none`, `new` takes the next number, `delete` removes the record.

Primitives are total functions (a pointer that does not designate a live object makes the operation a
no-op; the well-formedness hypothesis `WF` of the theorems excludes that case, and the driver checks
`wfb` on every state of both sides).  Operations that the C++ guards with `COLA_ASSERT`, or that would
not terminate, return `none`.
-/
import AdaptaVerif.Model.Geometry
import AdaptaVerif.Check.Tree
namespace AdaptaVerif.Model.HyperTree
open AdaptaVerif.Model.Geometry (Pt pointOnLine)

/-- `HyperedgeTreeNode` -/
structure HNode where
  id : Nat
  /-- `std::list<HyperedgeTreeEdge *> edges`, in list order -/
  edges : List Nat
  /-- `JunctionRef *junction` -/
  junction : Option Nat
  point : Pt
  /-- `VertInf *finalVertex` (terminal of a rerouted hyperedge) -/
  finalVertex : Option Nat := none
  isConnectorSource : Bool := false
  isPinDummyEndpoint : Bool := false
  deriving Repr, BEq, DecidableEq, Inhabited

/-- `HyperedgeTreeEdge` -/
structure HEdge where
  id : Nat
  /-- `ends.first`, `ends.second` (null after `disconnectEdge()`) -/
  e1 : Option Nat
  e2 : Option Nat
  /-- `ConnRef *conn` -/
  conn : Option Nat
  hasFixedRoute : Bool
  deriving Repr, BEq, DecidableEq, Inhabited

/-- the heap: live node and edge objects, the allocation counter, and the one fact about
    connectors the tree code reads (`ConnRef::hasFixedRoute()`, in the edge constructor) -/
structure HTree where
  nodes : List HNode
  edges : List HEdge
  next : Nat
  fixedConns : List Nat := []
  deriving Repr, Inhabited

namespace HTree

def node? (t : HTree) (i : Nat) : Option HNode := t.nodes.find? (fun n => n.id == i)
def edge? (t : HTree) (i : Nat) : Option HEdge := t.edges.find? (fun e => e.id == i)

def modNode (t : HTree) (i : Nat) (f : HNode → HNode) : HTree :=
  { t with nodes := t.nodes.map (fun n => if n.id == i then f n else n) }

def modEdge (t : HTree) (i : Nat) (f : HEdge → HEdge) : HTree :=
  { t with edges := t.edges.map (fun e => if e.id == i then f e else e) }

/-- `delete node` -/
def deleteNode (t : HTree) (i : Nat) : HTree :=
  { t with nodes := t.nodes.filter (fun n => n.id != i) }

/-- `delete edge` -/
def deleteEdge (t : HTree) (i : Nat) : HTree :=
  { t with edges := t.edges.filter (fun e => e.id != i) }

end HTree

def HEdge.ends? (e : HEdge) : Option (Nat × Nat) :=
  match e.e1, e.e2 with
  | some a, some b => some (a, b)
  | _, _ => none

/-- the abstract multigraph of the heap: vertices = node objects, one edge per edge object that
    has both ends (an edge with a null end does not contribute — the invariant forbids it) -/
def HTree.graphV (t : HTree) : List Nat := t.nodes.map (·.id)
def HTree.graphE (t : HTree) : List (Nat × Nat) := t.edges.filterMap HEdge.ends?

/-! ## primitives of hyperedgetree.cpp -/

/-- `HyperedgeTreeNode::disconnectEdge(edge)`: erase every occurrence of the pointer -/
def nodeDisconnect (t : HTree) (n e : Nat) : HTree :=
  t.modNode n (fun x => { x with edges := x.edges.filter (fun i => i != e) })

/-- `edges.push_back(edge)` on node `n` -/
def nodePush (t : HTree) (n e : Nat) : HTree :=
  t.modNode n (fun x => { x with edges := x.edges ++ [e] })

/-- `HyperedgeTreeEdge::replaceNode(oldNode, newNode)`: only the FIRST matching end is redirected -/
def replaceNode (t : HTree) (e old new : Nat) : HTree :=
  match t.edge? e with
  | none => t
  | some ed =>
    if ed.e1 = some old then
      (nodePush (nodeDisconnect t old e) new e).modEdge e (fun x => { x with e1 := some new })
    else if ed.e2 = some old then
      (nodePush (nodeDisconnect t old e) new e).modEdge e (fun x => { x with e2 := some new })
    else t

/-- the loop of `spliceEdgesFrom`: `for (curr = old->edges.begin(); curr != old->edges.end();
    curr = old->edges.begin()) (*curr)->replaceNode(old, this);` — it does not terminate when the
    front edge is not attached to `old` (fuel exhausted = `none`) -/
def spliceLoop : Nat → HTree → Nat → Nat → Option HTree
  | 0, _, _, _ => none
  | fuel + 1, t, self, old =>
    match t.node? old with
    | none => none
    | some o =>
      match o.edges with
      | [] => some t
      | e :: _ => spliceLoop fuel (replaceNode t e old self) self old

/-- `HyperedgeTreeNode::spliceEdgesFrom(oldNode)` (`COLA_ASSERT(oldNode != this)`) -/
def spliceEdgesFrom (t : HTree) (self old : Nat) : Option HTree :=
  if old = self then none else
  match t.node? old with
  | none => none
  | some o => spliceLoop (o.edges.length + 1) t self old

/-- `HyperedgeTreeEdge::disconnectEdge()` (asserts both ends non-null) -/
def edgeDisconnect (t : HTree) (e : Nat) : Option HTree :=
  match t.edge? e with
  | none => none
  | some ed =>
    match ed.e1, ed.e2 with
    | some a, some b =>
      some ((nodeDisconnect (nodeDisconnect t a e) b e).modEdge e
        (fun x => { x with e1 := none, e2 := none }))
    | _, _ => none

/-- `new HyperedgeTreeEdge(node1, node2, conn)`: `hasFixedRoute = conn ? conn->hasFixedRoute() : false`,
    the new edge is pushed to the BACK of both nodes' lists; returns the new edge's number -/
def newEdge (t : HTree) (n1 n2 : Nat) (conn : Option Nat) : HTree × Nat :=
  let id := t.next
  let fixed := match conn with
    | some c => t.fixedConns.contains c
    | none => false
  let t1 : HTree := { t with next := t.next + 1,
                             edges := t.edges ++ [{ id := id, e1 := some n1, e2 := some n2, conn := conn,
                                                    hasFixedRoute := fixed }] }
  (nodePush (nodePush t1 n1 id) n2 id, id)

/-- `new HyperedgeTreeNode()` with `point` set -/
def newNode (t : HTree) (p : Pt) : HTree × Nat :=
  ({ t with next := t.next + 1,
            nodes := t.nodes ++ [{ id := t.next, edges := [], junction := none, point := p }] }, t.next)

def HEdge.followFrom (e : HEdge) (frm : Nat) : Option Nat :=
  if e.e1 = some frm then e.e2 else e.e1

def pointOf (t : HTree) (n : Option Nat) : Option Pt :=
  match n with
  | none => none
  | some i => (t.node? i).map (·.point)

/-- `HyperedgeTreeEdge::zeroLength()` -/
def zeroLength (t : HTree) (e : HEdge) : Bool :=
  match pointOf t e.e1, pointOf t e.e2 with
  | some p, some q => p == q
  | _, _ => false

/-- `HyperedgeTreeEdge::hasOrientation(dim)` -/
def hasOrientation (t : HTree) (e : HEdge) (dim : Nat) : Bool :=
  match pointOf t e.e1, pointOf t e.e2 with
  | some p, some q => if dim = 0 then p.x == q.x else p.y == q.y
  | _, _ => false

/-- `HyperedgeTreeEdge::splitFromNodeAtPoint(source, point)`: the edge keeps `source` (made its FIRST
    end) and now ends at the new node; a NEW edge (same connector) joins the new node to the old far
    end.  Order of effects as coded: swap, new node, new edge (pushed to split and target), target
    forgets `this`, `ends.second = split`, `split->edges.push_back(this)`. -/
def splitFromNodeAtPoint (t : HTree) (e source : Nat) (p : Pt) : Option (HTree × Nat × Nat) :=
  match t.edge? e with
  | none => none
  | some ed =>
    let (f, s) := if ed.e2 = some source then (ed.e2, ed.e1) else (ed.e1, ed.e2)
    if f ≠ some source then none else      -- COLA_ASSERT(ends.first == source)
    match s with
    | none => none
    | some target =>
      let t0 := t.modEdge e (fun x => { x with e1 := f, e2 := s })
      let (t1, split) := newNode t0 p
      let (t2, ne) := newEdge t1 split target ed.conn
      let t3 := nodeDisconnect t2 target e
      let t4 := t3.modEdge e (fun x => { x with e2 := some split })
      some (nodePush t4 split e, split, ne)

/-! ## the structural invariant as an executable check (driver: every state of both sides) -/

def nodupNat : List Nat → Bool
  | [] => true
  | x :: xs => !xs.contains x && nodupNat xs

/-- node ids distinct, edge ids distinct, every edge has two live ends, every node's edge list has
    no repetition and lists exactly the live edges that have the node as an end; all object numbers
    are below the allocation counter -/
def wfb (t : HTree) : Bool :=
  nodupNat (t.nodes.map (·.id)) && nodupNat (t.edges.map (·.id)) &&
  t.edges.all (fun e => match e.e1, e.e2 with
    | some a, some b => (t.node? a).isSome && (t.node? b).isSome
    | _, _ => false) &&
  t.nodes.all (fun n => nodupNat n.edges &&
    n.edges.all (fun i => match t.edge? i with
      | some e => e.e1 == some n.id || e.e2 == some n.id
      | none => false) &&
    t.edges.all (fun e => !(e.e1 == some n.id || e.e2 == some n.id) || n.edges.contains e.id)) &&
  t.nodes.all (fun n => n.id < t.next) && t.edges.all (fun e => e.id < t.next)

/-- degree as the C++ reads it: `edges.size()` -/
def HTree.degree (t : HTree) (i : Nat) : Nat :=
  match t.node? i with
  | some n => n.edges.length
  | none => 0

/-- terminals = leaves: node objects with exactly one edge -/
def HTree.leaves (t : HTree) : List Nat := (t.nodes.filter (fun n => n.edges.length == 1)).map (·.id)

/-- junction pointers carried by live nodes -/
def HTree.junctionsOf (t : HTree) : List Nat := t.nodes.filterMap (·.junction)

/-- side condition of the terminal-set theorems, decided on a concrete heap: no zero-length edge with a
    non-fixed route ends at a leaf (`deg` = degree in the abstract multigraph) -/
def noLeafZerob (t : HTree) : Bool :=
  t.edges.all (fun e => e.hasFixedRoute || !zeroLength t e ||
    (match e.e1, e.e2 with
     | some a, some b => decide (2 ≤ AdaptaVerif.Check.Tree.deg t.graphE a) &&
                         decide (2 ≤ AdaptaVerif.Check.Tree.deg t.graphE b)
     | _, _ => false))

/-! ## the improver's state and rewrites (hyperedgeimprover.cpp) -/

structure Imp where
  t : HTree
  /-- `m_hyperedge_tree_junctions` : junction ↦ node -/
  junctions : List (Nat × Nat)
  /-- `m_hyperedge_tree_roots` -/
  roots : List Nat
  newJ : List Nat := []
  delJ : List Nat := []
  newC : List Nat := []
  delC : List Nat := []
  canMajor : Bool
  /-- junctions with `positionFixed()` -/
  fixedJ : List Nat := []
  /-- numbers the next `new JunctionRef` / `new ConnRef` get -/
  nextJ : Nat
  nextC : Nat
  /-- which `removeZeroLengthEdges` is modelled: `true` = /repo since fix 6964517 (a terminal leaf that is
      merged into its neighbour hands its attributes to the surviving node), `false` = the code as found -/
  keepAttrs : Bool := true
  deriving Repr, Inhabited

/-- junction bookkeeping as an executable check: no junction attached to two nodes; the junction map
    points to the live node carrying the junction; every carried junction has its entry; no junction
    reported deleted is attached to a live node -/
def jinvb (s : Imp) : Bool :=
  s.t.nodes.all (fun n => s.t.nodes.all (fun m =>
    n.junction.isNone || n.junction != m.junction || n.id == m.id)) &&
  s.junctions.all (fun p => match s.t.node? p.2 with
    | some n => n.junction == some p.1
    | none => false) &&
  s.t.nodes.all (fun n => match n.junction with
    | some j => s.junctions.contains (j, n.id)
    | none => true) &&
  s.delJ.all (fun j => s.t.nodes.all (fun n => n.junction != some j))

/-- the sequence `edge->disconnectEdge(); delete edge; target->spliceEdgesFrom(source); delete source;`
    that both rewrites use to contract the edge `e` between `target` and `source` -/
def contract (t : HTree) (e target source : Nat) : Option HTree := do
  let t1 ← edgeDisconnect t e
  let t2 := t1.deleteEdge e
  let t3 ← spliceEdgesFrom t2 target source
  pure (t3.deleteNode source)

/-- fix 6964517, between `delete edge;` and `target->spliceEdgesFrom(source);`:
    `if (source->edges.empty()) { target->isConnectorSource = source->isConnectorSource; … }` — `source` has
    no edge left after the disconnection of `e` iff its list without `e` is empty -/
def keepTerminalAttrs (t : HTree) (e target source : Nat) : HTree :=
  match t.node? source with
  | some so =>
    if (so.edges.filter (fun i => i != e)).isEmpty then
      t.modNode target (fun x => { x with isConnectorSource := so.isConnectorSource,
                                          isPinDummyEndpoint := so.isPinDummyEndpoint,
                                          finalVertex := so.finalVertex })
    else t
  | none => t

/-- the heap on which the contraction sequence of `removeZeroLengthEdges` runs -/
def rzlePrep (s1 : Imp) (e target source : Nat) : HTree :=
  if s1.keepAttrs then keepTerminalAttrs s1.t e target source else s1.t

/-- what `removeZeroLengthEdges(node, ignored)` decides for one zero-length, non-fixed edge between
    `self` and `other`: `(target, source, bookkeeping-updated state)` or nothing (two junctions and no
    major changes allowed) -/
def rzleDecide (s : Imp) (e : HEdge) (sn on : HNode) : Option (Nat × Nat × Imp) :=
  match on.junction, sn.junction with
  | some _, none => some (on.id, sn.id, s)
  | none, some _ => some (sn.id, on.id, s)
  | none, none => some (sn.id, on.id, s)
  | some oj, some sj =>
    if s.canMajor then
      let roots := if s.roots.contains oj then
                     let r := s.roots.filter (· != oj)
                     if r.contains sj then r else r ++ [sj]
                   else s.roots
      let t1 := (s.t.modNode on.id (fun x => { x with junction := none })).modEdge e.id
                  (fun x => { x with conn := none })
      some (sn.id, on.id,
        { s with delJ := s.delJ ++ [oj],
                 junctions := s.junctions.filter (fun p => p.1 != oj),
                 roots := roots,
                 delC := match e.conn with
                   | some c => s.delC ++ [c]
                   | none => s.delC,
                 t := t1 })
    else none

/-- the test `!edge->hasFixedRoute && edge->zeroLength()` and the choice of target / source for the
    edge `e` met at node `sn` (= `self`) -/
def rzleDec (s : Imp) (e : HEdge) (sn : HNode) (self : Nat) : Option (Nat × Nat × Imp) :=
  if !e.hasFixedRoute && zeroLength s.t e then
    match e.followFrom self with
    | none => none
    | some o =>
      match s.t.node? o with
      | none => none
      | some on => rzleDecide s e sn on
  else none

mutual
/-- `HyperedgeImprover::removeZeroLengthEdges(HyperedgeTreeNode *self, HyperedgeTreeEdge *ignored)` -/
def rzleNode : Nat → Imp → Nat → Option Nat → Option Imp
  | 0, _, _, _ => none
  | f + 1, s, self, ignored =>
    match s.t.node? self with
    | none => none
    | some sn => rzleLoop f s self ignored sn.edges
/-- the `for` loop over `self->edges`; the list is the part of `self->edges` not yet visited (the
    list object is not modified by the deeper calls on a tree: they contract edges strictly below) -/
def rzleLoop : Nat → Imp → Nat → Option Nat → List Nat → Option Imp
  | 0, _, _, _, _ => none
  | _ + 1, s, _, _, [] => some s
  | f + 1, s, self, ignored, eid :: rest =>
    if some eid = ignored then rzleLoop f s self ignored rest else
    match s.t.edge? eid, s.t.node? self with
    | some e, some sn =>
      -- the C++ iterates the LIVE list: an edge met by the iterator is in `self->edges` now
      if !sn.edges.contains eid then none else
      match rzleDec s e sn self with
      | some (target, source, s1) =>
        match contract (rzlePrep s1 eid target source) eid target source with
        | none => none
        | some t2 => rzleNode f { s1 with t := t2 } target ignored      -- `…; return;`
      | none =>
        match rzleEdge f s eid self with
        | none => none
        | some s2 => rzleLoop f s2 self ignored rest
    | _, _ => none
/-- `HyperedgeImprover::removeZeroLengthEdges(HyperedgeTreeEdge *self, HyperedgeTreeNode *ignored)`;
    `ends.second` is read after the first recursive call returned, as in the code -/
def rzleEdge : Nat → Imp → Nat → Nat → Option Imp
  | 0, _, _, _ => none
  | f + 1, s, eid, ignored =>
    match s.t.edge? eid with
    | none => none
    | some e =>
      match e.e1 with
      | none => none
      | some a =>
        match (if a != ignored then rzleNode f s a (some eid) else some s) with
        | none => none
        | some s1 =>
          match s1.t.edge? eid with
          | none => none
          | some e' =>
            match e'.e2 with
            | none => none
            | some b => if b != ignored then rzleNode f s1 b (some eid) else some s1
end

/-- `removeZeroLengthEdges(node, ignored)` AS FOUND (before fix 6964517): the attributes of a merged
    terminal leaf are dropped -/
def rzleNodeOld (f : Nat) (s : Imp) (self : Nat) (ign : Option Nat) : Option Imp :=
  rzleNode f { s with keepAttrs := false } self ign

/-- fuel that suffices on a tree: every contraction restarts the traversal of one node -/
def rzleFuel (t : HTree) : Nat := 4 * (t.nodes.length + t.edges.length + 2) * (t.edges.length + 2)

/-- result of the scan of the other edges in `moveJunctionAlongCommonEdge` -/
structure Scan where
  t : HTree
  common : List Nat
  other : List Nat

/-- the inner loop `for (curr2 …)`: classify every other edge of `self` as common / other, splitting
    longer collinear edges at `currPt` (the split stays in the tree whatever is decided later) -/
def scanOthers (self : Nat) (selfPt currPt : Pt) (curr : Nat) : List Nat → Scan → Option Scan
  | [], sc => some sc
  | e2 :: rest, sc =>
    if e2 = curr then scanOthers self selfPt currPt curr rest sc else
    match sc.t.edge? e2, sc.t.node? self with
    | some oe, some sn =>
      if !sn.edges.contains e2 then none else      -- (live list, as above)
      if oe.hasFixedRoute then scanOthers self selfPt currPt curr rest { sc with other := sc.other ++ [e2] } else
      match oe.followFrom self with
      | none => none
      | some onId =>
        match sc.t.node? onId with
        | none => none
        | some on =>
          if on.point == currPt then
            if on.junction.isSome then scanOthers self selfPt currPt curr rest { sc with other := sc.other ++ [e2] }
            else scanOthers self selfPt currPt curr rest { sc with common := sc.common ++ [e2] }
          else if pointOnLine selfPt on.point currPt then
            match splitFromNodeAtPoint sc.t e2 self currPt with
            | none => none
            | some (t', _, _) => scanOthers self selfPt currPt curr rest { sc with t := t', common := sc.common ++ [e2] }
          else scanOthers self selfPt currPt curr rest { sc with other := sc.other ++ [e2] }
    | _, _ => none

/-- other end of edge `e` seen from `self` in tree `t` -/
def farEnd (t : HTree) (e self : Nat) : Option Nat :=
  match t.edge? e with
  | none => none
  | some ed => ed.followFrom self

/-- the loop `for (i = 1; i < commonEdges.size(); ++i)`: merge the far end of each further common
    edge into `target` (`disconnectEdge; spliceEdgesFrom; delete thisNode; delete edge`) -/
def mergeCommon (self target : Nat) : List Nat → HTree → Option HTree
  | [], t => some t
  | e :: rest, t => do
    let thisNode ← farEnd t e self
    let t1 ← edgeDisconnect t e
    let t2 ← spliceEdgesFrom t1 target thisNode
    mergeCommon self target rest ((t2.deleteNode thisNode).deleteEdge e)

/-- result of `moveJunctionAlongCommonEdge`: the new state, the returned `newSelf`, `nodeMapHasChanged` -/
structure MoveResult where
  s : Imp
  newSelf : Option Nat
  mapChanged : Bool

/-- the outer loop over `self->edges` of `HyperedgeImprover::moveJunctionAlongCommonEdge` -/
def moveLoop (s : Imp) (self : Nat) (sj : Nat) : List Nat → Option MoveResult
  | [] => some { s := s, newSelf := none, mapChanged := false }
  | curr :: rest =>
    match s.t.node? self, s.t.edge? curr with
    | some sn, some ce =>
      if !sn.edges.contains curr then none else    -- (live list)
      match ce.followFrom self with
      | none => none
      | some cnId =>
        match s.t.node? cnId with
        | none => none
        | some cn =>
          if cn.junction.isSome then moveLoop s self sj rest else
          if ce.hasFixedRoute then moveLoop s self sj rest else
          match scanOthers self sn.point cn.point curr sn.edges { t := s.t, common := [curr], other := [] } with
          | none => none
          | some sc =>
            let selfFixed := s.fixedJ.contains sj && !s.canMajor
            if sc.common.length > 1 && sc.other.length ≤ 1 && !selfFixed then
              -- move the junction to the far end of the common path
              match mergeCommon self cnId (sc.common.drop 1) sc.t with
              | none => none
              | some t1 =>
                let t2 := (t1.modNode cnId (fun x => { x with junction := some sj })).modNode self
                            (fun x => { x with junction := none })
                match sc.other with
                | [] =>
                  match edgeDisconnect t2 curr with
                  | none => none
                  | some t3 =>
                    some { s := { s with t := (t3.deleteEdge curr).deleteNode self }, newSelf := some cnId,
                           mapChanged := false }
                | o :: _ =>
                  match t2.edge? o with
                  | none => none
                  | some oe =>
                    some { s := { s with t := t2.modEdge curr (fun x => { x with conn := oe.conn }) },
                           newSelf := some cnId, mapChanged := false }
            else if s.canMajor && sc.common.length > 1 && sc.other.length > 1 then
              -- split the junction in two: new junction at the far end, new connector between them
              match mergeCommon self cnId (sc.common.drop 1) sc.t with
              | none => none
              | some t1 =>
                let nj := s.nextJ
                let nc := s.nextC
                let t2 := (t1.modNode cnId (fun x => { x with junction := some nj })).modEdge curr
                            (fun x => { x with conn := some nc })
                some { s := { s with t := t2, junctions := s.junctions ++ [(nj, cnId)],
                                     newJ := s.newJ ++ [nj], newC := s.newC ++ [nc],
                                     nextJ := nj + 1, nextC := nc + 1 },
                       newSelf := some self, mapChanged := true }
            else moveLoop { s with t := sc.t } self sj rest
    | _, _ => none

/-- `HyperedgeImprover::moveJunctionAlongCommonEdge(self, nodeMapHasChanged)` (`COLA_ASSERT(self->junction)`) -/
def moveJunctionAlongCommonEdge (s : Imp) (self : Nat) : Option MoveResult :=
  match s.t.node? self with
  | none => none
  | some sn =>
    match sn.junction with
    | none => none
    | some sj => moveLoop s self sj sn.edges

/-- one iteration of the caller's loop in `moveJunctionsAlongCommonEdges()`:
    `while ((node = move(node, changed))) curr->second = node;` — the call plus the rewrite of the
    junction's entry in `m_hyperedge_tree_junctions` -/
def moveJunctionStep (s : Imp) (j : Nat) : Option MoveResult :=
  match s.junctions.find? (fun p => p.1 == j) with
  | none => none
  | some (_, n) =>
    match moveJunctionAlongCommonEdge s n with
    | none => none
    | some r =>
      match r.newSelf with
      | none => some r
      | some n' => some { r with s := { r.s with junctions := r.s.junctions.map (fun p => if p.1 == j then (j, n') else p) } }

/-- `while ((node = moveJunctionAlongCommonEdge(node, changed)))` for one junction, on fuel -/
def moveJunctionFully : Nat → Imp → Nat → Option Imp
  | 0, _, _ => none
  | f + 1, s, j =>
    match moveJunctionStep s j with
    | none => none
    | some r =>
      match r.newSelf with
      | none => some r.s
      | some _ => moveJunctionFully f r.s j

/-! ## reading the tree back (hyperedgetree.cpp `listJunctionsAndConnectors`, `writeEdgesToConns`) -/

mutual
/-- `HyperedgeTreeNode::listJunctionsAndConnectors(ignored, junctions, connectors)` -/
def listNode : Nat → HTree → Nat → Option Nat → List Nat × List (Option Nat) → Option (List Nat × List (Option Nat))
  | 0, _, _, _, _ => none
  | f + 1, t, n, ignored, (js, cs) =>
    match t.node? n with
    | none => none
    | some nd =>
      let js' := match nd.junction with
        | some j => js ++ [j]
        | none => js
      listNodeLoop f t n ignored nd.edges (js', cs)
def listNodeLoop : Nat → HTree → Nat → Option Nat → List Nat → List Nat × List (Option Nat) → Option (List Nat × List (Option Nat))
  | 0, _, _, _, _, _ => none
  | _ + 1, _, _, _, [], acc => some acc
  | f + 1, t, n, ignored, e :: rest, acc =>
    if some e = ignored then listNodeLoop f t n ignored rest acc else
    match listEdge f t e n acc with
    | none => none
    | some acc' => listNodeLoop f t n ignored rest acc'
/-- `HyperedgeTreeEdge::listJunctionsAndConnectors(ignored, …)` — NB the `else if`: only one end is followed -/
def listEdge : Nat → HTree → Nat → Nat → List Nat × List (Option Nat) → Option (List Nat × List (Option Nat))
  | 0, _, _, _, _ => none
  | f + 1, t, e, ignored, (js, cs) =>
    match t.edge? e with
    | none => none
    | some ed =>
      let cs' := if cs.contains ed.conn then cs else cs ++ [ed.conn]
      match ed.e1, ed.e2 with
      | some a, some b =>
        if a != ignored then listNode f t a (some e) (js, cs')
        else if b != ignored then listNode f t b (some e) (js, cs')
        else some (js, cs')
      | _, _ => none
end

/-! ## writing the tree back as connector routes (`writeEdgesToConns`, pass 1 after the clearing pass 0) -/

/-- `conn->m_display_route.ps` of the connectors met so far -/
abbrev Routes := List (Nat × List Pt)

def Routes.get (r : Routes) (c : Nat) : List Pt := ((r.find? (fun p => p.1 == c)).map (·.2)).getD []

def Routes.set (r : Routes) (c : Nat) (ps : List Pt) : Routes :=
  if r.any (fun p => p.1 == c) then r.map (fun p => if p.1 == c then (c, ps) else p) else r ++ [(c, ps)]

/-- what the write-back reads of a connector besides its route: for the connectors that HAVE a
    destination `ConnEnd` (`m_dst_connend`), the junction it designates (if any) -/
abbrev DstEnds := List (Nat × Option Nat)

/-- the body of `HyperedgeTreeEdge::writeEdgesToConns(ignored, 1)` before the recursive call: the new
    route of the edge's connector (`none` = `COLA_ASSERT(conn->m_dst_connend)` fails) -/
def writeStep (dst : DstEnds) (c : Nat) (old : List Pt) (pn nn : HNode) : Option (List Pt) :=
  let ps1 := if old.isEmpty then [pn.point] else old
  let ps2 := ps1 ++ [nn.point]
  let k := nn.edges.length
  if k = 2 then some ps2                          -- intermediate node of the connector
  else if k = 1 then                              -- the connector led to a terminal
    let ps3 := if nn.isPinDummyEndpoint then
                 (if pn.point == nn.point then ps2.dropLast.dropLast else ps2.dropLast)
               else ps2
    some (if nn.isConnectorSource then ps3.reverse else ps3)
  else                                            -- "between two junctions"
    match dst.find? (fun p => p.1 == c) with
    | none => none
    | some (_, dj) => some (if nn.junction != dj then ps2.reverse else ps2)

mutual
/-- `HyperedgeTreeNode::writeEdgesToConns(ignored, 1)` -/
def writeNode : Nat → HTree → DstEnds → Routes → Nat → Option Nat → Option Routes
  | 0, _, _, _, _, _ => none
  | f + 1, t, dst, r, n, ign =>
    match t.node? n with
    | none => none
    | some nd => writeLoop f t dst r n ign nd.edges
def writeLoop : Nat → HTree → DstEnds → Routes → Nat → Option Nat → List Nat → Option Routes
  | 0, _, _, _, _, _, _ => none
  | _ + 1, _, _, r, _, _, [] => some r
  | f + 1, t, dst, r, n, ign, e :: rest =>
    if some e = ign then writeLoop f t dst r n ign rest else
    match writeEdge f t dst r e n with
    | none => none
    | some r' => writeLoop f t dst r' n ign rest
/-- `HyperedgeTreeEdge::writeEdgesToConns(ignored, 1)`: `prev` = the end equal to `ignored` (else the
    second end), `next` = the other one -/
def writeEdge : Nat → HTree → DstEnds → Routes → Nat → Nat → Option Routes
  | 0, _, _, _, _, _ => none
  | f + 1, t, dst, r, e, ign =>
    match t.edge? e with
    | none => none
    | some ed =>
      match ed.e1, ed.e2, ed.conn with
      | some a, some b, some c =>
        let prev := if ign = a then a else b
        let next := if ign = a then b else a
        match t.node? prev, t.node? next with
        | some pn, some nn =>
          match writeStep dst c (r.get c) pn nn with
          | none => none
          | some ps => writeNode f t dst (r.set c ps) next (some e)
        | _, _ => none
      | _, _, _ => none
end

/-- both passes from a root node: the routes of all connectors of the tree -/
def writeRoutes (t : HTree) (dst : DstEnds) (root : Nat) : Option Routes :=
  writeNode (4 * (t.nodes.length + t.edges.length + 2)) t dst [] root none

/-! ## rewriting the connector ends (`updateConnEnds`, run by `execute` when major changes are allowed) -/

/-- one end of a connector as the tree code sees it (`ConnRef::endpointConnEnds()`): is it a junction
    end (and which junction), an empty end, or something else (point / shape pin) -/
inductive CEnd where
  | junction (j : Nat)
  | empty
  | other
  deriving Repr, BEq, DecidableEq, Inhabited

def CEnd.junction? : CEnd → Option Nat
  | .junction j => some j
  | _ => none

/-- `type() != ConnEndJunction && type() != ConnEndEmpty` -/
def CEnd.isOther : CEnd → Bool
  | .other => true
  | _ => false

/-- connector ↦ (source end, target end) -/
abbrev EndsMap := List (Nat × CEnd × CEnd)

def EndsMap.get? (m : EndsMap) (c : Nat) : Option (CEnd × CEnd) := (m.find? (fun p => p.1 == c)).map (·.2)

/-- `conn->updateEndPoint(src|tar, ConnEnd(junction))` -/
def EndsMap.setEnd (m : EndsMap) (c : Nat) (src : Bool) (j : Nat) : EndsMap :=
  m.map (fun p => if p.1 == c then (if src then (c, .junction j, p.2.2) else (c, p.2.1, .junction j)) else p)

/-- `travellingForwardOnConnector(conn, junction)` -/
def travellingForward (e : CEnd × CEnd) (j : Nat) : Bool :=
  if e.1.junction? == some j then true
  else if e.2.junction? == some j then false
  else if e.1.isOther then false
  else if e.2.isOther then true
  else true

/-- state threaded through the traversal: the ends and `changedConns` -/
structure UpdState where
  ends : EndsMap
  changed : List Nat

mutual
/-- `HyperedgeTreeNode::updateConnEnds(ignored, forward, changedConns)`; `forward` is a local that the
    loop overwrites at junction nodes -/
def updNode : Nat → HTree → UpdState → Nat → Option Nat → Bool → Option UpdState
  | 0, _, _, _, _, _ => none
  | f + 1, t, u, n, ign, fwd =>
    match t.node? n with
    | none => none
    | some nd => updLoop f t u nd ign fwd nd.edges
def updLoop : Nat → HTree → UpdState → HNode → Option Nat → Bool → List Nat → Option UpdState
  | 0, _, _, _, _, _, _ => none
  | _ + 1, _, u, _, _, _, [] => some u
  | f + 1, t, u, nd, ign, fwd, e :: rest =>
    if some e = ign then updLoop f t u nd ign fwd rest else
    match t.edge? e with
    | none => none
    | some ed =>
      match nd.junction with
      | some j =>
        match ed.conn with
        | none => none
        | some c =>
          match u.ends.get? c with
          | none => none
          | some ce =>
            let fwd' := travellingForward ce j
            let existing := if fwd' then ce.1 else ce.2
            let u1 : UpdState :=
              if existing.junction? != some j then
                { ends := u.ends.setEnd c fwd' j, changed := u.changed ++ [c] }
              else u
            match updEdge f t u1 e nd.id fwd' with
            | none => none
            | some u2 => updLoop f t u2 nd ign fwd' rest
      | none =>
        match updEdge f t u e nd.id fwd with
        | none => none
        | some u2 => updLoop f t u2 nd ign fwd rest
/-- `HyperedgeTreeEdge::updateConnEnds(ignored, forward, changedConns)`: recursion first, then the far
    junction (if the far node carries one) is written to the connector's other end -/
def updEdge : Nat → HTree → UpdState → Nat → Nat → Bool → Option UpdState
  | 0, _, _, _, _, _ => none
  | f + 1, t, u, e, ign, fwd =>
    match t.edge? e with
    | none => none
    | some ed =>
      match ed.e1, ed.e2 with
      | some a, some b =>
        let r1 : Option (UpdState × Option Nat) :=
          if a != ign then (updNode f t u a (some e) fwd).map (fun x => (x, some a)) else some (u, none)
        match r1 with
        | none => none
        | some (u1, end1) =>
          let r2 : Option (UpdState × Option Nat) :=
            if b != ign then (updNode f t u1 b (some e) fwd).map (fun x => (x, some b)) else some (u1, end1)
          match r2 with
          | none => none
          | some (u2, endNode) =>
            match endNode with
            | none => none                                  -- null `endNode` is dereferenced
            | some en =>
              match t.node? en with
              | none => none
              | some enn =>
                match enn.junction with
                | none => some u2
                | some j =>
                  match ed.conn with
                  | none => none
                  | some c =>
                    match u2.ends.get? c with
                    | none => none
                    | some ce =>
                      let existing := if fwd then ce.2 else ce.1
                      if existing.junction? != some j then
                        some { ends := u2.ends.setEnd c (!fwd) j,
                               changed := if u2.changed.getLast? == some c then u2.changed else u2.changed ++ [c] }
                      else some u2
      | _, _ => none
end

/-- `treeRoot->updateConnEnds(nullptr, true, changed)` -/
def updateConnEnds (t : HTree) (ends : EndsMap) (root : Nat) : Option UpdState :=
  updNode (4 * (t.nodes.length + t.edges.length + 2)) t { ends := ends, changed := [] } root none true

end AdaptaVerif.Model.HyperTree
