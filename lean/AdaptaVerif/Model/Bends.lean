/-
Hand-written executable model of the orthogonal cost-estimate kernels of libavoid's A* search
(cola/libavoid/makepath.cpp): `dimDirection`, `orthogonalDirection`, `orthogonalDirectionsCount`,
`dirRight`, `dirLeft`, `dirReverse`, `bends`, and the orthogonal branch of `estimatedCostSpecific`.
Core Lean only.  Written as pure if/else expressions, branch for branch as in the C++.

Directions are the C++ bit masks (`CostDirectionN = 1, E = 2, S = 4, W = 8`); libavoid's y axis
points down, so N is the direction of *decreasing* y.
A failed `COLA_ASSERT` is an explicit `none` (never dropped, never totalised).
-/
import AdaptaVerif.Model.Geometry
namespace AdaptaVerif.Model.Bends
open AdaptaVerif.Model.Geometry (Pt)

abbrev CostDirectionN : Nat := 1
abbrev CostDirectionE : Nat := 2
abbrev CostDirectionS : Nat := 4
abbrev CostDirectionW : Nat := 8

/-- `dimDirection(difference)`: 1 / -1 / 0 -/
def dimDirection (difference : Rat) : Int :=
  if difference > 0 then 1
  else if difference < 0 then -1
  else 0

/-- `orthogonalDirectionsCount(directions)` -/
def orthogonalDirectionsCount (directions : Nat) : Nat :=
  let count0 : Nat := 0
  let count1 := if directions &&& CostDirectionN ≠ 0 then count0 + 1 else count0
  let count2 := if directions &&& CostDirectionE ≠ 0 then count1 + 1 else count1
  let count3 := if directions &&& CostDirectionS ≠ 0 then count2 + 1 else count2
  let count4 := if directions &&& CostDirectionW ≠ 0 then count3 + 1 else count3
  count4

/-- `orthogonalDirection(a, b)`: the directions of point `b` from point `a` (0, one or two bits) -/
def orthogonalDirection (a b : Pt) : Nat :=
  let result0 : Nat := 0
  let result1 :=
    if b.y > a.y then result0 ||| CostDirectionS
    else if b.y < a.y then result0 ||| CostDirectionN
    else result0
  let result2 :=
    if b.x > a.x then result1 ||| CostDirectionE
    else if b.x < a.x then result1 ||| CostDirectionW
    else result1
  result2

/-- `dirRight(direction)`; `none` = the trailing `COLA_ASSERT(false)` -/
def dirRight (direction : Nat) : Option Nat :=
  if direction = CostDirectionN then some CostDirectionE
  else if direction = CostDirectionE then some CostDirectionS
  else if direction = CostDirectionS then some CostDirectionW
  else if direction = CostDirectionW then some CostDirectionN
  else none

/-- `dirLeft(direction)`; `none` = the trailing `COLA_ASSERT(false)` -/
def dirLeft (direction : Nat) : Option Nat :=
  if direction = CostDirectionN then some CostDirectionW
  else if direction = CostDirectionE then some CostDirectionN
  else if direction = CostDirectionS then some CostDirectionE
  else if direction = CostDirectionW then some CostDirectionS
  else none

/-- `dirReverse(direction)`; `none` = the trailing `COLA_ASSERT(false)` -/
def dirReverse (direction : Nat) : Option Nat :=
  if direction = CostDirectionN then some CostDirectionS
  else if direction = CostDirectionE then some CostDirectionW
  else if direction = CostDirectionS then some CostDirectionN
  else if direction = CostDirectionW then some CostDirectionE
  else none

/-- The if/else chain of `bends` after its four locals have been computed.
    `none` = the trailing `COLA_ASSERT(false)`. -/
def bendsChain (currDir destDir currToDestDir reverseDestDir : Nat)
    (currDirPerpendicularToDestDir : Bool) : Option Nat :=
  if currDir = destDir ∧ currToDestDir = currDir then some 0
  else if currDirPerpendicularToDestDir = true ∧ currToDestDir = (destDir ||| currDir) then some 1
  else if currDirPerpendicularToDestDir = true ∧ currToDestDir = currDir then some 1
  else if currDirPerpendicularToDestDir = true ∧ currToDestDir = destDir then some 1
  else if currDir = destDir ∧ currToDestDir ≠ currDir ∧
          ¬ (currToDestDir &&& reverseDestDir ≠ 0) then some 2
  else if currDir = reverseDestDir ∧ currToDestDir ≠ destDir ∧ currToDestDir ≠ currDir then some 2
  else if currDirPerpendicularToDestDir = true ∧ currToDestDir ≠ (destDir ||| currDir) ∧
          currToDestDir ≠ currDir then some 3
  else if currDir = reverseDestDir ∧ (currToDestDir = destDir ∨ currToDestDir = currDir) then some 4
  else if currDir = destDir ∧ (currToDestDir &&& reverseDestDir ≠ 0) then some 4
  else none

/-- `bends(curr, currDir, dest, destDir)`: the claimed minimum number of bends from `curr`, currently
    heading `currDir`, to `dest`, arriving with heading `destDir`.
    `none` = some `COLA_ASSERT` failed: `currDir != 0` at entry, the `COLA_ASSERT(false)` inside
    `dirReverse/dirLeft/dirRight(destDir)` (destDir not a single direction), or the trailing
    `COLA_ASSERT(false)` of `bends` itself. -/
def bends (curr : Pt) (currDir : Nat) (dest : Pt) (destDir : Nat) : Option Nat :=
  if currDir = 0 then none
  else
    let currToDestDir := orthogonalDirection curr dest
    match dirReverse destDir, dirLeft destDir, dirRight destDir with
    | some reverseDestDir, some leftDestDir, some rightDestDir =>
      let currDirPerpendicularToDestDir : Bool :=
        decide (currDir = leftDestDir) || decide (currDir = rightDestDir)
      bendsChain currDir destDir currToDestDir reverseDestDir currDirPerpendicularToDestDir
    | _, _, _ => none

def absR (r : Rat) : Rat := if r < 0 then -r else r

/-- `manhattanDist(a, b)` (geometry.cpp) -/
def manhattanDist (a b : Pt) : Rat := absR (a.x - b.x) + absR (a.y - b.y)

/-- one `if (costTarDirs & D) bendCount = std::min(bendCount, bends(curr, currDir, tar, D))` step;
    outer `none` = assertion failure inside `bends` -/
def minStep (acc : Option Nat) (costTarDirs d : Nat) (curr : Pt) (currDir : Nat) (tar : Pt) :
    Option Nat :=
  match acc with
  | none => none
  | some bc =>
    if costTarDirs &&& d ≠ 0 then
      match bends curr currDir tar d with
      | none => none
      | some b => some (min bc b)
    else some bc

/-- the `bendCount` computed by the orthogonal branch of `estimatedCostSpecific`
    (`last = none` is the C++ `last == nullptr`) -/
def bendCount (last : Option Pt) (curr tar : Pt) (costTarDirs : Nat) : Option Nat :=
  let dist := manhattanDist curr tar
  let xmove := tar.x - curr.x
  let ymove := tar.y - curr.y
  match last with
  | none => if xmove ≠ 0 ∧ ymove ≠ 0 then some 1 else some 0
  | some lastPt =>
    if dist > 0 then
      let currDir := orthogonalDirection lastPt curr
      if currDir > 0 ∧ orthogonalDirectionsCount currDir = 1 then
        let b0 : Option Nat := some 10
        let b1 := minStep b0 costTarDirs CostDirectionN curr currDir tar
        let b2 := minStep b1 costTarDirs CostDirectionE curr currDir tar
        let b3 := minStep b2 costTarDirs CostDirectionS curr currDir tar
        let b4 := minStep b3 costTarDirs CostDirectionW curr currDir tar
        b4
      else some 0
    else some 0

/-- orthogonal branch of `estimatedCostSpecific(lineRef, last, curr, costTar, costTarDirs)` with
    `segmentPenalty = penalty`; `none` = an assertion failed (`segmentPenalty > 0` or inside `bends`) -/
def estimatedCostSpecific (last : Option Pt) (curr tar : Pt) (costTarDirs : Nat) (penalty : Rat) :
    Option Rat :=
  if ¬ (penalty > 0) then none
  else
    match bendCount last curr tar costTarDirs with
    | none => none
    | some bc => some (manhattanDist curr tar + (bc : Rat) * penalty)

end AdaptaVerif.Model.Bends
