/-
C10 model, extended (core Lean only): what `ImproveOrthogonalRoutes::nudgeOrthogonalRoutes`
(cola/libavoid/orthogonal.cpp) does with ONE region, on the region's segments in the order the code
uses them (after `linesort`), for both passes (`justUnifying` = centring pre-pass, else nudging).

  * the segment predicates `overlapsWith`, `canAlignWith`, `shouldAlignWith` and the order keys
    `fixedOrder`, `order` (hand models; regenerated from the C++ in Gen/NudgeK.lean and bridged in
    Props/C10Tie.lean);
  * `createVar` = `NudgingShiftSegment::createSolverVariable` (id, desired position, weight);
  * `genG`: the constraint generator, generic in the segment type (`GenP`), producing structured
    constraints `Model.Nudge.Cons` in exactly the order of the C++ (channel-left, earlier segments in
    list order, channel-right).  `Model.Nudge.genCons` is the instance for the abstract `Seg`
    (`Props/C10Region.genCons_is_genG`), `regionCons` the instance for the real segment record;
  * `flat`: numbering of the solver variables (`vs` index) and the flat constraint list
    (left, right, gap, equality) that is compared with the hook dump;
  * `nudgeStep` / `unifyStep`: one round of the do-while loop.  The VPSC solver is NOT modelled: a
    step takes the solver's final positions as an oracle input and computes the `satisfied` test, the
    unsatisfied ranges, the reduced separation distance, the rewritten gaps (nudging) resp. the
    roll-back / index rewriting / sorting of the potential constraints (unifying), and whether the
    loop goes round again;
  * `written`: `updatePositionsFromSolver`.
Floating point: two places compute inexact double results (`min + (max - min) / 2` for zigzag
segments, `sepDist -= baseSepDist / 10`); the model takes the rounding function `rnd` as a parameter
(the driver passes IEEE round-to-nearest-even `roundDouble`, theorems hold for every `rnd`).
-/
import AdaptaVerif.Model.Nudge
namespace AdaptaVerif.Model.NudgeRegion
open AdaptaVerif.Model.Nudge

/-- `CHANNEL_MAX` (scanline.h) -/
def channelMax : Rat := 100000000

-- solver variable ids and weights (orthogonal.cpp l.52-62); the two small weights are the doubles
-- nearest to 0.00001 and 0.001
def freeSegmentID : Nat := 0
def fixedSegmentID : Nat := 1
def channelLeftID : Nat := 2
def channelRightID : Nat := 3
def freeWeight : Rat := 5902958103587057 / 590295810358705651712
def strongWeight : Rat := 1152921504606847 / 1152921504606846976
def strongerWeight : Rat := 1
def fixedWeight : Rat := 100000
/-- the double 0.0001 of the `satisfied` test and of the loop condition -/
def tolD : Rat := 7378697629483821 / 73786976294838206464

/-- one `NudgingShiftSegment` as the code sees it. `lo`/`hi` = `lowPoint()[altDim]`,
    `highPoint()[altDim]`; `pos` = `lowPoint()[dim]`; limits are the raw doubles (±`CHANNEL_MAX` =
    unlimited); `cps` = checkpoints as (dim, altDim) coordinates -/
structure RSeg where
  conn : Nat
  lo : Rat
  hi : Rat
  pos : Rat
  minLim : Rat
  maxLim : Rat
  fixed : Bool
  finalSeg : Bool
  endsInShape : Bool
  single : Bool
  sBend : Bool
  zBend : Bool
  cps : List (Rat × Rat)
  deriving Repr, DecidableEq, Inhabited

/-- router options / parameters and per-run data the region code reads -/
structure ROpts where
  nudgeFinal : Bool          -- nudgeOrthogonalSegmentsConnectedToShapes
  nudgeCommonEnd : Bool      -- nudgeSharedPathsWithCommonEndPoint
  nudgeColinear : Bool       -- nudgeOrthogonalTouchingColinearSegments
  fsp : Rat                  -- fixedSharedPathPenalty
  /-- membership in `m_shared_path_connectors_with_common_endpoints` (unordered pair) -/
  commonEnd : Nat → Nat → Bool
  justUnifying : Bool
  /-- idealNudgingDistance -/
  base : Rat
  /-- rounding of an exact result to a double -/
  rnd : Rat → Rat

def absQ (r : Rat) : Rat := if r < 0 then -r else r

def RSeg.zigzag (s : RSeg) : Bool := s.sBend || s.zBend
def RSeg.hasCps (s : RSeg) : Bool := !s.cps.isEmpty
/-- `hasCheckpointAtPosition(position, altDim)` -/
def RSeg.hasCpAt (s : RSeg) (p : Rat) : Bool := s.cps.any (fun c => c.2 == p)

def limitsMeet (a b : RSeg) : Bool := decide (a.minLim ≤ b.maxLim) && decide (b.minLim ≤ a.maxLim)

/-- `a.overlapsWith(b, dim)` -/
def overlapsWith (o : ROpts) (a b : RSeg) : Bool :=
  if decide (a.lo < b.hi) && decide (b.lo < a.hi) then limitsMeet a b
  else if decide (a.lo = b.hi) || decide (b.lo = a.hi) then
    if limitsMeet a b then
      if decide (0 < o.fsp) then true
      else if (b.sBend && a.sBend) || (b.zBend && a.zBend) then o.nudgeColinear
      else if (b.finalSeg && a.finalSeg) && decide (b.conn = a.conn) then o.nudgeColinear
      else false
    else false
  else false

/-- `a.canAlignWith(b, dim)` -/
def canAlignWith (a b : RSeg) : Bool :=
  if a.conn ≠ b.conn then false
  else if a.hasCps || b.hasCps then false
  else true

/-- `a.shouldAlignWith(b, dim)` -/
def shouldAlignWith (o : ROpts) (a b : RSeg) : Bool :=
  if decide (a.conn = b.conn) && a.finalSeg && b.finalSeg && overlapsWith o a b then
    (a.endsInShape && b.endsInShape) || decide (absQ (a.pos - b.pos) < 10)
  else if decide (a.conn = b.conn) && !(a.finalSeg && b.finalSeg) then
    if a.hasCps != b.hasCps then
      let space := absQ (a.pos - b.pos)
      if a.lo = b.hi then
        decide (space ≤ 10) && !a.hasCpAt a.lo && !b.hasCpAt a.lo
      else if a.hi = b.lo then
        decide (space ≤ 10) && !a.hasCpAt a.hi && !b.hasCpAt a.hi
      else false
    else false
  else false

/-- `fixedOrder(isFixed)`: (returned order, whether the out-parameter is SET — it is never cleared) -/
def fixedOrder (nudgeDist : Rat) (s : RSeg) : Int × Bool :=
  let minLimited := decide (s.pos - s.minLim < nudgeDist)
  let maxLimited := decide (s.maxLim - s.pos < nudgeDist)
  if s.fixed || (minLimited && maxLimited) then (0, true)
  else if minLimited then (1, false)
  else if maxLimited then (-1, false)
  else (0, false)

def lowC (s : RSeg) : Bool := !s.finalSeg && !s.zigzag && !s.fixed && decide (s.minLim = s.pos)
def highC (s : RSeg) : Bool := !s.finalSeg && !s.zigzag && !s.fixed && decide (s.maxLim = s.pos)
/-- `order()` -/
def order (s : RSeg) : Int := if lowC s then -1 else if highC s then 1 else 0

/-- a solver variable: (id, desired position, weight) -/
structure Var where
  id : Nat
  desired : Rat
  weight : Rat
  deriving Repr, DecidableEq, Inhabited

/-- `createSolverVariable(justUnifying)` (the two assertions of the zigzag branch are `createVarPre`) -/
def createVar (o : ROpts) (s : RSeg) : Var :=
  if o.nudgeFinal && s.finalSeg then
    ⟨freeSegmentID, s.pos, if s.single && !o.justUnifying then strongerWeight else strongWeight⟩
  else if s.hasCps then ⟨freeSegmentID, s.pos, strongWeight⟩
  else if s.zigzag then ⟨freeSegmentID, o.rnd (s.minLim + o.rnd (s.maxLim - s.minLim) / 2), freeWeight⟩
  else if s.fixed then ⟨fixedSegmentID, s.pos, fixedWeight⟩
  else if !s.finalSeg then ⟨freeSegmentID, s.pos, strongWeight⟩
  else ⟨freeSegmentID, s.pos, freeWeight⟩

def createVarPre (o : ROpts) (s : RSeg) : Bool :=
  if o.nudgeFinal && s.finalSeg then true
  else if s.hasCps then true
  else if s.zigzag then decide (-channelMax < s.minLim) && decide (s.maxLim < channelMax)
  else true

/-! ### the constraint generator, generic in the segment type -/

structure GenP (α : Type) where
  /-- `cur.overlapsWith(prev)` -/
  ov : α → α → Bool
  /-- gap and equality flag of the constraint `prev + gap ≤ cur`; arguments (prev, cur) -/
  gap : α → α → Rat × Bool
  fixed : α → Bool
  /-- the channel-left / channel-right limits the segment sees (`none` = unlimited) -/
  lower : α → Option Rat
  upper : α → Option Rat

def consForG {α : Type} (g : GenP α) (prev : List (Nat × α)) (i : Nat) (s : α) : List Cons :=
  (match g.fixed s, g.lower s with
    | false, some l => [Cons.lower i l]
    | _, _ => []) ++
  (prev.filterMap (fun js =>
    if g.ov s js.2 && (!g.fixed s || !g.fixed js.2) then
      some (Cons.sep js.1 i (g.gap js.2 s).1 (g.gap js.2 s).2)
    else none)) ++
  (match g.fixed s, g.upper s with
    | false, some l => [Cons.upper i l]
    | _, _ => [])

def genFromG {α : Type} (g : GenP α) (prev : List (Nat × α)) (i : Nat) : List α → List Cons
  | [] => []
  | s :: rest => consForG g prev i s ++ genFromG g (prev ++ [(i, s)]) (i + 1) rest

def genG {α : Type} (g : GenP α) (segs : List α) : List Cons := genFromG g [] 0 segs

/-- the abstract model of Model/Nudge.lean as an instance -/
def absP (p : Params) : GenP Seg := ⟨overlaps, gapFor p, Seg.fixed, Seg.minLim, Seg.maxLim⟩

def RSeg.lower (s : RSeg) : Option Rat := if -channelMax < s.minLim then some s.minLim else none
def RSeg.upper (s : RSeg) : Option Rat := if s.maxLim < channelMax then some s.maxLim else none

/-- gap / equality of the constraint between an earlier segment `prev` and the current one -/
def gapOf (o : ROpts) (sepDist : Rat) (prev cur : RSeg) : Rat × Bool :=
  if shouldAlignWith o cur prev then (0, true)
  else if canAlignWith cur prev then (0, false)
  else if !o.nudgeCommonEnd && decide (cur.conn ≠ prev.conn) && o.commonEnd cur.conn prev.conn then (0, true)
  else (sepDist, false)

/-- `UnsignedPair(cur.id, prev.id)` asserts the ids differ; since /repo eb4b954 the lookup is guarded by
    `currSegment->connRef != prevSeg->connRef`, so the assertion cannot fail any more -/
def gapOfPre (_o : ROpts) (_prev _cur : RSeg) : Bool := true

def regionP (o : ROpts) (sepDist : Rat) : GenP RSeg :=
  ⟨overlapsWith o, gapOf o sepDist, RSeg.fixed, RSeg.lower, RSeg.upper⟩

/-- the structured constraints of the nudging pass for separation distance `sepDist` -/
def regionCons (o : ROpts) (sepDist : Rat) (segs : List RSeg) : List Cons := genG (regionP o sepDist) segs

/-! ### variable numbering and the flat problem handed to the solver -/

/-- number of channel-edge variables created for a segment (nudging pass) -/
def nExtra (s : RSeg) : Nat :=
  if s.fixed then 0 else (if s.lower.isSome then 1 else 0) + (if s.upper.isSome then 1 else 0)

/-- index in `vs` of the variable of segment `i` -/
def varIdx (segs : List RSeg) (i : Nat) : Nat := i + ((segs.take i).map nExtra).sum
/-- index of the channel-left variable of segment `i` (meaningful when it exists) -/
def clIdx (segs : List RSeg) (i : Nat) : Nat := varIdx segs i + 1
/-- index of the channel-right variable of segment `i` (meaningful when it exists) -/
def crIdx (segs : List RSeg) (i : Nat) : Nat :=
  varIdx segs i + 1 + (match segs[i]? with | some s => if s.lower.isSome then 1 else 0 | none => 0)

/-- the variables of the nudging pass in `vs` order -/
def regionVars (o : ROpts) (segs : List RSeg) : List Var :=
  segs.flatMap (fun s =>
    [createVar o s] ++
    (if s.fixed then [] else
      (match s.lower with | some l => [⟨channelLeftID, l, fixedWeight⟩] | none => []) ++
      (match s.upper with | some u => [⟨channelRightID, u, fixedWeight⟩] | none => [])))

/-- a solver constraint `vs[left] + gap ≤ vs[right]` (or `=`) -/
structure FCon where
  left : Nat
  right : Nat
  gap : Rat
  eq : Bool
  deriving Repr, DecidableEq, Inhabited

def flat (segs : List RSeg) : Cons → FCon
  | .sep j i gap eq => ⟨varIdx segs j, varIdx segs i, gap, eq⟩
  | .lower i _ => ⟨clIdx segs i, varIdx segs i, 0, false⟩
  | .upper i _ => ⟨varIdx segs i, crIdx segs i, 0, false⟩

def FCon.holds (pos : Nat → Rat) (c : FCon) : Prop :=
  if c.eq then pos c.left + c.gap = pos c.right else pos c.left + c.gap ≤ pos c.right

/-- the structured view of a flat solver result -/
def solOf (segs : List RSeg) (pos : Nat → Rat) : Sol :=
  ⟨fun i => pos (varIdx segs i), fun i => pos (clIdx segs i), fun i => pos (crIdx segs i)⟩

/-! ### one round of the solve loop (solver result = oracle input) -/

/-- the `satisfied` test for one variable: not a free segment and further than 0.0001 from its
    desired position -/
def varUnsat (v : Var) (fp : Rat) : Bool := v.id != freeSegmentID && decide (tolD < absQ (fp - v.desired))

/-- smallest distance of any tested quantity from the threshold 0.0001 (margin of the decision) -/
def satMargin (vars : List Var) (fps : List Rat) : Rat :=
  (vars.zip fps).foldl (fun m (v, fp) =>
    if v.id != freeSegmentID then min m (absQ (absQ (fp - v.desired) - tolD)) else m) 1

abbrev Range := Nat × Nat

/-- update of `unsatisfiedRanges` for an unsatisfied variable `i` with id `id`; `none` = a failed
    `COLA_ASSERT` (right edge first, without a left edge before it) -/
def updRanges (vars : List Var) (ranges : List Range) (i : Nat) (id : Nat) : Option (List Range) :=
  if id = channelLeftID then
    match ranges.getLast? with
    | none => some (ranges ++ [(i, i + 1)])
    | some b => if b.1 ≠ b.2 then some (ranges ++ [(i, i + 1)]) else some ranges
  else if id = channelRightID then
    match ranges.getLast? with
    | none =>
      if 0 < i && ((vars[i - 1]?).map (·.id)) = some channelLeftID then some [(i - 1, i)] else none
    | some b => some (ranges.dropLast ++ [(b.1, i)])
  else if id = fixedSegmentID then
    match ranges.getLast? with
    | none => some [(i, i)]
    | some b => some (ranges.dropLast ++ [(b.1, i)])
  else some ranges

/-- the scan over all variables: (satisfied, ranges) -/
def scanVars (vars : List Var) (fps : List Rat) (ranges : List Range) : Option (Bool × List Range) :=
  ((vars.zip fps).zipIdx).foldl (fun acc (vf, i) =>
    match acc with
    | none => none
    | some (sat, rs) =>
      if varUnsat vf.1 vf.2 then (updRanges vars rs i vf.1.id).map (fun rs' => (false, rs'))
      else some (sat, rs)) (some (true, ranges))

/-- rewriting of the gaps inside the unsatisfied ranges:
    state (withinUnsatisfiedGroup, remaining ranges, stopped by `break`) -/
def rewriteGaps (sepDist : Rat) : Bool → List Range → List FCon → List FCon × List Range
  | _, [], cs => (cs, [])
  | _, rs, [] => ([], rs)
  | within, r :: rs, c :: cs =>
    let within1 := within || c.left == r.1
    let c' := if within1 && decide (0 < c.gap) then { c with gap := sepDist } else c
    if c.right == r.2 then
      let (cs', rs') := rewriteGaps sepDist false rs cs
      (c' :: cs', rs')
    else
      let (cs', rs') := rewriteGaps sepDist within1 (r :: rs) cs
      (c' :: cs', rs')

/-- state of the nudging loop -/
structure NState where
  sepDist : Rat
  cons : List FCon
  ranges : List Range
  deriving Repr, DecidableEq

/-- the reduction `sepDist -= baseSepDist / reductionSteps` -/
def nextSep (o : ROpts) (s : Rat) : Rat := o.rnd (s - o.rnd (o.base / 10))

structure StepOut (σ : Type) where
  satisfied : Bool
  retry : Bool
  next : σ

/-- one round of the do-while loop in the nudging pass. `none` = a failed assertion
    (`unsatisfiedRanges.size() > 0`, range ends must not be free segments) -/
def nudgeStep (o : ROpts) (vars : List Var) (st : NState) (fps : List Rat) : Option (StepOut NState) :=
  match scanVars vars fps st.ranges with
  | none => none
  | some (sat, rs) =>
    if sat then some ⟨true, false, { st with ranges := rs }⟩
    else if rs.isEmpty then none
    else if rs.any (fun r => ((vars[r.1]?).map (·.id)) == some freeSegmentID || ((vars[r.2]?).map (·.id)) == some freeSegmentID) then none
    else
      let s' := nextSep o st.sepDist
      let (cs', rs') := rewriteGaps s' false rs st.cons
      some ⟨false, decide (tolD < s'), ⟨s', cs', rs'⟩⟩

/-- the state the nudging loop of a region starts in: `double sepDist = baseSepDist;` is declared INSIDE the
    per-region loop of `nudgeOrthogonalRoutes`, together with fresh `vs`, `cs` and `unsatisfiedRanges` -/
def initState (o : ROpts) (segs : List RSeg) : NState := ⟨o.base, (regionCons o o.base segs).map (flat segs), []⟩

/-- the states in which the solver is called for one region, given the solver's answers attempt by attempt
    (the do-while loop always solves once; it goes on while a round asks for a retry) -/
def regionTrace (o : ROpts) (vars : List Var) : NState → List (List Rat) → List NState
  | st, [] => [st]
  | st, fps :: rest =>
    st :: (match nudgeStep o vars st fps with
      | some out => if out.retry then regionTrace o vars out.next rest else []
      | none => [])

/-- one nudging pass over the regions of a dimension (each with its ordered segments and the solver's answers):
    the `while (!m_segment_list.empty())` loop. Nothing is carried from one region to the next. -/
def runPass (o : ROpts) (regions : List (List RSeg × List (List Rat))) : List (List NState) :=
  regions.map (fun r => regionTrace o (regionVars o r.1) (initState o r.1) r.2)

/-- `PotentialSegmentConstraint` -/
abbrev Pot := Nat × Nat

def potDist (o : ROpts) (fps : List Rat) (p : Pot) : Rat :=
  if p.1 = p.2 then 0 else absQ (o.rnd (fps.getD p.1 0 - fps.getD p.2 0))

/-- stable insertion (after all elements that are not greater) -/
def insertStable (k : Pot → Rat) (a : Pot) : List Pot → List Pot
  | [] => [a]
  | b :: rest => if k a < k b then a :: b :: rest else b :: insertStable k a rest
/-- stable sort by key = the result of `std::list::sort` with `operator<` -/
def sortStable (k : Pot → Rat) (l : List Pot) : List Pot := l.foldl (fun acc a => insertStable k a acc) []

/-- all pairs (earlier, later) of a list, in the order of the two nested loops -/
def pairsOf : List Nat → List Pot
  | [] => []
  | a :: rest => rest.map (fun b => (a, b)) ++ pairsOf rest

structure UState where
  cons : List FCon
  pots : List Pot
  justAdded : Bool
  ranges : List Range
  deriving Repr, DecidableEq

/-- the variables of the unifying pass: one per segment -/
def unifyVars (o : ROpts) (segs : List RSeg) : List Var := segs.map (createVar o)

def unifyInit (o : ROpts) (segs : List RSeg) : UState :=
  let vars := unifyVars o segs
  let free := (vars.zipIdx.filter (fun vi => vi.1.weight == freeWeight)).map (·.2)
  ⟨[], pairsOf free, false, []⟩

/-- one round of the do-while loop in the unifying pass -/
def unifyStep (o : ROpts) (vars : List Var) (st : UState) (fps : List Rat) : Option (StepOut UState) :=
  match scanVars vars fps st.ranges with
  | none => none
  | some (sat, rs) =>
    if st.justAdded && st.pots.isEmpty then none else
    let (cons1, pots1) :=
      if st.justAdded then
        if !sat then (st.cons.dropLast, st.pots.drop 1)
        else
          -- `it->rewriteIndex(pc.index1, pc.index2)` over the whole list, `pc` being a REFERENCE to the
          -- front element: the first call turns the front element into (index2, index2), every later
          -- call is `rewriteIndex(index2, index2)` and changes nothing; then the front is popped.
          -- So, as the code stands, the other potential constraints keep their indexes.
          (st.cons, st.pots.drop 1)
      else (st.cons, st.pots)
    let pots2 := (sortStable (potDist o fps) pots1).dropWhile (fun p => p.1 == p.2)
    match pots2 with
    | pc :: _ =>
      some ⟨false, decide (tolD < o.base), ⟨cons1 ++ [⟨pc.1, pc.2, 0, true⟩], pots2, true, rs⟩⟩
    | [] => some ⟨sat, !sat && decide (tolD < o.base), ⟨cons1, [], false, rs⟩⟩

/-! ### write-back -/

/-- `updatePositionsFromSolver`: `max(newPos, minSpaceLimit)`, then `min(·, maxSpaceLimit)` -/
def clampR (s : RSeg) (v : Rat) : Rat := min (max v s.minLim) s.maxLim

/-- position of a segment after its region has been processed -/
def written (satisfied : Bool) (s : RSeg) (x : Rat) : Rat :=
  if satisfied then (if s.fixed then s.pos else clampR s x) else s.pos

/-- a single-segment region for which no solver instance is created -/
def skipped (o : ROpts) (segs : List RSeg) : Bool :=
  match segs with
  | [s] => !s.zigzag || o.justUnifying
  | _ => false

/-! ### region formation -/

/-- first element of the list that overlaps some element of the region (`(*curr)->overlapsWith(*curr2)`), and
    the list without it -/
def scanOverlap {α : Type} (ov : α → α → Bool) (region : List α) : List α → Option (α × List α)
  | [] => none
  | x :: rest =>
    if region.any (fun t => ov x t) then some (x, rest)
    else (scanOverlap ov region rest).map (fun p => (p.1, x :: p.2))

/-- the loop of `nudgeOrthogonalRoutes` that grows `currentRegion`: whenever an element of the remaining
    list overlaps the region it is moved to the region and the scan starts again from the beginning -/
def formLoop {α : Type} (ov : α → α → Bool) : Nat → List α → List α → List α × List α
  | 0, region, rest => (region, rest)
  | fuel + 1, region, rest =>
    match scanOverlap ov region rest with
    | none => (region, rest)
    | some (x, rest') => formLoop ov fuel (region ++ [x]) rest'

/-- one region: the front element and everything that gets attached to it -/
def formRegion {α : Type} (ov : α → α → Bool) : List α → List α × List α
  | [] => ([], [])
  | x :: rest => formLoop ov rest.length [x] rest

/-- all regions of one pass, in the order they are formed -/
def formAll {α : Type} (ov : α → α → Bool) : Nat → List α → List (List α)
  | 0, _ => []
  | _ + 1, [] => []
  | fuel + 1, x :: rest => (formRegion ov (x :: rest)).1 :: formAll ov fuel (formRegion ov (x :: rest)).2

/-! ### `linesort` (insertion sort with a partial comparator) and the rules of `CmpLineOrder` that need no point order -/

/-- what the first three rules of `CmpLineOrder::operator()` decide for (lhs, rhs): position, then
    `fixedOrder` when one of the two is fixed, then `order()`; `none` = left to the point orders
    (`PtOrderMap`, not modelled). Comparisons decided here are always "comparable". -/
def ruleCmp (nudgeDist : Rat) (l r : RSeg) : Option Bool :=
  if l.pos ≠ r.pos then some (decide (l.pos < r.pos))
  else
    let fl := fixedOrder nudgeDist l
    let fr := fixedOrder nudgeDist r
    if (fl.2 || fr.2) && decide (fl.1 ≠ fr.1) then some (decide (fl.1 < fr.1))
    else if order l ≠ order r then some (decide (order l < order r))
    else none

/-- insertion of `s` before the first element `c` with `comparison(s, c)` = (lessThan, comparable) = (true, true) -/
def insertBefore {α : Type} (cmp : α → α → Bool × Bool) (s : α) : List α → List α
  | [] => [s]
  | c :: rest => if cmp s c = (true, true) then s :: c :: rest else c :: insertBefore cmp s rest

/-- `allComparable` of the scan that `insertBefore` performs -/
def allComparableScan {α : Type} (cmp : α → α → Bool × Bool) (s : α) : List α → Bool
  | [] => true
  | c :: rest => (cmp s c).2 && (if cmp s c = (true, true) then true else allComparableScan cmp s rest)

/-- the loop of `linesort` after the merging step: take the first element of `orig`; insert it when the
    result is empty, everything scanned was comparable or enough elements have been deferred; otherwise
    defer it to the back of `orig` -/
def linesortLoop {α : Type} (cmp : α → α → Bool × Bool) : Nat → List α → List α → Nat → Nat → List α
  | 0, _, res, _, _ => res
  | _ + 1, [], res, _, _ => res
  | fuel + 1, s :: rest, res, origSize, deferred =>
    if res.isEmpty || allComparableScan cmp s res || decide (origSize ≤ deferred) then
      linesortLoop cmp fuel rest (insertBefore cmp s res) rest.length 0
    else
      linesortLoop cmp fuel (rest ++ [s]) res origSize (deferred + 1)

/-- the first adjacent pair (a directly before b) that contradicts a rule-decided comparison -/
def orderViolation (nudgeDist : Rat) : List RSeg → Option (RSeg × RSeg)
  | a :: b :: rest => if ruleCmp nudgeDist b a = some true then some (a, b) else orderViolation nudgeDist (b :: rest)
  | _ => none

/-! ### IEEE double rounding (round to nearest, ties to even; normal range only) -/

/-- largest `e` (searching downwards from `hi`, at most `fuel` steps) with `2^e ≤ r`, for `r > 0` -/
def floorLog2 (r : Rat) : Int :=
  -- r = n / d; start from bit-length estimate
  let n := r.num.natAbs
  let d := r.den
  let e0 : Int := (Nat.log2 n : Int) - (Nat.log2 d : Int)
  -- 2^(e0-1) ≤ r < 2^(e0+1): pick e0 or e0-1
  let p : Rat := if e0 ≥ 0 then ((2 ^ e0.toNat : Nat) : Rat) else 1 / ((2 ^ (-e0).toNat : Nat) : Rat)
  if p ≤ r then e0 else e0 - 1

def pow2 (e : Int) : Rat := if e ≥ 0 then ((2 ^ e.toNat : Nat) : Rat) else 1 / ((2 ^ (-e).toNat : Nat) : Rat)

/-- round half to even of a non-negative rational to an integer -/
def roundEven (q : Rat) : Int :=
  let f := q.floor
  let r := q - f
  if r < 1 / 2 then f else if 1 / 2 < r then f + 1 else if f % 2 = 0 then f else f + 1

/-- the double nearest to `r` (|r| in the normal range) -/
def roundDouble (r : Rat) : Rat :=
  if r = 0 then 0 else
  let a := absQ r
  let e := floorLog2 a
  let scale := pow2 (52 - e)
  let m := roundEven (a * scale)
  let v := (m : Rat) / scale
  if r < 0 then -v else v

end AdaptaVerif.Model.NudgeRegion
