/-
Model of the choice made by `transferStraightConstraintChoose::operator()`
(cola/libtopology/topology_constraints.cpp): when `StraightConstraint::satisfy()` splits a segment
at a new bend (scan position `mid`), every other StraightConstraint `c` of the segment is handed to
the half with the lower scan range (`lSeg`) or the upper one (`rSeg`):

    Segment* dest=rSeg;
    if(c->pos<mid) dest = lSeg;
    else if(c->pos==mid) {
        if ( (dim==XDIM && (c->ri==TL || c->ri==TR)) || (dim==YDIM && (c->ri==TR || c->ri==BR)) ) dest=lSeg; }

`dim`: 0 = XDIM (scan lines are horizontal, scan position = y), 1 = YDIM (scan position = x).
`ri`: TR=0 BR=1 BL=2 TL=3.  Core Lean only.
-/
namespace AdaptaVerif.Model.TopoTransfer

/-- tie `c->pos==mid`: the constraint's node lies on the low side of the scan line -/
def tieToLeft (dim ri : Nat) : Bool :=
  (dim == 0 && (ri == 3 || ri == 0)) || (dim == 1 && (ri == 0 || ri == 1))

/-- `true` = `lSeg`, `false` = `rSeg` -/
def destIsLeft (dim ri : Nat) (pos mid : Rat) : Bool :=
  if pos < mid then true else if pos = mid then tieToLeft dim ri else false

/-- corner code after transposing the picture (x ↔ y): TR ↦ TR, BL ↦ BL, BR ↦ TL, TL ↦ BR -/
def transposeCorner (ri : Nat) : Nat := if ri = 1 then 3 else if ri = 3 then 1 else ri

end AdaptaVerif.Model.TopoTransfer
