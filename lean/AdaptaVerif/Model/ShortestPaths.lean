/-
C17 — executable model of libcola's all-pairs shortest paths (cola/libcola/shortest_paths.h)
and of the distance / group matrices of `cola::ConstrainedFDLayout` (cola/libcola/colafd.cpp,
`computePathLengths`, `readLinearD`, `readLinearG`).  Core Lean only (linked into the driver).

Numbers: `Rat` for the finite doubles (exact on the dyadic inputs the harness generates),
`none : Dist` for the sentinel `std::numeric_limits<double>::max()` (= DBL_MAX).
The code only ever *adds* to the sentinel and compares: in IEEE round-to-nearest
`DBL_MAX + x ≥ DBL_MAX` for every `x ≥ 0` (it is `DBL_MAX` or `+inf`), so
`std::min(D[i][j], D[i][k]+D[k][j])` keeps `D[i][j]` whenever one summand is the sentinel.
That is `oadd`/`omin` below.
-/
import AdaptaVerif.Model.PairingHeap
namespace AdaptaVerif.Model.ShortestPaths

/-- weighted undirected multigraph: vertices `0 … n-1`, edges `(u, v, w)` in the order in which
    the caller's `std::vector<Edge>` / weight array list them (order matters for the code). -/
structure Graph where
  n : Nat
  edges : List (Nat × Nat × Rat)
  deriving Repr, Inhabited

/-- a distance value: `none` = the DBL_MAX sentinel ("unreachable") -/
abbrev Dist := Option Rat

/-- `a + b` as the code computes it when either side may be the sentinel -/
def oadd : Dist → Dist → Dist
  | some a, some b => some (a + b)
  | _, _ => none

/-- `std::min(a, b)` (returns `b` iff `b < a`) with the sentinel as largest value -/
def omin (a b : Dist) : Dist :=
  match a, b with
  | _, none => a
  | none, some y => some y
  | some x, some y => if y < x then some y else some x

/-- `dv > c` where `dv` may be the sentinel -/
def gtD (dv : Dist) (c : Rat) : Bool :=
  match dv with
  | none => true
  | some b => decide (c < b)

/-! ### matrices (`T** D`) -/

abbrev Mat := Array (Array Dist)

/-- `D[i][j]`; out-of-range reads give the sentinel (never happens for well-formed matrices) -/
def Mat.get (D : Mat) (i j : Nat) : Dist := ((D[i]?.getD #[])[j]?).getD none

/-- `D[i][j] = x` (no-op out of range) -/
def Mat.set (D : Mat) (i j : Nat) (x : Dist) : Mat := D.modify i (fun r => r.setIfInBounds j x)

def Mat.const (n : Nat) (x : Dist) : Mat := Array.replicate n (Array.replicate n x)

/-! ### floyd_warshall — exactly as coded -/

/-- first loop nest: `D[i][j] = (i==j) ? 0 : max` -/
def fwDiag (n : Nat) : Mat :=
  (List.range n).foldl (fun D i => D.set i i (some 0)) (Mat.const n none)

/-- second loop as it is in /repo now (after `fix: floyd_warshall keeps the lightest parallel edge
    and ignores self-loops`):  `if (u != v && w < D[u][v]) D[u][v] = D[v][u] = w;` -/
def fwEdges (es : List (Nat × Nat × Rat)) (D : Mat) : Mat :=
  es.foldl (fun D e =>
    if e.1 ≠ e.2.1 ∧ gtD (D.get e.1 e.2.1) e.2.2 = true then
      (D.set e.2.1 e.1 (some e.2.2)).set e.1 e.2.1 (some e.2.2)
    else D) D

def fwInit (g : Graph) : Mat := fwEdges g.edges (fwDiag g.n)

/-- loop body `D[i][j] = std::min(D[i][j], D[i][k] + D[k][j])`, in place -/
def relax (D : Mat) (k i j : Nat) : Mat :=
  D.set i j (omin (D.get i j) (oadd (D.get i k) (D.get k j)))

def fwRow (n k i : Nat) (D : Mat) : Mat := (List.range n).foldl (fun D j => relax D k i j) D
def fwRound (n k : Nat) (D : Mat) : Mat := (List.range n).foldl (fun D i => fwRow n k i D) D
/-- the triple loop `for k, for i, for j` -/
def fwLoop (n : Nat) (D : Mat) : Mat := (List.range n).foldl (fun D k => fwRound n k D) D

def floydWarshall (g : Graph) : Mat := fwLoop g.n (fwInit g)

/-- second loop as it was before that fix: the plain assignment `D[u][v] = D[v][u] = w` for every
    edge in order — a later parallel edge overwrites an earlier one, a self-loop overwrites the
    zero diagonal (the defect found by this property) -/
def fwEdgesOrig (es : List (Nat × Nat × Rat)) (D : Mat) : Mat :=
  es.foldl (fun D e => (D.set e.2.1 e.1 (some e.2.2)).set e.1 e.2.1 (some e.2.2)) D

def floydWarshallOrig (g : Graph) : Mat := fwLoop g.n (fwEdgesOrig g.edges (fwDiag g.n))

/-! ### dijkstra / johnsons -/

/-- adjacency list of `u` exactly as `dijkstra_init` builds it: for edge `(a,b,w)` in order,
    `vs[a]` gets `(b,w)` then `vs[b]` gets `(a,w)` (a self-loop contributes two entries) -/
def adj (es : List (Nat × Nat × Rat)) (u : Nat) : List (Nat × Rat) :=
  match es with
  | [] => []
  | (a, b, w) :: rest =>
    (if a = u then [(b, w)] else []) ++ ((if b = u then [(a, w)] else []) ++ adj rest u)

abbrev Vec := Array Dist
def Vec.at (d : Vec) (v : Nat) : Dist := (d[v]?).getD none

/-- one pass of the inner loop: `if (u->d != max && v->d > u->d + w) { v->d = u->d + w; decreaseKey }`
    (`u->d` is re-read every time, as in the code) -/
def relaxEdge (u : Nat) (d : Vec) (vw : Nat × Rat) : Vec :=
  match d.at u with
  | none => d
  | some a => if gtD (d.at vw.1) (a + vw.2) then d.setIfInBounds vw.1 (some (a + vw.2)) else d

/-- abstract priority queue: `sel d q` removes from the pending list `q` an element whose key
    `d` is minimal (any one of them; the pairing heap's tie-breaking is not modelled). -/
abbrev Selector := Vec → List Nat → Option (Nat × List Nat)

/-- key order with the sentinel on top: `a ≤ b` -/
def leD (a b : Dist) : Bool :=
  match a, b with
  | _, none => true
  | none, some _ => false
  | some x, some y => decide (x ≤ y)

/-- concrete selector used by the driver: first minimal element of the list -/
def selMinAux (d : Vec) : Nat → List Nat → Nat
  | best, [] => best
  | best, x :: xs => if leD (d.at best) (d.at x) then selMinAux d best xs else selMinAux d x xs

def selMin : Selector := fun d q =>
  match q with
  | [] => none
  | x :: xs => let u := selMinAux d x xs; some (u, q.erase u)

structure DState where
  d : Vec        -- `vs[i].d`
  out : Vec      -- the caller's `T* d`, written at extraction time
  q : List Nat   -- contents of the heap

def dijkstraStep (es : List (Nat × Nat × Rat)) (st : DState) (u : Nat) (q' : List Nat) : DState :=
  { d := (adj es u).foldl (relaxEdge u) st.d, out := st.out.setIfInBounds u (st.d.at u), q := q' }

/-- `while(!Q.isEmpty())` with fuel (`n` extractions empty the heap) -/
def dijkstraLoop (sel : Selector) (es : List (Nat × Nat × Rat)) : Nat → DState → DState
  | 0, st => st
  | fuel + 1, st =>
    match sel st.d st.q with
    | none => st
    | some (u, q') => dijkstraLoop sel es fuel (dijkstraStep es st u q')

def dijkstraInit (n s : Nat) : DState :=
  { d := (Array.replicate n none).setIfInBounds s (some 0), out := Array.replicate n none, q := List.range n }

/-- `dijkstra(s, n, d, es, eweights)`: the vector written to `d` -/
def dijkstra (sel : Selector) (g : Graph) (s : Nat) : Vec :=
  (dijkstraLoop sel g.edges g.n (dijkstraInit g.n s)).out

/-- `johnsons`: `dijkstra(k, vs, D[k])` for every `k` -/
def johnsons (sel : Selector) (g : Graph) : Mat :=
  ((List.range g.n).map (dijkstra sel g)).toArray

/-! ### dijkstra exactly as coded: driven by the pairing heap

`PairingHeap<Node<T>*,CompareNodes<T>> Q`; all nodes inserted in index order; `extractMin`;
`d[u->id]=u->d`; for every neighbour `if (u->d != max && v->d > u->d+w) { v->d = u->d+w;
Q.decreaseKey(v->qnode, v); }`.  The heap stores node pointers and compares `u->d < v->d`; the
model stores the key `d[v]` next to the identity `v` (they agree whenever the heap is touched,
because a key only changes immediately before its `decreaseKey`). -/

open AdaptaVerif.Model.PairingHeap in
structure HState where
  d : Vec
  out : Vec
  heap : PTree Dist
  order : List Nat          -- extraction order, most recent first (observable for the correspondence only)

open AdaptaVerif.Model.PairingHeap in
def relaxEdgeH (u : Nat) (st : Vec × PTree Dist) (vw : Nat × Rat) : Vec × PTree Dist :=
  match st.1.at u with
  | none => st
  | some a =>
    if gtD (st.1.at vw.1) (a + vw.2) then
      (st.1.setIfInBounds vw.1 (some (a + vw.2)), decreaseKey ltDist st.2 vw.1 (some (a + vw.2)))
    else st

open AdaptaVerif.Model.PairingHeap in
/-- `for i in 0..n-1: vs[i].qnode = Q.insert(&vs[i])` -/
def heapInit (d : Vec) (n : Nat) : PTree Dist :=
  (List.range n).foldl (fun h i => insert ltDist h (d.at i) i) .nil

open AdaptaVerif.Model.PairingHeap in
def dijkstraHeapLoop (es : List (Nat × Nat × Rat)) : Nat → HState → HState
  | 0, st => st
  | fuel + 1, st =>
    match findMin st.heap with
    | none => st
    | some (_, u) =>
      let r := (adj es u).foldl (relaxEdgeH u) (st.d, deleteMin ltDist st.heap)
      dijkstraHeapLoop es fuel
        { d := r.1, out := st.out.setIfInBounds u (st.d.at u), heap := r.2, order := u :: st.order }

def dijkstraHeapInit (n s : Nat) : HState :=
  let d : Vec := (Array.replicate n none).setIfInBounds s (some 0)
  { d := d, out := Array.replicate n none, heap := heapInit d n, order := [] }

def dijkstraHeapRun (g : Graph) (s : Nat) : HState := dijkstraHeapLoop g.edges g.n (dijkstraHeapInit g.n s)

/-- `dijkstra(s, n, d, es, eweights)` with the real queue discipline -/
def dijkstraHeap (g : Graph) (s : Nat) : Vec := (dijkstraHeapRun g s).out

/-- order in which the nodes leave the heap -/
def dijkstraHeapOrder (g : Graph) (s : Nat) : List Nat := (dijkstraHeapRun g s).order.reverse

def johnsonsHeap (g : Graph) : Mat := ((List.range g.n).map (dijkstraHeap g)).toArray

/-! ### ConstrainedFDLayout: D and G matrices -/

/-- `if (eLengths[i] <= 0) eLengths[i] = 1` -/
def fixLen (l : Rat) : Rat := if l ≤ 0 then 1 else l

/-- graph handed to `johnsons` by `computePathLengths`: `lens = none` is the empty `EdgeLengths`
    (every edge has length 1), otherwise one raw length per edge, non-positive ones replaced by 1 -/
def layoutGraph (n : Nat) (es : List (Nat × Nat)) (lens : Option (List Rat)) : Graph :=
  match lens with
  | none => { n := n, edges := es.map fun e => (e.1, e.2, 1) }
  | some ls => { n := n, edges := List.zipWith (fun e l => (e.1, e.2, fixLen l)) es ls }

/-- off-diagonal: sentinel stays, finite `d` becomes `d * idealLength`; diagonal untouched -/
def scaleEntry (ideal : Rat) (i j : Nat) (d : Dist) : Dist :=
  if i = j then d else match d with
    | none => none
    | some x => some (x * ideal)

def layoutD (sel : Selector) (n : Nat) (es : List (Nat × Nat)) (lens : Option (List Rat)) (ideal : Rat) : Mat :=
  (johnsons sel (layoutGraph n es lens)).mapIdx fun i row => row.mapIdx fun j d => scaleEntry ideal i j d

/-- G classes for `i ≠ j` before the edge pass: 0 = different components, 2 = connected -/
def gClass (d : Dist) : Nat := if d.isNone then 0 else 2

/-- `G[u][v]` (`none` on the diagonal when no self-loop writes it: the library leaves it
    uninitialised): 1 for adjacent pairs, else 0 / 2 -/
def layoutGEntry (es : List (Nat × Nat)) (J : Mat) (i j : Nat) : Option Nat :=
  if es.any (fun e => (e.1 = i ∧ e.2 = j) ∨ (e.1 = j ∧ e.2 = i)) then some 1
  else if i = j then none
  else some (gClass (J.get i j))

end AdaptaVerif.Model.ShortestPaths
