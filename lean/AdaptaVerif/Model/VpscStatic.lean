/-
Hand-written executable model of the STATIC VPSC solver `vpsc::Solver`
(cola/libvpsc/solve_VPSC.cpp `Solver::{Solver, satisfy, refine, solve, copyResult}`,
 blocks.cpp `Blocks::{totalOrder, dfsVisit, mergeLeft, mergeRight, removeBlock, cleanup, split}`,
 block.cpp `Block::{setUpInConstraints, setUpOutConstraints, setUpConstraintHeap, findMinInConstraint,
 findMinOutConstraint, deleteMinInConstraint, deleteMinOutConstraint, merge(b,c,dist), mergeIn, mergeOut,
 findMinLM, compute_dfdv, split, populateSplitBlock, updateWeightedPosition}`,
 constraint.cpp `CompareConstraints`, pairing_heap.h) over exact rationals.  Core Lean only.

The variable / constraint / block arrays are those of the IncSolver model (`Model/Vpsc.lean`, type `St`),
so that `computeDfdv`, `St.findMinLM`, `St.split` (= `Block::split` + `populateSplitBlock`), `shiftVars`,
`blockPosn` are shared — and with them the block invariant `InvC` and its preservation lemmas.

What is new here (type `HS`, the "heap side" of the solver state):
 * `Block::in` / `Block::out` : per block an `Option` (none = `nullptr`) of a pairing heap, the functional
   model `Model/PairingHeap.lean` of pairing_heap.h (same link / two-pass combine / merge), whose elements
   are constraint indices and whose comparison is `conLt` = `CompareConstraints` evaluated on the CURRENT
   solver state at the time of each heap operation — exactly as the C++ heap calls `lessThan` on
   `Constraint*`s whose slack / time stamps / blocks change under it.  The heap can therefore hold
   entries that are out of order w.r.t. the current keys; the lazy repair of `findMinInConstraint`
   (internal constraints dropped at the root, out-of-date ones popped, re-stamped and re-inserted) is
   modelled step by step.
 * `Block::timeStamp` (`bts`), `Constraint::timeStamp` (`cts`), `Blocks::blockTimeCtr` (`ctr`).
 * margins: every heap operation notes the smallest distance between two distinct finite comparator keys
   among the constraints it touches (a superset of the comparisons actually made); `c->slack()<0`,
   `lm<LAGRANGIAN_TOLERANCE`, the arg-min of `findMinLM` and the exit scans note theirs.  An exact tie
   (difference 0 in Rat) is resolved by the ids like in the code; it is noted as margin 0 only once some
   block position was not a small dyadic rational (`exact = false`), i.e. when the doubles of the code
   may have rounded.
All loops take fuel; running out is reported (`fuelOut`), never hidden.
-/
import AdaptaVerif.Model.Vpsc
import AdaptaVerif.Model.PairingHeap
namespace AdaptaVerif.Model.VpscStatic
open AdaptaVerif.Model.Vpsc
open AdaptaVerif.Model.PairingHeap (PTree)

abbrev Heap := PTree Nat

/-- the heap / time-stamp / bookkeeping side of the static solver's state -/
structure HS where
  inH : Array (Option Heap)
  outH : Array (Option Heap)
  bts : Array Nat
  cts : Array Nat
  ctr : Nat := 0
  margin : Rat := BIG
  exact : Bool := true
  fuelOut : Bool := false
  nInternal : Nat := 0       -- internal constraints dropped at a heap root
  nStale : Nat := 0          -- out-of-date constraints popped and re-inserted
  nMergeL : Nat := 0         -- mergeLeft merges, r survives
  nMergeLSwap : Nat := 0     -- mergeLeft merges with the roles swapped (l survives)
  nMergeR : Nat := 0
  nMergeRSwap : Nat := 0
  nSplit : Nat := 0          -- refine splits
  nRounds : Nat := 0         -- refine rounds
  nDead : Nat := 0           -- variables skipped in satisfy because their block was already deleted
  deriving Inhabited

structure SSt where
  st : St
  hs : HS
  deriving Inhabited

/-! ### the comparator -/

def blkOf (st : St) (i : Nat) : Nat := (st.vars[i]!).block

/-- `Constraint::slack()` (never flagged in the static solver) -/
def rawSlack (st : St) (ci : Nat) : Rat :=
  let c := st.cons[ci]!
  st.uval c.r - c.gap - st.uval c.l

/-- `l->left->block == l->right->block` -/
def internal (st : St) (ci : Nat) : Bool :=
  let c := st.cons[ci]!
  blkOf st c.l == blkOf st c.r

/-- `l->left->block->timeStamp > l->timeStamp` -/
def stale (st : St) (hs : HS) (ci : Nat) : Bool :=
  hs.cts[ci]! < hs.bts[blkOf st (st.cons[ci]!).l]!

/-- the comparator's key: `none` = `-DBL_MAX` -/
def key (st : St) (hs : HS) (ci : Nat) : Option Rat :=
  if stale st hs ci || internal st ci then none else some (rawSlack st ci)

/-- the id tie-break of `CompareConstraints` -/
def idLt (st : St) (a b : Nat) : Bool :=
  let ca := st.cons[a]!
  let cb := st.cons[b]!
  if ca.l == cb.l then decide (ca.r < cb.r) else decide (ca.l < cb.l)

/-- `CompareConstraints::operator()(l, r)` on the current state -/
def conLt (st : St) (hs : HS) (a b : Nat) : Bool :=
  match key st hs a, key st hs b with
  | none, none => idLt st a b
  | none, some _ => true
  | some _, none => false
  | some x, some y => if x = y then idLt st a b else decide (x < y)

/-! ### margins -/

def isDyadic (x : Rat) : Bool :=
  let d := x.den
  (d &&& (d - 1)) == 0 && d < 1099511627776 && x.num.natAbs < 1099511627776

def HS.note (hs : HS) (m : Rat) : HS := { hs with margin := rmin hs.margin (rabs m) }

/-- a comparison of `x` with 0: an exact 0 is a real tie only if rounding may have happened -/
def HS.noteCmp (hs : HS) (x : Rat) : HS :=
  if x = 0 && hs.exact then hs else hs.note x

def HS.out (hs : HS) : HS := { hs with fuelOut := true }

/-- smallest distance between two finite keys among `cs` (0 only if `exact = false`) -/
def HS.noteKeys (st : St) (hs : HS) (cs : List Nat) : HS :=
  let ks := (cs.filterMap fun ci => key st hs ci).toArray.qsort (fun a b => decide (a < b))
  let g := (List.range (ks.size - 1)).foldl (init := BIG) fun g i =>
    let d := ks[i + 1]! - ks[i]!
    if d = 0 && hs.exact then g else rmin g d
  hs.note g

def heapElems (h : Heap) : List Nat := (PairingHeap.elems h).map (·.1)

/-! ### construction -/

/-- `Solver::Solver(vs, cs)`: `Blocks(vs)` = one block per variable; heaps are `nullptr`, stamps 0 -/
def SSt.init (vs : Array (Rat × Rat × Rat)) (cs : Array Con) : SSt :=
  let st := St.init vs cs
  { st := st,
    hs := { inH := Array.replicate vs.size none, outH := Array.replicate vs.size none,
            bts := Array.replicate vs.size 0, cts := Array.replicate cs.size 0 } }

/-! ### `Block::setUpConstraintHeap` -/

/-- the constraints looked at by `setUpConstraintHeap(h, in)` in the order of the two nested loops -/
def heapCands (st : St) (b : Nat) (isIn : Bool) : List Nat :=
  ((st.blocks[b]!).vars.toList.map fun v =>
    (if isIn then (st.vars[v]!).ins else (st.vars[v]!).outs).toList).flatten

/-- one pass of the inner loop body: stamp, then insert if the other end is outside block `b` -/
def setUpStep (st : St) (b : Nat) (isIn : Bool) (acc : HS × Heap) (ci : Nat) : HS × Heap :=
  let hs := { acc.1 with cts := acc.1.cts.set! ci acc.1.ctr }
  let c := st.cons[ci]!
  let other := if isIn then blkOf st c.l else blkOf st c.r
  if other != b then (hs, PairingHeap.insert (conLt st hs) acc.2 ci ci) else (hs, acc.2)

def setUpHeap (st : St) (hs : HS) (b : Nat) (isIn : Bool) : HS × Heap :=
  let cands := heapCands st b isIn
  let r := cands.foldl (setUpStep st b isIn) (hs, .nil)
  (r.1.noteKeys st (heapElems r.2), r.2)

/-- `Block::setUpInConstraints()` -/
def setUpIn (st : St) (hs : HS) (b : Nat) : HS :=
  let r := setUpHeap st hs b true
  { r.1 with inH := r.1.inH.set! b (some r.2) }

/-- `Block::setUpOutConstraints()` -/
def setUpOut (st : St) (hs : HS) (b : Nat) : HS :=
  let r := setUpHeap st hs b false
  { r.1 with outH := r.1.outH.set! b (some r.2) }

/-! ### `Block::findMinInConstraint` / `findMinOutConstraint` -/

/-- the `while (!in->isEmpty())` loop: returns the heap and the `outOfDate` vector -/
def findMinInLoop (st : St) : Nat → HS → Heap → List Nat → HS × Heap × List Nat
  | 0, hs, _, _ => (hs.out, .nil, [])
  | fuel + 1, hs, h, ood =>
    match PairingHeap.findMin h with
    | none => (hs, h, ood)
    | some (v, _) =>
      if internal st v then
        findMinInLoop st fuel { hs with nInternal := hs.nInternal + 1 } (PairingHeap.deleteMin (conLt st hs) h) ood
      else if stale st hs v then
        findMinInLoop st fuel { hs with nStale := hs.nStale + 1 } (PairingHeap.deleteMin (conLt st hs) h) (ood ++ [v])
      else (hs, h, ood)

/-- `v->timeStamp=blocks->blockTimeCtr; in->insert(v);` -/
def reinsertStep (st : St) (acc : HS × Heap) (v : Nat) : HS × Heap :=
  let hs := { acc.1 with cts := acc.1.cts.set! v acc.1.ctr }
  (hs, PairingHeap.insert (conLt st hs) acc.2 v v)

/-- `Block::findMinInConstraint()` on the heap `h` of some block: (state, repaired heap, its root) -/
def findMinInHeap (st : St) (hs : HS) (h : Heap) : HS × Heap × Option Nat :=
  let hs := hs.noteKeys st (heapElems h)
  let r := findMinInLoop st ((heapElems h).length + 1) hs h []
  let q := r.2.2.foldl (reinsertStep st) (r.1, r.2.1)
  let hs := if r.2.2.isEmpty then q.1 else q.1.noteKeys st (heapElems q.2)
  (hs, q.2, (PairingHeap.findMin q.2).map (·.1))

def getIn (hs : HS) (b : Nat) : Heap := (hs.inH[b]!).getD .nil
def getOut (hs : HS) (b : Nat) : Heap := (hs.outH[b]!).getD .nil

def findMinIn (st : St) (hs : HS) (b : Nat) : HS × Option Nat :=
  let r := findMinInHeap st hs (getIn hs b)
  ({ r.1 with inH := r.1.inH.set! b (some r.2.1) }, r.2.2)

/-- the loop of `Block::findMinOutConstraint()`: drop internal constraints at the root -/
def findMinOutLoop (st : St) : Nat → HS → Heap → HS × Heap
  | 0, hs, _ => (hs.out, .nil)
  | fuel + 1, hs, h =>
    match PairingHeap.findMin h with
    | none => (hs, h)
    | some (v, _) =>
      if internal st v then
        findMinOutLoop st fuel { hs with nInternal := hs.nInternal + 1 } (PairingHeap.deleteMin (conLt st hs) h)
      else (hs, h)

def findMinOut (st : St) (hs : HS) (b : Nat) : HS × Option Nat :=
  let h := getOut hs b
  let hs := hs.noteKeys st (heapElems h)
  let r := findMinOutLoop st ((heapElems h).length + 1) hs h
  ({ r.1 with outH := r.1.outH.set! b (some r.2) }, (PairingHeap.findMin r.2).map (·.1))

def deleteMinIn (st : St) (hs : HS) (b : Nat) : HS :=
  { hs with inH := hs.inH.set! b (some (PairingHeap.deleteMin (conLt st hs) (getIn hs b))) }

def deleteMinOut (st : St) (hs : HS) (b : Nat) : HS :=
  { hs with outH := hs.outH.set! b (some (PairingHeap.deleteMin (conLt st hs) (getOut hs b))) }

/-- `Block::mergeIn(b)` -/
def mergeIn (st : St) (hs : HS) (dst src : Nat) : HS :=
  let hs := (findMinIn st hs dst).1
  let hs := (findMinIn st hs src).1
  let hs := hs.noteKeys st (heapElems (getIn hs dst) ++ heapElems (getIn hs src))
  { hs with inH := (hs.inH.set! dst (some (PairingHeap.merge (conLt st hs) (getIn hs dst) (getIn hs src)))).set! src (some .nil) }

/-- `Block::mergeOut(b)` -/
def mergeOut (st : St) (hs : HS) (dst src : Nat) : HS :=
  let hs := (findMinOut st hs dst).1
  let hs := (findMinOut st hs src).1
  let hs := hs.noteKeys st (heapElems (getOut hs dst) ++ heapElems (getOut hs src))
  { hs with outH := (hs.outH.set! dst (some (PairingHeap.merge (conLt st hs) (getOut hs dst) (getOut hs src)))).set! src (some .nil) }

/-! ### `Block::merge(b, c, dist)` -/

/-- `dst->merge(src, c, d)`: `c` becomes active, every variable of `src` gets `offset += d` and joins
    `dst` (appended in order), `dst`'s position is recomputed, `src` is marked deleted -/
def mergeDir (st : St) (ci dst src : Nat) (d : Rat) : St :=
  let cons := st.cons.set! ci { st.cons[ci]! with active := true }
  let vars := shiftVars st.vars src dst d
  let bd := st.blocks[dst]!
  let bs := st.blocks[src]!
  let blocks := st.blocks.set! dst { bd with vars := bd.vars ++ bs.vars }
  let blocks := blocks.set! src { bs with deleted := true }
  ({ st with cons := cons, vars := vars, blocks := blocks, nMerge := st.nMerge + 1 } : St).refreshBlock dst

def HS.checkExact (hs : HS) (st : St) (b : Nat) : HS :=
  if isDyadic (st.blocks[b]!).posn then hs else { hs with exact := false }

def blockSize (st : St) (b : Nat) : Nat := (st.blocks[b]!).vars.size

/-! ### `Blocks::mergeLeft` -/

/-- first half of the body of the `while` loop of `Blocks::mergeLeft` (heap side):
    `r->deleteMinInConstraint(); l = c->left->block; if (l->in==nullptr) l->setUpInConstraints(); … blockTimeCtr++;` -/
def mergeLeftPre (s : SSt) (r c : Nat) : HS :=
  let st := s.st
  let hs := deleteMinIn st s.hs r
  let l := blkOf st (st.cons[c]!).l
  let hs := if (hs.inH[l]!).isNone then setUpIn st hs l else hs
  let swap := blockSize st r < blockSize st l
  { hs with ctr := hs.ctr + 1,
            nMergeL := hs.nMergeL + (if swap then 0 else 1),
            nMergeLSwap := hs.nMergeLSwap + (if swap then 1 else 0) }

/-- body of the `while` loop of `Blocks::mergeLeft` for the violated constraint `c` at the root of
    `r`'s in-heap; returns the surviving block -/
def mergeLeftStep (s : SSt) (r c : Nat) : SSt × Nat :=
  let st := s.st
  let con := st.cons[c]!
  let l := blkOf st con.l
  let dist := (st.vars[con.r]!).offset - (st.vars[con.l]!).offset - con.gap
  let swap := blockSize st r < blockSize st l
  let r' := if swap then l else r
  let l' := if swap then r else l
  let dist' := if swap then -dist else dist
  let st' := mergeDir st c r' l' dist'
  let hs := mergeIn st' ((mergeLeftPre s r c).checkExact st' r') r' l'
  ({ st := st', hs := { hs with bts := hs.bts.set! r' hs.ctr } }, r')

def mergeLeftLoop : Nat → SSt → Nat → SSt
  | 0, s, _ => { s with hs := s.hs.out }
  | fuel + 1, s, r =>
    let q := findMinIn s.st s.hs r
    match q.2 with
    | none => { s with hs := q.1 }
    | some c =>
      let sl := rawSlack s.st c
      let hs := q.1.noteCmp sl
      if sl < 0 then
        let p := mergeLeftStep { s with hs := hs } r c
        mergeLeftLoop fuel p.1 p.2
      else { s with hs := hs }

def loopFuel (st : St) : Nat := st.cons.size + st.vars.size + 2

/-- `Blocks::mergeLeft(r)` -/
def mergeLeft (s : SSt) (r : Nat) : SSt :=
  let hs := { s.hs with ctr := s.hs.ctr + 1 }
  let hs := { hs with bts := hs.bts.set! r hs.ctr }
  let hs := setUpIn s.st hs r
  mergeLeftLoop (loopFuel s.st) { s with hs := hs } r

/-! ### `Blocks::mergeRight` -/

/-- first half of the body of the `while` loop of `Blocks::mergeRight` (heap side):
    `l->deleteMinOutConstraint(); r = c->right->block; r->setUpOutConstraints();` -/
def mergeRightPre (s : SSt) (l c : Nat) : HS :=
  let st := s.st
  let hs := deleteMinOut st s.hs l
  let r := blkOf st (st.cons[c]!).r
  let hs := setUpOut st hs r
  let swap := blockSize st l > blockSize st r
  { hs with nMergeR := hs.nMergeR + (if swap then 0 else 1),
            nMergeRSwap := hs.nMergeRSwap + (if swap then 1 else 0) }

def mergeRightStep (s : SSt) (l c : Nat) : SSt × Nat :=
  let st := s.st
  let con := st.cons[c]!
  let r := blkOf st con.r
  let dist := (st.vars[con.l]!).offset + con.gap - (st.vars[con.r]!).offset
  let swap := blockSize st l > blockSize st r
  let l' := if swap then r else l
  let r' := if swap then l else r
  let dist' := if swap then -dist else dist
  let st' := mergeDir st c l' r' dist'
  let hs := mergeOut st' ((mergeRightPre s l c).checkExact st' l') l' r'
  ({ st := st', hs := hs }, l')

def mergeRightLoop : Nat → SSt → Nat → SSt
  | 0, s, _ => { s with hs := s.hs.out }
  | fuel + 1, s, l =>
    let q := findMinOut s.st s.hs l
    match q.2 with
    | none => { s with hs := q.1 }
    | some c =>
      let sl := rawSlack s.st c
      let hs := q.1.noteCmp sl
      if sl < 0 then
        let p := mergeRightStep { s with hs := hs } l c
        mergeRightLoop fuel p.1 p.2
      else { s with hs := hs }

/-- `Blocks::mergeRight(l)` -/
def mergeRight (s : SSt) (l : Nat) : SSt :=
  let hs := setUpOut s.st s.hs l
  mergeRightLoop (loopFuel s.st) { s with hs := hs } l

/-! ### `Blocks::totalOrder` / `dfsVisit` -/

/-- `Blocks::dfsVisit(v, order)`: (visited, order, fuel-ok) -/
def dfsVisit (st : St) : Nat → Array Bool → List Nat → Nat → Array Bool × List Nat × Bool
  | 0, vis, ord, _ => (vis, ord, false)
  | fuel + 1, vis, ord, v =>
    let vis := vis.set! v true
    let acc := (st.vars[v]!).outs.foldl (init := (vis, ord, true)) fun (vis, ord, ok) ci =>
      let c := st.cons[ci]!
      if !(vis[c.r]!) then
        let (vis, ord, ok') := dfsVisit st fuel vis ord c.r
        (vis, ord, ok && ok')
      else (vis, ord, ok)
    (acc.1, v :: acc.2.1, acc.2.2)

/-- `Blocks::totalOrder()` -/
def totalOrder (st : St) : List Nat × Bool :=
  let n := st.vars.size
  let r := (List.range n).foldl (init := (Array.replicate n false, ([] : List Nat), true)) fun (vis, ord, ok) i =>
    if (st.vars[i]!).ins.size == 0 then
      let (vis, ord, ok') := dfsVisit st (n + 1) vis ord i
      (vis, ord, ok && ok')
    else (vis, ord, ok)
  (r.2.1, r.2.2)

/-! ### `Solver::satisfy` -/

/-- loop body of `Solver::satisfy`: `if(!v->block->deleted) bs->mergeLeft(v->block);` -/
def satisfyStep (s : SSt) (v : Nat) : SSt :=
  let b := blkOf s.st v
  if (s.st.blocks[b]!).deleted then { s with hs := { s.hs with nDead := s.hs.nDead + 1 } }
  else mergeLeft s b

/-- the exit scan `if(cs[i]->slack() < ZERO_UPPERBOUND) throw` -/
def scanStatic (st : St) : Bool :=
  (List.range st.cons.size).all fun ci => decide (ZERO_UPPERBOUND ≤ rawSlack st ci)

/-- margins of the exit scan: a constraint that is satisfied exactly (slack ≥ 0 in Rat; active ones have
    slack 0) is `≥ ZERO_UPPERBOUND` in doubles too unless rounding errors reach 1e-10, which the position
    tolerance would show; only negative slacks are decisions that can flip -/
def noteScan (st : St) (hs : HS) : HS :=
  (List.range st.cons.size).foldl (fun hs ci =>
    if rawSlack st ci < 0 then hs.note (rawSlack st ci - ZERO_UPPERBOUND) else hs) hs

def SSt.cleanup (s : SSt) : SSt := { s with st := s.st.cleanup }

def SSt.bad (s : SSt) : Bool := s.hs.fuelOut || s.st.fuelOut

/-- everything of `Solver::satisfy()` before the exit scan -/
def satisfyCore (s : SSt) : SSt :=
  let o := totalOrder s.st
  let s := { s with hs := if o.2 then s.hs else s.hs.out }
  (o.1.foldl satisfyStep s).cleanup

/-- `Solver::satisfy()` -/
def SSt.satisfy (s : SSt) : SSt × Outcome :=
  let s := satisfyCore s
  let s := { s with hs := noteScan s.st s.hs }
  if s.bad then (s, .outOfFuel)
  else if scanStatic s.st then (s, .ok s.st.positions (s.st.cons.any (·.active)))
  else (s, .threw)

/-! ### `Blocks::split`, `Solver::refine`, `Solver::solve` -/

def setPosn (st : St) (b : Nat) (p : Rat) : St :=
  { st with blocks := st.blocks.set! b { st.blocks[b]! with posn := p } }

/-- `new Block(blocks)` twice: the two fresh blocks `lid`, `rid` (= the next two block ids) get null heaps
    and time stamp 0.  The explicit `set!`s are no-ops when the heap arrays are as long as the block array
    (always, in a run from `SSt.init`); they make "a fresh block has no heap" independent of that. -/
def HS.newBlocks (hs : HS) (lid rid : Nat) : HS :=
  { hs with inH := (((hs.inH.push none).push none).set! lid none).set! rid none,
            outH := (((hs.outH.push none).push none).set! lid none).set! rid none,
            bts := (((hs.bts.push 0).push 0).set! lid 0).set! rid 0 }

/-- first part of `Blocks::split(b, l, r, c)`: `b->split(l,r,c); m_blocks.push_back(l); m_blocks.push_back(r);
    r->posn = b->posn;` — returns the state and the new block `l` -/
def splitPre (s : SSt) (b c : Nat) : SSt × Nat :=
  let oldPosn := (s.st.blocks[b]!).posn
  let q := s.st.split b c
  let st := setPosn (q.1.insertBlocks q.2.1 q.2.2) q.2.2 oldPosn
  let hs := ((s.hs.newBlocks q.2.1 q.2.2).checkExact st q.2.1)
  ({ st := st, hs := { hs with nSplit := hs.nSplit + 1 } }, q.2.1)

/-- `r = c->right->block; r->updateWeightedPosition();` — returns the state and `r` -/
def splitMid (s : SSt) (c : Nat) : SSt × Nat :=
  let r := blkOf s.st (s.st.cons[c]!).r
  let st := s.st.refreshBlock r
  ({ st := st, hs := s.hs.checkExact st r }, r)

/-- `Blocks::split(b, l, r, c)` -/
def splitStatic (s : SSt) (b c : Nat) : SSt :=
  let p := splitPre s b c
  let s1 := mergeLeft p.1 p.2
  let q := splitMid s1 c
  let s2 := mergeRight q.1 q.2
  { s2 with st := s2.st.markDeleted b }                               -- `removeBlock(b);`

/-- the two `for` loops of one round of `Solver::refine`: returns the state and whether a split happened -/
def refineSetUp (s : SSt) : SSt :=
  { s with hs := s.st.order.toList.foldl (fun hs b => setUpOut s.st (setUpIn s.st hs b) b) s.hs }

/-- the body of the second `for` loop of `Solver::refine` for block `b`:
    (state, leave the loop?, was a split made?) -/
def refineTry (s : SSt) (b : Nat) : SSt × Bool × Bool :=
  let r := s.st.findMinLM b
  match r.2 with
  | none => ({ s with st := r.1 }, false, false)
  | some (ci, lmv, gap) =>
    let hs := s.hs.note (lmv - LAGRANGIAN_TOLERANCE)
    if lmv < LAGRANGIAN_TOLERANCE then
      ((splitStatic { st := r.1, hs := hs.noteCmp gap } b ci).cleanup, true, true)
    else ({ st := r.1, hs := hs }, false, false)

def refineScan (s : SSt) : List Nat → SSt × Bool
  | [] => (s, false)
  | b :: rest =>
    let t := refineTry s b
    if t.2.1 then (t.1, t.2.2) else refineScan t.1 rest

def refineLoop : Nat → SSt → SSt
  | 0, s => s                                    -- `maxtries` exhausted: the code just leaves the loop
  | tries + 1, s =>
    let s := refineSetUp { s with hs := { s.hs with nRounds := s.hs.nRounds + 1 } }
    let r := refineScan s s.st.order.toList
    if r.2 then refineLoop tries r.1 else r.1

/-- `Solver::refine()` before its exit scan -/
def refineCore (s : SSt) : SSt := refineLoop 100 s

/-- `Solver::solve()` -/
def SSt.solve (s : SSt) : SSt × Outcome :=
  match s.satisfy with
  | (s, .ok _ _) =>
    let s := refineCore s
    let s := { s with hs := noteScan s.st s.hs }
    if s.bad then (s, .outOfFuel)
    else if scanStatic s.st then (s, .ok s.st.positions (s.st.order.size != s.st.vars.size))
    else (s, .threw)
  | r => r

/-! ### observables for the correspondence -/

/-- the block of every variable, named by the smallest variable index in it -/
def partitionOf (st : St) : Array Nat :=
  let n := st.vars.size
  let rep : Array Nat := (List.range n).foldl (init := Array.replicate st.blocks.size n) fun rep i =>
    let b := blkOf st i
    if i < rep[b]! then rep.set! b i else rep
  (Array.range n).map fun i => rep[blkOf st i]!

/-- executable form of the hypotheses of `Props/C01Static.static_quiescent_is_optimum` on a final state:
    (every block of `m_blocks` stationary: Σ dfdv/scale = 0, every constraint holds exactly,
     no block has a split candidate below `tol`) -/
def quiescentOk (st : St) (tol : Rat) : Bool × Bool × Bool :=
  let stat := st.order.all fun b =>
    ((List.range st.vars.size).filter (fun x => blkOf st x == b)).foldl
      (fun acc x => acc + st.dfdv x / (st.vars[x]!).scale) 0 == 0
  let feas := (List.range st.cons.size).all fun ci => decide (0 ≤ rawSlack st ci)
  let lmOk := st.order.all fun b =>
    match (st.findMinLM b).2 with | none => true | some (_, l, _) => decide (tol ≤ l)
  (stat, feas, lmOk)

/-- the block invariant as an executable predicate (evaluated by the driver on every final model
    state): active constraints join two variables of one block and are tight in offsets; every block of
    `m_blocks` is live, its members point back to it and it has exactly `size - 1` active constraints;
    the blocks cover the variables -/
def invOkStatic (st : St) : Bool :=
  let consOk := st.cons.all fun c =>
    !c.active || (blkOf st c.l == blkOf st c.r &&
                  (st.vars[c.r]!).offset - c.gap - (st.vars[c.l]!).offset == 0)
  let blocksOk := st.order.all fun bid =>
    let b := st.blocks[bid]!
    !b.deleted && b.vars.size > 0 && b.vars.all (fun i => blkOf st i == bid) &&
    (st.cons.filter fun c => c.active && blkOf st c.l == bid).size + 1 == b.vars.size
  let coverOk := (st.order.foldl (fun acc bid => acc + (st.blocks[bid]!).vars.size) 0) == st.vars.size
  consOk && blocksOk && coverOk

end AdaptaVerif.Model.VpscStatic
