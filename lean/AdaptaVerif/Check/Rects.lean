/-
Executable checkers for C09 (core Lean only).  Soundness theorems: `Lemmas/ScanlineCheck.lean`,
`Props/C09.lean`.
-/
import AdaptaVerif.Model.Scanline
namespace AdaptaVerif.Check.Rects
open AdaptaVerif.Model.Scanline

def rmin (a b : Rat) : Rat := if a ≤ b then a else b
def rmax (a b : Rat) : Rat := if a ≤ b then b else a

/-- length of the intersection of [a1,a2] and [b1,b2] (negative = distance apart) -/
def ovLen (a1 a2 b1 b2 : Rat) : Rat := rmin a2 b2 - rmax a1 b1

/-- the two rectangles overlap by more than `tol` in both axes -/
def overlapsBy (tol : Rat) (u v : Rect) : Bool :=
  decide (tol < ovLen u.minX u.maxX v.minX v.maxX) && decide (tol < ovLen u.minY u.maxY v.minY v.maxY)

/-- first overlapping pair (i<j), if any -/
def findOverlap (rs : Array Rect) (tol : Rat) : Option (Nat × Nat) :=
  (List.range rs.size).findSome? fun i =>
    ((List.range rs.size).find? fun j => i < j && overlapsBy tol (rectAt rs i) (rectAt rs j)).map
      fun j => (i, j)

/-- no pair of distinct rectangles overlaps by more than `tol` in both axes -/
def noOverlap (rs : Array Rect) (tol : Rat) : Bool :=
  (List.range rs.size).all fun i => (List.range rs.size).all fun j =>
    !(i < j && overlapsBy tol (rectAt rs i) (rectAt rs j))

/-- widths and heights unchanged up to `tol` (0 = exactly) -/
def sizesKept (old new : Array Rect) (tol : Rat) : Bool :=
  old.size == new.size &&
  (List.range old.size).all fun i =>
    let a := rectAt old i
    let b := rectAt new i
    let dw := (b.maxX - b.minX) - (a.maxX - a.minX)
    let dh := (b.maxY - b.minY) - (a.maxY - a.minY)
    decide (-tol ≤ dw) && decide (dw ≤ tol) && decide (-tol ≤ dh) && decide (dh ≤ tol)

/-- `y` satisfies every separation constraint `y l + gap ≤ y r` -/
def satisfiedBy (y : Nat → Rat) (cs : List Con) : Bool :=
  cs.all fun c => decide (y c.l + c.gap ≤ y c.r)

/-- acyclicity certificate: every constraint goes up in the ordering witness `pos` -/
def acyclicBy (pos : Nat → Nat) (cs : List Con) : Bool :=
  cs.all fun c => decide (pos c.l < pos c.r)

/-- every constraint asks for at least half the two lengths -/
def gapsCover (ax : Axis) (cs : List Con) : Bool :=
  cs.all fun c => decide ((ax.sz c.l + ax.sz c.r) / 2 ≤ c.gap)

/-- every constraint asks for exactly half the two lengths -/
def gapsExact (ax : Axis) (cs : List Con) : Bool :=
  cs.all fun c => decide ((ax.sz c.l + ax.sz c.r) / 2 = c.gap)

/-- the scan extents of `u` and `v` meet in the code's sense: each opens no later than the
    other closes (Open is processed before Close at equal positions, so touching counts) -/
def scanMeet (ax : Axis) (u v : Nat) : Bool :=
  decide (ax.opn u ≤ ax.cls v) && decide (ax.opn v ≤ ax.cls u)

/-! ### reachability certificate
`mask[u]` (a bit set) claims: every `v` with bit `v` set is reachable from `u` by a non-empty
chain of constraints.  `reachOK` checks the claim locally: `mask[u] ⊆ ⋃_{(u,w)∈cs} {w} ∪ mask[w]`;
together with `acyclicBy` this makes the claim well-founded. -/

def maskAt (masks : Array Nat) (u : Nat) : Nat := masks.getD u 0

def succUnion (masks : Array Nat) (cs : List Con) (u : Nat) : Nat :=
  cs.foldl (fun acc c => if c.l = u then acc ||| (1 <<< c.r) ||| maskAt masks c.r else acc) 0

def reachOK (masks : Array Nat) (cs : List Con) : Bool :=
  (List.range masks.size).all fun u => (maskAt masks u ||| succUnion masks cs u) == succUnion masks cs u

/-- every pair whose scan extents meet is joined by a chain, one way or the other -/
def pairsChained (ax : Axis) (n : Nat) (masks : Array Nat) : Bool :=
  (List.range n).all fun u => (List.range n).all fun v =>
    !(u < v && scanMeet ax u v) || (maskAt masks u).testBit v || (maskAt masks v).testBit u

/-- the sweep extents overlap by a positive length (touching does not count): only such pairs can
    overlap with positive area, whatever the placement in the constraint dimension -/
def scanMeetStrict (ax : Axis) (u v : Nat) : Bool :=
  decide (ax.opn u < ax.cls v) && decide (ax.opn v < ax.cls u)

def firstUnchainedStrict (ax : Axis) (n : Nat) (masks : Array Nat) : Option (Nat × Nat) :=
  (List.range n).findSome? fun u =>
    ((List.range n).find? fun v =>
      u < v && scanMeetStrict ax u v && !((maskAt masks u).testBit v || (maskAt masks v).testBit u)).map
      fun v => (u, v)

def firstUnchained (ax : Axis) (n : Nat) (masks : Array Nat) : Option (Nat × Nat) :=
  (List.range n).findSome? fun u =>
    ((List.range n).find? fun v =>
      u < v && scanMeet ax u v && !((maskAt masks u).testBit v || (maskAt masks v).testBit u)).map
      fun v => (u, v)

/-- The separation certificate check: ordering witness, gaps, local reachability claims, and
    every meeting pair chained.  Sound by `Props.C09.sepCert_sound`. -/
def sepCert (ax : Axis) (n : Nat) (cs : List Con) (pos : Nat → Nat) (masks : Array Nat) : Bool :=
  acyclicBy pos cs && gapsCover ax cs && (List.range n).all (fun i => decide (0 ≤ ax.sz i))
    && cs.all (fun c => c.l < n && c.r < n) && cs.all (fun c => pos c.r < n)
    && masks.size == n && reachOK masks cs && pairsChained ax n masks

/-! ### untrusted certificate producers (no theorem needed: their output is checked) -/

/-- Kahn's algorithm: position of every node in a topological order, or `none` on a cycle -/
def topoPos (n : Nat) (cs : List Con) : Option (Array Nat) := Id.run do
  let mut indeg : Array Nat := Array.replicate n 0
  let mut adj : Array (List Nat) := Array.replicate n []
  for c in cs do
    if c.l < n && c.r < n then
      indeg := indeg.modify c.r (· + 1)
      adj := adj.modify c.l (c.r :: ·)
    else return none
  let mut queue : List Nat := (List.range n).filter (fun i => indeg[i]! == 0)
  let mut pos : Array Nat := Array.replicate n 0
  let mut k := 0
  let mut fuel := n + 1
  while fuel > 0 && !queue.isEmpty do
    fuel := fuel - 1
    let mut next : List Nat := []
    for u in queue do
      pos := pos.set! u k
      k := k + 1
      for w in adj[u]! do
        indeg := indeg.modify w (· - 1)
        if indeg[w]! == 0 then next := w :: next
    queue := next
  if k == n then some pos else none

/-- reachability bit sets by dynamic programming in reverse topological order -/
def reachMasks (n : Nat) (cs : List Con) (pos : Array Nat) : Array Nat := Id.run do
  let mut order : Array Nat := Array.replicate n 0
  for i in [0:n] do
    order := order.set! (pos.getD i 0) i
  let mut adj : Array (List Nat) := Array.replicate n []
  for c in cs do
    adj := adj.modify c.l (c.r :: ·)
  let mut masks : Array Nat := Array.replicate n 0
  for k in [0:n] do
    let u := order[n - 1 - k]!
    let mut m := 0
    for w in adj[u]! do
      m := m ||| (1 <<< w) ||| masks[w]!
    masks := masks.set! u m
  return masks

end AdaptaVerif.Check.Rects
