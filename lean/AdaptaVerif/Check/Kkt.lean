/-
Executable KKT certificate checker and exact active-set oracle for the VPSC quadratic
program (property C02). Core Lean only (linked into the driver).

* `checkKkt P x lam : Bool` decides well-formedness, feasibility, stationarity, multiplier
  signs and complementary slackness exactly over `Rat`. Its soundness
  (`checkKkt … = true → IsOptimum P x`) is `AdaptaVerif.Props.C02.checkKkt_sound`.
* `Oracle.solve` searches for the optimum with an exact active-set method (blocks = trees of
  active constraints, block position = weighted mean, multipliers by tree recursion, drop the
  most negative multiplier / add the most violated constraint). The search is *not* verified and
  need not be: the driver trusts its answer only after `checkKkt` accepted it.
-/
import AdaptaVerif.Spec.Qp
namespace AdaptaVerif.Check.Kkt
open AdaptaVerif.Spec.Qp

/-! ### certificate checker -/

def checkWF (P : Problem) : Bool :=
  (List.range P.n).all (fun i => decide (0 < P.w i)) &&
  P.cons.all (fun c => decide (c.l < P.n) && decide (c.r < P.n))

def holdsB (s : Nat → Rat) (c : Con) (x : Nat → Rat) : Bool :=
  if c.eq then decide (slack s c x = 0) else decide (0 ≤ slack s c x)

def feasibleB (P : Problem) (x : Nat → Rat) : Bool :=
  P.cons.all (fun c => holdsB P.s c x)

def stationaryB (P : Problem) (x : Nat → Rat) (cl : List (Con × Rat)) : Bool :=
  (List.range P.n).all (fun i => decide (2 * P.w i * (x i - P.d i) = conGrad P.s cl i))

def signCompB (P : Problem) (x : Nat → Rat) (cl : List (Con × Rat)) : Bool :=
  cl.all (fun p => (p.1.eq || decide (0 ≤ p.2)) && decide (p.2 * slack P.s p.1 x = 0))

/-- exact KKT check: `lam` holds one multiplier per constraint, in the order of `P.cons` -/
def checkKkt (P : Problem) (x : Nat → Rat) (lam : List Rat) : Bool :=
  checkWF P && decide (lam.length = P.cons.length) && feasibleB P x &&
  stationaryB P x (P.cons.zip lam) && signCompB P x (P.cons.zip lam)

/-! ### problem data as arrays -/

structure QpData where
  d : Array Rat
  w : Array Rat
  s : Array Rat
  cons : Array Con
  deriving Inhabited

def QpData.n (q : QpData) : Nat := q.d.size

def fnOf (a : Array Rat) : Nat → Rat := fun i => a.getD i 0

def QpData.toProblem (q : QpData) : Problem :=
  { n := q.n, d := fnOf q.d, w := fnOf q.w, s := fnOf q.s, cons := q.cons.toList }

/-- sizes consistent, indices in range, weights and scales positive -/
def QpData.valid (q : QpData) : Bool :=
  q.w.size == q.n && q.s.size == q.n && q.w.all (fun v => decide (0 < v)) &&
  q.s.all (fun v => decide (0 < v)) && q.cons.all (fun c => decide (c.l < q.n) && decide (c.r < q.n))

/-! ### active-set oracle (unverified search; its result is certified by `checkKkt`) -/
namespace Oracle

structure State where
  x : Array Rat        -- positions
  lam : Array Rat      -- multipliers (0 for inactive constraints)
  comp : Array Nat     -- block id per variable
  parent : Array Nat   -- parent variable in the block tree (self for roots)
  pedge : Array Nat    -- constraint index of the edge to the parent (m for roots)
  depth : Array Nat
  deriving Inhabited

/-- incident constraint indices per variable -/
def adjacency (q : QpData) : Array (Array Nat) := Id.run do
  let mut adj : Array (Array Nat) := Array.replicate q.n #[]
  for k in [0:q.cons.size] do
    let c := q.cons[k]!
    adj := adj.modify c.l (·.push k)
    if c.r != c.l then adj := adj.modify c.r (·.push k)
  return adj

/-- Blocks, exact block positions and multipliers for an active set; `none` if the active
    constraints do not form a forest. -/
def evalActive (q : QpData) (adj : Array (Array Nat)) (active : Array Bool) : Option State := Id.run do
  let n := q.n
  let m := q.cons.size
  let mut comp : Array Nat := Array.replicate n n
  let mut off : Array Rat := Array.replicate n 0
  let mut parent : Array Nat := Array.replicate n 0
  let mut pedge : Array Nat := Array.replicate n m
  let mut depth : Array Nat := Array.replicate n 0
  let mut order : Array Nat := Array.mkEmpty n
  let mut ncomp := 0
  let mut bad := false
  for root in [0:n] do
    if comp[root]! != n then continue
    comp := comp.set! root ncomp
    parent := parent.set! root root
    let start := order.size
    order := order.push root
    let mut head := start
    for _ in [0:n] do
      if head ≥ order.size then break
      let v := order[head]!
      head := head + 1
      for k in adj[v]! do
        if !active[k]! || k == pedge[v]! then continue
        let c := q.cons[k]!
        if c.l == c.r then
          bad := true
          continue
        let t := if c.l == v then c.r else c.l
        if comp[t]! != n then
          bad := true
          continue
        comp := comp.set! t ncomp
        parent := parent.set! t v
        pedge := pedge.set! t k
        depth := depth.set! t (depth[v]! + 1)
        off := off.set! t (if c.l == v then off[v]! + c.gap else off[v]! - c.gap)
        order := order.push t
    ncomp := ncomp + 1
  if bad then return none
  -- block positions (scaled space u_i = s_i x_i = p + off_i)
  let mut num : Array Rat := Array.replicate ncomp 0
  let mut den : Array Rat := Array.replicate ncomp 0
  for i in [0:n] do
    let b := comp[i]!
    let si := q.s[i]!
    let wi := q.w[i]!
    num := num.set! b (num[b]! + wi / si * (q.d[i]! - off[i]! / si))
    den := den.set! b (den[b]! + wi / (si * si))
  let mut x : Array Rat := Array.replicate n 0
  for i in [0:n] do
    let b := comp[i]!
    x := x.set! i ((num[b]! / den[b]! + off[i]!) / q.s[i]!)
  -- multipliers: subtree sums of dfdv_i / s_i, children before parents
  let mut t : Array Rat := Array.replicate n 0
  for i in [0:n] do
    t := t.set! i (2 * q.w[i]! * (x[i]! - q.d[i]!) / q.s[i]!)
  let mut lam : Array Rat := Array.replicate m 0
  for j in [0:order.size] do
    let v := order[order.size - 1 - j]!
    let k := pedge[v]!
    if k < m then
      let c := q.cons[k]!
      lam := lam.set! k (if c.r == v then t[v]! else -t[v]!)
      let p := parent[v]!
      t := t.set! p (t[p]! + t[v]!)
  return some { x := x, lam := lam, comp := comp, parent := parent, pedge := pedge, depth := depth }

def slackAt (q : QpData) (x : Array Rat) (c : Con) : Rat :=
  q.s[c.r]! * x[c.r]! - c.gap - q.s[c.l]! * x[c.l]!

/-- the inequality tree edge with minimal multiplier that is traversed left-to-right when
    walking from `a` to `b` inside one block (relaxing it lets `b` move away from `a`) -/
def splitEdge (q : QpData) (st : State) (a b : Nat) : Option Nat := Id.run do
  let m := q.cons.size
  let mut best : Option Nat := none
  let mut u := a
  let mut v := b
  for _ in [0:2 * q.n + 2] do
    if u == v then break
    if st.depth[u]! ≥ st.depth[v]! then
      -- step a-side upwards: travelling u → parent; forward iff edge.l = u
      let k := st.pedge[u]!
      if k < m then
        let c := q.cons[k]!
        if c.l == u && !c.eq then
          best := match best with
            | some k0 => if st.lam[k]! < st.lam[k0]! then some k else some k0
            | none => some k
      u := st.parent[u]!
    else
      -- step b-side upwards: the walk goes parent → v; forward iff edge.r = v
      let k := st.pedge[v]!
      if k < m then
        let c := q.cons[k]!
        if c.r == v && !c.eq then
          best := match best with
            | some k0 => if st.lam[k]! < st.lam[k0]! then some k else some k0
            | none => some k
      v := st.parent[v]!
  return best

inductive Outcome where
  | optimum (x : Array Rat) (lam : Array Rat) (iters : Nat)
  | infeasible (iters : Nat)
  | outOfFuel
  | notForest
  deriving Inhabited

def run (q : QpData) (start : Array Bool) (fuel : Nat) : Outcome := Id.run do
  let m := q.cons.size
  let adj := adjacency q
  let mut active := start
  for it in [0:fuel] do
    match evalActive q adj active with
    | none => return .notForest
    | some st =>
      -- most violated inactive constraint (first unsatisfied equality wins)
      let mut worst : Option (Nat × Rat) := none
      for k in [0:m] do
        if active[k]! then continue
        let c := q.cons[k]!
        let sl := slackAt q st.x c
        if c.eq then
          if sl != 0 then
            worst := some (k, sl)
            break
        else if sl < 0 then
          match worst with
          | some (_, s0) => if sl < s0 then worst := some (k, sl)
          | none => worst := some (k, sl)
      match worst with
      | some (k, sl) =>
        let c := q.cons[k]!
        if st.comp[c.l]! != st.comp[c.r]! then
          active := active.set! k true
        else
          -- same block: the tree fixes the distance; relax an edge on the path first
          let e := if sl < 0 then splitEdge q st c.l c.r else splitEdge q st c.r c.l
          match e with
          | none => return .infeasible it
          | some k0 =>
            active := active.set! k0 false
            active := active.set! k true
      | none =>
        -- feasible: look for a negative multiplier on an active inequality
        let mut neg : Option (Nat × Rat) := none
        for k in [0:m] do
          if !active[k]! || q.cons[k]!.eq then continue
          let l := st.lam[k]!
          if l < 0 then
            match neg with
            | some (_, l0) => if l < l0 then neg := some (k, l)
            | none => neg := some (k, l)
        match neg with
        | some (k, _) => active := active.set! k false
        | none => return .optimum st.x st.lam it
  return .outOfFuel

/-- Exact optimum with multipliers, starting from a hint active set (e.g. the one reported by
    the implementation) and falling back to the empty active set. -/
def solve (q : QpData) (hint : Array Bool) : Outcome :=
  let m := q.cons.size
  let fuel := 20 * (q.n + m) + 100
  let hint := if hint.size == m then hint else Array.replicate m false
  match run q hint fuel with
  | .optimum x lam it => .optimum x lam it
  | _ => run q (Array.replicate m false) fuel

end Oracle

/-- certified optimum: the oracle's answer, returned only if `checkKkt` accepts it -/
def certifiedOptimum (q : QpData) (hint : Array Bool) : Option (Array Rat × Array Rat × Nat) :=
  if !q.valid then none else
  match Oracle.solve q hint with
  | .optimum x lam it =>
    if checkKkt q.toProblem (fnOf x) lam.toList then some (x, lam, it) else none
  | _ => none

end AdaptaVerif.Check.Kkt
