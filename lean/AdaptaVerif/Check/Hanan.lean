/-
C05: verifier for an *optimal orthogonal route* certificate on the Hanan grid.  Core Lean only.

Scene: axis-parallel rectangles (routing boxes, i.e. already expanded by shapeBufferDistance), two
endpoints with libavoid `ConnDirFlags` masks (Up=1 Down=2 Left=4 Right=8; Up = decreasing y), and
the bend penalty.  The grid is computed *here* from the scene (sides of all boxes + endpoint
coordinates).  Search states are (grid point, heading); an edge moves to the adjacent grid point in
any heading along a grid line that does not cross the open interior of any box, and costs its
length plus the bend charge of makepath.cpp `cost()` (`pen` for a quarter turn, `2·pen` for
doubling back, nothing straight on).
The (untrusted) harness supplies a potential over the states and a witness path; this file checks
  * feasibility  π(u) ≤ w + π(v)  on every edge,  π(goal) ≤ 0,
  * the witness is a walk of the graph from the source to a goal state,
  * cost(witness) = min over allowed first moves (len + π)  =: the certified optimum.
Soundness (Lemmas/Hanan.lean, Props/C05.lean): every route of the state graph costs at least the
returned value, and the witness attains it.
-/
namespace AdaptaVerif.Check.Hanan

structure Rect where
  x0 : Rat
  y0 : Rat
  x1 : Rat
  y1 : Rat
  deriving Repr, Inhabited

structure Scene where
  rects : List Rect
  sx : Rat
  sy : Rat
  tx : Rat
  ty : Rat
  smask : Nat
  tmask : Nat
  pen : Rat
  deriving Repr, Inhabited

structure Grid where
  xs : Array Rat
  ys : Array Rat
  deriving Repr, Inhabited

/-- insert into a strictly increasing list, keeping it strictly increasing -/
def insertSorted (x : Rat) : List Rat → List Rat
  | [] => [x]
  | y :: t => if x < y then x :: y :: t else if x = y then y :: t else y :: insertSorted x t

def mkGrid (sc : Scene) : Grid :=
  let xs := sc.rects.foldl (fun acc r => insertSorted r.x0 (insertSorted r.x1 acc)) [sc.sx]
  let ys := sc.rects.foldl (fun acc r => insertSorted r.y0 (insertSorted r.y1 acc)) [sc.sy]
  { xs := (insertSorted sc.tx xs).toArray, ys := (insertSorted sc.ty ys).toArray }

def Grid.nx (g : Grid) : Nat := g.xs.size
def Grid.ny (g : Grid) : Nat := g.ys.size
def Grid.px (g : Grid) (i : Nat) : Rat := g.xs.getD i 0
def Grid.py (g : Grid) (j : Nat) : Rat := g.ys.getD j 0

/-- search state: grid point (i, j) entered with heading h (0=N(-y) 1=E(+x) 2=S(+y) 3=W(-x)) -/
structure State where
  i : Nat
  j : Nat
  h : Nat
  deriving DecidableEq, Repr, Inhabited

def hdx : Nat → Int
  | 1 => 1
  | 3 => -1
  | _ => 0

def hdy : Nat → Int
  | 0 => -1
  | 2 => 1
  | _ => 0

/-- the `ConnDirFlags` bit saying "the endpoint is visible towards heading h" -/
def visBit : Nat → Nat
  | 0 => 1
  | 1 => 8
  | 2 => 2
  | _ => 4

def absR (r : Rat) : Rat := if r < 0 then -r else r

/-- does the open segment (a, b) meet the open interior of `r`?  Non axis-parallel segments count
    as blocked. -/
def segBlockedBy (r : Rect) (ax ay bx by_ : Rat) : Bool :=
  if ay = by_ then
    decide (r.y0 < ay ∧ ay < r.y1 ∧ max (min ax bx) r.x0 < min (max ax bx) r.x1)
  else if ax = bx then
    decide (r.x0 < ax ∧ ax < r.x1 ∧ max (min ay by_) r.y0 < min (max ay by_) r.y1)
  else true

def segBlocked (sc : Scene) (ax ay bx by_ : Rat) : Bool :=
  sc.rects.any (fun r => segBlockedBy r ax ay bx by_)

def inRange (g : Grid) (u : State) : Prop := u.i < g.nx ∧ u.j < g.ny ∧ u.h < 4

instance (g : Grid) (u : State) : Decidable (inRange g u) := by unfold inRange; infer_instance

/-- the grid neighbour of `u` in heading `d`, if inside the grid -/
def move (g : Grid) (u : State) (d : Nat) : Option State :=
  let i' : Int := (u.i : Int) + hdx d
  let j' : Int := (u.j : Int) + hdy d
  if 0 ≤ i' ∧ i' < g.nx ∧ 0 ≤ j' ∧ j' < g.ny then some ⟨i'.toNat, j'.toNat, d⟩ else none

/-- bend charge for changing heading from `h` to `d`, as in makepath.cpp `cost()`: nothing when
    going straight on, one `segmentPenalty` for a quarter turn, two for doubling back -/
def turnCost (pen : Rat) (h d : Nat) : Rat :=
  if d = h then 0 else if d = (h + 2) % 4 then 2 * pen else pen

/-- the edge leaving `u` in heading `d` (none: outside the grid, or blocked) -/
def edge (sc : Scene) (g : Grid) (u : State) (d : Nat) : Option (State × Rat) :=
  match move g u d with
  | none => none
  | some v =>
    let ax := g.px u.i
    let ay := g.py u.j
    let bx := g.px v.i
    let by_ := g.py v.j
    if segBlocked sc ax ay bx by_ then none
    else some (v, absR (bx - ax) + absR (by_ - ay) + turnCost sc.pen u.h d)

def succ (sc : Scene) (g : Grid) (u : State) : List (State × Rat) :=
  [0, 1, 2, 3].filterMap (edge sc g u)

def idxOf (a : Array Rat) (x : Rat) : Nat := (a.toList.findIdx (fun y => y = x))

/-- first moves out of the source: any heading in which the source is visible; no bend is charged -/
def firstMoves (sc : Scene) (g : Grid) : List (State × Rat) :=
  let si := idxOf g.xs sc.sx
  let sj := idxOf g.ys sc.sy
  [0, 1, 2, 3].filterMap (fun d =>
    if sc.smask &&& visBit d ≠ 0 then edge sc g ⟨si, sj, d⟩ d else none)

/-- the path may end at the target when entered with a heading `h` such that the target is visible
    towards where the path comes from, i.e. towards `reverse h` -/
def isGoal (sc : Scene) (g : Grid) (t : State) : Bool :=
  t.i = idxOf g.xs sc.tx ∧ t.j = idxOf g.ys sc.ty ∧ sc.tmask &&& visBit ((t.h + 2) % 4) ≠ 0

structure Cert where
  pot : Array Rat               -- index ((j * nx + i) * 4 + h)
  wit : List State              -- states after each move of the witness route
  deriving Repr, Inhabited

def potAt (g : Grid) (c : Cert) (u : State) : Rat := c.pot.getD ((u.j * g.nx + u.i) * 4 + u.h) 0

def allStates (g : Grid) : List State :=
  (List.range g.nx).flatMap fun i => (List.range g.ny).flatMap fun j =>
    (List.range 4).map fun h => ⟨i, j, h⟩

def feasible (sc : Scene) (g : Grid) (c : Cert) : Bool :=
  (allStates g).all fun u => (succ sc g u).all fun e => potAt g c u ≤ e.2 + potAt g c e.1

def goalsOk (sc : Scene) (g : Grid) (c : Cert) : Bool :=
  (allStates g).all fun t => !isGoal sc g t || potAt g c t ≤ 0

/-- cost of walking from `u` through the given successive states (none: not a walk of the graph) -/
def walkCost (sc : Scene) (g : Grid) : State → List State → Option Rat
  | _, [] => some 0
  | u, v :: rest =>
    if inRange g u then
      match (succ sc g u).find? (fun e => e.1 = v) with
      | some e =>
        match walkCost sc g v rest with
        | some c => some (e.2 + c)
        | none => none
      | none => none
    else none

def lastState : State → List State → State
  | u, [] => u
  | _, v :: rest => lastState v rest

def minList : List Rat → Option Rat
  | [] => none
  | x :: t => match minList t with
    | none => some x
    | some m => some (if x ≤ m then x else m)

/-- lower bound given by the potential: cheapest (first move + potential) -/
def lowerBound (sc : Scene) (g : Grid) (c : Cert) : Option Rat :=
  minList ((firstMoves sc g).map fun e => e.2 + potAt g c e.1)

/-- cost of the witness route (none: not a route from the source to a goal) -/
def witnessCost (sc : Scene) (g : Grid) (c : Cert) : Option Rat :=
  match c.wit with
  | [] => none
  | v :: rest =>
    match (firstMoves sc g).find? (fun e => e.1 = v) with
    | none => none
    | some e =>
      match walkCost sc g v rest with
      | none => none
      | some w => if isGoal sc g (lastState v rest) then some (e.2 + w) else none

/-- `some opt`: the certificate proves that `opt` is the minimum route cost of the state graph -/
def checkCert (sc : Scene) (c : Cert) : Option Rat :=
  let g := mkGrid sc
  if feasible sc g c && goalsOk sc g c then
    match lowerBound sc g c, witnessCost sc g c with
    | some lb, some wc => if lb = wc then some lb else none
    | _, _ => none
  else none

/-- diagnostic variant for the driver -/
def explain (sc : Scene) (c : Cert) : String :=
  let g := mkGrid sc
  if c.pot.size ≠ g.nx * g.ny * 4 then s!"potential has {c.pot.size} entries, grid {g.nx}x{g.ny}x4"
  else if !feasible sc g c then "potential infeasible on some edge"
  else if !goalsOk sc g c then "potential positive at a goal state"
  else match lowerBound sc g c, witnessCost sc g c with
    | none, _ => "no first move (source walled in or empty mask)"
    | _, none => "witness is not a route of the state graph"
    | some lb, some wc => if lb = wc then "ok" else s!"witness cost {wc} ≠ potential bound {lb}"

end AdaptaVerif.Check.Hanan
