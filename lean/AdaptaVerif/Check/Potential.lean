/-
Shortest-path certificates on an explicit finite weighted digraph (core Lean only).

The graph is an edge list; because Euclidean lengths are irrational every edge carries a rational
*enclosure* [wlo, whi] of its true weight.  A certificate for "the optimum s → t" is
  * a potential π (list of rationals indexed by vertex) with π(s) = 0 and
    π(v) ≤ π(u) + wlo(u,v) for every edge  — a lower bound of every s–t walk is π(t), and
  * a witness walk s → t along edges of the list — its Σ whi is an upper bound of the optimum.
`checkCert` verifies both and returns the certified interval [π(t), Σ whi].
Soundness: Props/C04 (`potential_lower_bound`, `checkCert_sound`).

`specGraph` builds the explicit *spec visibility graph* of a scene: vertices = the given points
(all shape corners + the connector endpoints), an edge u → v iff the segment is spec-unblocked
(`¬ segHitsInterior` for every shape, decided by the proven checker of Check/Route.lean), weight
enclosure = certified square-root enclosure of the squared distance.
-/
import AdaptaVerif.Check.Route
import AdaptaVerif.Num.Sqrt
namespace AdaptaVerif.Check.Potential
open AdaptaVerif.Model.Geometry (Pt)
open AdaptaVerif.Check.Route AdaptaVerif.Num

structure WEdge where
  u : Nat
  v : Nat
  wlo : Rat
  whi : Rat
  deriving Repr, Inhabited, DecidableEq

/-- potential lookup; vertices outside the list get 0 -/
def potAt (pot : List Rat) (v : Nat) : Rat := pot.getD v 0

/-- dual feasibility on every edge (with the *lower* end of the weight enclosure) -/
def feasible (edges : List WEdge) (pot : List Rat) : Bool :=
  edges.all fun e => decide (potAt pot e.v ≤ potAt pot e.u + e.wlo)

/-- first edge u → v of the list -/
def findEdge (edges : List WEdge) (u v : Nat) : Option WEdge :=
  edges.find? fun e => e.u == u && e.v == v

/-- Σ whi along the vertex path, `none` if some step is not an edge -/
def pathHi (edges : List WEdge) : List Nat → Option Rat
  | [] => some 0
  | [_] => some 0
  | a :: b :: rest =>
    match findEdge edges a b, pathHi edges (b :: rest) with
    | some e, some c => some (e.whi + c)
    | _, _ => none

/-- verify the certificate; result = certified enclosure [lo, hi] of the optimal s–t cost -/
def checkCert (edges : List WEdge) (pot : List Rat) (s t : Nat) (path : List Nat) : Option (Rat × Rat) :=
  if potAt pot s = 0 ∧ feasible edges pot = true ∧ path.head? = some s ∧ path.getLast? = some t then
    (pathHi edges path).map fun hi => (potAt pot t, hi)
  else none

/-! ### the spec visibility graph -/

def sqDist (p q : Pt) : Rat := dist2 p.x p.y q.x q.y

/-- edges from vertex i (point p) to the vertices j ≥ j0 listed in `qs` -/
def edgesFrom (shapes : List Poly) (excl : List Nat) (k : Nat) (i : Nat) (p : Pt) : List Pt → Nat → List WEdge
  | [], _ => []
  | q :: qs, j =>
    let rest := edgesFrom shapes excl k i p qs (j + 1)
    if i != j && !legHitsAny 0 excl shapes 0 (p, q) then
      { u := i, v := j, wlo := sqrtLo (sqDist p q) k, whi := sqrtHi (sqDist p q) k } :: rest
    else rest

def specGraphFrom (shapes : List Poly) (excl : List Nat) (k : Nat) (all : List Pt) : List Pt → Nat → List WEdge
  | [], _ => []
  | p :: ps, i => edgesFrom shapes excl k i p all 0 ++ specGraphFrom shapes excl k all ps (i + 1)

/-- all ordered pairs (i, j), i ≠ j, of `pts` whose segment is spec-unblocked -/
def specGraph (shapes : List Poly) (excl : List Nat) (k : Nat) (pts : List Pt) : List WEdge :=
  specGraphFrom shapes excl k pts pts 0

end AdaptaVerif.Check.Potential
