/-
Exact route / obstacle checkers over `Rat` (core Lean only, linked into the driver).
Reused by C03, C04 (and meant for C06, C10, C13, C14).

API (everything else in this file is a helper):

* `Poly`                      convex polygon = list of vertices (`Pt` of Model/Geometry), either orientation
* `polyEdges poly`                cyclic edge list (v0,v1),(v1,v2),…,(v_{n-1},v0)
* `lerp p q t`                the point p + t·(q−p)
* `insideBy s tol poly p`     Bool: ≥3 vertices and for every edge (a,b):  s·area2 a b p > tol·‖b−a‖₁
                              (s = 1: counter-clockwise polygon, s = −1: clockwise).  Because
                              ‖b−a‖₁ ≥ ‖b−a‖₂, `insideBy s tol` implies "inside, at Euclidean distance
                              > tol from every edge line" and is implied by distance > √2·tol.
* `strictlyInside poly p`     Bool: p in the open convex polygon (tol = 0, either orientation)
* `segHitsInteriorTol tol poly p q`  Bool, exact (Cyrus–Beck / Liang–Barsky clipping of the parameter
                              interval): some point of the closed segment pq is `insideBy tol`.
* `segHitsInterior poly p q`  = `segHitsInteriorTol 0`: the segment meets the open polygon.
* `legs route`                consecutive point pairs of a polyline
* `routeValid shapes excl src dst route tol`  Bool: ≥ 2 points, first = src, last = dst, and no leg
                              hits (by margin tol) a shape whose index is not in `excl`.
* `axisParallel p q`, `routeOrthogonal route`   exact axis-parallel tests.
* `containing shapes p`       indices of the shapes that contain p strictly (the `excl` list of C03).

Soundness / completeness theorems: `AdaptaVerif.Props.C03` (statements in Spec/Route.lean).
-/
import AdaptaVerif.Model.Geometry
namespace AdaptaVerif.Check.Route
open AdaptaVerif.Model.Geometry (Pt area2)

abbrev Poly := List Pt

/-- cyclic edge list -/
def polyEdges : Poly → List (Pt × Pt)
  | [] => []
  | v :: vs => (v :: vs).zip (vs ++ [v])

def rabs (r : Rat) : Rat := if r < 0 then -r else r
def rmax (a b : Rat) : Rat := if a < b then b else a
def rmin (a b : Rat) : Rat := if b < a then b else a

/-- L1 length of the edge a→b (an upper bound of its Euclidean length) -/
def l1 (a b : Pt) : Rat := rabs (b.x - a.x) + rabs (b.y - a.y)

/-- p + t (q − p) -/
def lerp (p q : Pt) (t : Rat) : Pt := ⟨p.x + t * (q.x - p.x), p.y + t * (q.y - p.y)⟩

/-- all edge half-plane tests hold with margin: `s·area2 a b p > tol·‖b−a‖₁` -/
def insideEdges (s tol : Rat) (es : List (Pt × Pt)) (p : Pt) : Bool :=
  es.all fun e => decide (tol * l1 e.1 e.2 < s * area2 e.1 e.2 p)

def insideBy (s tol : Rat) (poly : Poly) (p : Pt) : Bool :=
  decide (3 ≤ poly.length) && insideEdges s tol (polyEdges poly) p

def strictlyInsideTol (tol : Rat) (poly : Poly) (p : Pt) : Bool :=
  insideBy 1 tol poly p || insideBy (-1) tol poly p

def strictlyInside (poly : Poly) (p : Pt) : Bool := strictlyInsideTol 0 poly p

/-- Clip the open parameter interval (lo, hi) against the constraints `c + t·d > 0`;
    true iff some t with lo < t < hi satisfies all of them. -/
def clip : List (Rat × Rat) → Rat → Rat → Bool
  | [], lo, hi => decide (lo < hi)
  | (c, d) :: cs, lo, hi =>
    if 0 < d then clip cs (rmax lo (-c / d)) hi
    else if d < 0 then clip cs lo (rmin hi (-c / d))
    else decide (0 < c) && clip cs lo hi

/-- the affine constraint of edge e along the segment pq:  value at p, and increment to q -/
def edgeConstraint (s tol : Rat) (p q : Pt) (e : Pt × Pt) : Rat × Rat :=
  (s * area2 e.1 e.2 p - tol * l1 e.1 e.2, s * (area2 e.1 e.2 q - area2 e.1 e.2 p))

/-- quick reject (no division): some constraint fails at both ends of the segment, hence on all of it -/
def quickReject (cs : List (Rat × Rat)) : Bool :=
  cs.any fun cd => decide (cd.1 ≤ 0) && decide (cd.1 + cd.2 ≤ 0)

/-- one orientation: does some point of the closed segment pq satisfy `insideBy s tol`? -/
def segHitsOriented (s tol : Rat) (poly : Poly) (p q : Pt) : Bool :=
  let cs := (polyEdges poly).map (edgeConstraint s tol p q)
  !quickReject cs &&
  (insideBy s tol poly p || insideBy s tol poly q || (decide (3 ≤ poly.length) && clip cs 0 1))

def segHitsInteriorTol (tol : Rat) (poly : Poly) (p q : Pt) : Bool :=
  segHitsOriented 1 tol poly p q || segHitsOriented (-1) tol poly p q

def segHitsInterior (poly : Poly) (p q : Pt) : Bool := segHitsInteriorTol 0 poly p q

/-- consecutive pairs of a polyline -/
def legs : List Pt → List (Pt × Pt)
  | [] => []
  | p :: ps => (p :: ps).zip ps

/-- does the leg hit (with margin tol) a shape not listed in `excl`? `i` = index of the head shape -/
def legHitsAny (tol : Rat) (excl : List Nat) : List Poly → Nat → Pt × Pt → Bool
  | [], _, _ => false
  | s :: ss, i, l =>
    ((!excl.contains i) && segHitsInteriorTol tol s l.1 l.2) || legHitsAny tol excl ss (i + 1) l

def routeValid (shapes : List Poly) (excl : List Nat) (src dst : Pt) (route : List Pt) (tol : Rat) : Bool :=
  decide (2 ≤ route.length) && decide (route.head? = some src) && decide (route.getLast? = some dst) &&
  (legs route).all fun l => !legHitsAny tol excl shapes 0 l

def axisParallel (p q : Pt) : Bool := decide (p.x = q.x) || decide (p.y = q.y)

def routeOrthogonal (route : List Pt) : Bool := (legs route).all fun l => axisParallel l.1 l.2

/-- indices (from `i`) of the shapes strictly containing p -/
def containingFrom (p : Pt) : List Poly → Nat → List Nat
  | [], _ => []
  | s :: ss, i => if strictlyInside s p then i :: containingFrom p ss (i + 1) else containingFrom p ss (i + 1)

def containing (shapes : List Poly) (p : Pt) : List Nat := containingFrom p shapes 0

/-- first shape index (not in excl) whose interior (margin tol) is hit by the leg, for messages -/
def firstHit (tol : Rat) (excl : List Nat) : List Poly → Nat → Pt × Pt → Option Nat
  | [], _, _ => none
  | s :: ss, i, l =>
    if (!excl.contains i) && segHitsInteriorTol tol s l.1 l.2 then some i else firstHit tol excl ss (i + 1) l

end AdaptaVerif.Check.Route
