/-
Executable checkers for property C01 over exact rationals.  Core Lean only (linked into the driver).
Their soundness theorems are in `Lemmas/Vpsc.lean` / `Props/C01.lean`.

* `checkPost`  : every unflagged constraint holds within `tol` at the reported positions.
* `feasible`   : decides feasibility of a system of separation constraints (equalities and scales
                 included) by Bellman–Ford longest paths in the scaled coordinates
                 `u_i = scale_i · x_i`; it returns a *certificate* either way
                 (`feasible u`: potentials that were re-checked against every constraint;
                  `infeasible cyc`: a closed walk of constraint edges with positive total gap that was
                  re-checked), or `unknown` if neither certificate could be produced (never observed;
                  the driver reports it).
-/
namespace AdaptaVerif.Check.Vpsc

/-- a separation constraint `scale_l·x_l + gap ≤ scale_r·x_r` (or `=`) -/
structure C where
  l : Nat
  r : Nat
  gap : Rat
  eq : Bool
  deriving Repr, DecidableEq, Inhabited

/-- difference constraint in scaled coordinates: `u_a + w ≤ u_b` -/
structure Edge where
  a : Nat
  b : Nat
  w : Rat
  deriving Repr, DecidableEq, Inhabited

def rabs (x : Rat) : Rat := if x < 0 then -x else x

/-- `scale_r·pos_r − gap − scale_l·pos_l` -/
def slack (scale pos : Nat → Rat) (c : C) : Rat :=
  scale c.r * pos c.r - c.gap - scale c.l * pos c.l

/-- one constraint within tolerance: inequalities `slack ≥ −tol`, equalities `|slack| ≤ tol` -/
def okWithin (tol : Rat) (scale pos : Nat → Rat) (c : C) : Bool :=
  if c.eq then decide (-tol ≤ slack scale pos c) && decide (slack scale pos c ≤ tol)
  else decide (-tol ≤ slack scale pos c)

/-- every constraint that is not flagged unsatisfiable holds within `tol` -/
def checkPost (tol : Rat) (scale pos : Nat → Rat) (cs : List (C × Bool)) : Bool :=
  cs.all fun p => p.2 || okWithin tol scale pos p.1

/-- index of the first violated unflagged constraint (for messages) -/
def firstBad (tol : Rat) (scale pos : Nat → Rat) (cs : List (C × Bool)) : Option Nat :=
  cs.findIdx? fun p => !(p.2 || okWithin tol scale pos p.1)

/-! ### feasibility -/

def edgesOf (cs : List C) : List Edge :=
  cs.flatMap fun c =>
    if c.eq then [⟨c.l, c.r, c.gap⟩, ⟨c.r, c.l, -c.gap⟩] else [⟨c.l, c.r, c.gap⟩]

def arrFn (a : Array Rat) : Nat → Rat := fun i => a.getD i 0

/-- all edges hold for the potentials `u` -/
def holdsAll (u : Nat → Rat) (es : List Edge) : Bool :=
  es.all fun e => decide (u e.a + e.w ≤ u e.b)

/-- end vertex of the walk that starts at `a` and follows `es` (edges must chain) -/
def walkEnd : Nat → List Edge → Option Nat
  | a, [] => some a
  | a, e :: es => if e.a = a then walkEnd e.b es else none

def sumW : List Edge → Rat
  | [] => 0
  | e :: es => e.w + sumW es

/-- `cyc` is a non-empty closed walk of edges of `es` with positive total weight -/
def isPosCycle (es : List Edge) (cyc : List Edge) : Bool :=
  match cyc with
  | [] => false
  | e :: _ => cyc.all (fun x => es.contains x) && (walkEnd e.a cyc == some e.a) && decide (0 < sumW cyc)

inductive Verdict where
  | feasible (u : Array Rat)
  | infeasible (cyc : List Edge)
  | unknown
  deriving Repr, Inhabited

/-- unverified search: Bellman–Ford longest paths from an all-zero start with predecessor edges -/
def bellmanFord (n : Nat) (es : Array Edge) : Array Rat × Option (List Edge) := Id.run do
  let mut d : Array Rat := Array.replicate n 0
  let mut pred : Array (Option Nat) := Array.replicate n none
  let mut last : Option Nat := none
  for _ in [0:n + 1] do
    last := none
    for k in [0:es.size] do
      let e := es[k]!
      if d.getD e.a 0 + e.w > d.getD e.b 0 then
        d := d.set! e.b (d.getD e.a 0 + e.w)
        pred := pred.set! e.b (some k)
        last := some e.b
    if last.isNone then break
  match last with
  | none => return (d, none)
  | some x0 =>
    -- walk back n times to land on a cycle of the predecessor graph
    let mut x := x0
    for _ in [0:n] do
      match pred.getD x none with
      | some k => x := (es[k]!).a
      | none => pure ()
    let start := x
    let mut cyc : List Edge := []
    let mut cur := start
    for _ in [0:n + 1] do
      match pred.getD cur none with
      | some k =>
        let e := es[k]!
        cyc := e :: cyc
        cur := e.a
        if cur == start then break
      | none => break
    return (d, some cyc)

/-- certified feasibility test -/
def feasible (n : Nat) (cs : List C) : Verdict :=
  let es := edgesOf cs
  let (d, cyc) := bellmanFord n es.toArray
  if holdsAll (arrFn d) es then .feasible d
  else match cyc with
    | some cyc => if isPosCycle es cyc then .infeasible cyc else .unknown
    | none => .unknown

end AdaptaVerif.Check.Vpsc
