/-
Executable checkers for C12 (hyperedges stay spanning trees over the same terminals).
Core Lean only: this file is linked into the compiled driver.

A finite multigraph is a vertex list `V : List Nat` and an edge list `E : List (Nat × Nat)`
(undirected; parallel edges and self-loops are representable, so the checker has to reject them).

`isTree` decides "connected and acyclic" with a union-find style pass: a component labelling
`lab : Nat → Nat` (initially the identity) is updated edge by edge; an edge whose two ends already
carry the same label closes a cycle and is rejected; at the end all vertices must carry one label.
No fuel is needed: the pass is structural recursion over the edge list.
Soundness and completeness are proved in `AdaptaVerif.Props.C12` for all finite multigraphs.
-/
namespace AdaptaVerif.Check.Tree

abbrev Edge := Nat × Nat

/-- relabel the class `lb` to `la` -/
def merge (lab : Nat → Nat) (la lb : Nat) : Nat → Nat :=
  fun v => if lab v = lb then la else lab v

/-- Process the edges in order. `none` = some edge joined two vertices that were already connected
    by the earlier edges (a cycle, a parallel edge or a self-loop). -/
def unionAll : (Nat → Nat) → List Edge → Option (Nat → Nat)
  | lab, [] => some lab
  | lab, (a, b) :: es =>
    if lab a = lab b then none else unionAll (merge lab (lab a) (lab b)) es

/-- connected ∧ acyclic ∧ every edge end is a listed vertex ∧ at least one vertex -/
def isTree (V : List Nat) (E : List Edge) : Bool :=
  match V with
  | [] => false
  | r :: _ =>
    E.all (fun e => V.contains e.1 && V.contains e.2) &&
    match unionAll id E with
    | none => false
    | some lab => V.all (fun v => lab v == lab r)

/-- degree of `v` in the multigraph (a self-loop counts twice) -/
def deg (E : List Edge) (v : Nat) : Nat :=
  E.countP (fun e => e.1 == v) + E.countP (fun e => e.2 == v)

/-- the degree-1 vertices are exactly the terminals (and every terminal is a vertex) -/
def leavesAre (V : List Nat) (E : List Edge) (T : List Nat) : Bool :=
  T.all (fun t => V.contains t) && V.all (fun v => (deg E v == 1) == T.contains v)

/-- The C12 structure check: the multigraph `(verts, edges)` is a tree and its set of leaves
    (degree-1 vertices) is exactly `terminals`. -/
def isTreeWithLeaves (edges : List Edge) (verts terminals : List Nat) : Bool :=
  isTree verts edges && leavesAre verts edges terminals

/-- `after = (before ∪ new) \ deleted` as sets of ids -/
def liveConsistent (before new deleted after : List Nat) : Bool :=
  after.all (fun x => (before.contains x || new.contains x) && !deleted.contains x) &&
  (before ++ new).all (fun x => deleted.contains x || after.contains x)

/-- two id lists are disjoint -/
def disjoint (xs ys : List Nat) : Bool := xs.all (fun x => !ys.contains x)

end AdaptaVerif.Check.Tree
