/-
Executable checker (core Lean only): a polyline route avoids the open interiors of a list of
axis-aligned rectangles.  Exact `Rat` arithmetic (Liang–Barsky style parameter intervals).
Soundness / completeness theorems: `Lemmas/RouteRect.lean`.
-/
namespace AdaptaVerif.Check.RouteRect

structure P where
  x : Rat
  y : Rat
  deriving Repr, DecidableEq, Inhabited

/-- the open rectangle (x0,x1)×(y0,y1); if `x0 ≥ x1` or `y0 ≥ y1` the interior is empty -/
structure Rect where
  x0 : Rat
  y0 : Rat
  x1 : Rat
  y1 : Rat
  deriving Repr, DecidableEq, Inhabited

def Rect.shrink (r : Rect) (e : Rat) : Rect := ⟨r.x0 + e, r.y0 + e, r.x1 - e, r.y1 - e⟩

def lerp (p q : P) (t : Rat) : P := ⟨p.x + t * (q.x - p.x), p.y + t * (q.y - p.y)⟩

def StrictlyInside (r : Rect) (a : P) : Prop :=
  r.x0 < a.x ∧ a.x < r.x1 ∧ r.y0 < a.y ∧ a.y < r.y1

instance (r : Rect) (a : P) : Decidable (StrictlyInside r a) := by
  unfold StrictlyInside; infer_instance

/-- One axis of the Liang–Barsky clip.  Returns an open parameter interval `(lo, hi)` such that,
    for `t ∈ [0,1]`, `a0 < pa + t*d < a1 ↔ lo < t < hi`.
    * `d = 0`: the coordinate is constant; the interval is `(-1, 2) ⊇ [0,1]` when the coordinate
      is strictly between the bounds and the empty interval `(0, 0)` otherwise;
    * `d > 0`: `((a0-pa)/d, (a1-pa)/d)`;  `d < 0`: `((a1-pa)/d, (a0-pa)/d)`. -/
def axisIv (a0 a1 pa d : Rat) : Rat × Rat :=
  if d = 0 then
    if a0 < pa ∧ pa < a1 then (-1, 2) else (0, 0)
  else if 0 < d then ((a0 - pa) / d, (a1 - pa) / d)
  else ((a1 - pa) / d, (a0 - pa) / d)

/-- the three convex parameter sets `(lx,hx)`, `(ly,hy)`, `[0,1]` have a common point
    (1-D Helly: pairwise intersection suffices) -/
def ivMeet (ix iy : Rat × Rat) : Bool :=
  decide (ix.1 < ix.2) && decide (ix.1 < iy.2) && decide (iy.1 < ix.2) && decide (iy.1 < iy.2)
    && decide (ix.1 < 1) && decide (iy.1 < 1) && decide (0 < ix.2) && decide (0 < iy.2)

/-- exact decision: some point `lerp p q t`, `t ∈ [0,1]`, of the closed segment is strictly
    inside the open rectangle `r` -/
def segHitsOpenRect (r : Rect) (p q : P) : Bool :=
  ivMeet (axisIv r.x0 r.x1 p.x (q.x - p.x)) (axisIv r.y0 r.y1 p.y (q.y - p.y))

/-- no leg (consecutive pair) of the polyline meets the open interior of any rectangle -/
def legsOk (rects : List Rect) : List P → Bool
  | a :: b :: rest => rects.all (fun r => !segHitsOpenRect r a b) && legsOk rects (b :: rest)
  | _ => true

/-- the route has ≥ 2 points, goes from `src` to `dst`, and every leg avoids every open rect -/
def routeValidRect (rects : List Rect) (src dst : P) (route : List P) : Bool :=
  decide (2 ≤ route.length) && decide (route.head? = some src)
    && decide (route.getLast? = some dst) && legsOk rects route

end AdaptaVerif.Check.RouteRect
