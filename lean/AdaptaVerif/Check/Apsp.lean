/-
C17 — executable certificate check "D is exactly the all-pairs shortest-path matrix of g".
Core Lean only.  Soundness (`checkApsp_sound`) and completeness are proved in
`Lemmas/ApspCheck.lean` / `Props/C17.lean`.

For every source `i` the row `d = D i` must satisfy
  * `d i = 0`;
  * feasibility of the potential: for every edge `{u,v}` of weight `w`, in both directions,
    `d u` finite ⇒ `d v` finite ∧ `d v ≤ d u + w`            (⇒ `d` is a lower bound on every walk,
                                                              and finite on everything reachable);
  * attainment: every vertex with a finite `d` is reached from `i` by a breadth-first closure
    over *tight* edges (`d v = d u + w`) — the closure gives a well-founded predecessor
    structure even when zero-weight edges make tightness cyclic            (⇒ `d v` is the
                                                              weight of an actual walk).
Together with symmetry of `D`, validity of the graph (end points `< n`, weights `≥ 0`).
-/
import AdaptaVerif.Model.ShortestPaths
namespace AdaptaVerif.Check.Apsp
open AdaptaVerif.Model.ShortestPaths

/-- end points in range, weights non-negative -/
def validGraph (g : Graph) : Bool :=
  g.edges.all fun e => decide (e.1 < g.n) && decide (e.2.1 < g.n) && decide (0 ≤ e.2.2)

/-- `d u` finite ⇒ `d v` finite and `d v ≤ d u + w` -/
def relaxOk (d : Nat → Dist) (u v : Nat) (w : Rat) : Bool :=
  match d u with
  | none => true
  | some a =>
    match d v with
    | none => false
    | some b => decide (b ≤ a + w)

def feasible (es : List (Nat × Nat × Rat)) (d : Nat → Dist) : Bool :=
  es.all fun e => relaxOk d e.1 e.2.1 e.2.2 && relaxOk d e.2.1 e.1 e.2.2

/-- edge `u → v` of weight `w` is tight for the potential `d` -/
def tight (d : Nat → Dist) (u v : Nat) (w : Rat) : Bool :=
  match d u, d v with
  | some a, some b => decide (b = a + w)
  | _, _ => false

def marked (r : Array Bool) (v : Nat) : Bool := (r[v]?).getD false

/-- mark `v` if `u` is marked, `v` is not, and `u → v` is tight; second component: something changed -/
def tryMark (d : Nat → Dist) (st : Array Bool × Bool) (u v : Nat) (w : Rat) : Array Bool × Bool :=
  if marked st.1 u && !marked st.1 v && tight d u v w then (st.1.setIfInBounds v true, true) else st

/-- one sweep over the edge list, both directions, updating the marking in place -/
def sweep (es : List (Nat × Nat × Rat)) (d : Nat → Dist) (r : Array Bool) : Array Bool × Bool :=
  es.foldl (fun st e => tryMark d (tryMark d st e.1 e.2.1 e.2.2) e.2.1 e.1 e.2.2) (r, false)

/-- sweeps until nothing changes (at most `fuel` sweeps) -/
def closure (es : List (Nat × Nat × Rat)) (d : Nat → Dist) : Nat → Array Bool → Array Bool
  | 0, r => r
  | fuel + 1, r =>
    let st := sweep es d r
    if st.2 then closure es d fuel st.1 else st.1

def reachTight (g : Graph) (d : Nat → Dist) (i : Nat) : Array Bool :=
  closure g.edges d g.n ((Array.replicate g.n false).setIfInBounds i true)

/-- row `i` of the matrix is the exact single-source distance vector from `i` -/
def sourceOk (g : Graph) (d : Nat → Dist) (i : Nat) : Bool :=
  decide (d i = some 0) && feasible g.edges d &&
    (let r := reachTight g d i
     (List.range g.n).all fun j => (d j).isNone || marked r j)

def symmetric (n : Nat) (D : Nat → Nat → Dist) : Bool :=
  (List.range n).all fun i => (List.range n).all fun j => decide (D i j = D j i)

/-- `D` is exactly the shortest-path matrix of `g` -/
def checkApsp (g : Graph) (D : Nat → Nat → Dist) : Bool :=
  validGraph g && (List.range g.n).all (fun i => sourceOk g (D i) i) && symmetric g.n D

/-! Diagnostics for the driver's SPECFAIL message (not part of the verified check). -/

def showDist : Dist → String
  | none => "MAX"
  | some x => if x.den == 1 then toString x.num else s!"{x.num}/{x.den}"

def explain (g : Graph) (D : Nat → Nat → Dist) : String := Id.run do
  if !validGraph g then return "reason=invalid-graph"
  for i in [0:g.n] do
    if D i i ≠ some 0 then return s!"reason=diagonal i={i} D[i][i]={showDist (D i i)}"
  for i in [0:g.n] do
    for e in g.edges do
      let (u, v, w) := e
      if !(relaxOk (D i) u v w) then
        return s!"reason=edge-bound src={i} edge={u}-{v} w={showDist (some w)} D[src][{u}]={showDist (D i u)} D[src][{v}]={showDist (D i v)} (too long or unreachable-marked although reachable)"
      if !(relaxOk (D i) v u w) then
        return s!"reason=edge-bound src={i} edge={v}-{u} w={showDist (some w)} D[src][{v}]={showDist (D i v)} D[src][{u}]={showDist (D i u)} (too long or unreachable-marked although reachable)"
  for i in [0:g.n] do
    let r := reachTight g (D i) i
    for j in [0:g.n] do
      if !((D i j).isNone || marked r j) then
        return s!"reason=not-attained i={i} j={j} D[i][j]={showDist (D i j)} (no walk of that weight: too short, or finite although unreachable)"
  for i in [0:g.n] do
    for j in [0:g.n] do
      if D i j ≠ D j i then return s!"reason=asymmetric i={i} j={j} D[i][j]={showDist (D i j)} D[j][i]={showDist (D j i)}"
  return "reason=unknown"

end AdaptaVerif.Check.Apsp
