/-
Executable checkers for C13 on exact `Rat` data (core Lean only): the state of a libtopology
layout — node rectangles and edge paths (lists of points pinned to node corners / centres) — as
printed by harness/c13.cpp after every `TopologyConstraints::solve()` / layout step.

  noSegmentThroughNode  no path segment meets the interior (shrunk by 1e-6) of a node other than
                        the two end nodes of the edge
  noNodeOverlap         no two node rectangles overlap by more than 1e-6 in both axes
  endsUnchanged         the path still starts / ends at the centres of its original nodes
  bendsAtCorners        every bend coincides (1e-6) with the corner of its node it is pinned to and
                        the path turns around that node (orientation sign test)
  sideSignature         for a move in one axis: for every node that is not an end of the edge, how
                        many crossings of the path with the scan line through the node's centre lie
                        before the centre (which side of the node the edge passes)

The segment/rectangle test is `AdaptaVerif.Check.RouteRect.segHitsOpenRect` (C03 engineer),
proved exact in Lemmas/RouteRect.lean.  Soundness theorems of this file: Props/C13.lean (part 2),
helper lemmas Lemmas/Topo.lean.
-/
import AdaptaVerif.Check.RouteRect
namespace AdaptaVerif.Check.Topo
open AdaptaVerif.Check.RouteRect

/-- tolerance of the property text -/
def eps : Rat := 1 / 1000000

/-- `vpsc::Rectangle` as read through getMinX/getMaxX/getMinY/getMaxY -/
structure NodeRect where
  minX : Rat
  maxX : Rat
  minY : Rat
  maxY : Rat
  deriving Repr, DecidableEq, Inhabited

def NodeRect.toRect (n : NodeRect) : Rect := ⟨n.minX, n.minY, n.maxX, n.maxY⟩
def NodeRect.cx (n : NodeRect) : Rat := (n.minX + n.maxX) / 2
def NodeRect.cy (n : NodeRect) : Rat := (n.minY + n.maxY) / 2

/-- `topology::EdgePoint`: node id, `rectIntersect` code (TR=0 BR=1 BL=2 TL=3 CENTRE=4) and the
    position the library reports (`posX()`, `posY()`) -/
structure PathPt where
  node : Nat
  ri : Nat
  x : Rat
  y : Rat
  deriving Repr, DecidableEq, Inhabited

def PathPt.pt (a : PathPt) : P := ⟨a.x, a.y⟩

/-- consecutive pairs of a list -/
def legs {α : Type} (l : List α) : List (α × α) := l.zip l.tail

/-- consecutive triples of a list -/
def triples {α : Type} (l : List α) : List (α × α × α) := l.zip (l.tail.zip l.tail.tail)

def srcNode (path : List PathPt) : Nat := (path.head?.map (·.node)).getD 0
def dstNode (path : List PathPt) : Nat := (path.getLast?.map (·.node)).getD 0

/-! ### 1. no segment through a node -/

/-- leg `ab` meets the interior of node rectangle `n` shrunk by `eps` -/
def legHitsNode (n : NodeRect) (ab : PathPt × PathPt) : Bool :=
  segHitsOpenRect (n.toRect.shrink eps) ab.1.pt ab.2.pt

def noSegmentThroughNode (nodes : List NodeRect) (path : List PathPt) : Bool :=
  (legs path).all fun ab =>
    nodes.zipIdx.all fun nk =>
      decide (nk.2 = srcNode path) || decide (nk.2 = dstNode path) || !legHitsNode nk.1 ab

/-- diagnostics: first offending (leg index, node index) -/
def firstSegThroughNode (nodes : List NodeRect) (path : List PathPt) : Option (Nat × Nat) :=
  (legs path).zipIdx.findSome? fun abi =>
    (nodes.zipIdx.find? fun nk =>
      !(decide (nk.2 = srcNode path) || decide (nk.2 = dstNode path) || !legHitsNode nk.1 abi.1)).map
      fun nk => (abi.2, nk.2)

/-! ### 2. node rectangles do not overlap -/

/-- the intervals `(a0,a1)` and `(b0,b1)` overlap by more than `eps`
    (`min a1 b1 - max a0 b0 > eps`, written without min/max) -/
def overlap1 (a0 a1 b0 b1 : Rat) : Bool :=
  decide (eps < a1 - b0) && decide (eps < b1 - a0) && decide (eps < a1 - a0) && decide (eps < b1 - b0)

def overlapBoth (a b : NodeRect) : Bool :=
  overlap1 a.minX a.maxX b.minX b.maxX && overlap1 a.minY a.maxY b.minY b.maxY

def noNodeOverlap : List NodeRect → Bool
  | [] => true
  | a :: rest => rest.all (fun b => !overlapBoth a b) && noNodeOverlap rest

def firstOverlap (nodes : List NodeRect) : Option (Nat × Nat) :=
  nodes.zipIdx.findSome? fun ai =>
    (nodes.zipIdx.find? fun bj => decide (ai.2 < bj.2) && overlapBoth ai.1 bj.1).map fun bj => (ai.2, bj.2)

/-! ### 3. path ends -/

def absR (r : Rat) : Rat := if r < 0 then -r else r

def nearPt (x y cx cy : Rat) : Bool := decide (absR (x - cx) ≤ eps) && decide (absR (y - cy) ≤ eps)

/-- the point is the CENTRE point of node `k` -/
def isCentreOf (nodes : List NodeRect) (k : Nat) (a : PathPt) : Bool :=
  decide (a.node = k) && decide (a.ri = 4) &&
    match nodes[k]? with
    | some n => nearPt a.x a.y n.cx n.cy
    | none => false

def endsUnchanged (nodes : List NodeRect) (src dst : Nat) (path : List PathPt) : Bool :=
  decide (2 ≤ path.length) &&
    (match path.head? with | some a => isCentreOf nodes src a | none => false) &&
    (match path.getLast? with | some a => isCentreOf nodes dst a | none => false)

/-! ### 4. bends -/

def cornerX (n : NodeRect) (ri : Nat) : Rat := if ri = 0 ∨ ri = 1 then n.maxX else n.minX
def cornerY (n : NodeRect) (ri : Nat) : Rat := if ri = 0 ∨ ri = 3 then n.maxY else n.minY

/-- cross product (b-a)×(c-a): > 0 left turn, < 0 right turn (`topology::crossProduct`) -/
def cross (ax ay bx b_y cx cy : Rat) : Rat := (bx - ax) * (cy - ay) - (cx - ax) * (b_y - ay)

def l1 (ax ay bx b_y : Rat) : Rat := absR (bx - ax) + absR (b_y - ay)

/-- `x` and `y` do not have clearly opposite signs (beyond tolerance `τ`) -/
def notOpposite (τ x y : Rat) : Bool :=
  !(decide (τ < x) && decide (y < -τ)) && !(decide (x < -τ) && decide (τ < y))

/-- the path u → v → w turns around the point c (the centre of v's node): the turn direction `s`
    and the sides `a`, `b` of c with respect to the two segments are never clearly opposite.  The
    tolerance is what a 1e-6 error of the coordinates can do to the cross products. -/
def turnsAround (u v w : PathPt) (cx cy : Rat) : Bool :=
  let s := cross u.x u.y v.x v.y w.x w.y
  let a := cross u.x u.y v.x v.y cx cy
  let b := cross v.x v.y w.x w.y cx cy
  let τ := 4 * eps * (l1 u.x u.y v.x v.y + l1 v.x v.y w.x w.y + l1 v.x v.y cx cy + eps)
  notOpposite τ a b && notOpposite τ s a && notOpposite τ s b

def bendOk (nodes : List NodeRect) (uvw : PathPt × PathPt × PathPt) : Bool :=
  let v := uvw.2.1
  decide (v.ri < 4) &&
    match nodes[v.node]? with
    | some n => nearPt v.x v.y (cornerX n v.ri) (cornerY n v.ri) && turnsAround uvw.1 v uvw.2.2 n.cx n.cy
    | none => false

def bendsAtCorners (nodes : List NodeRect) (path : List PathPt) : Bool :=
  (triples path).all (bendOk nodes)

def firstBadBend (nodes : List NodeRect) (path : List PathPt) : Option Nat :=
  ((triples path).zipIdx.find? fun ti => !bendOk nodes ti.1).map (·.2 + 1)

/-! ### 5. side signature for a move in one axis

`dim = 0`: the nodes moved horizontally, every y coordinate is unchanged; the scan line through a
node centre is the horizontal line `y = cy` and positions along it are x.  `dim = 1`: roles swapped. -/

def scanC (dim : Nat) (x y : Rat) : Rat := if dim = 0 then x else y
def conjC (dim : Nat) (x y : Rat) : Rat := if dim = 0 then y else x

/-- half-open crossing rule: the leg from conj-coordinate `ac` to `bc` crosses the line `c` -/
def crossesLine (ac bc c : Rat) : Bool :=
  (decide (ac ≤ c) && decide (c < bc)) || (decide (bc ≤ c) && decide (c < ac))

/-- position along the scan line where the leg crosses it (only used when `crossesLine`) -/
def crossingAt (as ac bs bc c : Rat) : Rat := as + (c - ac) / (bc - ac) * (bs - as)

/-- (number of crossings strictly before the centre, number exactly at the centre) -/
def sideCount (dim : Nat) (n : NodeRect) (path : List PathPt) : Nat × Nat :=
  let c := conjC dim n.cx n.cy
  let s := scanC dim n.cx n.cy
  (legs path).foldl (fun acc ab =>
    let ac := conjC dim ab.1.x ab.1.y
    let bc := conjC dim ab.2.x ab.2.y
    if crossesLine ac bc c then
      let xs := crossingAt (scanC dim ab.1.x ab.1.y) ac (scanC dim ab.2.x ab.2.y) bc c
      if xs < s then (acc.1 + 1, acc.2) else if xs = s then (acc.1, acc.2 + 1) else acc
    else acc) (0, 0)

/-- signature of one path: per node (by index) the side count; end nodes of the edge carry (0,0) -/
def sideSignature (dim : Nat) (nodes : List NodeRect) (path : List PathPt) : List (Nat × Nat) :=
  nodes.zipIdx.map fun nk =>
    if nk.2 = srcNode path ∨ nk.2 = dstNode path then (0, 0) else sideCount dim nk.1 path

/-- index of the first node whose side count differs -/
def firstSigDiff (a b : List (Nat × Nat)) : Option Nat :=
  ((a.zip b).zipIdx.find? fun p => p.1.1 != p.1.2).map (·.2)

/-! ### 5b. side parity across a two-pass (x then y) step: `applyResizes`

A resize moves the nodes first in x (all y fixed), then in y (all x fixed); the state in between is
not observed, so the crossing *count* of 5. cannot be compared.  The *parity* of the number of
crossings before the centre on the scan line through a node centre (a ray from the centre) changes
under continuous motion only when (i) the node centre crosses the path — the edge is pulled through
the node — or (ii) an end point of the path (the centre of an end node) crosses the ray.  Interior
vertices create/destroy crossings in pairs at one place.  (ii) is determined by the node rectangles
alone: for the ray along x (`dim = 0`) the conj-coordinate y changes only in the second pass, when
the x coordinates already have their final values; for the ray along y (`dim = 1`) x changes only in
the first pass, when the y coordinates still have their initial values.  With the half-open rule a
leg crosses the line iff exactly one of its ends is "low" (`crossesLine_eq_low_xor`). -/

def isLow (dim : Nat) (p k : NodeRect) : Bool := decide (conjC dim p.cx p.cy ≤ conjC dim k.cx k.cy)

/-- end node `p` passes over the `dim`-ray of node `k` during an x-then-y step
    (`pb kb` rectangles before, `pa ka` after) -/
def endFlip (dim : Nat) (kb ka pb pa : NodeRect) : Bool :=
  (isLow dim pb kb != isLow dim pa ka) &&
    (if dim = 0 then decide (scanC dim pa.cx pa.cy < scanC dim ka.cx ka.cy)
     else decide (scanC dim pb.cx pb.cy < scanC dim kb.cx kb.cy))

def sideParity (dim : Nat) (n : NodeRect) (path : List PathPt) : Bool :=
  (sideCount dim n path).1 % 2 == 1

/-- the parity after the step that legal motion predicts from the parity before -/
def expectedParity (dim : Nat) (nodesB nodesA : List NodeRect) (pathB : List PathPt) (k : Nat) : Bool :=
  let kb := nodesB.getD k default
  let ka := nodesA.getD k default
  let s := srcNode pathB
  let d := dstNode pathB
  xor (xor (sideParity dim kb pathB) (endFlip dim kb ka (nodesB.getD s default) (nodesA.getD s default)))
    (endFlip dim kb ka (nodesB.getD d default) (nodesA.getD d default))

/-- first (node, dim) whose side parity after an x-then-y step is not the predicted one -/
def firstParityDiff (nodesB nodesA : List NodeRect) (pathB pathA : List PathPt) : Option (Nat × Nat) :=
  (List.range nodesA.length).findSome? fun k =>
    if k = srcNode pathB ∨ k = dstNode pathB then none
    else
      ([0, 1] : List Nat).findSome? fun dim =>
        if sideParity dim (nodesA.getD k default) pathA != expectedParity dim nodesB nodesA pathB k
        then some (k, dim) else none

/-! ### 5c. closed paths (cluster boundaries: cyclic `topology::Edge`)

The path is printed with its first point repeated at the end.  Closedness replaces the "ends
unchanged" clause (the join point of the list may legitimately move when it is pruned); the bend
test also covers the join point; the side of every node is the crossing number of the closed
polygon (inside / outside), which needs no end-point correction and is frame independent. -/

/-- the printed path is closed: at least two segments and last point = first point -/
def cycleClosed (path : List PathPt) : Bool :=
  decide (3 ≤ path.length) &&
    match path.head?, path.getLast? with
    | some a, some b => decide (a.node = b.node) && decide (a.ri = b.ri)
    | _, _ => false

/-- `[nSegments, walked, reachedLast, closed, ring, ringClosed]` as dumped by the harness from the
    doubly linked list: the walk firstSegment → lastSegment meets exactly `nSegments` segments, the
    list is closed, and following `outSegment` from the first point returns to it after
    `nSegments` steps; the printed path has `nSegments + 1` points -/
def cycleListConsistent (info : List Nat) (path : List PathPt) : Bool :=
  match info with
  | [nSeg, walked, reachedLast, closed, ring, ringClosed] =>
    decide (walked = nSeg) && decide (reachedLast = 1) && decide (closed = 1) && decide (ring = nSeg)
      && decide (ringClosed = 1) && decide (path.length = nSeg + 1)
  | _ => false

/-- path extended by its second point, so that `triples` also contains the join point as a bend -/
def cycleBendPath (path : List PathPt) : List PathPt := path ++ (path.drop 1).take 1

/-- crossing counts before / at the centre for every node (no exemptions) -/
def cycleSignature (dim : Nat) (nodes : List NodeRect) (path : List PathPt) : List (Nat × Nat) :=
  nodes.map fun n => sideCount dim n path

/-- inside / outside of every node centre w.r.t. the closed path, by both rays -/
def cycleInside (nodes : List NodeRect) (path : List PathPt) : List (Bool × Bool) :=
  nodes.map fun n => (sideParity 0 n path, sideParity 1 n path)

def firstDiffIdx {α : Type} [BEq α] (a b : List α) : Option Nat :=
  ((a.zip b).zipIdx.find? fun p => p.1.1 != p.1.2).map (·.2)

/-! ### whole state -/

structure State where
  nodes : List NodeRect
  paths : List (List PathPt)
  deriving Repr, Inhabited

/-- all four state invariants of the property; `ends[e]` = original (src,dst) of edge `e` -/
def stateOk (ends : List (Nat × Nat)) (s : State) : Bool :=
  noNodeOverlap s.nodes &&
    (s.paths.zip ends).all fun pe =>
      noSegmentThroughNode s.nodes pe.1 && endsUnchanged s.nodes pe.2.1 pe.2.2 pe.1 &&
        bendsAtCorners s.nodes pe.1

end AdaptaVerif.Check.Topo
