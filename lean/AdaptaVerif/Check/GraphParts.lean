/-
Executable checkers for C19 (core Lean only). They are run by the driver on the *C++ output*.
Soundness theorems: Props/C19.lean (via Lemmas/PeelCheck.lean).
  graph part  : simpleB, connectedB, isTree (BFS + parent/depth witness), peelOk, componentsOk
  geometry    : noBoxOverlap (symmetric tree layout), noCrossings / planarOk (planarised graph),
                exact rational arithmetic; validator-only (no geometric soundness theorem)
-/
import AdaptaVerif.Model.Peel
namespace AdaptaVerif.Check.GraphParts
open AdaptaVerif.Model.Peel

/-! ### graph part -/

def sameEdge (e f : Edge) : Bool := (e.1 == f.1 && e.2 == f.2) || (e.1 == f.2 && e.2 == f.1)

def hasEdge (es : List Edge) (e : Edge) : Bool := es.any (sameEdge e)

def nodupB : List Nat → Bool
  | [] => true
  | x :: xs => !xs.contains x && nodupB xs

def edgesDistinctB : List Edge → Bool
  | [] => true
  | e :: es => !es.any (sameEdge e) && edgesDistinctB es

/-- simple graph: distinct nodes, edges join two different listed nodes, no edge twice -/
def simpleB (ns : List Nat) (es : List Edge) : Bool :=
  nodupB ns && es.all (fun e => ns.contains e.1 && ns.contains e.2 && e.1 != e.2) && edgesDistinctB es

/-- all of `ns` reachable from its first node (BFS of the model, proven sound) -/
def connectedB (ns : List Nat) (es : List Edge) : Bool :=
  match ns with
  | [] => true
  | u0 :: _ =>
    match bfs es (bfsFuel es) (nbrs es u0) [u0] with
    | some vis => ns.all (fun v => vis.contains v)
    | none => false

/-- BFS from a root recording (node, parent, depth); only used to *produce* a witness -/
def bfsP (es : List Edge) : Nat → List (Nat × Nat × Nat) → List (Nat × Nat × Nat) → List (Nat × Nat × Nat)
  | 0, _, vis => vis
  | _, [], vis => vis
  | f + 1, (v, p, d) :: q, vis =>
    if vis.any (fun t => t.1 == v) then bfsP es f q vis
    else bfsP es f (q ++ (nbrs es v).map (fun w => (w, v, d + 1))) ((v, p, d) :: vis)

def parOf (w : List (Nat × Nat × Nat)) (v : Nat) : Nat :=
  match w.find? (fun t => t.1 == v) with
  | some t => t.2.1
  | none => v

def depOf (w : List (Nat × Nat × Nat)) (v : Nat) : Nat :=
  match w.find? (fun t => t.1 == v) with
  | some t => t.2.2
  | none => 0

/-- every edge joins a node to its recorded parent, one level up: a forest certificate -/
def forestWitnessB (w : List (Nat × Nat × Nat)) (es : List Edge) : Bool :=
  es.all (fun e => (parOf w e.1 == e.2 && depOf w e.1 == depOf w e.2 + 1) ||
                   (parOf w e.2 == e.1 && depOf w e.2 == depOf w e.1 + 1))

def acyclicB (root : Nat) (es : List Edge) : Bool :=
  forestWitnessB (bfsP es (bfsFuel es) [(root, root, 0)] []) es

/-- non-empty, connected, acyclic -/
def isTree (ns : List Nat) (es : List Edge) : Bool :=
  match ns with
  | [] => false
  | r :: _ => connectedB ns es && acyclicB r es

def edgesWithin (ns : List Nat) (es : List Edge) : Bool :=
  es.all (fun e => ns.contains e.1 && ns.contains e.2)

/-- number of parts (lists) containing `v` -/
def partsWith (parts : List (List Nat)) (v : Nat) : Nat := (parts.filter (fun p => p.contains v)).length

/-- number of occurrences of the undirected edge `e` in all parts together -/
def edgeCount (parts : List (List Edge)) (e : Edge) : Nat :=
  (parts.map (fun p => (p.filter (sameEdge e)).length)).sum

def coreNoDegreeOne (coreN : List Nat) (coreE : List Edge) : Bool :=
  coreN.all (fun v => degree coreE v != 1)

/-- The peel clause of C19 on an output (trees, core) for input (ns, es). -/
def peelOk (ns : List Nat) (es : List Edge) (trees : List TreeOut) (coreN : List Nat) (coreE : List Edge) : Bool :=
  let tparts := trees.map (·.nodes)
  let eparts := coreE :: trees.map (·.edges)
  -- every node in the core or in exactly one tree, never in two trees
  ns.all (fun v => partsWith tparts v ≤ 1 && (coreN.contains v || partsWith tparts v == 1))
  -- parts contain only input nodes, without repetition
  && nodupB coreN && coreN.all (fun v => ns.contains v)
  && trees.all (fun t => nodupB t.nodes && t.nodes.all (fun v => ns.contains v))
  -- roots are exactly the nodes shared with a non-empty core
  && trees.all (fun t => t.nodes.contains t.root &&
        (coreN.isEmpty || t.nodes.all (fun v => coreN.contains v == (v == t.root))))
  -- every edge in exactly one part; parts contain only input edges, inside their node sets
  && es.all (fun e => edgeCount eparts e == 1)
  && eparts.all (fun p => p.all (fun e => hasEdge es e))
  && edgesWithin coreN coreE && trees.all (fun t => edgesWithin t.nodes t.edges)
  -- each tree is a tree; the core has no node of degree one
  && trees.all (fun t => isTree t.nodes t.edges)
  && coreNoDegreeOne coreN coreE

/-- The connected-components clause of C19 on an output `cs` for input (ns, es). -/
def componentsOk (ns : List Nat) (es : List Edge) (cs : List Comp) : Bool :=
  let nparts := cs.map (·.nodes)
  let eparts := cs.map (·.edges)
  ns.all (fun v => partsWith nparts v == 1)
  && cs.all (fun c => !c.nodes.isEmpty && nodupB c.nodes && c.nodes.all (fun v => ns.contains v))
  && es.all (fun e => edgeCount eparts e == 1)
  && cs.all (fun c => c.edges.all (fun e => hasEdge es e) && edgesWithin c.nodes c.edges)
  && cs.all (fun c => connectedB c.nodes c.edges)
  -- no edge between parts
  && es.all (fun e => cs.all (fun c => c.nodes.contains e.1 == c.nodes.contains e.2))

/-! ### geometry (validator only) -/

structure Box where
  id : Nat
  x : Rat
  X : Rat
  y : Rat
  Y : Rat
  deriving Repr, Inhabited

/-- open interiors intersect -/
def boxesOverlap (a b : Box) : Bool := a.x < b.X && b.x < a.X && a.y < b.Y && b.y < a.Y

def firstOverlap : List Box → Option (Nat × Nat)
  | [] => none
  | b :: rest =>
    match rest.find? (boxesOverlap b) with
    | some c => some (b.id, c.id)
    | none => firstOverlap rest

def noBoxOverlap (bs : List Box) : Bool := (firstOverlap bs).isNone

/-- a point with integer coordinates: the driver scales all (dyadic rational) coordinates of a
    case by their common denominator first, which changes no orientation or incidence -/
structure P2 where
  x : Int
  y : Int
  deriving Repr, BEq, Inhabited

def orient (a b c : P2) : Int := (b.x - a.x) * (c.y - a.y) - (c.x - a.x) * (b.y - a.y)

def sgn (r : Int) : Int := if r < 0 then -1 else if r > 0 then 1 else 0

def minR (a b : Int) : Int := if a ≤ b then a else b
def maxR (a b : Int) : Int := if a ≤ b then b else a

/-- bounding boxes of the two closed segments are disjoint (cheap pre-test) -/
def bboxDisjoint (a b c d : P2) : Bool :=
  maxR a.x b.x < minR c.x d.x || maxR c.x d.x < minR a.x b.x ||
  maxR a.y b.y < minR c.y d.y || maxR c.y d.y < minR a.y b.y

/-- the open segments cross transversally (the C16 `segmentIntersect` notion) -/
def properCross (a b c d : P2) : Bool :=
  !bboxDisjoint a b c d &&
  sgn (orient a b c) * sgn (orient a b d) < 0 && sgn (orient c d a) * sgn (orient c d b) < 0

/-- c lies on the closed segment ab -/
def onSeg (a b c : P2) : Bool :=
  orient a b c == 0 && minR a.x b.x ≤ c.x && c.x ≤ maxR a.x b.x && minR a.y b.y ≤ c.y && c.y ≤ maxR a.y b.y

/-- the closed segments share a point -/
def segsMeet (a b c d : P2) : Bool :=
  !bboxDisjoint a b c d &&
  (properCross a b c d || onSeg a b c || onSeg a b d || onSeg c d a || onSeg c d b)

structure Seg where
  u : Nat
  v : Nat
  a : P2
  b : P2
  deriving Repr, Inhabited

/-- two edges of a straight-line drawing conflict: `strict = false` only transversal
    crossings; `strict = true` any common point other than a shared end node -/
def segConflict (strict : Bool) (s t : Seg) : Bool :=
  if properCross s.a s.b t.a t.b then true
  else if !strict then false
  else
    let shareU := s.u == t.u || s.u == t.v
    let shareV := s.v == t.u || s.v == t.v
    if shareU && shareV then true            -- parallel edge
    else if shareU || shareV then
      -- only the shared node may be common: the far end of one must not lie on the other
      let sFar := if shareU then s.b else s.a
      let tShared := if shareU then s.u else s.v
      let tFar := if t.u == tShared then t.b else t.a
      onSeg s.a s.b tFar || onSeg t.a t.b sFar
    else segsMeet s.a s.b t.a t.b

def firstConflict (strict : Bool) : List Seg → Option (Seg × Seg)
  | [] => none
  | s :: rest =>
    match rest.find? (segConflict strict s) with
    | some t => some (s, t)
    | none => firstConflict strict rest

def noCrossings (strict : Bool) (segs : List Seg) : Bool := (firstConflict strict segs).isNone

def countCrossings : List Seg → Nat
  | [] => 0
  | s :: rest => (rest.filter (fun t => properCross s.a s.b t.a t.b)).length + countCrossings rest

/-- `v` reachable from `u` in `es` through nodes satisfying `isNew` only (interior of the chain) -/
def chainReach (es : List Edge) (isNew : Nat → Bool) (target : Nat) : Nat → List Nat → List Nat → Bool
  | 0, _, _ => false
  | _, [], _ => false
  | f + 1, x :: q, vis =>
    if x == target then true
    else if vis.contains x || !isNew x then chainReach es isNew target f q vis
    else chainReach es isNew target f (q ++ nbrs es x) (x :: vis)

/-- every original adjacency u–v is realised in Q by a chain whose interior nodes are all new -/
def adjacencyKept (orig : List Nat) (origE : List Edge) (qE : List Edge) : Option Edge :=
  origE.find? (fun e =>
    !(chainReach qE (fun x => !orig.contains x) e.2 (2 * qE.length + 2) (nbrs qE e.1) []))

end AdaptaVerif.Check.GraphParts
