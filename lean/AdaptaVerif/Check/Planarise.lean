/-
Executable side conditions and spec checkers for the planariser tie (driver section `planx`).
  `goodB`, `goodAB`, `sepInputB` — the hypotheses of the theorems of Props/C19Planarise in decidable form (soundness:
                  Lemmas/PlanariseGood.lean, PlanariseInputB.lean)
  `ambiguity`   — is the library's result on this input determined by the source alone? (no dependence on
                  std::sort tie handling / heap addresses / double rounding of the running average)
  `specCrossings`, `firstProperCross`, `chainB` — the three clauses of the property on a concrete output
Core Lean only.
-/
import AdaptaVerif.Model.Planarise
namespace AdaptaVerif.Check.Planarise
open AdaptaVerif.Model.Planarise

/-! ### helpers -/

def sortRat (l : List Rat) : List Rat := l.mergeSort (fun a b => decide (a ≤ b))

/-! ### ambiguity of the library's result as coded -/

structure Ambiguity where
  fragile : Bool := false       -- a `partition` decision within 1e-6 of the tolerance with an inexact average
  groupTies : Bool := false     -- computeNodeGroups: events of different nodes with equal varCoord
  activeOrder : Bool := false   -- computeCrossings: comparator not a strict weak order / order-dependent ties
  deriving Repr

def Ambiguity.any (a : Ambiguity) : Bool := a.fragile || a.groupTies || a.activeOrder

def partFragileGo (tol : Rat) : List Rat → Rat → Nat → Bool → Bool
  | [], _, _, _ => false
  | k :: rest, avg, n, mixed =>
    let d := absR (k - avg)
    let near := absR (d - tol) < 1 / 1000000
    if d ≤ tol then (near && (mixed || k != avg)) || partFragileGo tol rest (((n : Rat) * avg + k) / ((n : Rat) + 1)) (n + 1) (mixed || k != avg)
    else (near && mixed) || partFragileGo tol rest k 1 false

def partFragile (tol : Rat) (keys : List Rat) : Bool :=
  match sortRat keys with
  | [] => false
  | f :: rest => partFragileGo tol rest f 1 false

def groupTiesIn (part : List (Nat × Seg)) : Bool :=
  let evts := part.flatMap segEventsG
  let sorted := evts.mergeSort (fun a b => decide (a.vc ≤ b.vc))
  let rec go : List GEv → Bool
    | a :: b :: rest => (a.vc == b.vc && a.endpt.id != b.endpt.id) || go (b :: rest)
    | _ => false
  -- equal keys are contiguous after sorting; different nodes anywhere in a run show up as an adjacent pair
  -- unless separated by repeats of one of them, so compare every element of a run with the run's first too
  let rec runs : List GEv → Option GEv → Bool
    | [], _ => false
    | a :: rest, none => runs rest (some a)
    | a :: rest, some f => if a.vc == f.vc then (a.endpt.id != f.endpt.id) || runs rest (some f) else runs rest (some a)
  go sorted || runs sorted none

def groupTies (segs : List Seg) : Bool :=
  (partition (fun is : Nat × Seg => is.2.cc) tolGroup (zipIdxFrom 0 segs)).any groupTiesIn

/-- (y, type, isVerticalOpen) of the active events sorted by y; clusters = chains of gaps ≤ tolY -/
def activeAmbiguousGo : List (Rat × EvType × Bool) → Rat → Rat → Nat → Nat → Bool
  | [], _, _, _, _ => false
  | (y, ty, vo) :: rest, start, prev, nSus, nVo =>
    let s := if ty == .sustain then 1 else 0
    let v := if vo then 1 else 0
    if y - prev ≤ tolY then
      (y - start > tolY) || (nSus + s ≥ 2) || (nVo + v ≥ 2) || activeAmbiguousGo rest start y (nSus + s) (nVo + v)
    else activeAmbiguousGo rest y y s v

def activeAmbiguous (st : SwState) (active : List Nat) : Bool :=
  let items := active.filterMap (fun i => match st.evs[i]? with
    | some e =>
      let isV := match st.segs[e.seg]? with | some s => s.ori == .V | none => false
      some (e.endpt.p.y, e.ty, isV && e.ty == .opn)
    | none => none)
  match items.mergeSort (fun a b => decide (a.1 ≤ b.1)) with
  | [] => false
  | (y, ty, vo) :: rest => activeAmbiguousGo rest y y (if ty == .sustain then 1 else 0) (if vo then 1 else 0)

def ambiguity (inp : Input) : Ambiguity :=
  let (bst, bends) := uniqueBends { nextId := firstFreeId inp.nodes } inp.edges
  let segsA := zipEdgeSegs inp.edges bends
  let hs := segsA.filter (fun s => s.ori = .H)
  let vs := segsA.filter (fun s => s.ori = .V)
  let segsB := (overlapFreeEdges segsA).map (fun e => mkSeg e.1 e.2)
  let evs := mkEvents 0 segsB
  let fragile := partFragile tolGroup (hs.map (·.cc)) || partFragile tolGroup (vs.map (·.cc)) ||
    partFragile tolX (evs.map (·.endpt.p.x))
  let st0 : SwState := { segs := segsB, evs := evs, nextId := bst.nextId }
  let (_, act) := (xParts evs).foldl (fun (acc : SwState × Bool) part =>
    let st := { acc.1 with openV := none }
    (sweepPart acc.1 part, acc.2 || activeAmbiguous st (st.openH ++ part))) (st0, false)
  { fragile := fragile, groupTies := groupTies hs || groupTies vs, activeOrder := act }


/-! ### the hypothesis `Good` of the sweep theorems (Lemmas/PlanariseSweep.lean), decidable form -/

def segShapeB (s : Seg) : Bool :=
  (s.ori == .H && s.on.p.y == s.cc && s.cn.p.y == s.cc && s.on.p.x == s.lo && s.cn.p.x == s.hi && decide (s.lo < s.hi)) ||
  (s.ori == .V && s.on.p.x == s.cc && s.cn.p.x == s.cc && s.on.p.y == s.lo && s.cn.p.y == s.hi && decide (s.lo < s.hi))

def apartB (a b : Rat) : Bool := a == b || decide (a + 1 < b) || decide (b + 1 < a)

def allApartB (l : List Rat) : Bool := l.all (fun a => l.all (fun b => apartB a b))

def noOverlapB : List Seg → Bool
  | [] => true
  | s :: r => r.all (fun t => !(s.ori == t.ori && s.cc == t.cc) || decide (s.hi ≤ t.lo) || decide (t.hi ≤ s.lo)) && noOverlapB r

/-- axis-parallel segments of positive length stored as the EdgeSegment constructor stores them, end
coordinates pairwise equal or more than 1 apart, no two segments of one line overlapping -/
def goodB (S : List Seg) : Bool :=
  S.all segShapeB && allApartB (S.flatMap (fun s => [s.on.p.x, s.cn.p.x])) &&
  allApartB (S.flatMap (fun s => [s.on.p.y, s.cn.p.y])) && noOverlapB S


/-- decidable form of `GoodA` (Lemmas/PlanariseOverlap.lean): the hypothesis on the route segments -/
def identB (S : List Seg) : Bool :=
  let ends := S.flatMap (fun s => [s.on, s.cn])
  ends.all (fun a => ends.all (fun b => (!(a.p == b.p) || a == b) && (!(a.id == b.id) || a == b)))

def goodAB (S : List Seg) : Bool :=
  S.all segShapeB && allApartB (S.flatMap (fun s => [s.on.p.x, s.cn.p.x])) &&
  allApartB (S.flatMap (fun s => [s.on.p.y, s.cn.p.y])) && identB S


/-- decidable form of `SepInput ∧ NoCentreInside` (Lemmas/PlanariseInput.lean, PlanariseEdges.lean): the hypothesis of
the whole-pipeline theorems on the raw input -/
def ptPairsB : List Pt → List (Pt × Pt)
  | a :: b :: rest => (a, b) :: ptPairsB (b :: rest)
  | _ => []

def sepInputB (inp : Input) : Bool :=
  inp.nodes.all (fun a => inp.nodes.all (fun b => (!(a.p == b.p) || a == b) && (!(a.id == b.id) || a == b))) &&
  inp.edges.all (fun e => inp.nodes.contains e.src && inp.nodes.contains e.tgt &&
    e.route == e.src.p :: interior e.route ++ [e.tgt.p] &&
    (ptPairsB e.route).all (fun pq => (pq.1.x == pq.2.x && !(pq.1.y == pq.2.y)) || (pq.1.y == pq.2.y && !(pq.1.x == pq.2.x)))) &&
  allApartB ((inp.nodes.map (·.p) ++ inp.edges.flatMap (·.route)).map (·.x)) &&
  allApartB ((inp.nodes.map (·.p) ++ inp.edges.flatMap (·.route)).map (·.y)) &&
  inp.edges.all (fun e => (interior e.route).all (fun q => inp.nodes.all (fun n => !(n.p == q)))) &&
  inp.edges.all (fun e => (ptPairsB e.route).all (fun pq => inp.nodes.all (fun n =>
    !((n.p.y == pq.1.y && n.p.y == pq.2.y && ((decide (pq.1.x < n.p.x) && decide (n.p.x < pq.2.x)) || (decide (pq.2.x < n.p.x) && decide (n.p.x < pq.1.x)))) ||
      (n.p.x == pq.1.x && n.p.x == pq.2.x && ((decide (pq.1.y < n.p.y) && decide (n.p.y < pq.2.y)) || (decide (pq.2.y < n.p.y) && decide (n.p.y < pq.1.y))))))))

/-! ### the property's clauses on a concrete result -/

/-- the points the sweep is meant to report: a horizontal `h` and a vertical `v` with
`h.lo < v.cc ≤ h.hi` and `v.lo < h.cc < v.hi` -/
def specCrossings (segs : List Seg) : List Pt :=
  (segs.filter (fun s => s.ori = .H)).flatMap (fun h =>
    (segs.filter (fun s => s.ori = .V)).filterMap (fun v =>
      if h.lo < v.cc && v.cc ≤ h.hi && v.lo < h.cc && h.cc < v.hi then some ⟨v.cc, h.cc⟩ else none))

def orientR (a b c : Pt) : Rat := (b.x - a.x) * (c.y - a.y) - (c.x - a.x) * (b.y - a.y)

/-- the open segments `a b` and `c d` cross transversally -/
def properCrossR (a b c d : Pt) : Bool :=
  ((orientR a b c < 0 && orientR a b d > 0) || (orientR a b c > 0 && orientR a b d < 0)) &&
  ((orientR c d a < 0 && orientR c d b > 0) || (orientR c d a > 0 && orientR c d b < 0))

def firstProperCross : List (Pt × Pt) → Option ((Pt × Pt) × (Pt × Pt))
  | [] => none
  | s :: rest =>
    match rest.find? (fun t => properCrossR s.1 s.2 t.1 t.2) with
    | some t => some (s, t)
    | none => firstProperCross rest

def nbrs (es : List (Nat × Nat)) (x : Nat) : List Nat :=
  es.filterMap (fun e => if e.1 == x then some e.2 else if e.2 == x then some e.1 else none)

def chainGo (es : List (Nat × Nat)) (orig : List Nat) (target : Nat) : Nat → List Nat → List Nat → Bool
  | 0, _, _ => false
  | _, [], _ => false
  | f + 1, x :: q, vis =>
    if x == target then true
    else if vis.contains x || orig.contains x then chainGo es orig target f q vis
    else chainGo es orig target f (q ++ nbrs es x) (x :: vis)

/-- `v` reachable from `u` through nodes that are not original -/
def chainB (orig : List Nat) (es : List (Nat × Nat)) (u v : Nat) : Bool :=
  chainGo es orig v (2 * es.length + 2) (nbrs es u) []

end AdaptaVerif.Check.Planarise
