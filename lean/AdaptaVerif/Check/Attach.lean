/-
C11 executable checkers on real routes (core Lean only; exact rational arithmetic on the values
the implementation returned). Soundness theorems: Lemmas/PinsAttach.lean, Props/C11.lean.
-/
import AdaptaVerif.Model.Pins
namespace AdaptaVerif.Check.Attach
open AdaptaVerif.Model.Pins

def cross (a b c : P2) : Rat := (b.x - a.x) * (c.y - a.y) - (c.x - a.x) * (b.y - a.y)

/-- `c` lies on the closed segment `a b` (exact): collinear and inside the bounding box -/
def pointOnSegment (a b c : P2) : Bool :=
  decide (cross a b c = 0) &&
  decide (min a.x b.x ≤ c.x) && decide (c.x ≤ max a.x b.x) &&
  decide (min a.y b.y ≤ c.y) && decide (c.y ≤ max a.y b.y)

/-- every checkpoint lies on the polyline, in the given order along it: after a checkpoint `c`
    has been met on segment `a b` the remaining checkpoints must be met on `c b` or later. -/
def checkpointsInOrder : List P2 → List P2 → Bool
  | _, [] => true
  | [], _ :: _ => false
  | [_], _ :: _ => false
  | a :: b :: rest, c :: cs =>
      (pointOnSegment a b c && checkpointsInOrder (c :: b :: rest) cs)
        || checkpointsInOrder (b :: rest) (c :: cs)
termination_by route cps => route.length + cps.length

/-- `Polygon::simplify()`: the middle of three consecutive collinear points (`vecDir == 0`, also
    at a 180 degree turn) is erased; the scan keeps `ps[j-2]` and re-tests with the next point.
    `acc` is the output so far, reversed. Used only to classify a lost checkpoint. -/
def simplifyGo (acc : List P2) : List P2 → List P2
  | [] => acc.reverse
  | p :: rest =>
    match acc with
    | m :: a :: acc' => if cross a m p = 0 then simplifyGo (p :: a :: acc') rest else simplifyGo (p :: m :: a :: acc') rest
    | _ => simplifyGo (p :: acc) rest

def simplify (ps : List P2) : List P2 := simplifyGo [] ps

/-- the leg `a → b` is axis-parallel, has positive length and its direction bit is in `mask`
    (Up=1 is −y, Down=2 is +y, Left=4 is −x, Right=8 is +x) -/
def dirAllowed (a b : P2) (mask : Nat) : Bool :=
  if a.y = b.y then
    if a.x < b.x then mask.testBit 3
    else if b.x < a.x then mask.testBit 2
    else false
  else if a.x = b.x then
    if a.y < b.y then mask.testBit 1
    else mask.testBit 0
  else false

/-- first vertex of the route that differs from the starting point (zero-length legs skipped) -/
def firstLegEnd : List P2 → Option P2
  | [] => none
  | a :: rest => rest.find? (fun q => decide (q ≠ a))

/-- the route leaves its first point in a direction permitted by `mask` -/
def leavesAllowed (route : List P2) (mask : Nat) : Bool :=
  match route, firstLegEnd route with
  | a :: _, some b => dirAllowed a b mask
  | _, _ => false

/-- the route enters its last point so that, seen from that point, the leg leaves it in a
    direction permitted by `mask` -/
def entersAllowed (route : List P2) (mask : Nat) : Bool := leavesAllowed route.reverse mask

end AdaptaVerif.Check.Attach
