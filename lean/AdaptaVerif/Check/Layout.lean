import AdaptaVerif.Model.Compound
/-
Executable checkers on the *final rectangles* of a libcola layout, over exact rationals
(the doubles the implementation returned, imported exactly). Core Lean only.
Each checker has a soundness (and completeness) theorem in Props/C07.lean / Props/C08.lean with
respect to the `…Tol` specifications of Spec/Compound.lean.
-/
namespace AdaptaVerif.Check.Layout
open AdaptaVerif.Model.Compound

def absR (r : Rat) : Rat := if r < 0 then -r else r
def minR (a b : Rat) : Rat := if a ≤ b then a else b
def maxR (a b : Rat) : Rat := if a ≤ b then b else a

/-- `l + g ≤ r` (or `=`) up to `tol` -/
def sepOk (tol : Rat) (eq : Bool) (l g r : Rat) : Bool :=
  if eq then decide (absR (l + g - r) ≤ tol) else decide (l + g ≤ r + tol)

/-! ### C07: compound constraints on node centres `x : Nat → Rat` (one dimension) -/

/-- boundary: every left shape (negative offset) and right shape are on their sides of *some*
    line ⇔ pairwise condition -/
def checkBoundary (tol : Rat) (x : Nat → Rat) (offs : List (Nat × Rat)) : Bool :=
  offs.all fun p => offs.all fun q =>
    if p.2 < 0 ∧ ¬ q.2 < 0 then decide (x p.1 - p.2 + q.2 ≤ x q.1 + tol) else true

/-- alignment: all shapes agree on the guideline position `x i - offset i` -/
def checkAlignment (tol : Rat) (x : Nat → Rat) (offs : List (Nat × Rat)) : Bool :=
  offs.all fun p => offs.all fun q => decide (absR ((x p.1 - p.2) - (x q.1 - q.2)) ≤ tol)

def checkSeparation (tol : Rat) (x : Nat → Rat) (l r : Nat) (gap : Rat) (eq : Bool) : Bool :=
  sepOk tol eq (x l) gap (x r)

/-- separation between two guidelines, read off every shape on them -/
def checkGuides (tol : Rat) (x : Nat → Rat) (offsL offsR : List (Nat × Rat)) (gap : Rat) (eq : Bool) : Bool :=
  offsL.all fun p => offsR.all fun q => sepOk tol eq (x p.1 - p.2) gap (x q.1 - q.2)

def checkFixedRel (tol : Rat) (pos : Dim → Nat → Rat) (rel : List RelOff) : Bool :=
  rel.all fun o => decide (absR (pos o.dim o.second - pos o.dim o.first - o.off) ≤ tol)

/-- shapes of the alignment that compound constraint `j` is (in dimension `d`) -/
def alignOffs (ccs : List CC) (d : Dim) (j : Nat) : Option (List (Nat × Rat)) :=
  match ccs[j]? with
  | some (.alignment d' _ _ offs) => if d' = d then some offs else none
  | _ => none

def checkPairs (tol : Rat) (ccs : List CC) (d : Dim) (x : Nat → Rat) (pairs : List (Nat × Nat)) (sep : Rat) (eq : Bool) : Bool :=
  pairs.all fun p =>
    match alignOffs ccs d p.1, alignOffs ccs d p.2 with
    | some a, some b => checkGuides tol x a b sep eq
    | _, _ => false

/-- the documented meaning of one compound constraint on the final centres, within `tol` -/
def checkCC (tol : Rat) (ccs : List CC) (pos : Dim → Nat → Rat) (cc : CC) : Bool :=
  match cc with
  | .boundary d _ offs => checkBoundary tol (pos d) offs
  | .alignment d _ _ offs => checkAlignment tol (pos d) offs
  | .separation d l r gap eq => checkSeparation tol (pos d) l r gap eq
  | .sepAlign d l r gap eq => checkPairs tol ccs d (pos d) [(l, r)] gap eq
  | .multiSep d sep eq pairs => checkPairs tol ccs d (pos d) pairs sep eq
  | .distribution d sep pairs => checkPairs tol ccs d (pos d) pairs sep true
  | .fixedRel _ _ rel => checkFixedRel tol pos rel
  | .pageBounds .. => true       -- soft (weighted) boundary: no hard meaning on the shapes

/-- alignments a compound constraint refers to (their being excused excuses it too) -/
def ccRefs : CC → List Nat
  | .sepAlign _ l r _ _ => [l, r]
  | .multiSep _ _ _ pairs => pairs.flatMap fun p => [p.1, p.2]
  | .distribution _ _ pairs => pairs.flatMap fun p => [p.1, p.2]
  | _ => []

/-- indices of compound constraints that are neither reported unsatisfiable (directly or through
    an alignment they refer to) nor satisfied within `tol` -/
def violated (tol : Rat) (ccs : List CC) (pos : Dim → Nat → Rat) (reported : List Nat) : List Nat :=
  (List.range ccs.length).filter fun j =>
    match ccs[j]? with
    | none => false
    | some cc =>
      !(reported.contains j) && !((ccRefs cc).any reported.contains) && !(checkCC tol ccs pos cc)

/-- sizes as exact values of the doubles `width()`, `height()` before and after -/
def sizesSame (before after : List (Rat × Rat)) : Bool := before == after

/-! ### C08: overlap and cluster containment on final rectangles -/

/-- length of the common part of `[aLo,aHi]` and `[bLo,bHi]` (≤ 0 when disjoint) -/
def overlapLen (aLo aHi bLo bHi : Rat) : Rat := minR aHi bHi - maxR aLo bLo

def Rect.ovX (a b : Rect) : Rat := overlapLen a.minX a.maxX b.minX b.maxX
def Rect.ovY (a b : Rect) : Rat := overlapLen a.minY a.maxY b.minY b.maxY

/-- the two rectangles overlap by more than `tol` in both dimensions -/
def overlapsBoth (tol : Rat) (a b : Rect) : Bool := decide (Rect.ovX a b > tol) && decide (Rect.ovY a b > tol)

/-- all index pairs `i < j` below `n` -/
def pairsBelow (n : Nat) : List (Nat × Nat) :=
  (List.range n).flatMap fun j => (List.range j).map fun i => (i, j)

/-- no two non-exempt rectangles overlap by more than `tol` in both dimensions -/
def noOverlapBoth (rs : Array Rect) (exempt : Nat → Nat → Bool) (tol : Rat) : Bool :=
  (pairsBelow rs.size).all fun p =>
    exempt p.1 p.2 || !(overlapsBoth tol (rs.getD p.1 default) (rs.getD p.2 default))

def offending (rs : Array Rect) (exempt : Nat → Nat → Bool) (tol : Rat) : List (Nat × Nat) :=
  (pairsBelow rs.size).filter fun p =>
    !(exempt p.1 p.2) && overlapsBoth tol (rs.getD p.1 default) (rs.getD p.2 default)

def Rect.union (a b : Rect) : Rect :=
  { minX := minR a.minX b.minX, maxX := maxR a.maxX b.maxX, minY := minR a.minY b.minY, maxY := maxR a.maxY b.maxY }

/-- bounding box of the rectangles of `members` (none if there are no members) -/
def bbox (rs : Array Rect) : List Nat → Option Rect
  | [] => none
  | i :: t =>
    match bbox rs t with
    | none => some (rs.getD i default)
    | some b => some (Rect.union (rs.getD i default) b)

/-- member bounding boxes of two clusters do not overlap by more than `tol` in both dimensions -/
def boxesDisjoint (tol : Rat) (rs : Array Rect) (m1 m2 : List Nat) : Bool :=
  match bbox rs m1, bbox rs m2 with
  | some a, some b => !(overlapsBoth tol a b)
  | _, _ => true

/-- `r` lies inside `b`, up to `tol` on every side -/
def withinTol (tol : Rat) (r b : Rect) : Bool :=
  decide (b.minX ≤ r.minX + tol) && decide (r.maxX ≤ b.maxX + tol) &&
  decide (b.minY ≤ r.minY + tol) && decide (r.maxY ≤ b.maxY + tol)

/-- every member rectangle lies inside the container rectangle (rectangle-based clusters) -/
def membersWithin (tol : Rat) (rs : Array Rect) (container : Nat) (members : List Nat) : Bool :=
  members.all fun i => withinTol tol (rs.getD i default) (rs.getD container default)

/-- the centre of rectangle `r` lies more than `tol` inside `b` in both dimensions -/
def centreInside (tol : Rat) (b r : Rect) : Bool :=
  decide (b.minX + tol < r.centre .x) && decide (r.centre .x + tol < b.maxX) &&
  decide (b.minY + tol < r.centre .y) && decide (r.centre .y + tol < b.maxY)

/-- no node outside `members` has its centre inside the member bounding box -/
def noForeignInside (tol : Rat) (rs : Array Rect) (members : List Nat) : Bool :=
  match bbox rs members with
  | none => true
  | some b => (List.range rs.size).all fun i => members.contains i || !(centreInside tol b (rs.getD i default))

end AdaptaVerif.Check.Layout
