/-
C14 — executable checkers (core Lean only, exact `Rat`) deciding whether the result of
`dialect::doHOLA()` is a clean orthogonal drawing of the input graph and whether the returned
separation constraints hold.  Every checker has a soundness (mostly: iff) theorem in
`Lemmas/Drawing*.lean`, collected in `Props/C14.lean`.

Data as dumped by `harness/c14.cpp`:
* node  = id, centre (cx,cy), dimensions (w,h)            (`Node::getCentre/getDimensions`)
* edge  = id, (src,tgt) node ids, route point list        (`Edge::getEndIds/getRoute`)
* SepPair = the fields of `dialect::SepPair` incl. the sign bit of each gap

The segment-versus-open-rectangle test is `Check/RouteRect.lean` (exact Liang–Barsky, proven
sound and complete in `Lemmas/RouteRect.lean`).
-/
import AdaptaVerif.Check.RouteRect
namespace AdaptaVerif.Check.Drawing
open AdaptaVerif.Check.RouteRect

structure Node where
  id : Nat
  cx : Rat
  cy : Rat
  w : Rat
  h : Rat
  deriving Repr, Inhabited

structure Edge where
  id : Nat
  src : Nat
  tgt : Nat
  route : List P
  deriving Repr, Inhabited

structure Drawing where
  nodes : List Node
  edges : List Edge
  deriving Repr, Inhabited

/-- the node's rectangle `[cx-w/2, cx+w/2] × [cy-h/2, cy+h/2]` (exact) -/
def Node.box (n : Node) : Rect := ⟨n.cx - n.w / 2, n.cy - n.h / 2, n.cx + n.w / 2, n.cy + n.h / 2⟩

def Drawing.ids (d : Drawing) : List Nat := d.nodes.map (·.id)
def Drawing.ekeys (d : Drawing) : List (Nat × Nat) := d.edges.map (fun e => (e.src, e.tgt))
def Drawing.node? (d : Drawing) (i : Nat) : Option Node := d.nodes.find? (fun n => n.id == i)

/-! ### generic list helpers -/

/-- `f a b` for every pair `a` before `b` in the list -/
def pairwiseB {α : Type} (f : α → α → Bool) : List α → Bool
  | [] => true
  | a :: l => l.all (f a) && pairwiseB f l

/-- `f p q` for every leg (consecutive pair) of a polyline -/
def legsAll (f : P → P → Bool) : List P → Bool
  | a :: b :: rest => f a b && legsAll f (b :: rest)
  | _ => true

/-! ### clause 1: same graph -/

/-- node ids: no duplicates and the same set before/after; edges: the same multiset of
    (source id, target id) pairs -/
def sameGraph (before after : Drawing) : Bool :=
  decide (before.ids.Nodup) && before.ids.isPerm after.ids && before.ekeys.isPerm after.ekeys

/-! ### clause 2: sizes kept, bit for bit (doubles are compared as exact rationals) -/

def sizesKept (before after : Drawing) : Bool :=
  after.nodes.all (fun n => before.nodes.any (fun m => m.id == n.id && m.w == n.w && m.h == n.h))

/-! ### clause 3: no two nodes overlap -/

/-- the two rectangles share an open region that is more than `tol` wide and more than `tol`
    high (for `tol = 0`: their open interiors intersect) -/
def rectsOverlap (tol : Rat) (a b : Rect) : Bool :=
  decide (a.x0 + tol < a.x1) && decide (b.x0 + tol < b.x1) && decide (a.x0 + tol < b.x1) && decide (b.x0 + tol < a.x1)
    && decide (a.y0 + tol < a.y1) && decide (b.y0 + tol < b.y1) && decide (a.y0 + tol < b.y1) && decide (b.y0 + tol < a.y1)

def noNodeOverlap (tol : Rat) (d : Drawing) : Bool :=
  pairwiseB (fun a b => !rectsOverlap tol a.box b.box) d.nodes

/-! ### clause 4: routes exist and are orthogonal (exactly) -/

def legOrth (p q : P) : Bool := decide (p.x = q.x) || decide (p.y = q.y)

def routeOrthogonal (r : List P) : Bool := decide (2 ≤ r.length) && legsAll legOrth r

/-! ### clause 5: routes end at their end nodes (within the padding) -/

/-- closed-rectangle membership after enlarging the rectangle by `e` on every side -/
def inGrown (e : Rat) (r : Rect) (p : P) : Bool :=
  decide (r.x0 - e ≤ p.x) && decide (p.x ≤ r.x1 + e) && decide (r.y0 - e ≤ p.y) && decide (p.y ≤ r.y1 + e)

/-- the first route point lies in the box of one end node enlarged by `e` on every side and the
    last route point in the likewise enlarged box of the other end node (either orientation) -/
def routeEndsAt (e : Rat) (s t : Node) (r : List P) : Bool :=
  match r.head?, r.getLast? with
  | some a, some z =>
    (inGrown e s.box a && inGrown e t.box z) || (inGrown e t.box a && inGrown e s.box z)
  | _, _ => false

/-! ### clause 6: routes avoid all other nodes -/

/-- rectangles (shrunk by `s`) of all nodes other than the two ends -/
def otherBoxes (s : Rat) (d : Drawing) (e : Edge) : List Rect :=
  (d.nodes.filter (fun n => n.id != e.src && n.id != e.tgt)).map (fun n => n.box.shrink s)

def routeAvoidsOthers (s : Rat) (d : Drawing) (e : Edge) : Bool :=
  legsOk (otherBoxes s d e) e.route

/-! ### clause 7: the returned separation constraints hold
Interpretation of one `dialect::SepPair` in one dimension, transcribed from
`SepPair::generateSeparationConstraint` (libdialect/constraints.cpp): the sign *bit* of the gap
selects which node is the left one, BDRY adds the half extents of both nodes plus the
SepMatrix' extra boundary gap, EQ/INEQ select `left + gap = right` / `left + gap ≤ right`. -/

inductive GapType where
  | centre | bdry
  deriving Repr, DecidableEq, Inhabited

inductive SepType where
  | none | eq | ineq
  deriving Repr, DecidableEq, Inhabited

/-- one dimension of a SepPair: type, gap type, sign bit of the gap, value of the gap -/
structure SepDim where
  st : SepType
  gt : GapType
  neg : Bool
  gap : Rat
  deriving Repr, Inhabited

structure SepPair where
  src : Nat
  tgt : Nat
  x : SepDim
  y : SepDim
  deriving Repr, Inhabited

/-- `ps pt` = centre coordinates of src/tgt in this dimension, `ws wt` = their extents in this
    dimension, `extra` = `SepMatrix::getExtraBdryGap()`, `tol` = numeric tolerance -/
def dimHolds (tol extra : Rat) (c : SepDim) (ps pt ws wt : Rat) : Bool :=
  match c.st with
  | .none => true
  | st =>
    let left := if c.neg then pt else ps
    let right := if c.neg then ps else pt
    let g0 := if c.neg then -c.gap else c.gap
    let g := match c.gt with
      | .centre => g0
      | .bdry => g0 + (ws + wt) / 2 + extra
    match st with
    | .eq => decide (left + g - tol ≤ right) && decide (right ≤ left + g + tol)
    | _ => decide (left + g - tol ≤ right)

def sepHolds (tol extra : Rat) (d : Drawing) (sp : SepPair) : Bool :=
  match d.node? sp.src, d.node? sp.tgt with
  | some s, some t =>
    dimHolds tol extra sp.x s.cx t.cx s.w t.w && dimHolds tol extra sp.y s.cy t.cy s.h t.h
  | _, _ => false

def sepSatisfied (tol extra : Rat) (d : Drawing) (seps : List SepPair) : Bool :=
  seps.all (sepHolds tol extra d)

/-! ### the whole property -/

/-- clause 5 for an edge of the drawing; an edge whose end ids are not nodes of the drawing fails -/
def edgeEndsOk (padE : Rat) (d : Drawing) (e : Edge) : Bool :=
  match d.node? e.src, d.node? e.tgt with
  | some s, some t => routeEndsAt padE s t e.route
  | _, _ => false

/-- per-edge clauses 4, 5, 6 -/
def edgeOk (padE shrink : Rat) (d : Drawing) (e : Edge) : Bool :=
  routeOrthogonal e.route && edgeEndsOk padE d e && routeAvoidsOthers shrink d e

structure Params where
  /-- overlap tolerance of clause 3 -/
  overlapTol : Rat
  /-- per-side enlargement of the end-node boxes in clause 5 -/
  padE : Rat
  /-- shrink of the other nodes' boxes in clause 6 -/
  shrink : Rat
  /-- tolerance of clause 7 -/
  sepTol : Rat
  /-- `SepMatrix::getExtraBdryGap()` of the returned matrix -/
  extraBdry : Rat

def cleanDrawing (pr : Params) (before after : Drawing) (seps : List SepPair) : Bool :=
  sameGraph before after && sizesKept before after && noNodeOverlap pr.overlapTol after
    && after.edges.all (edgeOk pr.padE pr.shrink after)
    && sepSatisfied pr.sepTol pr.extraBdry after seps

end AdaptaVerif.Check.Drawing
