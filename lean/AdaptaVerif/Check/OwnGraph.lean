/-
C04, segment penalty > 0: certificates for the optimum of  length + penalty · bends  over libavoid's OWN
polyline search space (core Lean only).

The A* search of makepath.cpp runs on states (vertex v, previous vertex p); a move (v, p) → (w, v) is taken iff
{v, w} is an enabled visibility edge, w ≠ p and `validateBendPoint p v w`; it costs |vw| + penalty · b where
b = 0 / 1 / 2 for straight on / a bend / doubling back (`cost()`); the first leg is free of bends.  A `Space`
holds exactly this: the directed moves with certified length enclosures, the bend count and the admissibility
predicate as functions of (p, v, w).  "No previous vertex" is the code `n`.

A certificate for the optimum from s to t consists of
  * a potential π over the states with π(s, none) = 0 that is feasible on every move (with the LOWER ends of
    the enclosures): every admissible route costs at least  min over arrivals (t, p) of π(t, p);
  * a witness vertex path all of whose moves are admissible: Σ upper ends + penalties bounds the optimum from above.
`checkOwn` verifies both and returns the certified interval.  Soundness: Props/C04Own.lean.
-/
import AdaptaVerif.Check.Potential
namespace AdaptaVerif.Check.OwnGraph
open AdaptaVerif.Model.Geometry (Pt area2)
open AdaptaVerif.Check.Potential AdaptaVerif.Num

structure Space where
  n : Nat
  edges : List WEdge
  bend : Nat → Nat → Nat → Nat
  ok : Nat → Nat → Nat → Bool
  pen : Rat

/-- code of the previous vertex of a state -/
def code (n : Nat) : Option Nat → Nat
  | none => n
  | some p => p

/-- bends charged for the move (v, prev) → (w, v) -/
def bendOf (S : Space) : Option Nat → Nat → Nat → Nat
  | none, _, _ => 0
  | some p, v, w => S.bend p v w

/-- may the search take the move (v, prev) → (w, v)? -/
def admissible (S : Space) : Option Nat → Nat → Nat → Bool
  | none, _, _ => true
  | some p, v, w => w != p && S.ok p v w

/-- feasibility on the moves out of the start state (s, none) -/
def feasStart (S : Space) (π : Nat → Nat → Rat) (s : Nat) : Bool :=
  S.edges.all fun e => e.u != s || decide (π e.v e.u ≤ π s S.n + e.wlo)

/-- feasibility on every move (e1.v, e1.u) → (e2.v, e1.v) -/
def feasInner (S : Space) (π : Nat → Nat → Rat) : Bool :=
  S.edges.all fun e1 => S.edges.all fun e2 =>
    e2.u != e1.v || e2.v == e1.u || !S.ok e1.u e1.v e2.v ||
      decide (π e2.v e2.u ≤ π e1.v e1.u + (e2.wlo + S.pen * (S.bend e1.u e1.v e2.v : Nat)))

/-- `lo` is below the potential of every arrival state at t -/
def tarLo (S : Space) (π : Nat → Nat → Rat) (t : Nat) (lo : Rat) : Bool :=
  S.edges.all fun e => e.v != t || decide (lo ≤ π e.v e.u)

/-- the smallest potential of an arrival state at t (untrusted; re-checked by `tarLo`) -/
def minArrival (S : Space) (π : Nat → Nat → Rat) (t : Nat) : Option Rat :=
  S.edges.foldl (fun acc e => if e.v == t then
      match acc with
      | none => some (π e.v e.u)
      | some m => if π e.v e.u < m then some (π e.v e.u) else some m
    else acc) none

/-- Σ upper ends + penalties along a vertex path from state (head, prev); `none` if a move is not admissible -/
def routeHi (S : Space) : Option Nat → List Nat → Option Rat
  | _, [] => none
  | _, [_] => some 0
  | prev, v :: w :: rest =>
    match findEdge S.edges v w, routeHi S (some v) (w :: rest) with
    | some e, some c => if admissible S prev v w then some (e.whi + S.pen * (bendOf S prev v w : Nat) + c) else none
    | _, _ => none

/-- verify the certificate; result = certified enclosure of the optimum over the admissible routes s → t -/
def checkOwn (S : Space) (π : Nat → Nat → Rat) (s t : Nat) (path : List Nat) : Option (Rat × Rat) :=
  match minArrival S π t with
  | none => none
  | some lo =>
    if s ≠ t ∧ π s S.n = 0 ∧ feasStart S π s = true ∧ feasInner S π = true ∧ tarLo S π t lo = true ∧
        path.head? = some s ∧ path.getLast? = some t then
      (routeHi S none path).map fun hi => (lo, hi)
    else none

/-! ### the concrete space of a dumped visibility graph -/

/-- bends charged by `cost()` at b between a and c: 0 collinear straight on, 2 doubling back, else 1 -/
def bendCount (a b c : Pt) : Nat :=
  if area2 a b c ≠ 0 then 1
  else if (b.x - a.x) * (c.x - b.x) + (b.y - a.y) * (c.y - b.y) > 0 then 0 else 2

def sgn (r : Rat) : Int := if r > 0 then 1 else if r < 0 then -1 else 0

/-- `validateBendPoint(a, b, c)` of connector.cpp, b a shape corner with neighbours d = shPrev, e = shNext -/
def validBend (a b c d e : Pt) : Bool :=
  let abc := sgn (area2 a b c)
  if abc == 0 then true
  else
    let abe := sgn (area2 a b e)
    let abd := sgn (area2 a b d)
    let bce := sgn (area2 b c e)
    let bcd := sgn (area2 b c d)
    if abe > 0 then abc > 0 && abd ≥ 0 && bce ≥ 0
    else if abd < 0 then abc < 0 && abe ≤ 0 && bcd ≤ 0
    else false

/-- a dumped vertex: position and the indices of its neighbours on its shape (none for connector endpoints) -/
structure OV where
  p : Pt
  prev : Option Nat
  next : Option Nat
  deriving Inhabited

def mkSpace (vs : Array OV) (edges : List WEdge) (pen : Rat) : Space where
  n := vs.size
  edges := edges
  pen := pen
  bend := fun a b c => bendCount (vs[a]!).p (vs[b]!).p (vs[c]!).p
  ok := fun a b c =>
    match (vs[b]!).prev, (vs[b]!).next with
    | some d, some e => validBend (vs[a]!).p (vs[b]!).p (vs[c]!).p (vs[d]!).p (vs[e]!).p
    | _, _ => false

/-- directed moves of the search from the undirected dumped edges: not into a vertex that is neither a shape corner
    nor the target (`into w`), with certified length enclosures -/
def movesOf (vs : Array OV) (k : Nat) (into : Nat → Bool) (und : List (Nat × Nat)) : List WEdge :=
  und.foldr (fun (uv : Nat × Nat) acc =>
    let p := (vs[uv.1]!).p
    let q := (vs[uv.2]!).p
    let lo := sqrtLo (sqDist p q) k
    let hi := sqrtHi (sqDist p q) k
    let acc := if into uv.1 then { u := uv.2, v := uv.1, wlo := lo, whi := hi : WEdge } :: acc else acc
    if into uv.2 then { u := uv.1, v := uv.2, wlo := lo, whi := hi : WEdge } :: acc else acc) []

/-- potential table lookup: index v · (n + 1) + p -/
def potTable (n : Nat) (tbl : Array Rat) (v p : Nat) : Rat := tbl.getD (v * (n + 1) + p) 0

end AdaptaVerif.Check.OwnGraph
