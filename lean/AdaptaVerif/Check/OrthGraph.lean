/-
C05 (direction-restricted endpoints): verifier for "the search result is optimal among the routes
of libavoid's *own* orthogonal visibility graph".  Core Lean only.

With restricted `ConnDirFlags` the geometric optimum is not attained (a first leg may be arbitrarily
short), so there the property is read as: A* returns a cheapest route of the visibility graph the
router built.  The harness dumps that graph (vertices with coordinates, undirected axis-parallel
edges), and supplies an untrusted potential over the states (vertex, heading) plus a witness route;
this file checks them exactly as `Check.Hanan` does for the Hanan grid.  Rules mirrored from
`AStarPathPrivate::search`: the route never enters a connector endpoint other than the target
(here: the source), zero-length edges are skipped, the first hop is not charged a bend, a quarter
turn costs `pen`, doubling back `2·pen`.
-/
import AdaptaVerif.Check.Hanan
namespace AdaptaVerif.Check.OrthGraph
open AdaptaVerif.Check.Hanan (absR turnCost)

structure VG where
  xs : Array Rat
  ys : Array Rat
  adj : Array (List Nat)
  src : Nat
  tar : Nat
  pen : Rat
  /-- `VertInf::orthogVisPropFlags` per vertex (XL_EDGE=1, XH_EDGE=4, YL_EDGE=16, YH_EDGE=64) -/
  flags : Array Nat := #[]
  /-- apply the turn-pruning rule of `AStarPathPrivate::search` (makepath.cpp, "orthogonal routing
      optimisation") as written in the clean source -/
  prune : Bool := false
  deriving Repr, Inhabited

def VG.n (g : VG) : Nat := g.xs.size

/-- search state: vertex `v` entered with heading `h` (0=N(-y) 1=E(+x) 2=S(+y) 3=W(-x)) -/
structure VState where
  v : Nat
  h : Nat
  deriving DecidableEq, Repr, Inhabited

/-- heading and length of the hop u → w (none: not axis-parallel, or zero length) -/
def hop (g : VG) (u w : Nat) : Option (Nat × Rat) :=
  let ax := g.xs.getD u 0
  let ay := g.ys.getD u 0
  let bx := g.xs.getD w 0
  let by_ := g.ys.getD w 0
  if ay = by_ then
    if ax < bx then some (1, bx - ax) else if bx < ax then some (3, ax - bx) else none
  else if ax = bx then
    if ay < by_ then some (2, by_ - ay) else some (0, ay - by_)
  else none

def inRange (g : VG) (s : VState) : Prop := s.v < g.n ∧ s.h < 4

instance (g : VG) (s : VState) : Decidable (inRange g s) := by unfold inRange; infer_instance

/-- The documented turn-pruning rule: at vertex `v`, entered with heading `h`, the hop in heading
    `d` is skipped when it is a quarter turn that neither heads beside a shape edge
    (`orthogVisPropFlags`) nor happens in line with the target, unless `v` still lies on the row
    (for turns off a horizontal segment) resp. column (off a vertical segment) of the source.
      horizontal → vertical (h ∈ {E,W}, d ∈ {N,S}): needs y_v = y_src ∨ flag YL/YH ∨ x_v = x_tar
      vertical → horizontal (h ∈ {N,S}, d ∈ {E,W}): needs x_v = x_src ∨ flag XL/XH ∨ y_v = y_tar -/
def pruned (g : VG) (h v d : Nat) : Bool :=
  let x := g.xs.getD v 0
  let y := g.ys.getD v 0
  let f := g.flags.getD v 0
  if (h = 1 ∨ h = 3) ∧ (d = 0 ∨ d = 2) then
    decide (y ≠ g.ys.getD g.src 0) && decide (f &&& (if d = 0 then 16 else 64) = 0) &&
      decide (x ≠ g.xs.getD g.tar 0)
  else if (h = 0 ∨ h = 2) ∧ (d = 1 ∨ d = 3) then
    decide (x ≠ g.xs.getD g.src 0) && decide (f &&& (if d = 3 then 1 else 4) = 0) &&
      decide (y ≠ g.ys.getD g.tar 0)
  else false

/-- is the hop from state `s` to neighbour `w` discarded by the pruning rule (when enabled)? -/
def hopPruned (g : VG) (s : VState) (w : Nat) : Bool :=
  g.prune && (match hop g s.v w with
    | some (d, _) => pruned g s.h s.v d
    | none => false)

/-- the edge from state `s` to neighbour `w` -/
def edge (g : VG) (s : VState) (w : Nat) : Option (VState × Rat) :=
  if w = g.src ∨ ¬ w < g.n ∨ hopPruned g s w = true then none
  else
    match hop g s.v w with
    | none => none
    | some (d, len) => some (⟨w, d⟩, len + turnCost g.pen s.h d)

def succ (g : VG) (s : VState) : List (VState × Rat) :=
  (g.adj.getD s.v []).filterMap (edge g s)

/-- first hops out of the source: no bend charged -/
def firstMoves (g : VG) : List (VState × Rat) :=
  (g.adj.getD g.src []).filterMap fun w =>
    if w = g.src ∨ ¬ w < g.n then none
    else match hop g g.src w with
      | none => none
      | some (d, len) => some (⟨w, d⟩, len)

def isGoal (g : VG) (t : VState) : Bool := t.v = g.tar

structure Cert where
  pot : Array Rat          -- index v * 4 + h
  wit : List VState        -- states after each hop of the witness route
  deriving Repr, Inhabited

def potAt (c : Cert) (s : VState) : Rat := c.pot.getD (s.v * 4 + s.h) 0

def allStates (g : VG) : List VState :=
  (List.range g.n).flatMap fun v => (List.range 4).map fun h => ⟨v, h⟩

def feasible (g : VG) (c : Cert) : Bool :=
  (allStates g).all fun u => (succ g u).all fun e => potAt c u ≤ e.2 + potAt c e.1

def goalsOk (g : VG) (c : Cert) : Bool :=
  (allStates g).all fun t => !isGoal g t || potAt c t ≤ 0

def walkCost (g : VG) : VState → List VState → Option Rat
  | _, [] => some 0
  | u, v :: rest =>
    if inRange g u then
      match (succ g u).find? (fun e => e.1 = v) with
      | some e =>
        match walkCost g v rest with
        | some c => some (e.2 + c)
        | none => none
      | none => none
    else none

def lastState : VState → List VState → VState
  | u, [] => u
  | _, v :: rest => lastState v rest

def lowerBound (g : VG) (c : Cert) : Option Rat :=
  AdaptaVerif.Check.Hanan.minList ((firstMoves g).map fun e => e.2 + potAt c e.1)

def witnessCost (g : VG) (c : Cert) : Option Rat :=
  match c.wit with
  | [] => none
  | v :: rest =>
    match (firstMoves g).find? (fun e => e.1 = v) with
    | none => none
    | some e =>
      match walkCost g v rest with
      | none => none
      | some w => if isGoal g (lastState v rest) then some (e.2 + w) else none

/-- `some opt`: `opt` is the minimum route cost of the dumped visibility graph -/
def checkCert (g : VG) (c : Cert) : Option Rat :=
  if feasible g c && goalsOk g c then
    match lowerBound g c, witnessCost g c with
    | some lb, some wc => if lb = wc then some lb else none
    | _, _ => none
  else none

def explain (g : VG) (c : Cert) : String :=
  if c.pot.size ≠ g.n * 4 then s!"potential has {c.pot.size} entries, graph has {g.n} vertices"
  else if !feasible g c then "potential infeasible on some edge"
  else if !goalsOk g c then "potential positive at the target"
  else match lowerBound g c, witnessCost g c with
    | none, _ => "source has no usable edge"
    | _, none => "witness is not a route of the graph"
    | some lb, some wc => if lb = wc then "ok" else s!"witness cost {wc} ≠ potential bound {lb}"

end AdaptaVerif.Check.OrthGraph
