/-
C10 executable checkers on real routes (core Lean only, exact rational arithmetic).
Soundness theorems: Props/C10.lean.
-/
import AdaptaVerif.Model.Pins
namespace AdaptaVerif.Check.Nudge
open AdaptaVerif.Model.Pins

/-- consecutive point pairs of a polyline -/
def segments : List P2 → List (P2 × P2)
  | a :: b :: rest => (a, b) :: segments (b :: rest)
  | _ => []

/-- number of segments of a route -/
def segCount (r : List P2) : Nat := r.length - 1

/-- length of the common part of the closed intervals [min a b, max a b] and [min c d, max c d] -/
def overlapLen (a b c d : Rat) : Rat := min (max a b) (max c d) - max (min a b) (min c d)

/-- two axis-parallel segments lie on one line and share a stretch of positive length -/
def collinearOverlap (s t : P2 × P2) : Bool :=
  (decide (s.1.y = s.2.y) && decide (t.1.y = t.2.y) && decide (s.1.y = t.1.y) &&
      decide (0 < overlapLen s.1.x s.2.x t.1.x t.2.x)) ||
  (decide (s.1.x = s.2.x) && decide (t.1.x = t.2.x) && decide (s.1.x = t.1.x) &&
      decide (0 < overlapLen s.1.y s.2.y t.1.y t.2.y))

/-- two orthogonal polylines share a collinear overlapping stretch of positive length -/
def sharedCollinearStretch (r1 r2 : List P2) : Bool :=
  (segments r1).any (fun s => (segments r2).any (fun t => collinearOverlap s t))

def absR (r : Rat) : Rat := if r < 0 then -r else r

/-- distance between two parallel axis-parallel segments whose extents overlap with positive
    length (`none` when they are not such a pair) -/
def parallelOverlapDist (s t : P2 × P2) : Option Rat :=
  if s.1.y = s.2.y ∧ t.1.y = t.2.y ∧ 0 < overlapLen s.1.x s.2.x t.1.x t.2.x then some (absR (s.1.y - t.1.y))
  else if s.1.x = s.2.x ∧ t.1.x = t.2.x ∧ 0 < overlapLen s.1.y s.2.y t.1.y t.2.y then some (absR (s.1.x - t.1.x))
  else none

def optMin (a : Option Rat) (b : Option Rat) : Option Rat :=
  match a, b with
  | some x, some y => some (min x y)
  | some x, none => some x
  | none, y => y

/-- minimum distance between parallel overlapping segments of two routes -/
def minParallelDist (r1 r2 : List P2) : Option Rat :=
  (segments r1).foldl (fun acc s => (segments r2).foldl (fun acc t => optMin acc (parallelOverlapDist s t)) acc) none

/-- do the two connectors have an end point in common? -/
def commonEndpoint (r1 r2 : List P2) : Bool :=
  match r1.head?, r1.getLast?, r2.head?, r2.getLast? with
  | some a, some b, some c, some d => decide (a = c) || decide (a = d) || decide (b = c) || decide (b = d)
  | _, _, _, _ => false

end AdaptaVerif.Check.Nudge
