#!/usr/bin/env python3
"""Regenerate MANIFEST.json from check/props/Cxx.py metadata (single source of truth)."""
import json, importlib.util, subprocess
from pathlib import Path
ROOT = Path(__file__).resolve().parent.parent
ids = [json.loads(l)["id"] for l in (ROOT / "properties.jsonl").read_text().splitlines() if l.strip()]
checks, na = [], []
for pid in ids:
    f = ROOT / "check" / "props" / (pid + ".py")
    if not f.exists():
        na.append(dict(property_id=pid, reason="check not built yet (work in progress; Lean-based check planned, see DESIGN.md section 6)"))
        continue
    spec = importlib.util.spec_from_file_location("p", f); P = importlib.util.module_from_spec(spec); spec.loader.exec_module(P)
    if getattr(P, "NOT_APPLICABLE", None):
        na.append(dict(property_id=pid, reason=P.NOT_APPLICABLE)); continue
    if getattr(P, "WIP", False):
        na.append(dict(property_id=pid, reason="check under construction (Lean model + harness exist but are not yet quiet/complete); see DESIGN.md section 6")); continue
    checks.append(dict(
        property_id=pid,
        quick_cmd="python3 check/check.py %s --tier quick" % pid,
        thorough_cmd="python3 check/check.py %s --tier thorough" % pid,
        evidence_file="evidence/%s.json" % pid,
        replay_cmd_template="python3 check/check.py %s --replay {path}" % pid,
        engine="lean4+correspondence",
        level_claimed=dict(category=P.LEVEL, text=getattr(P, "LEVEL_TEXT", ""), design_ref=getattr(P, "DESIGN_REF", "DESIGN.md section 6 " + pid)),
        level_note=getattr(P, "LEVEL_NOTE", ""),
        technique=getattr(P, "TECHNIQUE", "Lean 4 theorems about an executable model + correspondence harness"),
    ))
repo_commits = subprocess.run(["git", "-C", "/repo", "log", "--format=%h %s", "--grep=^hook:"], capture_output=True, text=True).stdout.strip().splitlines()
m = dict(
    version=1,
    setup_cmd="python3 check/setup.py",
    hooks=dict(guard="ADAPTAGRAMS_VERIF",
               enable="checks compile cola/lib*/*.cpp from /repo's working tree with -DADAPTAGRAMS_VERIF (see check/check.py BASE_FLAGS)",
               baseline_off_cmd="cd /repo/cola && make -k -j8 check",
               source_commits=[c.split()[0] for c in repo_commits],
               add_only=True),
    engines=[dict(name="lean4+correspondence", path="check/check.py",
                  serves_properties=[c["property_id"] for c in checks],
                  kind_free_text="Lean 4 theorems about executable models (lean/AdaptaVerif), tied to /repo by regenerated kernels (tools/cpp2lean) and by a sanitizer-built C++ correspondence harness whose case stream is re-evaluated by a compiled Lean driver")],
    checks=checks,
    notes="All checks: python3 check/check.py <Cxx> --tier quick|thorough. Known findings: known_findings.json. See DESIGN.md.",
    not_applicable=na,
)
(ROOT / "MANIFEST.json").write_text(json.dumps(m, indent=1) + "\n")
print("checks:", [c["property_id"] for c in checks], "n/a:", [n["property_id"] for n in na])
