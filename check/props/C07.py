LIBS = ["libvpsc", "libcola"]          # libcola needs nothing from libavoid/libtopology (TopologyAddonInterface has a default)
HARNESS = "harness/c07.cpp"
DRIVER_MODE = "c07"
LEAN_MODULES = ["AdaptaVerif.Props.C07", "AdaptaVerif.Props.C07Tie", "AdaptaVerif.Props.C07MakeFeasible"]
LEVEL = "translation_validation"
LEVEL_TEXT = ("Proof component: for every libcola compound-constraint type the vpsc variables/constraints "
              "the model generates are proved sound and complete for the documented meaning (all parameters, "
              "all sizes), the feasible set is proved convex (descent steps), and the result checkers are "
              "proved to decide the tolerance specs. Tie: the model's generated variables and constraints are "
              "compared exactly with generateVariables/generateSeparationConstraints of the real classes. "
              "Validation: final rectangles of ConstrainedFDLayout (makeFeasible and/or run) and "
              "ConstrainedMajorizationLayout::run are checked per run by the proven checkers. "
              "makeFeasible: the control flow of ConstrainedFDLayout::makeFeasible (work list from the back, one trial per "
              "alternative on a live IncSolver, flag scan over all of valid[dim], back-out, the unchecked combined branch of "
              "FixedRelativeConstraint) is an executable model over the IncSolver model (Model/MakeFeasible.lean); proved for all "
              "work lists: every kept constraint holds at the returned node positions (makeFeasible_accepted_hold), a sub-constraint "
              "is dropped only after flagged trials of all its alternatives, violated => dropped (violated_unreported_iff_dropped), "
              "and closed witnesses (satisfiable scene with a drop, the solver flagging a consistent equality, a combined item breaking "
              "an accepted constraint) that the harness replays on the real library. Tie: the satisfied flags of every sub-constraint "
              "and the rectangles right after makeFeasible() (plus the whole trial log when hook_c07 is compiled in) equal the model's "
              "whenever every solver decision has margin > 2e-11.")
LEVEL_NOTE = ("Stress descent is NOT modelled; makeFeasible's loop is modelled for user constraints and for the lazily generated "
              "non-overlap item over plain shapes (pairs sorted by live overlap, containment penalty, four alternatives by cost, re-queueing; "
              "cluster containment / cluster non-overlap are C08's and not modelled here); with overlap avoidance about a quarter of the scenes "
              "have an exact tie between overlap keys computed from rounded positions and are compared on the user-phase flags only; "
              "C07's end-to-end claim holds only for the sampled runs. A violation right after makeFeasible() is excused as the known "
              "finding only if the MODEL drops that sub-constraint on the same scene (class makeFeasible-drop) or flags it in a combined "
              "solve (class makeFeasible-combined-unchecked); otherwise it is the strict kind makeFeasible-violates-accepted. Mapping of unsatisfiable reports to "
              "compound constraints is conservative (any reported sub-constraint, or a reported alignment a "
              "constraint refers to, excuses the whole compound constraint). Page boundaries are soft and have "
              "no hard meaning on the shapes. Five classes of clean-tree violations of the property text are "
              "reported with their own message prefixes: unreported-violation[makeFeasible-only], "
              "unreported-violation[fd-run,over-constrained], hang, exception[cml], size-rounding.")
TECHNIQUE = "Lean 4 theorems (gen_sound/gen_complete per type, convex_step, checker iff) + exact correspondence of generated constraints + proven checkers on real layout outputs"
RULE = ("gen-*: random mixes of all 8 compound constraint types (incl. references between constraints, duplicate ids, "
        "zero/negative-zero offsets, zero-weight page boundary, invalid indices), non-trivial = at least one vpsc constraint generated. "
        "fd*/cml*: random graphs (edgeless, disconnected, tree, path, dense), starts (spread, coincident, clumps, grid, tight), "
        "jointly satisfiable mixes derived from a hidden placement and planted unsatisfiable gadgets (cycles, conflicting equalities, "
        "aligned-and-separated, boundary conflicts), overlap avoidance / neighbour stress on and off; non-trivial = has user constraints and the layout moved. "
        "sizes-*: width()/height() before and after the same layout run. "
        "mfwit-*: the three closed witness scenes of Props/C07MakeFeasible run through the real makeFeasible(). "
        "fdmf-ovl / fdmfrun-ovl: 3-5 mutually overlapping rectangles of pairwise different sizes and centres with overlap avoidance "
        "(every shape pair of the non-overlap item is handled individually), makeFeasible alone or followed by run(). "
        "A hang is the known library livelock only if the MODEL's non-overlap loop does not terminate either; otherwise it is the strict kind hang-but-model-terminates.")
TRUSTED_BASE = ["Lean 4.33 kernel", "axioms: propext, Classical.choice, Quot.sound", "compiled Lean driver",
                "harness/c07.cpp + c07_cc.h (scene generator, dump; protected-member accessor for the satisfied flags; "
                "std::sort replicated on (priority, index) pairs to learn the order of idleConstraints)", "hex-float import", "g++ ASan/UBSan build of /repo sources"]
ASSUMPTIONS = ["a double printed with %a is imported exactly", "generated inputs are dyadic so rectangle centres are exact",
               "unsatisfiable lists registered through setUnsatisfiableConstraintInfo are the only reporting channel"]
EXPLANATION = "see LEVEL_TEXT / LEVEL_NOTE"


def regenerate(ROOT, REPO):
    """the eight CompoundConstraint::generateSeparationConstraints methods (iterator loops over _subConstraintInfo pushing
    `new vpsc::Constraint(...)`) and VarIndexPair::indexL/indexR are regenerated from cola/libcola/compound_constraints.cpp by
    cpp2lean on every run and proved equal to the generators of Model/Compound.lean and to what the dispatcher genSepsOne
    returns (Props/C07Tie.lean)"""
    import sys
    from pathlib import Path
    sys.path.insert(0, str(Path(ROOT) / "tools" / "cpp2lean"))
    import jobs
    return jobs.regenerate(["compound"], Path(ROOT), Path(REPO))


def plan(tier, seed, searching):
    return [dict(hargs=["--seed", str(seed), "--tier", tier, "--scale", "8" if searching else "1"], timeout=1500)]


def only_args(hargs, k):
    return hargs + ["--only", str(k)]
