import os
LIBS = ["libvpsc", "libcola", "libavoid", "libtopology", "libdialect"]
HARNESS = "harness/c15.cpp"
DRIVER_MODE = "c15"
LEAN_MODULES = ["AdaptaVerif.Props.C15"]
LEVEL = "other"
LEVEL_TEXT = ("Two halves. (A) Logic of object lifetime in libavoid's Router, machine-checked: an executable Lean model of the "
              "Router's ownership state machine (shapes, junctions, connectors, pins, clusters, checkpoint vertices, the pending action list with "
              "find-before-push / removeObjectFromQueuedActions / processActions, transactions on and off, ~Router) with "
              "theorems over ALL legal operation histories of any length: live sets = created minus freed, nothing freed "
              "twice, no queued action that is dereferenced names a freed object, no connector end names a freed obstacle "
              "or pin, everything released after ~Router, and (strict legality) no use-after-free / re-entrant processing / "
              "internal assertion inside processActions; clusters (ClusterRef) are linked in Router::clusterRefs exactly while "
              "allocated and none survives ~Router, with a closed witness that the machine mirroring the code before /repo def6b3d "
              "(stepOld) leaks them; cluster boundaries that reference obstacle vertices (ReferencingPolygon) never point into a freed "
              "obstacle when the router reads them (strict legality: restriction K6, necessary by a closed witness); plus closed counterexamples proving that documented-legal but not "
              "strictly legal histories DO hit those defects. (B) Runtime observation: generated legal API histories of all "
              "five libraries are executed in-process under AddressSanitizer + UndefinedBehaviorSanitizer + LeakSanitizer "
              "with the libraries' assertions on; leaks are attributed per case; after every Router operation the router's "
              "public live sets (m_obstacles, connRefs, clusterRefs), endpoint anchors and attachment counts are compared with the Lean model. "
              "The histories set every RoutingParameter and RoutingOption (0 / default / other values, also between transactions) and "
              "call the rest of the documented public API (fixed routes, setRoutingType, splitAtSegment, removeJunctionAndMergeConnectors, "
              "transformConnectionPinPositions, resized moveShape, queries, SVG/text output), composite calls being expanded into the "
              "model operations they perform.")
LEVEL_NOTE = ("A theorem cannot exhibit a C++ use-after-free: half (A) is about the hand-written model, tied to the code only by "
              "the sampled correspondence of half (B) (m_obstacles / connRefs / clusterRefs ids, ConnRef::endpointConnEnds anchors, ConnRef::routingCheckpoints counts, "
              "Obstacle::attachedConnectors counts after every op; pins are not publicly observable and are model-only). Half (B) "
              "is testing under sanitizers, not proof: absence of reports on the sampled histories only. 'Legal' for the "
              "Router is the model's decidable strict predicate (documented preconditions minus the known-finding classes, "
              "each of which has its own kf-* replay step); for libvpsc/libcola/libtopology/libdialect legality is the "
              "documented ownership rules as encoded in harness/c15_libs.h. API calls without lifetime effect are the identity in the "
              "model (their C++ runs under the sanitizers only); geometry, routes and option-dependent routing code are not modelled. "
              "The main class stays away from the open round-6 findings (cluster boundaries that are not graph vertices with polyline "
              "connectors, boundaries referencing a shape that is deleted, segmentPenalty 0 with orthogonal routing, idealNudgingDistance 0, "
              "deleting a pin while a library-made ConnEnd copy naming it is queued, polyline connectors along referencing boundaries); "
              "each has its own replay step. Hyperedge rerouting registration and "
              "improveHyperedgeRoutesMovingAddingAndDeletingJunctions are exercised only by kf-* steps (they trip internal "
              "assertions on generated inputs). Termination is observed per run (harness timeout), not proved.")
TECHNIQUE = "Lean 4 state-machine theorems (ownership logic) + sanitizer-instrumented history replay with model correspondence"
DESIGN_REF = "DESIGN.md section 6 C15"
EXPLANATION = ("(A) Lean: Model/Lifecycle.lean is an executable model of Router object lifetime; Props/C15.lean proves, for every "
               "legal history, live_sets_refine, freed_once, no_dangling_action, conn_ends_valid, all_released (and no_fault "
               "under strict legality; clusters_linked, clusters_released, no_dangling_cluster_ref, cluster_refs_valid for clusters), and proves by "
               "evaluation that the documented-legal histories K1, K2, K4, K6 produce a leak / "
               "assertion / use-after-free in the model, and that the pre-def6b3d machine stepOld leaks clusters (former K3/K5, repaired in /repo, are now proved legal and fault-free). (B) harness/c15.cpp generates strictly legal histories "
               "(5-40 ops quick, up to 60 thorough; both routing modes; transactions on/off and switched; deleting shapes whose "
               "pins are in use; deleting connectors inside a pending transaction; move+delete in one transaction; deleting "
               "junctions; destroying the router with queued actions; setRoutingCheckpoints with 0-3 checkpoints, repeatedly on the same connector; "
               "clusters with rectangular / triangular / L-shaped / pentagonal boundaries containing, overlapping, disjoint from shapes and nested, "
               "setNewPoly, deleteCluster mid-history, ~Router with clusters alive; all 9 RoutingParameters and 6 of the 7 RoutingOptions at 0 / default / "
               "other values, changed between transactions; setRoutingType flips, fixed routes, splitAtSegment, removeJunctionAndMergeConnectors, "
               "transformConnectionPinPositions, resized moveShape with first_move, pins with absolute offsets / inside offset / connection cost, "
               "ConnEnd(Point, directions), callbacks, queries, outputInstanceToSVG / outputDiagramText, transactions cancelled through a "
               "Router subclass overriding shouldContinueTransactionWithProgress; with transactions off also deleteJunction, moving obstacles with "
               "attached connectors, the 3-argument ConnRef constructor and new pins on attached shapes) plus vpsc/cola/topology/dialect lifecycles, runs them "
               "under ASan+UBSan+LSan with assertions on, calls __lsan_do_recoverable_leak_check() after every case, and "
               "driver_c15 replays each Router history in the model, checks Legal for every op and compares the observable "
               "live sets after every op. Each known defect class is replayed by its own harness invocation (--mode kf-*).")
RULE = ("router-hist: random strictly legal op sequences from the weighted op mix in harness/c15.cpp (geometry on a 5-unit grid, "
        "ids explicit); a case is non-trivial if it has >= 5 operations and at least one deletion (shape, junction, connector, "
        "pin or cluster). vpsc/cola/topology/dialect-hist: random small lifecycles, non-trivial if >= 3 API steps. kf-*: one "
        "deterministic minimal history per known-finding class.")
TRUSTED_BASE = ["Lean 4.33 kernel", "axioms: propext, Classical.choice, Quot.sound",
                "gcc 12 AddressSanitizer / UndefinedBehaviorSanitizer / LeakSanitizer (incl. __lsan_do_recoverable_leak_check)",
                "harness/c15.cpp + harness/c15_libs.h (legality of the generated histories; their mirror of the model's Legal is "
                "re-checked per op by the driver)", "lean/Driver/C15.lean (compiled)", "check/check.py CRASH attribution"]
ASSUMPTIONS = ["valid use = documented preconditions; for the Router additionally the model's strict Legal predicate, i.e. outside "
               "the known-finding classes K1-K13 and the open round-6 findings (each replayed separately)",
               "ClusterRef polygons: free polygons next to polyline connectors only with clusterCrossingPenalty 0 (makepath.cpp:385 wants every "
               "boundary point to be a visibility-graph vertex); the designed use (boundary points referencing shape vertices) is "
               "exercised by the class router-hist-cp",
               "pins, vertices, visibility edges and hyperedge trees are not publicly observable: their release is checked only "
               "by LeakSanitizer"]

KF_MODES = ["kf-destroy-queued-add", "kf-delete-queued-add", "kf-notrans-delete-junction", "kf-notrans-move-attached",
            "kf-endpoint-to-deleted", "kf-notrans-conn-ctor", "kf-junction-halfconn-leak", "kf-conn-loop-on-junction",
            "kf-notrans-new-pin", "kf-duplicate-pin", "kf-cyclic-hyperedge", "kf-orth-junction-aligned-point",
            "kf-hyperedge-leaf-junction", "kf-hyperedge-mtst-assert",
            # other libraries (harness/c15_libs.h)
            "kf-dialect-faces-negative-x-assert", "kf-dialect-hola-leak", "kf-dialect-peel-edgeless",
            "kf-cola-cml-rerun-leak", "kf-cola-cml-unsatinfo-leak", "kf-cola-unsatinfo-internal-cc-uaf",
            "kf-cola-unsatinfo-alignment-var-uaf", "kf-cola-makefeasible-hang", "kf-vpsc-addconstraint-oob",
            "kf-vpsc-static-cycle-leak", "kf-topology-endnode-visibility-assert"]
KF_TIMEOUT = {"kf-cola-makefeasible-hang": 15}

# Round-6 findings (clusters, routing options, the rest of the public API).  Each has a deterministic replay step in
# harness/c15.cpp (script form, see `struct Script`; any failing generated history can be replayed the same way:
# C15_SCRIPT=<file with its router/op lines> harness --mode kf-script).
# Repaired in /repo (fix: commits 1afe4db e53898e 93cb140 eb4b954 68076bb 66472ee): their replays are REGRESSION steps that must
# pass, and the main class generates those op families again.
REGRESSION_MODES = ["kf-split-free-dst-null", "kf-split-notrans-assert", "kf-transform-pins-set-order",
                    "kf-cluster-crossings-overflow", "kf-nudge-common-endpoint-same-conn-assert",
                    "kf-merge-junction-doc-delete"]
# Open: a step joins the plan as soon as known_findings.json (maintained by the lead, read-only here) has a `known` entry whose
# match.tag is the step's name — a crashing step without a matching entry would be a VIOLATION on the clean tree.
# C15_PENDING_KF=1 forces them all in.  The class `router-hist-cp` (--mode router-cp: cluster boundaries referencing shape
# vertices, polyline connectors paying a cluster-crossing penalty) joins with kf-cluster-branching-midvertex-assert, the one
# defect it still meets (about 1 case in 1000), or with C15_CLUSTER_PENALTY=1.
KF_PENDING = ["kf-cluster-polyline-nonvertex-assert", "kf-cluster-refs-deleted-shape",
              "kf-orth-zero-segment-penalty-assert", "kf-zero-nudging-distance-junction-assert",
              "kf-merge-copied-end-pin-deleted", "kf-cluster-branching-midvertex-assert"]


def _known_tags():
    import json
    try:
        kf = json.load(open(os.path.join(os.path.dirname(__file__), "..", "..", "known_findings.json")))
        items = kf if isinstance(kf, list) else kf.get("findings", [])
        return set((e.get("match") or {}).get("tag") for e in items if e.get("property") == "C15" and e.get("status") == "known")
    except Exception:
        return set()


def plan(tier, seed, searching):
    base = ["--seed", str(seed), "--tier", tier, "--scale", "8" if searching else "1"]
    steps = [dict(hargs=base + ["--mode", "router"], label="router", timeout=3000),
             dict(hargs=base + ["--mode", "libs"], label="libs", timeout=3000)]
    known = _known_tags()
    if os.environ.get("C15_CLUSTER_PENALTY") or "kf-cluster-branching-midvertex-assert" in known:
        steps.append(dict(hargs=base + ["--mode", "router-cp"], label="router-cp", timeout=3000))
    if os.environ.get("C15_SKIP_KF"):        # (debug) main classes only
        return steps
    pending = [m for m in KF_PENDING if os.environ.get("C15_PENDING_KF") or m in known]
    for m in KF_MODES + REGRESSION_MODES + pending:
        steps.append(dict(hargs=["--mode", m], label=m, timeout=KF_TIMEOUT.get(m, 120)))
    return steps


def only_args(hargs, k):
    return hargs + ["--only", str(k)]
