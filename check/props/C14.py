LIBS = ["libvpsc", "libcola", "libavoid", "libtopology", "libdialect"]
HARNESS = "harness/c14.cpp"
DRIVER_MODE = "c14"
LEAN_MODULES = ["AdaptaVerif.Props.C14", "AdaptaVerif.Props.C14Limits"]
LEVEL = "translation_validation"
LEVEL_TEXT = ("Every output of the real doHOLA() on generated connected simple graphs is decided, on the exact doubles it "
              "returned, by an executable Lean checker (cleanDrawing) for which Lean 4 theorems prove, for all drawings, routes, "
              "constraint lists and parameters, that it answers true exactly when the mathematical clauses hold: same node ids and "
              "edge multiset, sizes bit-identical, open node boxes pairwise disjoint, every route leg exactly axis-parallel, route "
              "ends within the padded end-node boxes, no point of any route leg strictly inside another node (shrunk 1e-6), and "
              "every returned SepPair (sign bit = direction, BDRY = + half extents + extra boundary gap, EQ/INEQ) satisfied to 1e-4. "
              "One decision rule of the pipeline IS modelled and proved: the limits libavoid gives the first/last segment of a "
              "connector when nudgeOrthogonalSegmentsConnectedToShapes is on (Model/FinalSegLimits.lean, 10 theorems in "
              "Props/C14Limits.lean: the interval lies inside every shape containing either end, so any solver answer keeps the "
              "end point inside its end node; flags; independence of the declaration direction; free buffer; monotone in the "
              "obstacle set). It is tied on every run: the limits of every shiftable final segment that the real library forms "
              "during doHOLA (nudging hook) must lie inside the model's interval on the returned node boxes.")
LEVEL_NOTE = ("The ~18 kLoC HOLA pipeline (peeling, stress descent, ACA/chains, planarisation, tree placement, libavoid routing) "
              "is NOT modelled and nothing is proved about it; only each sampled output is validated. The theorems are about the "
              "checkers. The SepPair reading is a hand transcription of SepPair::generateSeparationConstraint (not regenerated). "
              "The segment/rectangle test and its proof are shared with Check/RouteRect.lean. Leaks reported by LSan inside four "
              "libdialect functions are suppressed by allocation site in the harness (they belong to C15). The final-segment "
              "limit model is a hand transcription (not regenerated) and the tie is one-sided: the library narrows the interval "
              "further by its channel scan, so only a WIDER library interval is a divergence; segments with an end within 1e-6 of "
              "a shape boundary are not compared (counted as fseg.ambiguous); the routing-time padding 0.75*nodePaddingScalar*IEL "
              "repeats the constant preRoutingGapIELScalar = 0.125 of hola.cpp.")
TECHNIQUE = ("translation validation: proven Lean 4 checkers (iff theorems) on the outputs of the real doHOLA under ASan/UBSan; "
             "proved model of the final-segment limit rule tied to the library's nudging regions by the correspondence harness")
DESIGN_REF = "DESIGN.md section 6 C14"
RULE = ("cases = 7 fixed witnesses of finding candidates (tags finding-*) + generated connected simple graphs, 10 classes "
        "round-robin (tree, tree-sym, cycle(+chords), core-trees x2, hub x2, links = subdivided multigraph skeletons, tree-aniso, "
        "core-trees-aniso), 5-25 nodes quick / 5-60 thorough, 7 size modes (3 integer modes adjusted so that IEL and every "
        "padding amount are dyadic => pad/unpad exact; 1 free mode, tag suffix -free; in the -aniso classes tall-thin 6-16 x "
        "60-110, wide-flat, or 8x90 / 90x8 leaves among 40x40 inner nodes), 4 initial-position modes (random, fine grid, "
        "jittered lattice, heavily overlapping), options: useACAforLinks, do_near_align, align_reps 1-3, kinkWidth .25/.5, "
        "scope 1/2, preferredAspectRatio NONE/PORTRAIT/LANDSCAPE, defaultTreeGrowthDir EAST/SOUTH/WEST/NORTH. After these: the "
        "crowd family (tags crowd-wheel, crowd-fan; own random streams): one hub of degree 8-16 joined to a rim cycle / rim path "
        "(+0-4 hanging tree nodes in a third of the cases) on SMALL nodes, so that more connectors reach one side of the hub than "
        "fit at the nudging distance 4: 5 size modes (all s x s with s in 6..12; random 6..16; tiny hub among 16..40; narrow hub "
        "6..10 x 30..60; large hub among 6..12), declaration of the hub's edges systematically in 4 modes (all INTO the hub = "
        "addEdge(rim, hub); all OUT of it; random; alternating), spread-out starts (fine grid / circle), same option draws. "
        "Further crowd topologies (partial wheel, double wheel, K(h,m), hub in a grid, two wheels) and compact starts exist in "
        "the harness (`--mode crowd-open`) but are NOT in the plan: the unchanged library aborts / throws there (see "
        "tools/briefs/reports/fC14.md); for the same reason (doHOLA throws 'Nodes do not have cardinal separation!' on about "
        "0.5% of all crowd cases) the plan's crowd cases are a FIXED battery, the same for every seed (seed-dependent under "
        "--scale > 1 and in crowd-open). Fixed case counts: 7+160+24 quick, 7+400+64 thorough. A case is non-trivial if doHOLA "
        "moved a node and returned at least one route.")
TRUSTED_BASE = ["Lean 4.33 kernel", "axioms: propext, Classical.choice, Quot.sound",
                "compiled driver agrees with the kernel semantics of the checker definitions",
                "harness/c14.cpp (generator, dump of Node::getCentre/getDimensions, Edge::getEndIds/getRoute, SepPair fields "
                "read through a member-pointer to the private SepMatrix::m_sparseLookup) + hex-float import",
                "hand transcription of SepPair::generateSeparationConstraint in Check/Drawing.lean (dimHolds)",
                "guarded nudging hook of /repo (VerifNudgeSegment: ends, minSpaceLimit, maxSpaceLimit of every region segment)"]
ASSUMPTIONS = ["input graphs are connected and simple (checked by the harness itself on every case: line `pre 1 1`)",
               "documented node padding = nodePaddingScalar * IEL added to width and height (half per side), IEL = twice the "
               "average node dimension of the input (libdialect/opts.h, Graph::getIEL)",
               "BDRY gaps include SepMatrix::getExtraBdryGap() of the returned matrix; extents are the returned node sizes"]
EXPLANATION = ("SPECFAIL messages start with the '+'-joined labels of the failing clauses; labels with '~' name a recognised "
               "sub-class (sizesKept~ulp, routeOrthogonal~hairline, sep~treeCentreAlign, sep~staleAlignBentEdge, "
               "sep~staleAlignStraightEdge, sep~bdryExtraGap, sep~treeRankSep, noNodeOverlap~treeRanks, "
               "routeOrthogonal~treeRankOverlap) so that known findings can be matched on the exact label set. "
               "DIVERGE 'finalSegLimits | …' = the library allowed a first/last connector segment a wider shift interval than "
               "the proven rule (message: connector, segment, both intervals, and the clauses failing in the same case); when "
               "the route-end clause fails in the same case the verdict is SPECFAIL with the extra label tie~finalSegLimits.")

def plan(tier, seed, searching):
    return [dict(hargs=["--seed", str(seed), "--tier", tier, "--scale", "8" if searching else "1"], timeout=3000)]

def only_args(hargs, k):
    return hargs + ["--only", str(k)]
