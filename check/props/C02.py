LIBS = ["libvpsc", "libavoid"]
HARNESS = "harness/c02.cpp"
DRIVER_MODE = "c02"
LEAN_MODULES = ["AdaptaVerif.Props.C02", "AdaptaVerif.Props.C02Model", "AdaptaVerif.Props.C01Tie"]
LEVEL = "translation_validation"
LEVEL_TEXT = ("Per run: the positions returned by vpsc::IncSolver::solve, vpsc::Solver::solve, Avoid::IncSolver::solve, "
              "re-solves after moved desired positions and permuted-order runs are compared (1e-5 * problem scale) with the exact "
              "rational optimum computed in Lean and certified by a KKT certificate checker. Universal Lean 4 theorems (all n, "
              "all constraint lists, all rational data): the checker is sound (accepted certificate => optimum, and every optimum "
              "equals it), KKT sufficiency (exact and epsilon-relaxed), uniqueness, order independence, translation equivariance, "
              "optimality of the block position formula. Model side (Props/C02Model.lean, about the Rat model of IncSolver "
              "that C01 ties to the code): in every state satisfying C01's block invariant with blocks at their stationary "
              "position, the tree multipliers satisfy stationarity and are exactly what the model's compute_dfdv recursion assigns (dfdv_is_multiplier; posn=(AD-AB)/A2 is the block's own stationarity), and a quiescent state (all constraints hold, no active "
              "inequality with multiplier < -eps) satisfies KKT/KKTeps, hence is the optimum resp. within the eps bound "
              "(quiescent_is_optimum, quiescent_is_eps_optimum); 'solve returns => optimum' is false and the premature-stop "
              "witness is re-evaluated at every build.")
LEVEL_NOTE = ("The theorems are about the mathematical QP (Spec/Qp.lean) and the checker, not about the C++: optimality of the "
              "floating-point solver is decided only on the generated cases (sampled + exhaustive n<=3, thorough n=4 class), not "
              "for all inputs. The active-set oracle search itself is unverified; its answer is used only after checkKkt accepted "
              "it. Trusted: Lean kernel; axioms propext/Classical.choice/Quot.sound; compiled Lean code of checkKkt agrees with "
              "its definition; harness, hex-float import. The objective follows the code: sum w_i (position_i - desired_i)^2 with "
              "constraints scale_l*x_l + gap <= scale_r*x_r (Variable::position, Constraint::slack, Block::cost), which is the "
              "property's wording also for scale != 1. Cases where the implementation flags a constraint unsatisfiable or throws "
              "are skipped (counted), as the property states. The static Solver is only run on acyclic inequality-only problems "
              "(it has no equality handling). SPECFAIL messages carry a diagnostic cause=: stopped-after-cost-neutral-pass-with-splittable-constraint "
              "(the known loop-criterion defect: solve() returned exactly the state of its documented loop re-executed by the "
              "harness through the public satisfy(), that loop's last pass moved nothing, a multiplier < -1e-4 remains and repeating "
              "solve() reaches the optimum) / solve-differs-from-documented-satisfy-loop / multipliers within the solver's own "
              "-1e-4 tolerance / other; the verdict itself "
              "depends only on the certified optimum and the stated tolerance. On the random classes the static solver runs "
              "under a SIGABRT guard (a failed COLA_ASSERT is recorded as `abort` and reported as SPECFAIL solver-aborted when "
              "the oracle certified the problem feasible) with leak checking off for that variant; everywhere else an abort is a "
              "CRASH verdict. Cases 0-3 are fixed witnesses of the defects found on the unchanged library (see known findings).")
TECHNIQUE = "Lean 4 theorems (KKT sufficiency, uniqueness, checker soundness) + certified exact oracle on real solver outputs"
DESIGN_REF = "DESIGN.md section 6 C02"
RULE = ("feasible-by-construction problems (hidden witness placement): exhaustive n<=3 (7 edge states x desired {0,1,2}^n x 2 weight "
        "patterns; thorough adds n=4), random classes dag/chain/tree/eq/cyc/scaled/degen/smallw (n<=12 quick, <=40 thorough), fan (re-solve histories: chain/tree of "
        "6..12 variables pressed into one block, then fanned out on the live libvpsc and libavoid solvers; plus one fixed such case) and "
        "big (n 60..300, thorough); each case runs 5-7 solver variants incl. re-solve and permuted order. Non-trivial = at least one "
        "constraint has a non-zero multiplier at the certified optimum.")
TRUSTED_BASE = ["Lean 4.33 kernel", "axioms: propext, Classical.choice, Quot.sound", "Lean compiler (checkKkt runs compiled)",
                "harness/c02.cpp + hex-float import", "doubles are dyadic rationals"]
ASSUMPTIONS = ["weights > 0, scales > 0, constraint system feasible (by construction of the generator)",
               "comparison tolerance 1e-5 * max(1, max|desired|, max|gap|) as in the property text"]
EXHAUSTIVE = {"quick": False, "thorough": False}

def regenerate(ROOT, REPO):
    """the arithmetic kernels of libvpsc (Variable::position/dfdv, Constraint::slack, PositionStats::addVariable) are regenerated from variable.h / constraint.h / block.cpp by cpp2lean on every run and proved equal to posOf / St.dfdv / St.slack / blockPosn of Model/Vpsc.lean (Props/C01Tie.lean)"""
    import sys
    from pathlib import Path
    sys.path.insert(0, str(Path(ROOT) / "tools" / "cpp2lean"))
    import jobs
    return jobs.regenerate(["vpsck"], Path(ROOT), Path(REPO))


def plan(tier, seed, searching):
    # a solver that never returns (seen with mutants) must become a CRASH verdict naming the open
    # case, not a stuck check: bound the harness run
    return [dict(hargs=["--seed", str(seed), "--tier", tier, "--scale", "8" if searching else "1"],
                 timeout=(900 if tier == "thorough" else 300) * (4 if searching else 1))]

def only_args(hargs, k):
    return hargs + ["--only", str(k)]
