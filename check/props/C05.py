import json
from pathlib import Path

LIBS = ["libavoid"]
HARNESS = "harness/c05.cpp"
DRIVER_MODE = "c05"
LEAN_MODULES = ["AdaptaVerif.Props.C05", "AdaptaVerif.Props.C05Tie", "AdaptaVerif.Props.C05AStar", "AdaptaVerif.Props.C05OrthVis", "AdaptaVerif.Props.C05OrthVisRoute", "AdaptaVerif.Props.C05OrthVisTie"]
LEVEL = "translation_validation"
LEVEL_TEXT = ("Sentence 3 (estimator never overestimates) is a Lean theorem for all rational inputs about a "
              "hand model of bends()/estimatedCostSpecific() (bends_admissible, bends_tight, bends_total, "
              "estimate_le*). bends() and the direction helpers (dimDirection, orthogonalDirection[sCount], "
              "dirLeft/Right/Reverse) are regenerated from /repo's makepath.cpp by cpp2lean on every run and proved "
              "equal to that model (Props/C05Tie.lean, gen_bends_is_model etc.), so for them the tie is a proof, not "
              "only sampled; additionally the real C++ functions (incl. estimatedCostSpecific, which is only "
              "hand-modelled) are compared with the model exhaustively over sign classes + on random inputs. Sentences 1-2 are validated per routed scene: exact axis-parallelism of route() and "
              "displayRoute(), and raw route cost = optimum of the Hanan state graph, where the optimum is "
              "certified by a potential + witness re-checked in exact rationals by a Lean checker with a "
              "soundness theorem (hanan_cert_sound, potential_lower_bound).")
LEVEL_NOTE = ("The A* search itself IS modelled (Model/AStar.lean: node = (vertex, previous node), DONE/PENDING keyed on "
              "(vertex, previous vertex), ANodeCmp with time stamps, CmpVisEdgeRotation edge order, skip rules, the turn-pruning "
              "rule as written, cost() for orthogonal connectors, cost targets, zero-cost last hop, per-vertex pathNext read-back) "
              "and proved sound for all problems and optimal under consistency (Props/C05AStar: search_sound, search_optimal, "
              "graph_search_optimal); on every routed scene the model is run on libavoid's own dumped graph and the C++ route() must "
              "be vertex-for-vertex the model's route (cost() and ANodeCmp are also called directly). The estimator is NOT "
              "consistent with cost() (estimator_inconsistent_into_cost_target / _doubling_back; the driver classifies the "
              "first inconsistent edge of sampled graphs), so optimality of the real search is not a theorem - it stays validated "
              "per scene by the certificates below. The scan-line construction of the orthogonal visibility graph IS modelled (Model/OrthVis.lean: both sweeps with the "
              "limits of findFirstPointAboveAndBelow / firstPointAbove/Below, segment merging, crossings, the breakpoint edge generator with "
              "bypass edges and direction restrictions, the outside rule, setLongRangeVisibilityFlags = orthogVisPropFlags) and tied by exact edge-set equality with the dumped "
              "Router::visOrthogGraph on every scene (Props/C05OrthVis: every model edge is axis-parallel and enters no routing box that "
              "holds no end point, for all scenes). Not modelled: "
              "connectors attached to pins (pin VERTICES are covered by the graph model, class ovis-pins), checkpoints, clusters, crossing penalties; a lost optimum shows up only as a "
              "cost gap on a generated scene. 'An optimal orthogonal path exists on the Hanan grid' is taken as "
              "the oracle's definition (classical fact, not proved; for the MODEL graph the straight and the one-bend case are theorems, Props/C05OrthVis hanan_path_exists_partial / hanan_path_exists_L_partial, and every leg along a model line between crossings is a path: line_path_h/_v, crossing_shared). The estimator theorems are about the model; "
              "its tie to the C++ is sampled (complete over sign classes, which is all bends() depends on). "
              "Against the Hanan optimum, optimality is compared for endpoints visible in all four directions "
              "(libavoid's cost model is then exactly length + segmentPenalty*bends and the optimum is attained). "
              "With restricted ConnDirFlags the geometric optimum is only an infimum, so those scenes are judged "
              "against the optimum of libavoid's OWN orthogonal visibility graph (dumped from the router after "
              "routing, certificate checked by Check.OrthGraph with vg_cert_sound): this validates the A* search "
              "but not the graph construction. A second certificate gives the optimum among routes permitted by "
              "the documented turn-pruning rule (re-implemented in Check.OrthGraph.pruned). Source-only restricted "
              "scenes on which that rule keeps an optimal route (scene-dirs-src) are strict; scenes where it provably "
              "discards every optimal route (scene-dirs-src-lossy) and target-restricted scenes (scene-dirs-dst; both "
              "under the legacy tag scene-dirs until known_findings.json names the new tags) are known findings.")
TECHNIQUE = ("Lean 4 theorems (finite sign/direction case split + linear arithmetic; potential argument; loop invariants of "
             "the A* search with closed list: soundness, optimality under consistency; kernel-evaluated witnesses on "
             "libavoid's own graphs) + "
             "certificate checking (Hanan-grid potential, exact Rat) + correspondence harness calling the real "
             "bends()/estimatedCostSpecific()/Router")
RULE = ("case 0: exhaustive bends() over offsets {-2..2}^2 minus origin x 4 x 4 directions + direction helpers; "
        "then random dyadic bends()/estimatedCostSpecific() chunks; then scenes of 1-10 (quick) / 1-30 (thorough) "
        "separated rectangles (random, aligned lattice, brick, walls, tiny), buffer 0 or 0.5, penalty 10/50/200, "
        "free-space endpoints ConnDirAll; then direction-restricted scenes judged on libavoid's own visibility graph: "
        "scene-dirs-src (source restricted, target all; 1/3 of them the leave-away shape: single-direction source "
        "whose only turning line comes from a rectangle on the far side) and scene-dirs-dst (target restricted); "
        "finally scene-multi: 2-4 connectors (all ConnDirAll), other connectors' free endpoints exactly collinear with "
        "the source/target of the judged connector (gaps 20-200 in the 'tempting line' shape with an obstacle on the "
        "target's column, penalties 10/50; gaps 1-14 in random scenes), judged against the Hanan optimum with true "
        "geometric lengths; a scene is non-trivial if the routed path has at least one bend; a kernel chunk if "
        "it made at least one call; every scene (thorough: every 2nd, graphs up to 400 vertices) also carries libavoid's raw "
        "orthogonal visibility graph (points, flags, isConnPt, orthogVisList in list order with getDist) on which the Lean A* "
        "model is run: route() must equal the model's route exactly (equal as-coded cost suffices only where a vertex has two "
        "edges in one direction to different points), and the sequence of nodes the real search pops (library DebugHandler tap: "
        "vertex + previous vertex of every bestNode) must equal the model's DONE list; with the optional hook "
        "harness/c05_astar_hook.patch also g, exploredCount, PENDING.size() and the timestamp counter at the goal; class astar-kernels: cost() on random point triples (orthogonal connector, penalties "
        "0/0.75/2.5/10/50/200, reverseDirectionPenalty) and ANodeCmp on (f, timeStamp) pairs around 1e-7, called directly; "
        "on every scene with a raw graph dump the Lean model of the graph BUILDER (Model/OrthVis) is run on the scene and its edge set "
        "(exact points, connector-end-point or not) must equal the dumped one, every dumped edge weight must be the edge's length and no "
        "dumped edge may enter a routing box that holds no end point; classes ovis-touch / -overlap / -collinear / -extreme / -inshape / "
        "-multi; orthogVisPropFlags of every vertex equal the model's (skipped where an end point sits on a box corner: heap-address dependent); a vertex-level check requires that libavoid's graph is joined where two lines meet (harness/c05_orthvis.h: touching and aligned rectangles, overlapping routing boxes, end points on side lines and on sides, "
        "end points on the extreme sweep positions with single-direction flags, end points inside (nested) rectangles, 3-6 connectors with "
        "collinear / coincident ends) carry only scene + graph")
TRUSTED_BASE = ["Lean 4.33 kernel", "axioms: propext, Classical.choice, Quot.sound",
                "cpp2lean translator + clang AST (bends(), direction helpers, estimatedCostSpecific, ANodeCmp, orthogTurnOrder, Dot, CrossLength regenerated each run, bridge lemmas to the model; cross-checked by the correspondence)",
                "hand model of cost() (atan2-based bend classification), of the search loop and of the pathNext read-back: tied by exact correspondence only (route() = model route on every scene; cost() and ANodeCmp called directly)",
                "hand model of the orthogonal visibility graph builder (Model/OrthVis): tied by exact correspondence on every scene with a graph dump (edge set, edge weights, orthogVisPropFlags, graph joined at crossings); LineSegment::overlaps regenerated and bridged (Props/C05OrthVisTie)",
                "harness (scene generator, line writer) + hex-float import",
                "Lean compiler for the driver (Check.Hanan.checkCert, Model.Bends, Model.AStar run compiled)",
                "Hanan-grid fact: some optimal orthogonal path lies on the grid of obstacle sides and endpoint coordinates",
                "IEEE exactness of +,- on the generated half-integers (route coordinates are exact)"]
ASSUMPTIONS = ["all routing penalties other than segmentPenalty are 0; one connector per scene; no clusters/pins/checkpoints",
               "rectangles pairwise separated by >= 2 (>= 1 after buffering); endpoints >= 1 away from every routing box",
               "Hanan-optimality compared only for ConnDirAll endpoints; restricted endpoints: optimality within the dumped visibility graph"]
EXPLANATION = ("bends() depends on its points only through the signs of dx, dy; Lean proves that its 9x16 table "
               "equals the exact minimum number of bends over all orthogonal approach paths (first/last leg may "
               "have length 0, inner legs > 0), hence manhattan + penalty*bends never exceeds the true remaining "
               "cost. Route optimality is checked against a Dijkstra oracle whose answer is accepted only with a "
               "feasible potential (lower bound) and a witness path (upper bound) verified in Lean.")


def _mode():
    """Non-strict restricted-direction classes (target restricted; source restricted + pruning-lossy) are
    known findings. They are emitted under the tags the lead's known_findings.json matches: the new tags
    scene-dirs-dst / scene-dirs-src-lossy (--mode dirs2) if a C05 entry names scene-dirs-dst, else the legacy
    tag scene-dirs (--mode dirs)."""
    f = Path(__file__).resolve().parent.parent.parent / "known_findings.json"
    try:
        tags = {e.get("match", {}).get("tag") for e in json.loads(f.read_text()).get("findings", [])
                if e.get("property") == "C05" and e.get("status") == "known"}
    except Exception:
        tags = set()
    return "dirs2" if "scene-dirs-dst" in tags else "dirs"


def regenerate(ROOT, REPO):
    import sys
    from pathlib import Path as _P
    sys.path.insert(0, str(_P(ROOT) / "tools" / "cpp2lean"))
    import jobs
    return jobs.regenerate(["makepath", "astar", "orthvis"], _P(ROOT), _P(REPO))


def plan(tier, seed, searching):
    # search mode (broken proof/tie): 8x the scenes in the quick tier, 4x in the thorough tier (~7 min)
    scale = ("8" if tier == "quick" else "4") if searching else "1"
    h = ["--seed", str(seed), "--tier", tier, "--scale", scale]
    h += ["--mode", _mode()]
    return [dict(hargs=h)]


def only_args(hargs, k):
    return hargs + ["--only", str(k)]
