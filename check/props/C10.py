import json, os
from pathlib import Path

LIBS = ["libavoid"]
HARNESS = "harness/c10.cpp"
DRIVER_MODE = "c10"
LEAN_MODULES = ["AdaptaVerif.Props.C10", "AdaptaVerif.Props.C10Tie"]
# COLA_ASSERT throws vpsc::CriticalFailure instead of calling abort() (see harness/c11.cpp)
EXTRA_FLAGS = ["-DUSE_ASSERT_EXCEPTIONS"]
LEVEL = "translation_validation"
LEVEL_TEXT = ("Theorems for all regions / parameters / solver outputs about an abstract Lean model of one nudging region "
              "(constraint generation of nudgeOrthogonalRoutes): any assignment satisfying the generated constraints "
              "separates ordered overlapping segments of different connectors by sepDist, stays within tol of the channel "
              "limits, the applied positions are inside [minSpaceLimit,maxSpaceLimit], fixed segments and unsatisfied "
              "regions are never written, applied separation >= sepDist - 2 tol, reduced distance >= d/10 > 0. "
              "The routes the real library returns on generated corridor scenes are checked by Lean checkers with "
              "soundness theorems (shared collinear stretch, distance of parallel overlapping segments, checkpoints).")
LEVEL_NOTE = ("No hook in /repo: the per-region constraint list of the C++ (design hook H1) is NOT observed, so the model's "
              "genCons is not compared with the implementation; region formation, segment ordering (PtOrderMap, linesort), "
              "channel limits and the VPSC solver are not modelled. The tie is the per-run check of route()/displayRoute() "
              "only. 'Wide enough' is the generator's construction W >= (m+1)*d for one straight corridor with all end "
              "point ordinates outside the corridor range; approach channels beside the blocks are unbounded. Bound checked "
              "for separated pairs: d/10 - 3e-4 (>= d/10 after <= 9 reductions, - 2*1e-4 satisfied-tolerance, - 1e-4 float "
              "slack). Finding classes counted, SPECFAIL only once known_findings.json names them: opt-final-nudge "
              "(option nudgeOrthogonalSegmentsConnectedToShapes moves end points / checkpoint segments by design), "
              "narrow-sep (infeasible narrow region applied with constraints dropped by VPSC), lib-assert, cp-disp "
              "(checkpoint lost from displayRoute() that sits on a simplify()-cut spur or at a bend of route()). A lost "
              "checkpoint strictly inside a straight segment of route() is always SPECFAIL ([cp-disp-mid]).")
TECHNIQUE = "Lean 4 theorems (nudging-region constraint model, checker soundness) + correspondence harness on corridor scenes"
RULE = ("corridor of free width W between two blocks (horizontal/vertical), m=2..6 orthogonal connectors with pairwise "
        "distinct end coordinates crossing it, d in {1,4,10}, all 32 combinations of the five nudging options in turn, "
        "buffer 0/2, fixedSharedPathPenalty 0/110, optional checkpoint in the corridor; 3/4 of the cases wide enough "
        "(W >= (m+1)d). Second family (tags cpmid / cpmid-mirror, appended after the corridor cases): one obstacle, "
        "2-3 S/Z-shaped connectors whose first leg runs through a checkpoint strictly inside it, middle segments "
        "sharing the channel between obstacle and checkpoints (wide enough by construction), mirrored control. Third family (tags endseg-tie / endseg-off): one obstacle, connector A whose first segment "
        "(free point with a direction, or a shape pin) runs exactly along obstacle edge + buffer, 1-2 connectors wrapping "
        "the obstacle as c-bends on that line, free side >= (m+1)d+20, all mirror/transpose images, control with A off "
        "the line. A case is non-trivial if at least two connectors share a collinear stretch before nudging.")
TRUSTED_BASE = ["Lean 4.33 kernel", "axioms: propext, Classical.choice, Quot.sound", "Lean compiler for the driver",
                "harness/c10.cpp generator (wide-enough construction) + hex-float import"]
ASSUMPTIONS = ["integer scene coordinates", "end points are free points (no shapes / pins at the ends)"]

ROOT = Path(__file__).resolve().parent.parent.parent
DRV_CLASSES = {"C10-opt-final-nudge": "opt-final-nudge", "C10-narrow-sep": "narrow-sep", "C10-cp-disp": "cp-disp", "C10-cp-disp-unify": "cp-disp-unify",
               "C10-lib-assert": "lib-assert"}


def _known_ids():
    try:
        return {e.get("id") for e in json.loads((ROOT / "known_findings.json").read_text()).get("findings", [])
                if e.get("status") == "known"}
    except Exception:
        return set()


def regenerate(ROOT, REPO):
    """The scalar kernels of NudgingShiftSegment (lowPoint/highPoint, zigzag, immovable, lowC/highC, order, fixedOrder,
    overlapsWith, canAlignWith, hasCheckpointAtPosition, createSolverVariable) and the id / weight / CHANNEL_MAX constants are
    regenerated from orthogonal.cpp by cpp2lean on every run (Gen/NudgeK.lean) and proved equal to the hand models of
    Model/NudgeRegion.lean in Props/C10Tie.lean"""
    import sys
    sys.path.insert(0, str(Path(ROOT) / "tools" / "cpp2lean"))
    import jobs
    return jobs.regenerate(["nudgek"], Path(ROOT), Path(REPO))


def plan(tier, seed, searching):
    ids = _known_ids()
    extra = os.environ.get("VERIF_C10_CLASSES", "").split(",")
    strict = [c for i, c in DRV_CLASSES.items() if i in ids or c in extra]
    return [dict(hargs=["--seed", str(seed), "--tier", tier, "--scale", "8" if searching else "1"], dargs=strict)]


def only_args(hargs, k):
    return hargs + ["--only", str(k)]
