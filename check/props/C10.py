import json, os
from pathlib import Path

LIBS = ["libavoid"]
HARNESS = "harness/c10.cpp"
DRIVER_MODE = "c10"
LEAN_MODULES = ["AdaptaVerif.Props.C10", "AdaptaVerif.Props.C10Tie", "AdaptaVerif.Props.C10Region", "AdaptaVerif.Props.C10Segs"]
# COLA_ASSERT throws vpsc::CriticalFailure instead of calling abort() (see harness/c11.cpp)
EXTRA_FLAGS = ["-DUSE_ASSERT_EXCEPTIONS"]
LEVEL = "translation_validation"
LEVEL_TEXT = ("Theorems for all regions / parameters / solver outputs about (a) an abstract Lean model of one nudging region and "
              "(b) the extended region model of nudgeOrthogonalRoutes (Model/NudgeRegion.lean: solver variables with ids / desired "
              "positions / weights, constraint generation from the ordered segment list with the real overlapsWith / "
              "shouldAlignWith / canAlignWith / common-end rules, channel-edge variables, variable numbering, the retry loop that "
              "reduces the separation distance and rewrites the gaps inside the unsatisfied ranges, the unifying loop with its "
              "potential constraints, the write-back rule). Both are instances of one generic generator (genCons_is_genG), so the "
              "abstract theorems are lifted: in EVERY attempt of the retry loop, for every solver answer satisfying the constraints "
              "of that attempt, ordered overlapping segments of different connectors are at least the current distance apart "
              "(retry_separation), that distance is > 1e-4 and, in exact arithmetic, in [d/10, d] (retry_distance_*), free segments "
              "stay within tol of their channel limits (retry_limits), every region of a pass starts again at the ideal distance "
              "whatever happened in earlier regions (first_attempt_uses_base_distance), a satisfied round leaves fixed variables / channel edges "
              "within 1e-4 (satisfied_close), written positions are inside [minSpaceLimit,maxSpaceLimit], fixed segments and "
              "unsatisfied regions are never written, applied separation >= distance - 2 tol. "
              "Tie: with the guarded hook in /repo every region the real library forms is dumped (ordered segments, variables, the "
              "constraints of every attempt, solver results, write-back) and must equal the model's output on the same ordered "
              "segments exactly (Rat, doubles rounded as IEEE), on every run and every generator class; 14 scalar kernels of "
              "NudgingShiftSegment and the id / weight constants are regenerated from orthogonal.cpp by cpp2lean on every run and "
              "proved equal to the hand models (Props/C10Tie). The routes the library returns are checked by Lean checkers with "
              "soundness theorems (shared collinear stretch, distance of parallel overlapping segments, checkpoints). "
              "Segment construction (builder N1): Model/NudgeSegs.lean is an executable model of buildOrthogonalNudgingSegments (which "
              "route segments become shift segments, fixed or not, finalSegment / endsInShape / singleConnectedSegment, the "
              "containment tests of first / last segments against the obstacle rectangles and the +-15 band - imported from "
              "Model/FinalSegLimits.lean -, sBend / zBend, checkpoint handling) and of buildOrthogonalChannelInfo's sweep (closed "
              "form of the four looks the sweep takes at a segment). Theorems (Props/C10Segs) for all routes / obstacles / options: "
              "a segment carrying a checkpoint is fixed, checkpoints on adjoining segments bound the limit on their own side, first / "
              "last segments are fixed or limited to the end shapes' extent resp. +-15, limits contain the position, the sweep only "
              "tightens and every bound is a side of an obstacle facing the segment, the construction commutes with reversing a "
              "connector (s-bend <-> z-bend) and with transposition. Tie: the state at the start of EVERY pass (display routes, "
              "checkpoint cache, obstacles, options; read through the virtual progress callback) is printed, the model's segment "
              "list is compared with the union of the dumped regions of that pass exactly (all flags, checkpoints, limits; "
              "linesort's merges are replayed through a model of mergeWith).")
LEVEL_NOTE = ("Modelled per region and tied through the hook: variable creation, constraint generation, retry / unifying loop, "
              "write-back; the VPSC solver itself is an oracle of the model (its answers are taken from the dump; that they satisfy "
              "the constraints is C01/C02 and is re-checked here on the written positions: [region-sep]). Which segments exist and "
              "their limits is modelled per pass (Model/NudgeSegs.lean) and tied; there the scan line is modelled in closed form (no "
              "event queue), scan-line nodes with EQUAL position are ordered by heap address in the C++ (CmpNodePos): the model "
              "computes both resolutions and a dumped limit must lie between them (they coincide in all but a handful of cases per "
              "run, counted as segtie.address-tie); the checkpointsOnRoute cache, hasFixedRoute(), routingBox(), "
              "polygon().offsetBoundingBox(0), junction position()/positionFixed() are read through the public API at the pass start "
              "and trusted. Route points shared by two parallel segments of one connector (a display route folding back onto "
              "itself) are written twice by the library; the region model's write-back check is suspended for such cases (counted: "
              "finding.diagonal-after-shared-point, see reports/bN1.md). The class cp-disp-unify is recognised either by the old "
              "fingerprint (another connector without checkpoints) or directly from the pass snapshots (a checkpoint the cache records "
              "inside a segment coincides with that segment's end vertex at the start of a pass). NOT modelled: the point "
              "orders (PtOrderMap) behind CmpLineOrder - of region formation and ordering necessary conditions are checked "
              "on the dump (no overlap across regions of one pass; adjacent segments respect the position / fixedOrder / order rules "
              "of CmpLineOrder), each proved sound for the modelled loops (regions_do_not_overlap for the region-growing loop, "
              "linesort_respects_rules for linesort's insertion loop with any comparator agreeing with those rules); CmpLineOrder::operator() and updatePositionsFromSolver are hand models (not "
              "regenerated). The hypothesis of the retry theorems (`nextSep` does not increase the distance at any state the loop "
              "REACHES; the unbounded form was false for roundDouble, witness in Props/C10Region) is proved for exact arithmetic for all "
              "distances (reduction_nonincreasing_exact) and for `roundDouble` with ideal distance 10 (example at the end of "
              "Props/C10Region.lean), and observed for doubles (the dumped distances equal the model's IEEE evaluation). "
              "Without the hook in the tree under test the harness prints `hook 0` and only the route-level checks run. "
              "'Wide enough' is the generator's construction W >= (m+1)*d for one straight corridor with all end "
              "point ordinates outside the corridor range; approach channels beside the blocks are unbounded. Bound checked "
              "for separated pairs: d/10 - 3e-4 (>= d/10 after <= 9 reductions, - 2*1e-4 satisfied-tolerance, - 1e-4 float "
              "slack). Finding classes counted, SPECFAIL only once known_findings.json names them: opt-final-nudge "
              "(option nudgeOrthogonalSegmentsConnectedToShapes moves end points / checkpoint segments by design), "
              "narrow-sep (infeasible narrow region applied with constraints dropped by VPSC), lib-assert, cp-disp "
              "(checkpoint lost from displayRoute() that sits on a simplify()-cut spur or at a bend of route()). A lost "
              "checkpoint strictly inside a straight segment of route() is always SPECFAIL ([cp-disp-mid]).")
TECHNIQUE = "Lean 4 theorems (region model of nudgeOrthogonalRoutes, retry-loop invariant, checker soundness) + per-region hook dump compared exactly with the model + cpp2lean-regenerated kernels + correspondence harness on corridor scenes"
RULE = ("corridor of free width W between two blocks (horizontal/vertical), m=2..6 orthogonal connectors with pairwise "
        "distinct end coordinates crossing it, d in {1,4,10}, all 32 combinations of the five nudging options in turn, "
        "buffer 0/2, fixedSharedPathPenalty 0/110, optional checkpoint in the corridor; 3/4 of the cases wide enough "
        "(W >= (m+1)d). Second family (tags cpmid / cpmid-mirror, appended after the corridor cases): one obstacle, "
        "2-3 S/Z-shaped connectors whose first leg runs through a checkpoint strictly inside it, middle segments "
        "sharing the channel between obstacle and checkpoints (wide enough by construction), mirrored control. Third family (tags endseg-tie / endseg-off): one obstacle, connector A whose first segment "
        "(free point with a direction, or a shape pin) runs exactly along obstacle edge + buffer, 1-2 connectors wrapping "
        "the obstacle as c-bends on that line, free side >= (m+1)d+20, all mirror/transpose images, control with A off "
        "the line. Fourth family (tags zcross-rtl / zcross-ltr): a channel >= 200 wide between two tall shapes, one straight "
        "connector down its centre line (fixed), 2-3 Z-shaped connectors crossing it whose middle runs have pairwise disjoint "
        "spans and are centred onto that line: the fixed segment has several overlapping neighbours that do not overlap each "
        "other. Fifth family (tag shape-ends): nudgeOrthogonalSegmentsConnectedToShapes ON, two facing shapes, 2-5 straight "
        "single-segment connectors between points INSIDE them lying 1-3 apart (window between the shape sides too small for "
        "(m-1)d in part of the cases), optionally one connector to a free point: singleConnectedSegment / endsInShape, the "
        "strong and stronger weights, fixed-variable displacements of 1e-5..1e-3, retries against shape sides (region tie "
        "only; its route-level effects are the known class opt-final-nudge). Sixth family (tag fan): the corridor scene with "
        "2-4 connectors leaving ONE common source point (+ optionally an unrelated connector), nudgeSharedPathsWithCommonEndPoint "
        "on/off: common-end-point rule, equality constraints, infeasible equality/separation cycles that VPSC resolves by "
        "dropping a constraint (region tie; no route-level promise for connectors with a common end point). Seventh family (tags "
        "twin-narrow-first / twin-wide-first): two independent corridors 1000 apart in one dimension, a wide one (120 free, 2-4 "
        "connectors centred onto one line) and a narrow one (width d/20 .. 2.5d, 2-4 connectors: reduced distances or given up "
        "after ten attempts), the narrow group with the higher or the lower connector ids (= processed first or last): a region "
        "must not inherit the reduced distance of an earlier one; the wide-enough promise is for the wide corridor's connectors "
        "only. Eighth family (tags segs-mix / segs-target-side / segs-source-side / segs-cp, for the segment tie): 2-4 small shapes "
        "on a coarse grid, shapeBufferDistance 0/2/4, optionally a junction (fixed or free) and centre pins; 2-6 connectors whose "
        "ends are points inside a shape (centre / close to a side), on its border, a pin, the junction or free points; "
        "nudgeOrthogonalSegmentsConnectedToShapes on in half of the cases; target-side / source-side: 3-6 connectors from "
        "scattered free points into ONE side of one small shape, their target (resp. source) ends 2-4 apart inside it; cp: one "
        "or two checkpoints per connector on the line through the source, through the target, or anywhere (inside first / "
        "middle / last segments, at bends), both orientations and directions of travel. This family runs in a forked child "
        "process (a sanitizer abort in the library's debug-only block costs one case, reported as `assert sanitizer:...`). "
        "Every case additionally carries the hook dump of all regions (when the hook is in the tree). A case is non-trivial if at least two connectors share a collinear stretch before nudging.")
TRUSTED_BASE = ["Lean 4.33 kernel", "axioms: propext, Classical.choice, Quot.sound", "Lean compiler for the driver",
                "the guarded hook in orthogonal.{h,cpp} (copies values out, changes nothing) and harness/c10_regions.h",
                "tools/cpp2lean + clang AST (job nudgek)", "Model.NudgeRegion.roundDouble = IEEE round-to-nearest-even (x86-64 SSE2, no FMA contraction)",
                "harness/c10.cpp generator (wide-enough construction) + hex-float import",
                "harness/c10_segs.h: Router subclass reading displayRoute()/checkpointsOnRoute/m_obstacles at the start of each nudging pass (virtual shouldContinueTransactionWithProgress)"]
ASSUMPTIONS = ["integer scene coordinates", "route-level clauses: end points are free points except in the families shape-ends and segs-*"]

ROOT = Path(__file__).resolve().parent.parent.parent
DRV_CLASSES = {"C10-opt-final-nudge": "opt-final-nudge", "C10-narrow-sep": "narrow-sep", "C10-cp-disp": "cp-disp", "C10-cp-disp-unify": "cp-disp-unify",
               "C10-lib-assert": "lib-assert"}


def _known_ids():
    try:
        return {e.get("id") for e in json.loads((ROOT / "known_findings.json").read_text()).get("findings", [])
                if e.get("status") == "known"}
    except Exception:
        return set()


def regenerate(ROOT, REPO):
    """The scalar kernels of NudgingShiftSegment (lowPoint/highPoint, zigzag, immovable, lowC/highC, order, fixedOrder,
    overlapsWith, canAlignWith, shouldAlignWith, hasCheckpointAtPosition, createSolverVariable) and the id / weight / CHANNEL_MAX constants are
    regenerated from orthogonal.cpp by cpp2lean on every run (Gen/NudgeK.lean) and proved equal to the hand models of
    Model/NudgeRegion.lean in Props/C10Tie.lean"""
    import sys
    sys.path.insert(0, str(Path(ROOT) / "tools" / "cpp2lean"))
    import jobs
    return jobs.regenerate(["nudgek"], Path(ROOT), Path(REPO))


def plan(tier, seed, searching):
    ids = _known_ids()
    extra = os.environ.get("VERIF_C10_CLASSES", "").split(",")
    strict = [c for i, c in DRV_CLASSES.items() if i in ids or c in extra]
    return [dict(hargs=["--seed", str(seed), "--tier", tier, "--scale", "8" if searching else "1"], dargs=strict)]


def only_args(hargs, k):
    return hargs + ["--only", str(k)]
