import json, os
from pathlib import Path

LIBS = ["libavoid"]
HARNESS = "harness/c11.cpp"
DRIVER_MODE = "c11"
LEAN_MODULES = ["AdaptaVerif.Props.C11", "AdaptaVerif.Props.C11Tie", "AdaptaVerif.Props.C11Tie2", "AdaptaVerif.Props.C11Legs", "AdaptaVerif.Props.C11Search"]
# COLA_ASSERT throws vpsc::CriticalFailure instead of calling abort(): a failed library assertion is
# reported per case by the harness ("assert" line) and decided by the driver
EXTRA_FLAGS = ["-DUSE_ASSERT_EXCEPTIONS"]
LEVEL = "translation_validation"
LEVEL_TEXT = ("Theorems for all inputs about the Lean model of ShapeConnectionPin::position() (translation "
              "equivariance, containment in the bounding box, inside offset, proportional place under resize) and, "
              "for all operation histories, about the model of the pin bookkeeping (an exclusive pin never has two "
              "users). The routing itself is not modelled: every route the real library returns along random "
              "histories of shape moves/resizes is checked by Lean checkers with soundness theorems "
              "(point-on-segment, checkpoints-in-order, permitted leg direction), and pin positions/directions/"
              "default exclusivity reported by the C++ are compared exactly with the model after every transaction. "
              "Checkpoint routing: the per-leg visibility-direction protocol of ConnRef::generateCheckpointsPath (restrict the start "
              "vertex by the departure mask of the last reached checkpoint, the end vertex by the arrival mask of the checkpoint the leg "
              "goes to, search, restore both; VertInf::setVisibleDirections, directionFrom) is modelled for all graphs, checkpoint lists, "
              "masks and ALL search outcomes (Model/CheckpointLegs.lean); Props/C11Legs proves that the function returns the graph it "
              "was entered with (no vertex left restricted), that over any history no edge is disabled between two searches, and exactly "
              "which edges each leg's search sees disabled. Tie: EdgeInf::isDisabled of every visibility edge of every checkpoint vertex, "
              "and of the whole router after every transaction and at every progress callback inside it (Router subclass), is compared "
              "with the model run on the same edges and masks; setVisibleDirections is probed directly on real vertices; the first and "
              "last edge of every leg of route() must be enabled in the graph the model says that leg's search saw.")
LEVEL_TEXT += (" The orthogonal A* search for pin-attached ends and checkpoint legs is inside the model (Model/AStarPins.lean on top of the search loop of "
               "Model/AStar.lean: dummy end vertices and their pin edges, second-level cost targets, CmpVisEdgeRotation with dummy edges, pin skip rules, free steps, dummy DONE node of a "
               "later leg) with the end-point list of the turn pruning computed from the model's pin state (a pin is a candidate iff it is non-exclusive or has no user); Props/C11Search "
               "proves, for all pin histories and graphs, that this list is exactly the set of pins the dummy vertex gets an edge to, that a shared pin is in it whatever users it has, and "
               "that the pruning rule as coded never skips a bend onto the row / column of such a pin. Tie: the graph every orthogonal search was given is read through the library's "
               "DebugHandler at the start of the search; the model is run on every failed search and on a sample of the successful ones (route vertex for vertex).")
LEVEL_NOTE = ("Only sampled histories tie the theorems to the C++ (no statement about all runs of libavoid). "
              "Which pin a connector holds is not observable without the optional hook H2 (m_connend_users is "
              "private): exclusivity is decided from positions (ends of a (shape,class) group at one position vs "
              "the pins of that class at that position) through the model state machine. 'A free pin exists' is "
              "over-approximated order-independently: a (shape,class) group with more attached ends than capacity "
              "only has to fill its pins, and connectors of such groups are otherwise exempt. "
              "Rectangular shapes only (position() uses the bounding box only). Shapes never overlap (own grid cell). "
              "Two sentinel obstacles keep pins off the extreme sweep positions of the scene, where libavoid widens pin "
              "directions on purpose (fixConnectionPointVisibilityOnOutsideOfVisibilityGraph). For a junction that is "
              "not fixed, displayRoute() may end at recommendedPosition() (documented in junction.h) and may come back "
              "reversed. Violations seen only in displayRoute() while route() satisfies the clause are counted as "
              "finding classes (stats finding.cp-disp / hyper-disp / nudge-dir; finding.no-path for the straight "
              "no-path fallback; finding.lib-assert for failed library assertions, caught via "
              "-DUSE_ASSERT_EXCEPTIONS: seen are vs[..]->id != freeSegmentID in nudgeOrthogonalRoutes and "
              "orthogonalDirectionsCount(thisDirs) > 0 in makepath.cpp) and become SPECFAIL only when known_findings.json names the class "
              "(ids C11-lib-assert, C11-cp-disp, C11-hyper-disp, C11-nudge-dir, C11-no-path, C11-border0, C11-cp-junction, "
              "C11-del-attached) - see the C11 report. "
              "Checkpoints with restricted arrival/departure masks: the leg-by-leg search is greedy (a leg does not know the departure mask of the "
              "checkpoint it goes to), so such a checkpoint can be reached the wrong way round and the next leg fails (checkpoint skipped / route "
              "stops at it) although the masks are satisfiable - finding class cp-dirs (id C11-cp-dirs; counted in stats finding.cp-dirs, SPECFAIL "
              "once listed). A failure of that kind on a graph where edges of the connector's checkpoint vertices were still disabled from an earlier "
              "search (seen after the previous transaction for polyline edges, or after this one when the crossing stage can search twice) is outside "
              "every class: plain SPECFAIL 'cp-restricted'. The search itself (A*) is not modelled: the protocol theorems hold for every search function; "
              "that the search skips disabled edges is what the leg-edge tie checks (since fC11b the orthogonal search IS modelled, see LEVEL_TEXT; a no-path failure that the model "
              "of the clean search does not reproduce is the strict kind [no-path-but-model-routes], never the known class no-path). Which legs were skipped is read from the library's own diagnostic "
              "('skipping checkpoint', captured from the C stream stderr per transaction); connectors with such a diagnostic are exempt from the leg-edge tie.")
TECHNIQUE = "Lean 4 theorems (pin position model, assignment state machine, checker soundness) + correspondence harness over move/resize histories"
RULE = ("random scenes: 2-4 rectangles in own grid cells with 1-5 pins each (proportional/absolute, all sentinels, "
        "inside offsets, masks 0..15, exclusive default/forced, costs), 0-2 junctions, 1-6 connectors (pin/junction/"
        "free ends, 0-3 checkpoints), orthogonal/polyline/mixed routers, buffer 0/2/4/8; history of 1-4 (quick) or "
        "2-7 (thorough) transactions of moves, resizes, junction moves, connector add/delete, pin/shape deletion, "
        "exclusivity toggles, moves/resizes of shapes (pins already added) and junctions in the same transaction as their creation "
        "(at set-up before the first processTransaction and for a shape / junction added later in the history, each with a connector "
        "attached), re-targeting of a connector end (setSourceEndpoint/setDestEndpoint to another pin class, "
        "a junction or a free point) in the same transaction as moves of the old and/or new object. Second stream (generator class cpdirs, 300 / 2000 cases): "
        "80% of connectors carry 1-3 checkpoints with (arrival, departure) masks drawn from all 15 x 15 combinations (35% (All, restricted), 15% (restricted, All), "
        "35% both restricted), half of the ends are free points, crossingPenalty in {0,50,200,400} and fixedSharedPathPenalty in {0,110} (second search inside the "
        "transaction), histories drag free ends of checkpoint connectors (later search over persisting polyline edges); polyline-only scenes are sparse in half of the "
        "cases (1-2 shapes, no sentinels). Third stream (generator class sharedpin, 200 / 600 cases): a hub shape with a class of 1-2 shared pins off the centre and off the corner lines "
        "(in a third of the scenes mixed with an exclusive pin of the class), 2-4 orthogonal connectors attached to that class (destination end in 4 of 5), from pins of other shapes, "
        "junctions and free points in other grid cells, then the usual connectors and history. A case is non-trivial if at least one pin-attached end was checked after a move/resize.")
TRUSTED_BASE = ["Lean 4.33 kernel", "axioms: propext, Classical.choice, Quot.sound", "Lean compiler for the driver",
                "harness/c11.cpp generator + hex-float import", "IEEE exactness of +,-,* on small dyadic data",
                "AStarPath reads the visibility graph only through EdgeInf::isDisabled (not modelled; checked on the first/last edge of every leg)",
                "glibc: the C stream variable stderr is assignable (capture of the library's skip diagnostics)"]
ASSUMPTIONS = ["inputs are dyadic rationals k/16 with |k| < 2^20 so that position() is computed exactly",
               "rectangular, pairwise disjoint shapes; every pin class referenced by a connector exists"]

ROOT = Path(__file__).resolve().parent.parent.parent

# suspected-genuine-defect classes: enabled (generator mode / strict driver class) only when the
# lead has recorded the class in known_findings.json, so that hits print KNOWN-FINDING
GEN_CLASSES = {"C11-border0": "border0", "C11-cp-junction": "cpjunction", "C11-del-attached": "delattached"}
DRV_CLASSES = {"C11-lib-assert": "lib-assert", "C11-cp-disp": "cp-disp", "C11-hyper-disp": "hyper-disp", "C11-nudge-dir": "nudge-dir", "C11-no-path": "no-path",
               "C11-retarget-jmove": "retarget-jmove", "C11-cp-dirs": "cp-dirs"}


def _known_ids():
    try:
        return {e.get("id") for e in json.loads((ROOT / "known_findings.json").read_text()).get("findings", [])
                if e.get("status") == "known"}
    except Exception:
        return set()


def regenerate(ROOT, REPO):
    """ShapeConnectionPin::directions() is regenerated from connectionpin.cpp by cpp2lean on every run and
    proved equal to Model/Pins.pinDirections (Props/C11Tie.lean); so is ShapeConnectionPin::operator< (the order of every
    shape's pin set), proved a strict weak order whose equivalence is equality of all six keys"""
    import sys
    sys.path.insert(0, str(Path(ROOT) / "tools" / "cpp2lean"))
    import jobs
    return jobs.regenerate(["pindirs", "comparators", "pinpos"], Path(ROOT), Path(REPO))    # pinpos: ShapeConnectionPin::position (Props/C11Tie2.lean)


def plan(tier, seed, searching):
    ids = _known_ids()
    extra = os.environ.get("VERIF_C11_CLASSES", "")         # e.g. "border0,cp-disp" to look at a class by hand
    modes = [m for i, m in GEN_CLASSES.items() if i in ids or m in extra.split(",")]
    strict = [c for i, c in DRV_CLASSES.items() if i in ids or c in extra.split(",")]
    if "retarget-jmove" not in strict:
        strict.append("retarget-jmove")   # repaired in /repo e0e5881 (fix:), so always strict now
    hargs = ["--seed", str(seed), "--tier", tier, "--scale", "8" if searching else "1"]
    if modes:
        hargs += ["--mode", "+".join(modes)]
    # second stream, generator class cpdirs: checkpoints with arrival / departure direction masks, crossing and
    # shared-path penalties (second search of a connector inside the transaction), dragged free ends (later search
    # over persisting polyline edges); the visibility-edge observables (cpv / probe / visall / viscb lines) are in
    # both streams
    hargs2 = ["--seed", str(seed), "--tier", tier, "--scale", "8" if searching else "1", "--mode", "+".join(modes + ["cpdirs"])]
    # third stream, generator class sharedpin: shared (non-exclusive) pins off the shape centre and off the corner lines,
    # 2-4 orthogonal connectors whose destination is that pin class (exclusive / shared mixes), moves / resizes afterwards
    hargs3 = ["--seed", str(seed), "--tier", tier, "--scale", "8" if searching else "1", "--mode", "+".join(modes + ["sharedpin"])]
    return [dict(hargs=hargs, dargs=strict, label="base"), dict(hargs=hargs2, dargs=strict, label="cpdirs"),
            dict(hargs=hargs3, dargs=strict, label="sharedpin")]


def only_args(hargs, k):
    return hargs + ["--only", str(k)]
