LIBS = ["libavoid"]                 # libavoid carries its own vpsc copy; it links alone
HARNESS = "harness/c03.cpp"
DRIVER_MODE = "c03"
LEAN_MODULES = ["AdaptaVerif.Props.C03", "AdaptaVerif.Props.C03Lee"]
LEVEL = "translation_validation"
LEVEL_TEXT = ("Every route()/displayRoute() returned by libavoid on the generated scenes is decided valid or invalid by an "
              "exact rational checker (Check.Route.routeValid / segHitsInterior, Cyrus-Beck clipping) whose soundness and "
              "completeness against the mathematical spec (Spec.Route.RouteValid: endpoints joined, >= 2 points, no point of a "
              "leg strictly inside a non-excluded convex shape) are Lean theorems for all polygons, routes and scenes. "
              "'An obstacle-free path exists' is established per case by an explicit path that the same proven checker certifies.")
LEVEL_NOTE = ("Per-run verified checker on real outputs, not a proof about the C++: the orthogonal "
              "scan-line graph builder, A* and the nudging solver are not modelled. Both polyline visibility algorithms have a "
              "hand-written Lean model tied by exact edge-set comparison on exactly representable (k/64) scenes: the naive test "
              "(Model.Visibility; proved UNSOUND on a concrete witness, visible_unsound_witness - the unrestricted soundness "
              "statement is false of the code) and, for one-transaction scenes, the DEFAULT algorithm, Lee's rotational sweep "
              "(Model.LeeSweep: PointPair/EdgePair orders, status list, sweepVisible decision rule, onBorderIDs, newBlockingShape; "
              "directions ordered exactly and squared distances compared instead of atan/sqrt doubles - an assumption of that tie, "
              "valid for small dyadic coordinates and itself exercised by the comparison). Props/C03Lee: the decision rule blocks / "
              "lets through exactly according to the nearest status edge for ALL sorted status lists; on touching axis-parallel "
              "rectangles it agrees with the spec (segHitsInterior) when the centre is on a vertical side, and is provably blind when "
              "the centre is on a horizontal side (known weakness). A spec-blocked dumped edge that the modelled sweep does not "
              "produce is class=sweep-model-blocks and is never excused by the known findings. A bounding-box prefilter in the driver (unverified) only "
              "skips shapes during the search for hits; every reported hit is confirmed by the proven checker. "
              "The interior of a convex polygon is *defined* as the intersection of the open half-planes of its edges.")
TECHNIQUE = "Lean 4 theorems about an exact route checker (sound+complete) + correspondence harness on libavoid outputs; Lean models of the naive visibility test and of Lee's rotational sweep (decision-rule theorems), both tied by exact edge-set comparison"
RULE = ("scenes: 1-12 (thorough <=40) interior-disjoint convex shapes (rectangles / convex k-gons) placed in grid cells, "
        "touching/shared edges/collinear corners frequent, or jittered into general position; 1-8 connectors with free-space "
        "endpoints (random or hugging shape corners); polyline (Lee / naive), orthogonal and mixed routers; buffer 0 or >0; "
        "sampled penalties and options. Hyperedge classes (orthogonal router, improveHyperedgeRoutesMovingJunctions or "
        "...MovingAddingAndDeletingJunctions, one free junction with 3-5 terminals, buffer 0 or >0): a parametrised 'z-branch' "
        "family (randomly scaled/mirrored/transposed: a big shape forces one branch into a z whose middle part lies under a small "
        "shape, so that shifted and merged hyperedge segments must stop at it; tags orth-hyperedge / orth-hyperedge-major) and random "
        "grid scenes (tag orth-hyperedge-random); only displayRoute() is judged there, a junction end is expected at the "
        "junction's recommendedPosition(). Every case runs in a child process (a library abort becomes a `crash` verdict). "
        "Polyline edit histories (tag poly-edit-history, general-position scenes): router kept alive, each later transaction adds a "
        "small rectangle or moves an existing one across exactly one segment of a current route (first/middle/last/only), or "
        "deletes / moves away a shape; every (history, step) snapshot is a case (child process replays the history). "
        "Touching clusters (printed `gen touching-cluster`, tag lee-collinear): 3-7 rectangles grown side-to-side from one "
        "rectangle so that corners lie in the middle of neighbours' sides / on their corners and sides continue each other "
        "(collinear edges), random creation order (= order of the sweeps), half-integer coordinates, buffer 0 or routing polygons "
        "touching; default algorithm; 1-3 connectors hugging corners or free. "
        "A case is non-trivial if some route has >= 3 points (had to bend round a shape).")
TRUSTED_BASE = ["Lean 4.33 kernel", "axioms: propext, Classical.choice, Quot.sound", "Lean compiler for the driver",
                "harness + generator + hex-float import", "driver glue: parsing, bounding-box prefilter (completeness of the hit search only)"]
ASSUMPTIONS = ["shapes are convex (generated so); interior := intersection of open edge half-planes",
               "path existence is certified constructively (explicit path); when the driver's search finds none the case is counted, not judged"]

def plan(tier, seed, searching):
    return [dict(hargs=["--seed", str(seed), "--tier", tier, "--scale", "8" if searching else "1"])]

def only_args(hargs, k):
    return hargs + ["--only", str(k)]
