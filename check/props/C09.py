LIBS = ["libvpsc"]
HARNESS = "harness/c09.cpp"
DRIVER_MODE = "c09"
LEAN_MODULES = ["AdaptaVerif.Props.C09", "AdaptaVerif.Props.C09Tie", "AdaptaVerif.Props.C09Static"]
LEVEL = "proof"
LEVEL_TEXT = ("Lean 4 theorems about a hand-written model of the scan-line generators of libvpsc/rectangle.cpp "
              "(firstAbove/firstBelow and neighbour-set bookkeeping), for ALL rectangle arrays, ALL border values, "
              "ALL tie-break ranks (the heap-address fallback of CmpNodePos) and ALL event orders compare_events may "
              "produce: gen_key_increases / gen_acyclic, gen_deterministic_given_rank (every generated constraint goes up in the (centre, rank) key, "
              "so the constraint graphs of generateYConstraints and of generateXConstraints in both modes are DAGs); "
              "geny_separates / genx_separates (every pair whose sweep extents meet - touching included - is kept at "
              "least half the two lengths apart by every placement satisfying the generated constraints); "
              "geny_no_overlap / genx_no_overlap (after moving the centres to any such placement no two bordered "
              "rectangles overlap with positive area); pointer_bookkeeping_exact (the pointer bookkeeping equals "
              "recomputing scan-line neighbours); removeoverlaps_y_last_no_overlap / removeoverlaps_x_last_no_overlap (the last pass of removeoverlaps, run with the EXTRA_GAP border, leaves no overlap once the borders are restored, given a solver output that satisfies the constraints); valid_order_exists (the hypothesis on the event order is satisfiable for every input); separation_no_overlap; moveCentre_keeps_size. The model is tied to "
              "the C++ by exact comparison of the generated constraint multisets (left id, right id, gap) on "
              "tie-free inputs. Every output of the real code (constraints on tie inputs, rectangles after "
              "removeoverlaps) is judged by Lean checkers with proved soundness: noOverlap_sound_complete, "
              "sizesKept_sound_complete, satisfiedBy_sound_complete, acyclic_witness_sound, separation_certificate_sound.")
LEVEL_NOTE = ("The theorems are about the model; the C++ generators are tied to it by sampled exact correspondence "
              "(the model is run with rank = variable id - since /repo 5eb2448 CmpNodePos breaks ties between equal centres by "
              "variable id and the harness passes distinct ids, so coincident centres are compared exactly too; strict "
              "comparison is skipped only when two Close events (cy, cx0) / two Open events (cx1) share a position, "
              "because qsort's order of same-type events under the inconsistent compare_events is unspecified; "
              "on those inputs the event order "
              "is not observable without a hook, so only the spec-determined facts - acyclic, gaps exact, every "
              "meeting pair chained - are checked, by proven-sound checkers). removeoverlaps as a whole (three passes "
              "through the VPSC solver, border bookkeeping with EXTRA_GAP) is NOT modelled: its real output is "
              "validated per run (no overlap > 1e-6 in both axes between the bordered rectangles, sizes, borders "
              "restored, fixed rectangles, finite). The composition 'solver output satisfies the constraints' is "
              "C01/C02's business; geny_no_overlap / genx_no_overlap give the per-pass guarantee under that hypothesis. "
              "Sizes: moveMinX/moveMinY recompute max = x + w - border in floating point, so widths/heights drift by "
              "ulps (the code itself asserts only 1e-9); the check therefore enforces |delta| <= 1e-9 and reports the "
              "number of bit-identical cases as a statistic. Completeness of sepCert (rejected => some placement "
              "overlaps) is not proved; a rejection is reported as SPECFAIL with the unchained pair named. "
              "Known finding C09-fixed-is-only-weight-1e4: 'fixed' rectangles are only weighted 10000:1 and do move "
              "(tags fixedsq / multifixed / bigfixed).")
TECHNIQUE = ("Lean 4 theorems (order-theoretic invariant of the scan line, backward chain induction over the event "
             "list, certificate checkers for DAG-ness and separation) + correspondence harness on libvpsc")
RULE = ("10 generator classes cycled by case index: identical rectangles, thin (2^-10..2^-4) rectangles, grid-aligned "
        "equal sizes (many key/event ties), nested, chain overlaps, random k/4 coordinates, random tie-free, "
        "fixed-squeeze (two fixed + one movable, n=3), multifixed (>=2 pairwise clear fixed), bigfixed (one fixed, "
        "n>12); n<=12 quick (bigfixed 13..40), <=400 thorough; generate* called under random borders "
        "{0,1/16,1/2,1,2}; removeoverlaps with/without user borders, thirdPass on/off, fixed none/single. "
        "A case is non-trivial if the input had at least one overlapping pair (removeoverlaps had work to do).")
TRUSTED_BASE = ["Lean 4.33 kernel", "axioms: propext, Classical.choice, Quot.sound",
                "Lean compiler for the driver (model and checkers run compiled)",
                "harness/c09.cpp + hex-float import",
                "untrusted certificate producers topoPos / reachMasks (their output is checked by sepCert/acyclicBy)",
                "IEEE: +,-,/2 exact on the small dyadic inputs (gaps and centres compared exactly)"]
ASSUMPTIONS = ["rectangles are constructible: minX<maxX, minY<maxY (the constructor asserts it), so 'zero-area' means thin",
               "heap addresses of scan-line nodes are pairwise distinct (rank injective)",
               "qsort with compare_events returns a permutation with non-decreasing positions and Open before Close "
               "at equal positions (ValidOrder); checked indirectly by the tie-free correspondence and the chain checker",
               "fixed-set claim (<1% of mean size) is only enforced where it can hold: at most one fixed rectangle and n<=12"]
EXPLANATION = ("DIVERGE: on a tie-free input the C++ constraint multiset differs from the model, or a gap is not "
               "exactly half the two lengths. SPECFAIL: cyclic constraint graph; a pair whose sweep extents meet "
               "without a separating chain / gap too small (cy, cx0); after removeoverlaps: escaped exception, "
               "non-finite coordinate, borders not restored, size changed > 1e-9, overlap > 1e-6 in both axes, fixed "
               "rectangle moved >= 1% of the mean size.")

def regenerate(ROOT, REPO):
    """the vpsc::Rectangle kernels of the scan-line model (getters with the global border, centres, overlapX/Y, moves) are regenerated from libvpsc/rectangle.h by cpp2lean on every run and proved equal to Model.Scanline.Rect.* (Props/C09Tie.lean)"""
    import sys
    from pathlib import Path
    sys.path.insert(0, str(Path(ROOT) / "tools" / "cpp2lean"))
    import jobs
    return jobs.regenerate(["rect"], Path(ROOT), Path(REPO))


def plan(tier, seed, searching):
    return [dict(hargs=["--seed", str(seed), "--tier", tier, "--scale", "8" if searching else "1"],
                 timeout=3000)]

def only_args(hargs, k):
    return hargs + ["--only", str(k)]
