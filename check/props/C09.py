LIBS = ["libvpsc"]
HARNESS = "harness/c09.cpp"
DRIVER_MODE = "c09"
LEAN_MODULES = ["AdaptaVerif.Props.C09"]
LEVEL = "proof"
WIP = True

def plan(tier, seed, searching):
    return [dict(hargs=["--seed", str(seed), "--tier", tier, "--scale", "8" if searching else "1"])]

def only_args(hargs, k):
    return hargs + ["--only", str(k)]
