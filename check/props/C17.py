LIBS = ["libvpsc", "libcola"]           # ConstrainedFDLayout links with libvpsc only (no libtopology / libavoid needed)
HARNESS = "harness/c17.cpp"
DRIVER_MODE = "c17"
LEAN_MODULES = ["AdaptaVerif.Props.C17"]
LEVEL = "proof"
LEVEL_TEXT = ("Every matrix returned by the real floyd_warshall / johnsons / dijkstra and by "
              "ConstrainedFDLayout::readLinearD/readLinearG is decided, per run, by a Lean checker that is proved "
              "sound for all finite graphs (checkApsp_sound: accepted => exact minimum over all walks, sentinel iff "
              "no walk, symmetric, zero diagonal). The Lean model of floyd_warshall (in-place triple loop as coded) is "
              "proved exact for all valid graphs without parallel edges/self-loops (fw_correct_simple) and, with the "
              "proposed repaired initialisation, for all valid multigraphs (fwFixed_correct); the defect of the "
              "as-coded initialisation on parallel edges / self-loops is proved on concrete witnesses and replayed "
              "on the C++.")
LEVEL_NOTE = ("Theorems are about the Lean models; the tie to the C++ is the per-run correspondence (sampled) plus "
              "the sound checker on the real outputs. Doubles are imported exactly (hex floats); generated weights are "
              "dyadic (k/8) so the C++ sums are exact. The pairing heap is not modelled as a tree: its real "
              "PairingHeap<T> is compared on random operation sequences against a multiset.")
TECHNIQUE = "Lean 4 theorems (checker soundness, Floyd-Warshall invariant proof, witnesses by kernel evaluation) + verified certificate check on real outputs + model correspondence"
RULE = ("fixed boundary cases, then random graphs cycled over 13 classes (sparse, dense, disconnected, tree, zero-weight, "
        "fractional k/8, unit/empty weights, self-loop, parallel-edges, nonpositive layout lengths, tiny, path, "
        "zero-weight tree+chords), n<=12 quick / n<=40 plus 26 graphs with 60<=n<=300 thorough, then PairingHeap "
        "operation sequences; a graph case is non-trivial if it has >=2 vertices and >=1 edge, a heap case if it "
        "extracts >=2 items")
TRUSTED_BASE = ["Lean 4.33 kernel", "axioms: propext, Classical.choice, Quot.sound",
                "Lean compiler for the driver (checker executed compiled)",
                "harness + hex-float import; DBL_MAX recognised as the sentinel",
                "IEEE exactness of + and * on small dyadic values; DBL_MAX + x >= DBL_MAX for x >= 0"]
ASSUMPTIONS = ["weights >= 0 (the property's domain); end points < n",
               "model comparison of floyd_warshall only for n <= 64 (the checker runs on all sizes)",
               "G matrix diagonal is not an observable (left uninitialised by the library unless a self-loop writes it)"]
WIP = True

def plan(tier, seed, searching):
    return [dict(hargs=["--seed", str(seed), "--tier", tier, "--scale", "8" if searching else "1"])]

def only_args(hargs, k):
    return hargs + ["--only", str(k)]
