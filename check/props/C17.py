LIBS = ["libvpsc", "libcola"]           # ConstrainedFDLayout links with libvpsc only (no libtopology / libavoid needed)
HARNESS = "harness/c17.cpp"
DRIVER_MODE = "c17"
LEAN_MODULES = ["AdaptaVerif.Props.C17", "AdaptaVerif.Props.C17Tie"]
LEVEL = "proof"
LEVEL_TEXT = ("Lean models of floyd_warshall (in-place triple loop as coded in /repo now), of dijkstra/johnsons exactly as "
              "coded (dijkstraHeap: driven by the functional model of PairingHeap<T,TCompare> with insert / extractMin / "
              "decreaseKey) and of the layout's D matrix are proved exact for ALL valid finite multigraphs (fw_correct, "
              "dijkstraHeap_correct, johnsonsHeap_correct, layoutD_correct; also dijkstra_correct over any abstract "
              "minimum-selection); the pairing-heap model is proved to refine a multiset over all legal operation "
              "sequences for any lawful comparison. Independently, every matrix returned by the real C++ functions and by "
              "readLinearD/readLinearG is decided per run by a Lean checker proved sound AND complete for all finite "
              "graphs (checkApsp_iff: accepted <=> exact minimum over all walks, sentinel iff no walk). The defect of the "
              "pre-fix initialisation (parallel edges keep the last weight, self-loops overwrite the diagonal) is proved "
              "on concrete witnesses; it was replayed on the C++ and repaired by a fix: commit in /repo.")
LEVEL_NOTE = ("Theorems are about the Lean models; the tie to the C++ is the per-run correspondence (sampled: exact equality "
              "of all matrices; for n <= 64 also the exact order in which nodes leave the heap in every dijkstra run, ties "
              "included, observed by instantiating the library's dijkstra<T> template with a logging double wrapper; exact "
              "extraction order of the real PairingHeap<T> on random operation sequences) plus the verified checker on the "
              "real outputs. The heap-driven Dijkstra proof is a simulation: the heap holds exactly the pairs (d[v], v) of "
              "the unsettled nodes and stays heap-ordered under extractMin and every decreaseKey, so it hands out a "
              "minimum pending node and the abstract-queue invariant applies - the former gap between heap state and "
              "stateless selector is closed. The model keeps the key next to the node identity whereas the C++ heap stores "
              "node pointers and reads u->d at comparison time (equal whenever the heap is touched). Doubles are imported "
              "exactly (hex floats); generated weights are dyadic (k/8) so the C++ sums are exact; readLinearD is compared "
              "within 1e-9 relative.")
TECHNIQUE = "Lean 4 theorems (invariant proofs for Floyd-Warshall and Dijkstra, checker soundness+completeness, heap refinement, witnesses by kernel evaluation) + verified certificate check on real outputs + model correspondence"
RULE = ("8 fixed boundary cases, then random graphs cycled over 13 classes (sparse, dense, disconnected, tree, zero-weight, "
        "fractional k/8, unit/empty weights, self-loop, parallel-edges, nonpositive layout lengths, tiny, path, "
        "zero-weight tree+chords): quick 1300 graphs n<=12 + 13 graphs 24<=n<=48; thorough 5200 graphs n<=16/40 + 13 + 13 "
        "with 60<=n<=120 + 26 with 150<=n<=300; then PairingHeap operation sequences (150 / 600). A graph case is "
        "non-trivial if it has >=2 vertices and >=1 edge, a heap case if it extracts >=2 items")
TRUSTED_BASE = ["Lean 4.33 kernel", "axioms: propext, Classical.choice, Quot.sound",
                "Lean compiler for the driver (checker executed compiled)",
                "harness + hex-float import; DBL_MAX recognised as the sentinel",
                "IEEE exactness of + and * on small dyadic values; DBL_MAX + x >= DBL_MAX for x >= 0"]
ASSUMPTIONS = ["weights >= 0 (the property's domain); end points < n",
               "model comparison of floyd_warshall and of the heap-driven dijkstra (incl. extraction order) only for n <= 64 (the verified checker runs on all sizes)",
               "G matrix diagonal is not an observable (left uninitialised by the library unless a self-loop writes it)"]

def regenerate(ROOT, REPO):
    """floyd_warshall (template instantiated at T = double: three loop nests mutating T** D, edge vector, weight valarray)
    is regenerated from cola/libcola/shortest_paths.h by cpp2lean on every run and proved equal to
    Model/ShortestPaths.lean's floydWarshall, with all assertions / array bounds discharged (Props/C17Tie.lean); so are
    dijkstra_init (= the model's adj lists) the relax loop of dijkstra(s, vs, d) (a fragment; = foldl relaxEdgeH over adj) and the WHOLE function
    dijkstra(s, vs, d) (while loop on fuel, abstract heap; with the model heap = dijkstraHeap, so dijkstraHeap_correct is about it);
    johnsons and the top-level dijkstra(s, n, d, es, eweights), which call them (= johnsonsHeap, so johnsonsHeap_correct is about it)"""
    import sys
    from pathlib import Path
    sys.path.insert(0, str(Path(ROOT) / "tools" / "cpp2lean"))
    import jobs
    return jobs.regenerate(["shortest", "dijkstra_relax", "dijkstra", "johnsons"], Path(ROOT), Path(REPO))


def plan(tier, seed, searching):
    scale = "1"
    if searching:
        scale = "8" if tier == "quick" else "3"
    return [dict(hargs=["--seed", str(seed), "--tier", tier, "--scale", scale])]

def only_args(hargs, k):
    return hargs + ["--only", str(k)]
