LIBS = ["libvpsc", "libavoid"]
HARNESS = "harness/c01.cpp"
DRIVER_MODE = "c01"
LEAN_MODULES = ["AdaptaVerif.Props.C01"]
LEVEL = "translation_validation"
LEVEL_TEXT = ("Every output of the real solvers (vpsc::IncSolver, Avoid::IncSolver, vpsc::Solver) is judged by Lean "
              "checkers with machine-checked soundness theorems (checkPost_sound; feasible_sound / infeasible_sound / "
              "cycle_sum: a certified placement or a certified positive-gap cycle for every inequality-only system), "
              "so a SPECFAIL is a proven violation of the property text on a concrete input. In addition a Rat model of "
              "IncSolver has proved post-conditions (satisfy_post, solve_post, flag_complete: for all states/histories) "
              "and is tied to the code by margin-guarded exact correspondence of positions, flags, active sets, "
              "return values.")
LEVEL_NOTE = ("Not claimed as 'proof': (a) the theorems about the solver are theorems about the hand-written Rat model; "
              "the C++ is tied to it by sampled, margin-guarded correspondence only; (b) block_inv (active constraints "
              "= tight spanning trees, over all solver steps) is proved preserved by the merge step only "
              "(block_inv_merge_preserved_partial and the two pieces), not by split/splitBetween; the driver evaluates "
              "the invariant (St.invOk, eqActive) on every model state after each call instead; consequently "
              "'unflagged equalities hold exactly' is validated per run by checkPost (two-sided), not proved of the "
              "model; (c) flag_sound (flagged => infeasible, inequality-only) is proved for the flagging step under the "
              "invariant as hypothesis (flag_sound_path_partial) and validated per run on the real code through the "
              "certified feasibility checker; (d) Check.feasible is proved sound for both answers and the spec-level "
              "equivalence Feasible <-> no positive-gap cycle is proved in full, but that the certificate search "
              "never answers 'unknown' is not proved (an 'unknown' is reported as a broken tie; none observed); "
              "(e) the static Solver (mergeLeft/mergeRight/pairing heaps) is not modelled, only its outputs are "
              "checked, and only on unscaled inequality DAGs in the default stream (two genuine defects of the static "
              "solver - equalities ignored, scaled split - are kept in the separate 'findings' stream).")
TECHNIQUE = ("Lean 4 theorems (certified Bellman-Ford feasibility checker, post-condition checker, Rat model of "
             "IncSolver with exit-scan post-condition and flag completeness) + correspondence harness on "
             "libvpsc and libavoid's private copy")
RULE = ("groups of 3 cases share one problem+history (vpsc::IncSolver, Avoid::IncSolver, static vpsc::Solver on "
        "inequality DAGs); exhaustive small systems first, then seeded random DAGs / chains / stars / multigraphs / "
        "k-cycles with total gap <,=,> 0 / equalities / scales / wild weights / 1/1024-grained data / makeFeasible-like "
        "one-equality-at-a-time histories (eq-incr*, incl. consistent redundant equalities) with histories of "
        "addConstraint / move desired / satisfy / solve. A case is non-trivial if the model performed at least one "
        "merge, split or flagging (inc) or some constraint ended active (static).")
TRUSTED_BASE = ["Lean 4.33 kernel", "axioms: propext, Classical.choice, Quot.sound",
                "Lean compiler for the driver (checkers/model run compiled)",
                "harness/c01.cpp + hex-float import",
                "IEEE: doubles are dyadic rationals (outputs imported exactly)"]
ASSUMPTIONS = ["weights > 0 and scales > 0 (generator only produces such)",
               "data are small dyadic rationals; tolerance 1e-6*(1+max|data|) as the property states",
               "the caller pushes an added constraint onto its own vector before IncSolver::addConstraint "
               "(the idiom of libcola/colafd.cpp)",
               "static Solver is driven only on acyclic inequality systems"]
EXPLANATION = ("SPECFAIL: an unflagged constraint violated beyond tolerance, a non-finite position, a flag on a "
               "certified-feasible inequality system, or no flag on a certified-infeasible one. DIVERGE: model and "
               "implementation differ on positions/flags/active/return/thrown where all model decisions had margin "
               "> 1e-7*scale.")


import os


def plan(tier, seed, searching):
    steps = [dict(hargs=["--seed", str(seed), "--tier", tier, "--scale", "8" if searching else "1"])]
    # Known-defect streams of the static vpsc::Solver (tags static-eq / static-scaled, see the C01
    # report).  Off by default so that the clean tree is quiet; switch on once the two entries are
    # in known_findings.json (match on tag) to keep watching them:  VERIF_C01_FINDINGS=1
    if os.environ.get("VERIF_C01_FINDINGS", "1") == "1":   # entries C01-static-eq / C01-static-scaled are in known_findings.json
        steps.append(dict(hargs=["--seed", str(seed), "--tier", tier, "--mode", "findings"], label="findings"))
    return steps


def only_args(hargs, k):
    return hargs + ["--only", str(k)]
