LIBS = ["libvpsc", "libavoid"]
HARNESS = "harness/c01.cpp"
DRIVER_MODE = "c01"
LEAN_MODULES = ["AdaptaVerif.Props.C01", "AdaptaVerif.Props.C01Tie", "AdaptaVerif.Props.C01Static"]
LEVEL = "proof"
LEVEL_TEXT = ("Machine-checked (Lean 4, no sorry, axioms propext/Classical.choice/Quot.sound) for the incremental "
              "solver's Rat model, over all histories of IncSolver(vs,cs) / addConstraint / change-desired / satisfy / "
              "solve and all n, m, data: block_inv (active constraints of every block form a tight spanning tree: "
              "theorem block_inv, preserved by merge, split, splitBetween, the satisfy loop, solve), satisfy_post / "
              "solve_post (every unflagged constraint has slack >= ZERO_UPPERBOUND at the reported positions), eq_post "
              "(every unflagged equality is active and holds exactly), flag_sound + flag_complete = "
              "flagged_iff_infeasible for inequality-only systems up to the solver's tolerance, and "
              "feasible_iff_no_pos_cycle (feasible <-> no positive-gap cycle, the property's parenthetical). "
              "The checkers that judge every output of the real code (checkPost, Check.feasible with certificates) have "
              "soundness theorems, so a SPECFAIL is a proven violation of the property text on a concrete input. "
              "The model is tied to vpsc::IncSolver and Avoid::IncSolver by margin-guarded exact correspondence of "
              "positions, flags, active sets, return values on ~7e3 (quick) / ~1.1e5 (thorough) cases per run. "
              "The STATIC solver vpsc::Solver is modelled as well (Model/VpscStatic.lean: totalOrder/dfsVisit, "
              "mergeLeft/mergeRight with the pairing heaps, CompareConstraints on the live state, block and "
              "constraint time stamps with the lazy repair of findMinInConstraint, Blocks::split, refine with its "
              "100-round limit) and tied to the C++ by the same margin-guarded correspondence (positions, active "
              "set, block partition, return value / throw); Props/C01Static: the heap order is the regenerated "
              "CompareConstraints (gen_compareConstraints_is_model), static_satisfy_post / static_solve_post (exit "
              "scans), static_block_inv (on every normal return from Solver(vs,cs);satisfy()/solve() the active "
              "constraints of every block form a tight spanning tree, member lists and heap contents are sound), "
              "static_block_inv_steps (preserved by mergeLeft, mergeRight, split from any state), "
              "static_merge_applicable, static_totalOrder_topological (totalOrder/dfsVisit returns a topological "
              "order of an acyclic constraint graph and never runs out of fuel), static_satisfy_total / "
              "static_solve_total (Solver(vs,cs); satisfy() / solve() never exhaust the model's fuel - heap loops, "
              "merge loops, the DFS, compute_dfdv (a path in the active forest) and populateSplitBlock - they "
              "return normally or throw), static_merge_total, static_satisfy_fixed_point, "
              "static_active_tight, static_quiescent_is_optimum.")
LEVEL_NOTE = ("Scope of 'proof': the theorems are about the hand-written Rat model of IncSolver; the C++ is tied to it "
              "by sampled correspondence (trusted base), and float rounding inside the solver is outside the model. "
              "Partial correctness: the model's loops carry fuel; theorems are about normal returns (a run that "
              "exhausts fuel is reported by the driver as a broken tie; none observed). Hypothesis of the history "
              "theorems: constraints refer to existing variables and are not pre-flagged (Hist). eq_post assumes "
              "non-zero scales. Not proved: that the certificate search of Check.feasible never answers 'unknown' "
              "(both of its real answers are proved sound; an 'unknown' is reported; none observed). Static "
              "Solver: total (static_solve_total: no theorem about its normal returns is vacuous for lack of fuel); "
              "NOT proved that satisfy() never throws on an acyclic inequality system (the VPSC paper's merge "
              "invariant through the lazily repaired heaps) - that is observed per case by correspondence + the "
              "proven checker (the model has no dynamic check: that every heap hands back a constraint joining "
              "its block to another one is a theorem, static_merge_applicable); a throw of UnsatisfiedConstraint by the "
              "static solver on a certified-feasible inequality system is a SPECFAIL (flagged-iff-infeasible); the model is tied on unscaled systems for solve() and also on scaled ones for satisfy() (refine's split has the known scale defect), equality systems of the findings stream included; the static solver's two genuine "
              "defects (equalities ignored - reproduced by the model, witness in Props/C01Static; scaled split) "
              "are known findings watched by the 'findings' stream.")
TECHNIQUE = ("Lean 4 theorems (certified Bellman-Ford feasibility checker, post-condition checker, Rat model of "
             "IncSolver with exit-scan post-condition and flag completeness) + correspondence harness on "
             "libvpsc and libavoid's private copy")
RULE = ("groups of 3 cases share one problem+history (vpsc::IncSolver, Avoid::IncSolver, static vpsc::Solver on "
        "inequality DAGs); exhaustive small systems first, then seeded random DAGs / chains / stars / multigraphs / "
        "k-cycles with total gap <,=,> 0 / equalities / scales / wild weights / 1/1024-grained data / makeFeasible-like "
        "one-equality-at-a-time histories (eq-incr*, incl. consistent redundant equalities) with histories of "
        "addConstraint / move desired / satisfy / solve; an extension block after them: static-solver classes "
        "st-stale (out-of-date time stamps at heap roots), st-drag (heavy far-out variables: refine splits, "
        "mergeRight), st-desc, st-layers (both merge directions), st-zigzag (several refine rounds), and "
        "eq-sameblock histories (an equality added between two variables of one block holding several stretched "
        "inequalities). A case is non-trivial if the model performed at least one "
        "merge, split or flagging (inc) or some constraint ended active (static).")
TRUSTED_BASE = ["Lean 4.33 kernel", "axioms: propext, Classical.choice, Quot.sound",
                "Lean compiler for the driver (checkers/model run compiled)",
                "harness/c01.cpp + hex-float import",
                "IEEE: doubles are dyadic rationals (outputs imported exactly)"]
ASSUMPTIONS = ["weights > 0 and scales > 0 (generator only produces such)",
               "data are small dyadic rationals; tolerance 1e-6*(1+max|data|) as the property states",
               "the caller pushes an added constraint onto its own vector before IncSolver::addConstraint "
               "(the idiom of libcola/colafd.cpp)",
               "static Solver is driven only on acyclic inequality systems"]
EXPLANATION = ("SPECFAIL: an unflagged constraint violated beyond tolerance, a non-finite position, a flag on a "
               "certified-feasible inequality system, or no flag on a certified-infeasible one. DIVERGE: model and "
               "implementation differ on positions/flags/active/return/thrown (static solver: positions / active set "
               "up to identical duplicates / block partition / return / thrown; model out of fuel or heap-discipline "
               "flag) where all model decisions had margin > 1e-7*scale.")


import os


def regenerate(ROOT, REPO):
    """the arithmetic kernels of libvpsc (Variable::position/dfdv, Constraint::slack, PositionStats::addVariable) are regenerated from variable.h / constraint.h / block.cpp by cpp2lean on every run and proved equal to posOf / St.dfdv / St.slack / blockPosn of Model/Vpsc.lean (Props/C01Tie.lean)"""
    import sys
    from pathlib import Path
    sys.path.insert(0, str(Path(ROOT) / "tools" / "cpp2lean"))
    import jobs
    return jobs.regenerate(["vpsck"], Path(ROOT), Path(REPO))


def plan(tier, seed, searching):
    steps = [dict(hargs=["--seed", str(seed), "--tier", tier, "--scale", "8" if searching else "1"])]
    # Known-defect streams of the static vpsc::Solver (tags static-eq / static-scaled, see the C01
    # report).  Off by default so that the clean tree is quiet; switch on once the two entries are
    # in known_findings.json (match on tag) to keep watching them:  VERIF_C01_FINDINGS=1
    if os.environ.get("VERIF_C01_FINDINGS", "1") == "1":   # entries C01-static-eq / C01-static-scaled are in known_findings.json
        steps.append(dict(hargs=["--seed", str(seed), "--tier", tier, "--mode", "findings"], label="findings"))
    return steps


def only_args(hargs, k):
    return hargs + ["--only", str(k)]
