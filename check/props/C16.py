import sys
from pathlib import Path
LIBS = ["libavoid"]
HARNESS = "harness/c16.cpp"
DRIVER_MODE = "c16"
LEAN_MODULES = ["AdaptaVerif.Props.C16", "AdaptaVerif.Props.C16Tie"]
LEVEL = "proof"
LEVEL_TEXT = ("Machine-checked Lean 4 theorems, for all rational inputs, that each geometry predicate equals its geometric "
              "meaning (orientation sign, proper crossing, open-segment membership, half-plane intersection, intersection point on "
              "both segments), its symmetries, and that on integers bounded by 2^20 all intermediates are integers below 2^53. The "
              "kernels the theorems are about are regenerated from /repo's C++ by cpp2lean on every run and proved equal to the "
              "hand model (bridge lemmas), and the C++ is executed against them exhaustively on the integer grid.")
LEVEL_NOTE = ("Trusted: Lean kernel (+leanchecker in thorough); axioms propext/Classical.choice/Quot.sound; cpp2lean + clang AST "
              "(validated each run by exhaustive C++-vs-generated-kernel agreement); IEEE-754 exactness of +,-,* on representable "
              "results (division compared to 1e-9). inPoly (indexed loop with early return) is also regenerated and bridged, including "
              "in-bounds vector accesses; inPolyGen and segmentShapeIntersect (array mutation / reference parameter) are "
              "hand-modelled, tied by exhaustive correspondence only; inPolyGen has no geometric-meaning theorem (crossing-number "
              "argument not formalised).")
TECHNIQUE = "Lean 4 proof about kernels regenerated from the C++ (cpp2lean) + exhaustive grid correspondence"
DESIGN_REF = "DESIGN.md section 6 C16, section 4.1"
RULE = ("cases = chunks: all 3-/4-tuples of the integer grid (side 4 quick, 5 thorough) with fixed first point; all triangles "
        "(thorough: + all quadrilaterals) on the 4x4 grid with every grid point queried; random integer tuples/polygons up to 2^20 "
        "(collinear, touching, shared-endpoint, parallel, on-segment classes). A chunk is non-trivial if some "
        "segmentIntersect / inPoly answer in it is true; every chunk is a distinct input set by construction.")
TRUSTED_BASE = ["Lean 4.33 kernel", "axioms: propext, Classical.choice, Quot.sound", "tools/cpp2lean + clang-14 AST",
                "harness/c16.cpp + hex-float import", "IEEE-754: +,-,* exact when the result is representable"]
ASSUMPTIONS = ["coordinates are integers (or dyadic) small enough that products are exactly representable, as the property states"]
EXHAUSTIVE = {"quick": True, "thorough": True}

def regenerate(ROOT, REPO):
    sys.path.insert(0, str(Path(ROOT) / "tools" / "cpp2lean"))
    import jobs
    return jobs.regenerate(["geometry", "geometry2"], Path(ROOT), Path(REPO))      # geometry2: inPolyGen, segmentShapeIntersect (Props/C16Tie.lean)

def plan(tier, seed, searching):
    return [dict(hargs=["--seed", str(seed), "--tier", tier, "--scale", "8" if searching else "1"])]

def only_args(hargs, k):
    return hargs + ["--only", str(k)]
