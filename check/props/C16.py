LIBS = ["libavoid"]
HARNESS = "harness/c16.cpp"
DRIVER_MODE = "c16"
LEAN_MODULES = ["AdaptaVerif.Props.C16"]
LEVEL = "proof"
RULE = "exhaustive integer grid chunks + random integer tuples up to 2^20; a chunk is non-trivial if some segmentIntersect call is true / some orientation non-zero"
TRUSTED_BASE = ["Lean 4.33 kernel", "axioms: propext, Classical.choice, Quot.sound", "harness + hex-float import", "IEEE exactness on small integers"]
EXHAUSTIVE = {"quick": True, "thorough": True}

def plan(tier, seed, searching):
    return [dict(hargs=["--seed", str(seed), "--tier", tier, "--scale", "8" if searching else "1"])]

def only_args(hargs, k):
    return hargs + ["--only", str(k)]
