LIBS = ["libavoid"]
HARNESS = "harness/c04.cpp"
DRIVER_MODE = "c04"
LEAN_MODULES = ["AdaptaVerif.Props.C04", "AdaptaVerif.Props.C04Own", "AdaptaVerif.Props.C04AStar"]
LEVEL = "translation_validation"
LEVEL_TEXT = ("Per connector the optimum over the spec visibility graph (all shape corners + endpoints, edge iff the proven "
              "segHitsInterior checker finds no interior hit, weights = certified sqrt enclosures) is enclosed in a certified "
              "interval [lo, hi]: a dual potential (lower bound, weak duality proved for all finite weighted digraphs) and a "
              "witness path (upper bound), both produced by an untrusted Dijkstra in the harness and verified by "
              "Check.Potential.checkCert, whose soundness is a Lean theorem. libavoid's displayRoute() length (penalties 0) must "
              "lie within 1e-6 of that interval.")
LEVEL_NOTE = ("Per-run certificates, not a proof about the C++: Lee's sweep, inValidRegion pruning and A* (epsilon compare, no "
              "re-opening) are not modelled. Classical fact taken as the oracle's definition, not proved: a Euclidean shortest path "
              "among polygonal obstacles bends only at obstacle vertices. Segment penalty > 0: only the upper bound is certified "
              "(the oracle's witness path is verified obstacle-free and its cost length+penalty*bends bounds the optimum from "
              "above, so a 'not-minimal' SPECFAIL is rigorous); optimality of the oracle path itself is compared, not certified. "
              "A 'not-minimal' failure at penalty > 0 is classified against libavoid's OWN search space (dumped visibility "
              "graph, (vertex, previous vertex) states, validateBendPoint and the cost() bend count modelled in Lean): the "
              "optimum over its admissible routes is enclosed by a potential + witness certificate checked by "
              "Check.OwnGraph.checkOwn (Props/C04Own.checkOwn_sound); dearer than that = search-not-minimal (strict), else the "
              "known pruned-graph finding. In the corner classes the abstract A* loop of Model/AStar.lean (optimal under the "
              "per-graph consistency check: Props/C04AStar.poly_search_optimal) is run on the dumped polyline problem (Model/PolyAStar.lean) and its DONE list is compared "
              "with the real expansion order (DebugHandler tap; equal-f ties excepted). "
              "That the driver's explicit graph is the spec graph is by construction (specGraph; edge soundness proved, "
              "completeness of the pair enumeration not proved).")
TECHNIQUE = "Lean 4 theorems (weak duality, certificate checker soundness, sqrt enclosures) + per-run verified shortest-path certificates on libavoid outputs"
RULE = ("scenes: 1-8 (thorough <=20) separated convex obstacles (gap >= 1) in grid cells, integer (degenerate) or jittered into "
        "general position (coordinates k/64); 2-8 polyline connectors, free or corner-hugging endpoints; segment penalty in "
        "{0, 5, 50, 0.5, 1.5, 2.75, 11.5}; Lee / naive visibility; IgnoreRegions on/off. Strict families: aligned-sides (2-4 "
        "separated rectangles sharing a side line, every insertion order, optimum along the line) and fractional-onebox (one "
        "rectangle, a 1-bend and a 2-bend route whose length gap d satisfies floor(p) < d < p for a fractional penalty p). "
        "Edit histories (router kept alive, one deleteShape / moveShape per processTransaction, certificate rebuilt from the "
        "current scene and checked after EVERY transaction; each transaction is its own case): edit-history (2-3 blockers across "
        "the source-target line + bystanders, blockers removed/moved in random order, then rectangles added back across the "
        "route), edit-history-random (grid scenes) and edit-history-add (a small rectangle is ADDED, or an existing one MOVED, "
        "across exactly one chosen segment - first / middle / last / the only one - of the current route, one per transaction). "
        "Corner classes (penalty > 0, Lee, both directions routed, A* expansion order compared with the Lean model): "
        "corner-through-pen (rectangles and endpoints on a coarse grid, kept if the oracle optimum passes straight through an "
        "obstacle corner) and corner-chain-pen (constructed: target T, corner v of a rectangle next to it and corner p of a "
        "second rectangle exactly aligned on a grid line that only grazes both, source in the shadow of the second rectangle "
        "where the way round its other side reaches v earlier but pays a bend there, 1-4 rectangles supplying competing "
        "one-bend routes of intermediate cost, 0-2 random ones: a queued (vertex, previous vertex) state is improved in place). "
        "Non-trivial: some route has >= 3 points.")
TRUSTED_BASE = ["Lean 4.33 kernel", "axioms: propext, Classical.choice, Quot.sound", "Lean compiler for the driver",
                "harness + generator + hex-float import", "driver glue (parsing, graph assembly from specGraph/edgesFrom)"]
ASSUMPTIONS = ["Euclidean shortest paths among convex polygonal obstacles bend only at obstacle vertices (oracle definition)",
               "bends = interior route points where the direction changes"]

def plan(tier, seed, searching):
    return [dict(hargs=["--seed", str(seed), "--tier", tier, "--scale", "8" if searching else "1"])]

def only_args(hargs, k):
    return hargs + ["--only", str(k)]
