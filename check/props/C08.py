LIBS = ["libvpsc", "libcola"]
HARNESS = "harness/c08.cpp"
DRIVER_MODE = "c08"
LEAN_MODULES = ["AdaptaVerif.Props.C08", "AdaptaVerif.Props.C08Tie"]
LEVEL = "translation_validation"
LEVEL_TEXT = ("Proof component: a satisfied separation with gap = sum of half sizes leaves no overlap in that dimension "
              "(hence no 2-D overlap); the decision rule of NonOverlapConstraints::generateSeparationConstraints (model "
              "nonOverlapPair) gives, for every shape pair, either a full separation in this dimension or an overlap of at "
              "most 0.0005 in the other one (last_pass_no_overlap); containment constraints put children inside the "
              "cluster's boundary variables (containment_sound/complete); separated sibling clusters have disjoint members; "
              "the final-rectangle checkers (noOverlapBoth, bbox, boxesDisjoint, noForeignInside) are proved sound "
              "(noOverlapBoth: iff). Tie: non-overlap pair bookkeeping + generated constraints and containment constraints of "
              "the real classes compared exactly with the model. Validation: final rectangles after makeFeasible()+run().")
LEVEL_NOTE = ("makeFeasible's alternative search, the stress descent and the VPSC solver are not modelled; the end-to-end "
              "claim holds for the sampled runs only. last_pass_no_overlap is proved for shape/shape pairs (cluster/shape and "
              "cluster/cluster pairs are covered by the tie and by the per-run checker, not by a theorem). The member-box checks "
              "use the 1e-3 threshold of the node rule; 'a node lies inside a cluster box' is read as: its centre is strictly "
              "inside the member bounding box. Runs in which anything was reported unsatisfiable are excused, as the property says.")
TECHNIQUE = "Lean 4 theorems (sep_no_overlap, last_pass_no_overlap, containment_sound, sibling_disjoint, checker soundness) + exact correspondence of generated constraints + proven checkers on real layout outputs"
RULE = ("gen-noc-*: random overlapping rectangles (spread, coincident, clumps, grid, tight; hair overlaps around the 0.0005 threshold), "
        "exemption groups, nested rectangular clusters with paddings/margins; addShape/addCluster called as ConstrainedFDLayout does; "
        "non-trivial = at least one non-overlap constraint generated. flat-*/clusters-*: random graphs and starts (coincident twice as likely), "
        "optional hierarchy (depth <= 3), exemption groups, optional user constraints derived from a hidden non-overlapping placement "
        "compatible with the hierarchy; non-trivial = initial overlaps or clusters present and nothing reported unsatisfiable.")
TRUSTED_BASE = ["Lean 4.33 kernel", "axioms: propext, Classical.choice, Quot.sound", "compiled Lean driver",
                "harness/c08.cpp + c07_cc.h (scene generator, dump)", "hex-float import", "g++ ASan/UBSan build of /repo sources"]
ASSUMPTIONS = ["a double printed with %a is imported exactly", "generated inputs are dyadic so half sizes, centres and cluster bounds are exact",
               "unsatisfiable lists registered through setUnsatisfiableConstraintInfo are the only reporting channel"]
EXPLANATION = "see LEVEL_TEXT / LEVEL_NOTE"


def regenerate(ROOT, REPO):
    """Rectangle::overlapX/overlapY and the centres are regenerated from libvpsc/rectangle.h by cpp2lean on every run and proved equal to the overlap function of Model/Compound.lean (Props/C08Tie.lean)"""
    import sys
    from pathlib import Path
    sys.path.insert(0, str(Path(ROOT) / "tools" / "cpp2lean"))
    import jobs
    return jobs.regenerate(["rect"], Path(ROOT), Path(REPO))


def plan(tier, seed, searching):
    return [dict(hargs=["--seed", str(seed), "--tier", tier, "--scale", "8" if searching else "1"], timeout=1500)]


def only_args(hargs, k):
    return hargs + ["--only", str(k)]
