LIBS = ["libvpsc", "libavoid", "libcola"]
HARNESS = "harness/c20.cpp"
EXTRA_FLAGS = ["-DUSE_ASSERT_EXCEPTIONS"]     # a failed COLA_ASSERT throws instead of aborting the stream (same flag set as C11: objects shared)
DRIVER_MODE = "c20"
LEAN_MODULES = ["AdaptaVerif.Props.C20", "AdaptaVerif.Props.C20Tie"]
LEVEL = "other"
LEVEL_TEXT = ("Two halves. (A) LOGIC, machine-checked Lean 4 theorems for all inputs: every geometry predicate the router's decisions are "
              "built from is invariant under translations and the 8 symmetries of the square (orientation-like ones change sign with the "
              "determinant); Manhattan length, squared leg lengths, bend count (as cost() charges it) and obstacle-freeness of a route are "
              "frame-invariant, so a frame change is a cost-preserving bijection between the valid routes of a scene and of its image and "
              "the optimal cost is frame-independent; the VPSC optimum is unique, translates with the desired positions and is permuted by a "
              "renaming of variables / reordering of constraints; the scan-line comparator of libvpsc (position, then heap address) does not "
              "depend on the addresses when all centre positions are distinct (and does when two coincide). (B) RUNTIME, observed only: the "
              "harness runs the same API calls twice in one process with heap perturbation and unrelated work in between, and on "
              "translated / mirrored / quarter-turned / permuted inputs; the Lean driver parses both outputs exactly (hex floats, sign of "
              "zero included) and decides bit-identity, exact translation, equality of route costs (recomputed with the proven-invariant "
              "cost functions; certified sqrt enclosures for polyline) and 1e-9 closeness where the property says so.")
LEVEL_NOTE = ("Determinism is a property of the runtime: half (B) is sampling, not proof; the theorems of half (A) are about the Rat models "
              "(Model/Geometry, Model/Frame), not about the C++ (the geometry kernels are tied to the C++ by C16). A*, visibility sweeps, "
              "nudging, VPSC block merging and stress descent are not modelled. Heap perturbation = allocating and freeing chunks of the "
              "small size classes in random order with ASan's quarantine and malloc-fill switched off for this binary (so freed chunks are "
              "recycled LIFO and keep garbage); a replay with --only starts from a different heap history than the full run, so an "
              "address-dependent failure may need the full stream to reproduce. Nudged orthogonal display routes and VPSC positions come "
              "out of a floating division and are required to translate only up to 1e-9*scale (exactness is counted); raw routes must "
              "translate exactly. Symmetries compare COSTS only (the route may differ among equal-cost alternatives). For ARBITRARY direction restrictions (tag route-symmetry-dirs-any) the unchanged library is not symmetric in about 7% of the generated scenes (one of two pins at the same position finds no path, which one depends on the frame; U-turns at a restricted free end are found in one frame and not in another); these are reported as SPECFAIL `route-symmetry[dirs-any] <kind>.<pin|free-end>: ...` (known finding C20-restricted-ends-asymmetric) and counted as STAT finding.dirs-any.*; the documented configurations (outward-looking end on the outer edge of the scene, single pin on the scene-boundary side) have their own tag route-symmetry-dirs and are quiet on the unchanged tree. "
              "Classes *-params (all public RoutingParameters / RoutingOptions, degenerate alignments): the cost compared over the frames is the Lean model of cost() "
              "(Model/RouteCost.lean: length + segmentPenalty*bends + reverseDirectionPenalty*reversing edges, last edge of an orthogonal search exempt) evaluated on the A* "
              "VERTEX PATH that the library reports through its own DebugHandler interface (the penalty is charged per visibility-graph edge, so the simplified route does not "
              "determine it); anglePenalty (polyline) enters only as the interval [0, 0.992*anglePenalty] per bend; with >= 2 connectors and crossingPenalty / "
              "fixedSharedPathPenalty / reverseDirectionPenalty set (tag route-symmetry-params-x) the cost involves the other connectors and is only counted; polyline routes along a line that "
              "grazes a shape corner are counted, not judged. Not generated because the unchanged library is frame-dependent there (reported as findings): abutting shapes (zero-width "
              "channel, opened in some orientations only); reverseDirectionPenalty with several connectors (the vertices the orthogonal visibility graph has on a line through another "
              "connector's end point depend on the frame, and the penalty counts edges); overlapping shapes in polyline scenes. "
              "Pin classes (half of the route-symmetry-params scenes): a connector source attached with ConnEnd(shape, classId) to a class of 2-4 pins; every image frame is a symmetry FOLLOWED BY A TRANSLATION "
              "(integer, +-48) and a 9th frame is a pure translation by a multiple of 2^-10 up to +-512, the scene itself placed with the origin at a corner / inside / hundreds of units away; the cost judged is "
              "path cost + pinEdgeExtra (Model/PinCone.lean: max(0.001, connectionCost + portDirectionPenalty unless target - pin lies in a cone of the pin's directions)) of the pin the vertex path leaves through; "
              "which pin is chosen is only counted (equal-cost pins are legitimate alternatives). Not generated there, because the unchanged library is frame- or even run-dependent (reported): buffer 0 with pins "
              "(another connector may run along the shape edge through a pin in some orientations only); two pins at one position; an EXCLUSIVE class with >= 2 connectors (who gets which pin is decided with ties "
              "between pin edges broken by EdgeInf ADDRESSES in CmpVisEdgeRotation: per-connector costs differ between identical runs); for the same reason pin classes were not in the exact-translation classes. "
              "That defect is repaired (/repo 992d05a: dummy pin edges ordered by endpoint positions); since then pin classes — exclusive ones serving several connectors included — ARE in the exact classes: "
              "route-twice on *-params scenes (own index range, 300 quick / 1200 thorough: same calls twice, heap scrambled, routes + display routes + A* vertex paths, i.e. the chosen pins, bit-identical) and "
              "route-translate[-orth] (raw routes exact). The cost-judged symmetry class keeps one connector per exclusive class (pins are handed out greedily in connector order). "
              "The crossing-penalty stage (improveCrossings: ties between crossing connectors were broken by ConnRef address, repaired in /repo 5dab214) is on in the run-twice params class (every second scene forced, "
              "a third with parallel connectors) and allowed in every translate scene. Still address dependent on 5dab214 and therefore kept off (reported): >= 2 connectors attached to ONE pin class (two builds of the same "
              "scene differ about once in 1000..5000 such scenes; harness --mode twice-multipin generates them; C20_ZEROSHIFT=1 makes the translate class a rebuild-twice class for triage): one connector per pin class in the exact classes. "
              "CmpVisEdgeRotation itself is hand-modelled (Model/RouteCost.lean cmpVisEdge; the translator has no std::pair locals) — Props/C20Tie: strict weak order among dummy edges, dummy before orthogonal, "
              "address decides only when both endpoint pairs are equal; ptLt = the regenerated Point::operator<; the model is not tied to the source otherwise than by the run-twice class.")
TECHNIQUE = "Lean 4 invariance/uniqueness theorems (logic half) + run-twice / frame-change differential harness decided by an exact Lean driver (runtime half)"
DESIGN_REF = "DESIGN.md section 6 C20"
RULE = ("12 generator slots per round (250 rounds quick, 1200 thorough): route-twice polyline, route-twice orthogonal, vpsc-twice, layout-twice, "
        "removeoverlaps-twice (all centres distinct), removeoverlaps-coincident (groups of rectangles sharing a centre), route-translate, "
        "route-symmetry polyline, route-symmetry orthogonal (all 7 non-trivial symmetries per scene), vpsc-translate, vpsc-permute "
        "(route-translate on orthogonal scenes carries the tag route-translate-orth), and route-symmetry-dirs: orthogonal scenes with DIRECTION-RESTRICTED ends, ConnDirFlags transformed with the frame, cost and axis-parallelism compared over the 8 frames (two rounds in three strict: one free end at / 1-2 units beyond the extreme min/max x or y of the whole scene looking outward only, or one pin at the midpoint of the shape side that is the scene boundary, buffer 0; one round in three tag route-symmetry-dirs-any: arbitrary restrictions, several pins, counted only). "
        "After these and the class cmp, own index ranges: route-symmetry-params (1000 quick / 4000 thorough) and route-translate-params (300 / 1500): EVERY public RoutingParameter "
        "(segment, angle, crossing, clusterCrossing, fixedSharedPath, portDirection penalties, shapeBufferDistance 0..4, idealNudgingDistance, reverseDirectionPenalty 1/2..500; dyadic values) "
        "non-default with probability 1/3..2/3 each, every RoutingOption flipped with probability 1/3; obstacles = rectangles and bars with arms (L/U/T/S pockets, overlapping pieces) in a random "
        "one of 8 orientations; connector ends exactly aligned on one axis, across an obstacle from each other, on (buffered) shape-edge lines, shared between connectors; in half of the symmetry scenes a shape carries a pin class (2-4 pins on different sides at side midpoints / quarter points / corners, outward ConnDirFlags, proportional (ATTACH_POS_*) or absolute offsets, "
        "inside offset, connection cost, exclusive or shared) used as the source of 1-2 connectors, portDirectionPenalty 4/16/100, pins transformed with the frame (place and flags). "
        "Scenes: 1-7 (thorough: up to 14) integer rectangles in grid cells, 1-7 connectors with ends on cell-border lines, segmentPenalty in "
        "{0,1,3,10,50}, shapeBufferDistance 0 or 1/2, "
        "optionally a shape move + second transaction. Between run A and run B of every *-twice case: heap scrambling, an unrelated router, an unrelated VPSC solve and unrelated libcola work touching process-global state (ConstrainedFDLayout with makeFeasible() default / non-default non-zero / one-sided borders + run(), overlap avoidance, cluster hierarchy; ConstrainedMajorizationLayout with overlap avoidance; removeoverlaps with fixed set and third pass); the static vpsc::Rectangle::xBorder/yBorder before and after each run are compared as extra observables. A *-twice case is non-trivial if the two runs saw different heap address "
        "orders (probe) and produced output; a frame case if some route bends / some variable is moved by a constraint.")
TRUSTED_BASE = ["Lean 4.33 kernel", "axioms: propext, Classical.choice, Quot.sound", "harness/c20.cpp (generators, frame images of scenes, heap perturbation)",
                "hex-float printing/parsing", "compiled Lean driver agrees with the kernel semantics of Model/Frame and Num/Sqrt",
                "IEEE-754: +,-,* exact when the result is representable (coordinates are integers / multiples of 2^-10 below 2^17)"]
ASSUMPTIONS = ["scenes/problems as in C02-C05: disjoint rectangles, free connector ends outside all shapes, acyclic VPSC inequality constraints (plus at most one equality)",
               "offsets are multiples of 2^-10 with |offset| <= 64",
               "single-threaded use; the two runs happen in one process"]

EXPLANATION = ("(A) Logic half, Lean theorems for all inputs (Props/C20.lean): the geometry predicates the router decides with are "
               "invariant (orientation-signed) under translations and the 8 symmetries of the square; Manhattan length, squared leg "
               "lengths, bend count and obstacle-freeness of a route are invariant, so r -> F r is a cost-preserving bijection of valid "
               "routes and the optimal cost is frame-independent; the VPSC optimum is unique, translation-equivariant and independent "
               "of variable/constraint order; the scan-line order is independent of address ranks when centres are distinct. "
               "(B) Runtime half, observed: every case is executed twice in one process with heap scrambling and unrelated work in "
               "between (bit-identity of routes, solver positions, removeoverlaps; layouts to 1e-9), translated by multiples of 2^-10, "
               "under the 7 non-trivial symmetries (costs) and with permuted VPSC input order. Determinism itself is sampled, not proved. "
               "The reverse-direction rule of cost() (sign of the source->destination displacement per axis, penalty for an edge heading against it) is modelled and "
               "proved invariant under all 8 symmetries and translations for all displacements, zero components included (reverse_direction_rule_frame_invariant, "
               "path_costs_frame_invariant, optimal_orth_path_cost_frame_invariant; reverse_rule_guard_matters shows the variant with a wrong guard is not); the driver evaluates "
               "the model on the real search's vertex paths in the 8 frames of scenes with all routing parameters / options set and exactly aligned end points. "
               "The pin-cone rule of ConnEnd::assignPinVisibilityTo (portDirectionPenalty) is modelled (Model/PinCone.lean) and proved a function of target - pin (pin_cone_rule_translation_invariant, all positions) "
               "and invariant under the 8 symmetries with the pin's flags transformed (pin_cone_rule_frame_invariant, pin_edge_cost_frame_invariant; pin_cone_from_origin_not_translation_invariant: looking from the origin is not); "
               "the driver adds the model's pin-edge cost of the pin the real search chose, in 9 frames (symmetries followed by translations, and a pure translation).")

def regenerate(ROOT, REPO):
    """the comparators handed to std::set / std::sort / list::sort / the pairing heap are regenerated from the C++ by
    cpp2lean on every run and proved strict weak orders with explicit equivalence classes (Props/C20Tie.lean)"""
    import sys
    from pathlib import Path
    sys.path.insert(0, str(Path(ROOT) / "tools" / "cpp2lean"))
    import jobs
    return jobs.regenerate(["comparators", "makepath"], Path(ROOT), Path(REPO))


def plan(tier, seed, searching):
    return [dict(hargs=["--seed", str(seed), "--tier", tier, "--scale", "8" if searching else "1"])]

def only_args(hargs, k):
    return hargs + ["--only", str(k)]
