LIBS = ["libvpsc", "libcola", "libavoid", "libtopology"]
HARNESS = "harness/c13.cpp"
DRIVER_MODE = "c13"
LEAN_MODULES = ["AdaptaVerif.Props.C13", "AdaptaVerif.Props.C13Tie"]
LEVEL = "translation_validation"
LEVEL_TEXT = ("Every state the real library reaches after TopologyConstraints::solve(), applyResizes() and each "
              "ColaTopologyAddon step of ConstrainedFDLayout::run() is judged by Lean checkers that are proved to decide the "
              "property's clauses exactly (segment vs. node interior, node overlap, path ends, bends at corners turning "
              "around their node, side of every node per edge). Proof component: TriConstraint::slack is affine, "
              "maxSafeAlpha is the root of the slack along initial->final and the largest safe step, and the move phase of "
              "solve() maps feasible configurations to feasible ones, for all rational data; the model of slack/maxSafeAlpha "
              "is tied to the C++ on an exhaustive grid plus random dyadic/float inputs.")
LEVEL_NOTE = ("Only the move phase of solve() is modelled and proved. Which constraints exist - the scan-line generation of "
              "Straight/BendConstraints, their transfer when a segment is split or two segments are merged, prune() - is "
              "NOT modelled: the theorems say 'no constraint of the set is violated by the move', not 'the set is complete'. "
              "Completeness of the set is exactly where the library fails (see class=endnode-visibility); that part is "
              "covered by validation of the real library's states only, on generated histories. Intermediate positions "
              "during a move are not observed (states are checked after each solve()); the side-signature check detects "
              "tunnelling between two observed states: for single-axis steps by the exact crossing count on the scan line "
              "through each node centre, for resize steps (x pass then y pass, the state in between is not observed) by the "
              "parity of that count on both axes, corrected for path end points that pass over the ray (computed from the "
              "node rectangles). That parity is invariant under legal motion by a continuity argument that is stated, not "
              "proved in Lean (only its algebraic core, crossesLine_iff_exactly_one_end_low, is); an even number of "
              "tunnellings of one node during one resize is not seen.")
TECHNIQUE = ("Lean 4 theorems about the TriConstraint model + proven-exact state checkers (Rat) run by a compiled driver on "
             "the states dumped by an in-process harness (ASan+UBSan, asserts on, every scene in a forked child)")
RULE = ("tri-*: 42 exhaustive chunks (7 p x 3 g x 2 leftOf x 4^6 positions) + random dyadic and arbitrary-double inputs shaped to "
        "hit all four branches of maxSafeAlpha; non-trivial = >= 2 branches hit in the chunk. scene-*: random non-overlapping "
        "integer rectangles (or the fixed scenes of tests/simple_bend.cpp) with straight edges or libavoid zero-buffer polyline "
        "routes, then alternating x/y TopologyConstraints phases with random desired positions (all move / one node dragged "
        "with weight 10000 / scramble / contract-expand), solve() repeated until it returns false, optional applyResizes, and "
        "ConstrainedFDLayout::run() with a ColaTopologyAddon subclass that dumps the state after every moveTo / "
        "applyForcesAndConstraints / handleResizes; scene-resize-corners: an edge routed by hand round one or two corners "
        "of a node R (all 8 symmetries, so every corner and both axes), 1-6 small bystander nodes placed next to the segments "
        "incident to those bends, then 1-3 applyResizes() calls that move R's four sides separately and in combination "
        "(side mask 1..15, grow 2..35 or shrink 1..8); non-trivial = some path gained or lost a bend during the history")
TRUSTED_BASE = ["Lean 4.33 kernel", "axioms: propext, Classical.choice, Quot.sound",
                "Lean compiler for the driver", "harness/c13.cpp state dump (EdgePoint::posX/posY, Rectangle getters) + hex-float import",
                "IEEE exactness of +,-,* on the dyadic tie inputs",
                "Check/RouteRect.lean segHitsOpenRect (proved exact in Lemmas/RouteRect.lean, shared with C14)"]
ASSUMPTIONS = ["initial scenes satisfy the property's preconditions (checked by the same Lean checkers on state 0; violations are "
               "counted as scene.invalid-initial and not judged)",
               "an abort of the library (COLA_ASSERT / sanitizer) inside a scene is a failing input even if all dumped states pass"]
EXPLANATION = ("SPECFAIL messages start with class=<fingerprint>: endnode-visibility (segment attached to an end node's centre "
               "cuts a node that shares a scan line with that end node), seg-through-node, bad-bend, node-overlap, ends-changed, "
               "side-changed (single-axis step), side-changed-resize (two-pass step), unsafe-alpha (tie), crash-<assert kind>.")
# The clean tree still produces the registered findings C13-endnode-visibility, C13-parallel-segment-bend and
# C13-samecorner-assert (known_findings.json, matched by the class= prefix of the message); everything else is a VIOLATION.


def regenerate(ROOT, REPO):
    """TriConstraint::slack / slackAtFinal / slackAtInitial / maxSafeAlpha are regenerated from
    topology_constraints.cpp by cpp2lean on every run and proved equal to Model/Tri.lean (Props/C13Tie.lean)"""
    import sys
    from pathlib import Path
    sys.path.insert(0, str(Path(ROOT) / "tools" / "cpp2lean"))
    import jobs
    return jobs.regenerate(["tri"], Path(ROOT), Path(REPO))


def plan(tier, seed, searching):
    return [dict(hargs=["--seed", str(seed), "--tier", tier, "--scale", "8" if searching else "1"], timeout=1500)]


def only_args(hargs, k):
    return hargs + ["--only", str(k)]
