LIBS = ["libvpsc", "libcola", "libavoid", "libtopology"]
HARNESS = "harness/c13.cpp"
DRIVER_MODE = "c13"
LEAN_MODULES = ["AdaptaVerif.Props.C13"]
LEVEL = "translation_validation"
LEVEL_TEXT = ("Every state the real library reaches after TopologyConstraints::solve(), applyResizes() and each "
              "ColaTopologyAddon step of ConstrainedFDLayout::run() is judged by Lean checkers that are proved to decide the "
              "property's clauses exactly (segment vs. node interior, node overlap, path ends, bends at corners turning "
              "around their node, side of every node per edge). Proof component: TriConstraint::slack is affine, "
              "maxSafeAlpha is the root of the slack along initial->final and the largest safe step, and the move phase of "
              "solve() maps feasible configurations to feasible ones, for all rational data; the model of slack/maxSafeAlpha "
              "is tied to the C++ on an exhaustive grid plus random dyadic/float inputs.")
LEVEL_NOTE = ("Only the move phase of solve() is modelled and proved. Which constraints exist - the scan-line generation of "
              "Straight/BendConstraints, their transfer when a segment is split or two segments are merged, prune() - is "
              "NOT modelled: the theorems say 'no constraint of the set is violated by the move', not 'the set is complete'. "
              "Completeness of the set is exactly where the library fails (see class=endnode-visibility); that part is "
              "covered by validation of the real library's states only, on generated histories. Intermediate positions "
              "during a move are not observed (states are checked after each solve()); the side-signature check detects "
              "tunnelling between two observed states for single-axis steps, not for resize steps (two axes at once).")
TECHNIQUE = ("Lean 4 theorems about the TriConstraint model + proven-exact state checkers (Rat) run by a compiled driver on "
             "the states dumped by an in-process harness (ASan+UBSan, asserts on, every scene in a forked child)")
RULE = ("tri-*: 42 exhaustive chunks (7 p x 3 g x 2 leftOf x 4^6 positions) + random dyadic and arbitrary-double inputs shaped to "
        "hit all four branches of maxSafeAlpha; non-trivial = >= 2 branches hit in the chunk. scene-*: random non-overlapping "
        "integer rectangles (or the fixed scenes of tests/simple_bend.cpp) with straight edges or libavoid zero-buffer polyline "
        "routes, then alternating x/y TopologyConstraints phases with random desired positions (all move / one node dragged "
        "with weight 10000 / scramble / contract-expand), solve() repeated until it returns false, optional applyResizes, and "
        "ConstrainedFDLayout::run() with a ColaTopologyAddon subclass that dumps the state after every moveTo / "
        "applyForcesAndConstraints / handleResizes; non-trivial = some path gained or lost a bend during the history")
TRUSTED_BASE = ["Lean 4.33 kernel", "axioms: propext, Classical.choice, Quot.sound",
                "Lean compiler for the driver", "harness/c13.cpp state dump (EdgePoint::posX/posY, Rectangle getters) + hex-float import",
                "IEEE exactness of +,-,* on the dyadic tie inputs",
                "Check/RouteRect.lean segHitsOpenRect (proved exact in Lemmas/RouteRect.lean, shared with C14)"]
ASSUMPTIONS = ["initial scenes satisfy the property's preconditions (checked by the same Lean checkers on state 0; violations are "
               "counted as scene.invalid-initial and not judged)",
               "an abort of the library (COLA_ASSERT / sanitizer) inside a scene is a failing input even if all dumped states pass"]
EXPLANATION = ("SPECFAIL messages start with class=<fingerprint>: endnode-visibility (segment attached to an end node's centre "
               "cuts a node that shares a scan line with that end node), seg-through-node, bad-bend, node-overlap, ends-changed, "
               "side-changed, unsafe-alpha (tie), crash-<assert kind>.")
# WIP stays until the lead has dealt with the two genuine libtopology defects this check reports on the clean
# tree (fix: commit for class=endnode-visibility and/or known_findings entries, see the C13 report): with the
# msg_re patterns ^class=(endnode-visibility|crash-(resize-)?assert-segment-rect-intersection) and
# ^class=(bad-bend-after-parallel-segment|crash-(resize-)?assert-convex-bend) registered, seeds 1..5 are quiet in both tiers.


def plan(tier, seed, searching):
    return [dict(hargs=["--seed", str(seed), "--tier", tier, "--scale", "8" if searching else "1"], timeout=1500)]


def only_args(hargs, k):
    return hargs + ["--only", str(k)]
