LIBS = ["libavoid"]
HARNESS = "harness/c12.cpp"
DRIVER_MODE = "c12"
LEAN_MODULES = ["AdaptaVerif.Props.C12", "AdaptaVerif.Props.C12Ops"]
LEVEL = "translation_validation"
LEVEL_TEXT = ("After every processTransaction() of a generated history the real connector/junction "
              "structure of each hyperedge, read through libavoid's public API, is decided by Lean "
              "checkers that are proved sound AND complete for all finite multigraphs: connected, "
              "acyclic (every connector a bridge), no dangling connector end, leaves = the terminal "
              "set the hyperedge had before; plus live objects = (before + reported new) - reported "
              "deleted, and route ends at the attached objects. In addition the mechanism that rewrites a hyperedge "
              "(the hyperedge tree and the improver's structural rewrites) is modelled as coded, proved to keep a well-formed "
              "tree for all heaps, and replayed against the real code call by call.")
LEVEL_NOTE = ("MODELLED (Model/HyperTree.lean) and proved for ALL heaps that are well-formed trees (Props/C12Ops): the pointer-based "
              "hyperedge tree of hyperedgetree.cpp (nodes with ordered edge lists, edges with first/second end, junction and "
              "connector pointers, object allocation) with its primitives (disconnectEdge, replaceNode, spliceEdgesFrom, "
              "splitFromNodeAtPoint, constructors, delete) and the improver's structural rewrites as compositions of them, as coded: "
              "removeZeroLengthEdges(node, ignored) (all four target/source branches, junction deletion lists, root replacement, the "
              "restart-and-return traversal) and moveJunctionAlongCommonEdge (common/other classification, in-scan splits, junction "
              "moved with/without freeing the old node, junction split with new junction + connector). Theorems: every one of these "
              "returns (no assertion, no non-termination of the splice loop) and keeps WF (nothing dangling, both link directions agree) "
              "and IsTree (the predicate Check.Tree.isTree decides); any finite sequence of rewrites keeps them (improve_preserves_tree); "
              "junction bookkeeping consistent and conserved; the set of leaves is kept by removeZeroLengthEdges under NoLeafZero and by the "
              "junction move under MoveSafe (no leaf among the merged nodes) - side conditions which closed witnesses show to be necessary and which the C++ callers do NOT establish (see report: the tree "
              "loses a terminal node when a junction sits on a terminal; the connector itself stays attached, so the scene-level "
              "property is judged by the per-transaction checkers). "
              "MODELLED AND TIED, NO THEOREM: listJunctionsAndConnectors, updateConnEnds (incl. travellingForwardOnConnector), "
              "writeEdgesToConns (both passes). The model follows /repo since fix 6964517 (removeZeroLengthEdges hands the attributes of a "
              "merged terminal leaf to the surviving node: theorem removeZeroLengthEdges_keeps_terminal_attrs); the behaviour as found is "
              "kept as rzleNodeOld with its witness. "
              "NOT modelled: MTST construction, shift-segment nudging (only as arbitrary coordinate changes), mergesWith/balance, addConns; "
              "for those only the states the real code produced on the generated histories are decided (per-run translation validation). "
              "The driver's glue is trusted: numbering of vertices, slicing the global graph per hyperedge "
              "(fuelled BFS; a wrong slice can only make the proven check fail), canonical renaming of tree objects for the "
              "op-level comparison (breadth-first from a surviving node, following the edge lists in order), wording of diagnostics. "
              "Route ends: exact equality with JunctionRef::position() or recommendedPosition() / a pin position "
              "is counted (stats route.ends-exact); a route end is *accepted* up to a documented slack "
              "(junction: Chebyshev distance <= 25 = largest idealNudgingDistance generated, because orthogonal "
              "nudging runs after the hyperedge code; terminal: on or inside the pin's shape) and either orientation "
              "of displayRoute() is accepted (the improver writes some routes target-to-source; one cause is modelled: "
              "before fix 6964517 removeZeroLengthEdges deleted the far node of a zero-length last segment and with it isConnectorSource, "
              "theorem rzle_drops_isConnectorSource_witness about rzleNodeOld; reversed routes dropped from 394 to 40 at seed 1). "
              "Junctions reported deleted stay allocated until the next transaction (deleteJunction only queues): "
              "live junctions = m_obstacles minus those reported deleted in this transaction, and they must be gone "
              "one transaction later. "
              "Scene features under which the UNMODIFIED library violates the property or crashes are off in the "
              "default stream and reproducible with --mode (centre pins, insideOffset>0, two pins of one class, "
              "ordinary connectors in the scene, two registrations in one transaction); see the C12 report.")
TECHNIQUE = ("Lean 4 theorems: checkers (isTree_iff, isTreeWithLeaves_sound/_complete, liveConsistent_iff; union-find labelling invariant); "
             "mechanism (Props/C12Ops: contract/split/mergeStep/removeZeroLengthEdges/moveJunction preserve WF and IsTree for all heaps, "
             "improve_preserves_tree, junction bookkeeping, terminal set under side conditions + closed witnesses, wfb/jinvb sound) "
             "+ op-level correspondence of the model with the real code (tree primitives and the improver's private rewriting steps "
             "called one at a time on generated trees; with the guarded hook also every such call inside HyperedgeImprover::execute) "
             "+ translation validation of libavoid's real output over generated histories")
RULE = ("13 generator classes cycled: {no full rerouting at first | rerouting registered by junction} x "
        "{improvement off | moving junctions | moving/adding/deleting} x {1 | 2 hyperedges}, plus "
        "'terminal-list' (hyperedge created by registerHyperedgeForRerouting(ConnEndList)); 3-9 terminals on "
        "side pins, 1-4 junction seeds on free 'streets' of a cell grid, 0-5 obstacle shapes, 2-5 (thorough 2-7) "
        "transactions: shape moves, junctions moved to recommendedPosition(), re-registration by junction, "
        "option flips. A case is non-trivial if some transaction reported a new or deleted object. "
        "Second stream (--mode ops, 700 / 6000 cases): classes ops-prim (random improver-shaped tree + 2-10 random primitive calls: "
        "splitFromNodeAtPoint, the contraction sequence, replaceNode, disconnectEdge+delete, spliceEdgesFrom, point changes; exact "
        "comparison of the whole heap after every call), ops-rzle/-move/-odd x minor/major (trees of 3-9 hubs joined by connector paths of "
        "1-4 segments on a coarse grid with many coincident points, collinear overlapping first segments, a few oblique segments, fixed "
        "junctions, fixed-route connectors, 'odd' = junction on an inner node / flipped hasFixedRoute; 1-3 rounds of "
        "removeZeroLengthEdges(root) + moveJunctionAlongCommonEdge per junction until it returns null + emulated segment shifts; "
        "comparison up to renaming after every call, listJunctionsAndConnectors after every call, updateConnEnds and the write-back of all routes "
        "at the end of the case), ops-witness (the three closed witnesses of Props/C12Ops against the real code). "
        "An ops case is non-trivial if some call changed the number of tree objects.")
TRUSTED_BASE = ["Lean 4.33 kernel", "axioms: propext, Classical.choice, Quot.sound",
                "ops harness: explicit-instantiation access to HyperedgeImprover's private members (maps, lists, the two private "
                "rewriting methods); heap dump of HyperedgeTreeNode/Edge by traversal; object numbering",
                "compiled driver glue (vertex numbering, per-hyperedge slicing, hex-float import)",
                "harness: reads ConnRef::endpointConnEnds/displayRoute, JunctionRef::position/recommendedPosition, "
                "Router::connRefs/m_obstacles, newAndDeletedObjectLists*; ids of freed objects come from a "
                "pointer->id map recorded before the transaction"]
ASSUMPTIONS = ["each terminal (shape, pin class) belongs to one hyperedge (generator invariant), so a hyperedge is "
               "identified after arbitrary junction/connector churn by the terminals it had before",
               "the improver's object lists are read only when an improvement option is on (otherwise they are stale)",
               "route-end slack as stated in LEVEL_NOTE"]
EXPLANATION = ("SPECFAIL messages start with the most specific failure kind present in the case; kinds the "
               "unmodified library is known to produce rank last, so a known defect never masks a new one. "
               "The library's own route-end / dangling-junction defects carry decidable sub-fingerprints in the kind "
               "(route-end-mismatch[nudged-off-junction | along-terminal-shape-edge | terminal-end-shifted-with-junction | "
               "rerouted-junction-link-misses-final-piece], dangling-junction[new-split-junction]); whatever does not meet "
               "a sub-fingerprint keeps the plain kind and stays strict. A crash message quotes the failed assertion / "
               "sanitizer headline taken from the crashing child's stderr.")


def plan(tier, seed, searching):
    sc = "8" if searching else "1"
    return [dict(hargs=["--seed", str(seed), "--tier", tier, "--scale", sc], label="scenes"),
            # op-level correspondence: the tree primitives and the improver's rewriting steps, one call at a time
            dict(hargs=["--mode", "ops", "--seed", str(seed), "--tier", tier, "--scale", sc], label="ops")]


def only_args(hargs, k):
    return hargs + ["--only", str(k)]
