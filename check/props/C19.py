LIBS = ["libvpsc", "libcola", "libavoid", "libtopology", "libdialect"]
HARNESS = "harness/c19.cpp"
DRIVER_MODE = "c19"
LEAN_MODULES = ["AdaptaVerif.Props.C19"]
LEVEL = "proof"
LEVEL_TEXT = ("Lean 4 theorems about an executable model of dialect::peel and Graph::getConnComps "
              "(partition of nodes/edges, trees connected and acyclic, core without degree-1 nodes, "
              "components = reachability classes) and soundness theorems for the executable checkers; "
              "the C++ is tied to the model by exact comparison of canonical outputs on generated graphs, "
              "and every C++ output is additionally run through the proven checkers.")
LEVEL_NOTE = ("Proof level covers peel and getConnComps only (model theorems are partial-correctness: "
              "'if the fuel-bounded model returns'). Tree::symmetricLayout (no two node boxes overlap) and "
              "OrthoPlanariser::planarise (no two edges cross, original nodes kept, adjacencies realised by "
              "chains of new nodes) are validator-only: algorithms not modelled, outputs checked exactly "
              "(rational arithmetic) by Lean checkers on sampled inputs.")
TECHNIQUE = "Lean 4 theorems (own list-based graph theory) + correspondence harness + verified output checkers"
RULE = ("generated simple graphs (random connected, trees incl. one/two-centre paths, cycles, unicyclic, cores with "
        "hanging trees/paths, disconnected unions; rooted trees of 5-60 nodes fed directly to Tree::symmetricLayout "
        "(random, lopsided, uneven caterpillars/spiders, the 14-node witness family, four growth directions); orthogonally routed graphs on a grid with many crossings and bundles); "
        "a case is non-trivial if at least one leaf was peeled / more than one component / at least one crossing node was created")
TRUSTED_BASE = ["Lean 4.33 kernel", "axioms: propext, Classical.choice, Quot.sound",
                "harness + hex-float import", "Lean compiler for the driver",
                "model-to-code tie is by sampling (correspondence), not proof"]
ASSUMPTIONS = ["peel inputs are connected simple graphs (the C++ asserts otherwise)",
               "planarise inputs are orthogonal routes with integer-grid or router-produced coordinates; "
               "crossings closer than the planariser's own tolerances (0.5/0.8/1.0) to a segment end are outside the generator"]


def _known(idpart):
    """is there a `known` entry for C19 in known_findings.json whose id contains idpart?
    (the two genuine defects found by this check are only exercised once the lead has recorded them,
    so that the clean tree is quiet; see the C19 report)"""
    import json, pathlib
    f = pathlib.Path(__file__).resolve().parents[2] / "known_findings.json"
    try:
        fs = json.loads(f.read_text()).get("findings", [])
    except Exception:
        return False
    return any(e.get("property") == "C19" and e.get("status") == "known" and idpart in e.get("id", "") for e in fs)


def plan(tier, seed, searching):
    dargs = ["--strict-routed"] if _known("shortseg") else []
    steps = [dict(hargs=["--seed", str(seed), "--tier", tier, "--scale", "8" if searching else "1"], dargs=dargs)]
    if True:                  # peel() on a graph without edges: was a heap-buffer-overflow in NodeBuckets::takeLeaves; fixed in /repo 1ba969a, now always checked strictly
        steps.append(dict(hargs=["--seed", str(seed), "--tier", tier, "--mode", "edgeless"], label="finding-edgeless"))
    if _known("shortseg"):    # planarise: route segment shorter than the event tolerance -> spurious crossing node
        steps.append(dict(hargs=["--seed", str(seed), "--tier", tier, "--mode", "shortseg"], label="finding-shortseg"))
    return steps


def only_args(hargs, k):
    return hargs + ["--only", str(k)]
