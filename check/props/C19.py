LIBS = ["libvpsc", "libcola", "libavoid", "libtopology", "libdialect"]
HARNESS = "harness/c19.cpp"
DRIVER_MODE = "c19"
LEAN_MODULES = ["AdaptaVerif.Props.C19", "AdaptaVerif.Props.C19Layout", "AdaptaVerif.Props.C19Planarise",
                "AdaptaVerif.Props.C19PlanariseTie"]
LEVEL = "proof"
LEVEL_TEXT = ("Lean 4 theorems about an executable model of dialect::peel and Graph::getConnComps "
              "(partition of nodes/edges, trees connected and acyclic, core without degree-1 nodes, "
              "components = reachability classes) and soundness theorems for the executable checkers; "
              "the C++ is tied to the model by exact comparison of canonical outputs on generated graphs, "
              "and every C++ output is additionally run through the proven checkers.")
LEVEL_NOTE = ("Proof level covers peel, getConnComps (model theorems are partial-correctness: "
              "'if the fuel-bounded model returns') and Tree::symmetricLayout: Model/TreeLayout.lean is an executable "
              "Rat model of symmetricLayout/flip/translate/getBounds/computeIsomString as coded; Props/C19Layout.lean "
              "proves for all trees, sizes, separations and growth directions that rank bounds enclose the nodes, "
              "side-by-side subtrees are 2*nodeSep apart on every common rank and no two boxes overlap when every "
              "extent along the growth direction is <= rankSep (the hypothesis is necessary: closed witness = known "
              "finding C14-tree-rank-distance); the C++ is tied to the model by exact equality of every centre, every "
              "m_boundsByRank entry, m_lb/m_ub and isSymmetrical() on generated trees with dyadic sizes/separations. "
              "OrthoPlanariser::planarise: Model/Planarise.lean is an executable Rat model of the whole planariser as coded "
              "(buildUniqueBendPoints/NearbyObjectFinder, EdgeSegment constructor, partition with running average, computeNodeGroups, "
              "CompareActiveEvents with its tolerance, the computeCrossings sweep with openH/openV and the event/segment re-pointing, "
              "std::sort as libstdc++ insertion sort). Props/C19Planarise.lean proves, for EVERY orthogonally routed input whose node "
              "centres and route points have pairwise equal-or-more-than-1-apart coordinates and whose routes do not run through third "
              "nodes' centres (hypothesis SepInput/NoCentreInside, decidable form sepInputB with soundness theorem; routes of different "
              "edges may overlap, nest, touch and cross): one bend node per distinct bend point; the overlap-removal sweep delivers an "
              "axis-parallel, separated, overlap-free edge list (overlap_removal_good); the crossing sweep reports a crossing node exactly "
              "at the points where a horizontal h and a vertical v of that list satisfy h.lo < v.cc <= h.hi, v.lo < h.cc < v.hi "
              "(crossings_sound / crossings_complete / planarise_crossings; = proper crossings when no right end touches a vertical, "
              "crossings_iff_proper); no two edges of the result cross (planarise_no_crossing_of_input); every original node is kept and "
              "every original edge (u,v) is realised by a chain u - m1 - ... - mk - v whose intermediate nodes are bend or crossing nodes "
              "only (planarise_preserves_nodes_and_connections_partial; partial only in that 'in route order' is not stated). The same "
              "theorems are also stated stage-wise for ALL segment lists (hypotheses Good / GoodA with decidable forms goodB / goodAB). "
              "Further: std::sort returns a sorted permutation for strict weak orders; the comparator is lexicographic on separated "
              "coordinates but orders CLOSE before OPEN for every vertical not longer than the tolerance and is not a strict weak order "
              "in general; closed witnesses short_segment_missorted / short_segment_disconnects (known finding C19-planarise-shortseg "
              "reproduced in the model and replayed against the library every run: the hypothesis is necessary) and ttouch_asymmetric. "
              "The library is tied to the model by exact equality of bend nodes, overlap-free graph and planar graph (new nodes renamed "
              "in creation order) on the planx-* classes and of the planar graph on plan-manual / plan-routed (real LeaflessOrthoRouter "
              "routes); cases whose library result depends on std::sort tie handling, heap addresses or double rounding of the running "
              "average are detected and only counted. Every clause is additionally evaluated on the library's own output under the "
              "decidable hypotheses.")
TECHNIQUE = "Lean 4 theorems (own list-based graph theory; full sweep-line proofs for the planariser) + correspondence harness + verified output checkers + cpp2lean regeneration of the planariser comparator"
RULE = ("generated simple graphs (random connected, trees incl. one/two-centre paths, cycles, unicyclic, cores with "
        "hanging trees/paths, disconnected unions; rooted trees of 5-60 nodes fed directly to Tree::symmetricLayout "
        "(random, lopsided, uneven caterpillars/spiders, the 14-node witness family, four growth directions; classes layoutx-*: "
        "the same shapes plus deep paths, stars, nested lopsided subtrees, 1-4 node trees with anisotropic / quarter-valued sizes, "
        "nodeSep and rankSep incl. 0 and rankSep below the extents, both convexOrdering values — exact tie with the Lean model); orthogonally routed graphs on a grid with many crossings and bundles; classes planx-*: grids of crossing routes, T-touches on all four sides, "
        "collinear overlaps and parallels 0.25..1.25 apart, jogs of length 0.25..2 around the tolerances, routes through node centres, staircases crossing "
        "one edge several times, random orthogonal routes on coarse and quarter-step pools, bends 0..1 apart, the closed witnesses of Props/C19Planarise); "
        "a case is non-trivial if at least one leaf was peeled / more than one component / at least one crossing node was created")
TRUSTED_BASE = ["Lean 4.33 kernel", "axioms: propext, Classical.choice, Quot.sound",
                "harness + hex-float import", "Lean compiler for the driver",
                "model-to-code tie is by sampling (correspondence), not proof",
                "harness reads Tree::m_boundsByRank/m_lb/m_ub through '#define private public' around the libdialect headers"]
ASSUMPTIONS = ["peel inputs are connected simple graphs (the C++ asserts otherwise)",
               "symmetricLayout no-overlap: every node extent along the growth direction <= rankSep, sizes >= 0, nodeSep >= 0 "
               "(stated in the theorem; necessary); exact tie: sizes/separations dyadic so that double arithmetic is exact",
               "planarise inputs are orthogonal routes with integer-grid or router-produced coordinates; "
               "crossings closer than the planariser's own tolerances (0.5/0.8/1.0) to a segment end are outside the generator"]


def _known(idpart):
    """is there a `known` entry for C19 in known_findings.json whose id contains idpart?
    (the two genuine defects found by this check are only exercised once the lead has recorded them,
    so that the clean tree is quiet; see the C19 report)"""
    import json, pathlib
    f = pathlib.Path(__file__).resolve().parents[2] / "known_findings.json"
    try:
        fs = json.loads(f.read_text()).get("findings", [])
    except Exception:
        return False
    return any(e.get("property") == "C19" and e.get("status") == "known" and idpart in e.get("id", "") for e in fs)



def regenerate(ROOT, REPO):
    """dialect::CompareActiveEvents (libdialect/planarise.cpp), the comparator of the planariser sweep, is regenerated from
    the C++ by cpp2lean on every run (with the EventType enumerator values from planarise.h) and proved equal to the model's
    comparator (Props/C19PlanariseTie.lean)"""
    import sys
    from pathlib import Path
    sys.path.insert(0, str(Path(ROOT) / "tools" / "cpp2lean"))
    import jobs
    return jobs.regenerate(["planarise_cmp"], Path(ROOT), Path(REPO))


def plan(tier, seed, searching):
    dargs = ["--strict-routed"] if _known("shortseg") else []
    steps = [dict(hargs=["--seed", str(seed), "--tier", tier, "--scale", "8" if searching else "1"], dargs=dargs)]
    if True:                  # peel() on a graph without edges: was a heap-buffer-overflow in NodeBuckets::takeLeaves; fixed in /repo 1ba969a, now always checked strictly
        steps.append(dict(hargs=["--seed", str(seed), "--tier", tier, "--mode", "edgeless"], label="finding-edgeless"))
    if _known("shortseg"):    # planarise: route segment shorter than the event tolerance -> spurious crossing node
        steps.append(dict(hargs=["--seed", str(seed), "--tier", tier, "--mode", "shortseg"], label="finding-shortseg"))
    return steps


def only_args(hargs, k):
    return hargs + ["--only", str(k)]
