LIBS = ["libvpsc", "libcola", "libavoid", "libtopology", "libdialect"]
HARNESS = "harness/c18.cpp"
DRIVER_MODE = "c18"
LEAN_MODULES = ["AdaptaVerif.Props.C18", "AdaptaVerif.Props.C18Tie", "AdaptaVerif.Props.C18Tie2", "AdaptaVerif.Props.C18Tie3", "AdaptaVerif.Props.C18Ids"]
LEVEL = "proof"

# Which `flippedRetrieval` semantics of SepMatrix::getSepPair the C++ in /repo is expected to follow:
#   "stale" = the flag is written only when the pair is created (the code as found; genuine defect,
#             reported as the known-finding class tag=flip-history / msg "stale-flippedRetrieval:")
#   "fixed" = the flag is written on every retrieval (after the fix: commit lands in /repo).
# It only selects the model variant for the *structural* comparison (DIVERGE); property violations
# (SPECFAIL) are always judged against the requested meaning, i.e. the fixed semantics.
import os
IMPL_FLAG = os.environ.get("VERIF_C18_IMPL_FLAG", "fixed")   # the fix: commit for flippedRetrieval has landed in /repo

LEVEL_TEXT = ("Lean 4 theorems, for all inputs, about a hand-written executable model of SepPair/SepMatrix/"
              "TGLF-SEPCO (transform equivariance for all 8 symmetries, full D4 composition table with plain "
              "equality, flip-storage equivalence on fresh pairs and - for the repaired flag semantics - after "
              "any history, TGLF write/read round trip at the writer's precision), plus a machine-checked "
              "counterexample for the flag semantics as coded; the model is tied to the C++ by an exhaustive "
              "table (8 dirs x 3 relations x 2 gap types x 8 transforms x gaps {-7,-0,+0,7} x 2 extra gaps x 2 "
              "base pairs, all 64 compositions) and random op histories / graph round trips run in-process "
              "under ASan+UBSan.")
LEVEL_NOTE = ("The theorems are about the Lean model (AdaptaVerif/Model/Sep.lean), written by hand from "
              "constraints.cpp/io.cpp; no generated (cpp2lean) layer. The C++ is connected only by the sampled/"
              "exhaustive correspondence: exact comparison of every SepPair field incl. the sign bit of zero gaps, "
              "of SepPair/SepMatrix::writeTglf text and of the generated vpsc::Constraint (left id, right id, gap, "
              "equality). Doubles are modelled as exact rationals with a sign bit: rounding of +,/ and of "
              "strtod is not modelled (inputs are dyadic so the arithmetic is exact; a separate 'fine' class "
              "compares within the writer's precision). printf's %.Nf is modelled as exact round-half-even. "
              "Graph::writeTglf node/route text (6 significant digits) and buildGraphFromTglf's node/link "
              "sections are not modelled, only validated on outputs. removeNodes, setCorrespondingConstraints, "
              "SepMatrix copies sharing SepPairs, SepCo/ProjSeq are out of scope; Graph::rotate90* is exercised on "
              "square nodes only (it deliberately does not exchange node widths/heights). The history theorem "
              "flip_storage_history holds for the repaired getSepPair (flag written on every retrieval); for the "
              "code as found it is false (flip_storage_history_witness) and the correspondence reports it.")
TECHNIQUE = "Lean 4 theorems on a hand-written model + exhaustive/random correspondence harness (ASan+UBSan build)"
RULE = ("48 exhaustive table cases (seed independent: dir x relation x gap type; rows gap {-7,-0,+0,7} x extra {0,1.5} "
        "x base pair {fresh, pre-seeded}; 8 transforms, 64 compositions) + random classes: pair-random (arbitrary "
        "SepPair fields, tglfPrecision 0..6), hist-oriented / flip-history (op histories on one SepMatrix with every "
        "pair addressed in one / in mixed orientation), graph-rotate (Graph::rotate90cw/acw/180 on square nodes), "
        "tglf / tglf-fine (Graph::writeTglf -> buildGraphFromTglf; dyadic values exact, fine values at the writer's "
        "precision). A case is non-trivial if it generated at least one vpsc constraint (tglf: or a routed edge).")
TRUSTED_BASE = ["Lean 4.33 kernel", "axioms: propext, Classical.choice, Quot.sound",
                "hand-written model Model/Sep.lean (tied by correspondence only)",
                "harness/c18.cpp + Driver/C18.lean + hex-float import",
                "IEEE exactness of +,-,*,/2 on small dyadic values; glibc printf/strtod correctly rounded"]
ASSUMPTIONS = ["SepMatrix extra boundary gap is >= 0 and not -0.0 (a negative total BDRY gap cannot be represented in TGLF)",
               "ids of a pair are distinct (getSepPair throws otherwise; modelled)",
               "gaps are finite doubles"]
EXHAUSTIVE = {"quick": False, "thorough": False}
EXPLANATION = ("table class is exhaustive over direction x relation x gap type x transform x {-7,-0,+0,7}; "
               "histories and graphs are sampled")


def regenerate(ROOT, REPO):
    """the SepDir switch kernels (negateSepDir, sepDirIsCardinal, lateralWeakening, cardinalStrengthening)
    and SepPair::transform (switch with break arms mutating members, double as signed-zero SZ) are regenerated from
    constraints.cpp by cpp2lean on every run and proved equal to Model/Sep.lean (Props/C18Tie.lean, C18Tie2.lean);
    so is SepPair::generateSeparationConstraint (job sepgen, Props/C18Tie3.lean)"""
    import sys
    from pathlib import Path
    sys.path.insert(0, str(Path(ROOT) / "tools" / "cpp2lean"))
    import jobs
    return jobs.regenerate(["sepdir", "seppair", "sepgen"], Path(ROOT), Path(REPO))


def plan(tier, seed, searching):
    return [dict(hargs=["--seed", str(seed), "--tier", tier, "--scale", "8" if searching else "1"],
                 dargs=["--impl-flag", IMPL_FLAG])]


def only_args(hargs, k):
    return hargs + ["--only", str(k)]
