LIBS = ["libavoid"]
HARNESS = "harness/c06.cpp"
DRIVER_MODE = "c06"
LEAN_MODULES = ["AdaptaVerif.Props.C06", "AdaptaVerif.Props.C06Tie", "AdaptaVerif.Props.C06Reroute"]
LEVEL = "translation_validation"
LEVEL_TEXT = ("Two parts. (1) PROOF, for all legal histories of any length (Lean 4, no sorry, axioms propext / "
              "Classical.choice / Quot.sound): the router's transaction queue - de-duplication rules of addShape / "
              "moveShape (absolute and relative) / deleteShape / the junction twins / modifyConnector, the stable "
              "sort by (type, id) and the three loops of processActions, transactions on and off - is a refinement "
              "of 'apply every edit immediately to a plain map id -> geometry': queue_refines_scene, "
              "queue_refines_scene_from, queue_invariant, pending_tracks_immediate, noop_txn, noop_processActions, "
              "immediate_mode, immediate_mode_run, immediate_mode_fold_corner (the one behavioural corner: a move "
              "folded into a queued Add returns before the immediate-mode processTransaction tail). The model is "
              "tied to router.cpp by exact scene comparison after EVERY API call of every generated history. "
              "(2) TRANSLATION VALIDATION per history: after every processing point every connector's displayRoute() "
              "and route() is judged by an exact rational route checker with a soundness and completeness theorem "
              "(route_check_sound, seg_check_exact) against the MODEL's scene (shapes shrunk by 1e-6), its cost "
              "(Euclidean length via checked rational sqrt enclosures of width 1e-9, or Manhattan length, plus "
              "segmentPenalty x bends) is compared to 1e-6 with the route of a FRESH router built on the same final "
              "scene with the same options, a processTransaction() with an empty queue must leave routes "
              "bit-identical, and dumped visibility / invisibility graphs are audited for staleness. "
              "(3) THE REROUTE DECISION (Model/Reroute.lean, Props/C06Reroute.lean): which connectors a transaction "
              "looks at again is modelled as coded - per connector m_route / m_needs_reroute_flag / m_false_path / the "
              "delegate's alert bool, globally the registrations of connectors on visibility edges (EdgeInf::addConn); "
              "per processed transaction removeFromGraph alerts for removed / moved obstacles, the could-be-shorter test "
              "of markPolylineConnectorsNeedingReroutingForDeletedObstacle (exact formula, sums of square roots compared "
              "through certified enclosures), newBlockingShape on the new routing polygons, end-point updates, delivery "
              "of the alerts, generatePath re-registering the new path; orthogonal connectors are always rerouted. "
              "Proved for ALL states / transactions / polygons: a connector that is NOT flagged has no registered edge at "
              "a removed / moved obstacle, none reported blocked by an added / moved shape, unchanged ends "
              "(skip_sound_registration), hence for strictly convex shapes in general position its old route is valid "
              "for the new scene (skip_sound_leg, skip_sound_route_valid, with the invariant covered_after_routing / "
              "covered_preserved); flags stick (flag_persists, endpoint_change_flags, orthogonal_always_rerouted); no-op "
              "(noop_flags_nothing, settings_only_transaction_keeps_flags); for removal (as repaired in /repo 852e306: distances |b|, |d| from the side's line): the detour point minimises the detour over that side for every "
              "norm-like length over any ordered field (removal_estimate_min_horizontal/_vertical, removal_estimate_repaired_min) and the test "
              "flags whenever a path through a point of that side would be shorter, with no side condition (removal_flag_complete, "
              "removal_complete_shorter_path); removal_witness_flagged: the closed scene on which the code as found kept a longer route "
              "(signed offsets: x was not the crossing point when the line separates start and end; replayed against the C++ by harness "
              "--only 1000002..1000007, repaired) is now flagged; new_scene_obstacle_cases, txnOf_spec, touched_or_blocked_edge_flags, "
              "skip_sound_route_valid_rect and skip_sound_scene (assembled on runPasses; conclusion = RouteValid of C03), contains_incremental_eq_scratch; "
              "estLess_sound: the driver's three-valued "
              "comparison never contradicts an exact one. TIE per processed transaction of every history: the model's "
              "rerouted set = ConnRef::needsRepaint() exactly; with the guarded hook (ADAPTAGRAMS_VERIF_REROUTE_HOOK) also "
              "m_needs_reroute_flag, m_false_path, m_route_dist (within 1e-9 of the route length) and "
              "m_static_orthogonal_graph_invalidated at the start of rerouteAndCallbackConnectors, and the same members "
              "after the transaction; Obstacle::routingPolygon() of every obstacle is tied to the model's geometry; for polyline routers "
              "Router::contains of every connector end equals the from-scratch set (active obstacles whose routing "
              "polygon strictly contains the point, Model.Geometry.inPoly) after every processing point.")
LEVEL_NOTE = ("Reroute model: the new routes themselves are inputs (A* is not modelled); a could-be-shorter comparison "
              "closer than 1e-9 is not compared (counted reroute.too-close-to-call); the rotated (non axis-parallel side) "
              "branch of the estimate (atan2/cos/sin) is not modelled - obstacles are rectangles; `new JunctionRef` with "
              "transactions off runs two transactions (pin registration, then the add): the harness flushes first so the "
              "first has nothing to do, otherwise the comparison is switched off for the rest of the history (counted "
              "reroute.model-lost-track); a processTransaction() that runs only because a routing parameter was set is "
              "modelled as a transaction with an empty action list; a generatePath that finds no path leaves the flag up: "
              "visible only with the hook (counted reroute.path-not-found, the model follows). "
              "Proved about the MODEL of the queue only; the C++ is connected to it by sampled, exact per-call "
              "correspondence (polygon points, active flag = membership in Router::m_obstacles, junction positions, "
              "connector end vertices). Router::actionList is private, so the queue itself (firstMove flag, order "
              "before the sort) is not observed - only its effect on the scene. The incremental visibility-graph "
              "maintenance (removeFromGraph, checkAllBlockedEdges, newBlockingShape, adjustContains*, Lee sweep per "
              "moved shape) and the selective reroute (markPolylineConnectorsNeedingReroutingForDeletedObstacle, "
              "edge -> connector alerts) are NOT modelled: their results are only audited per generated history "
              "(route validity, cost equality with a fresh router, graph staleness). 'Fresh router gives the optimum' "
              "is C04/C05's business - here fresh and incremental are only compared with each other. Rectangles "
              "and free-floating junctions only (no connection pins, clusters, checkpoints, hyperedges); the "
              "generator keeps shapes interior-disjoint with gaps >= 1 (except the bar/slab pair of class unblock-one-side, "
              "during which the graph audit is off) and endpoints >= 1 away from shapes. A stale route is put in the "
              "known class not-rerouted-fewer-bends-via-new-vertex only if segmentPenalty > 0, the fresh route has no "
              "more bends and turns at a corner of an obstacle added / moved in that transaction. "
              "Route validity is always judged against the real shapes (never the buffered routing polygons). An invalid "
              "route is classed through-buffer-owner only if EVERY shape it crosses has an endpoint of that connector "
              "strictly inside its routing polygon (shape grown by shapeBufferDistance) but outside the shape - the "
              "clean-tree `contains` exemption; any other crossed shape makes it through-interior (strict). The graph "
              "audit counts, but does not flag, visibility edges whose only crossed shapes are such buffer owners. "
              "junction obstacle boxes are used in the DIVERGE-level graph "
              "audit and, for polyline routes, only to recognise a route running through the DIAGONAL of a junction "
              "box (same newBlockingShape defect as for shapes, known finding C06-block-diagonal); orthogonal routes "
              "legitimately cross free-floating junctions. An invalid route is not cost-compared. Within one "
              "history the two known-finding classes (through-two-corners, not-rerouted-fewer-bends*) rank below "
              "every other failure so they cannot mask one; a stale route that stays unchanged keeps the class it "
              "was first reported with. deleteJunction with transactions off is generated again since /repo 448bcee "
              "(it used to re-enter processTransaction from ~ShapeConnectionPin; found here, reported under C15).")
TECHNIQUE = ("Lean 4 refinement proof of the action-queue state machine (invariant + per-call simulation + flush "
             "theorem) + exact rational route / cost / graph checkers with soundness theorem + correspondence harness "
             "with a from-scratch router as oracle")
RULE = ("histories of 3-25 further calls after a set-up of 2-10 rectangles, 0-2 junctions, 1-6 connectors on an "
        "integer grid; 12 generator classes cycled by case index: buffer-endpoint (shapeBufferDistance 4 or 8, a free "
        "endpoint outside a shape S but inside its buffer zone; S is moved between the endpoints; in a later "
        "transaction an edge from that endpoint is recomputed: a shape is added behind S, or the recorded blocker of "
        "the straight line is deleted / moved away - a stale Router::contains entry would let the edge ignore S), "
        "buffer-endpoint-behind (same endpoint, other end behind S: fingerprints the clean-tree finding that the "
        "buffer-zone owner is exempted as a blocker), unblock-untouched (blocker that the route does not "
        "touch is deleted / moved away), unblock-one-side (a thin bar pokes into a big slab W - the only class with two "
        "overlapping shapes; the shortcut that opens when W is deleted / moved relatively / absolutely enters and leaves "
        "the vacated region through ONE side of W, each of the four sides in turn, W's polygon starting at each of its "
        "four vertices so that the closing side last->first varies; transactions on and off), unblock-touched (obstacle the route bends around deleted / moved away / "
        "moved and moved back / moved then deleted / deleted and re-added), block (obstacle moved onto a route), "
        "block-diagonal (obstacle moved so that a route runs through two opposite corners), txn-off-pending, "
        "rand-poly, rand-orth, rand-poly-off, rand-orth-off (random calls biased to shapes touched by routes or "
        "blocking a straight line; several moves of one shape per transaction, add+move, move+delete, re-add at the "
        "same place, endpoint moves, no-op transactions, toggling setTransactionUse); segmentPenalty in {0,10,50}; "
        "shapeBufferDistance 4 in a quarter of the rand-poly histories (random placement then keeps endpoints out of "
        "buffer zones and routing polygons disjoint). "
        "500 histories quick / 4000 thorough, each in a forked child (an abort inside libavoid is replayed last "
        "and reported as CRASH without losing the other histories). "
        "A case is non-trivial if >= 2 processing points were checked and some compared route has a bend.")
TRUSTED_BASE = ["Lean 4.33 kernel", "axioms: propext, Classical.choice, Quot.sound",
                "harness (generator legality is re-checked by the model's `legal`), hex-float import, line protocol",
                "Lean compiler for the driver (checkers run compiled)",
                "IEEE exactness of +,- on small integers (relative moves on the integer grid)"]
ASSUMPTIONS = ["shapes are rectangles, interior-disjoint, endpoints in free space (generator's responsibility)",
               "documented API preconditions hold (Model.ActionQueue.legal: unique non-zero ids, no add+delete or "
               "delete+move of one shape in one transaction, same vertex count on move)",
               "no connection pins / clusters / checkpoints / hyperedges / routing-option changes between transactions"]
EXPLANATION = ("obligations = theorems of Props/C06.lean; evaluations = histories; every history contributes one scene "
               "tie per API call and one route/cost/graph audit per processing point")


def regenerate(ROOT, REPO):
    """ActionInfo::operator< and the values of enum ActionType are regenerated from actioninfo.{h,cpp} by cpp2lean on
    every run and proved to be the order Model/ActionQueue sorts by (Props/C06Tie.lean)"""
    import sys
    from pathlib import Path
    sys.path.insert(0, str(Path(ROOT) / "tools" / "cpp2lean"))
    import jobs
    return jobs.regenerate(["comparators"], Path(ROOT), Path(REPO))


def plan(tier, seed, searching):
    return [dict(hargs=["--seed", str(seed), "--tier", tier, "--scale", "8" if searching else "1"], timeout=2400)]


def only_args(hargs, k):
    return hargs + ["--only", str(k)]
