#!/usr/bin/env python3-vt
import json, jsonschema, glob, sys
from pathlib import Path
R = Path(__file__).resolve().parent.parent
jsonschema.validate(json.load(open(R/'MANIFEST.json')), json.load(open('/root/.vp/MANIFEST.schema.json')))
for f in sorted(glob.glob(str(R/'evidence/*.json'))):
    jsonschema.validate(json.load(open(f)), json.load(open('/root/.vp/EVIDENCE.schema.json')))
    print('ok', f)
print('manifest valid')
