#!/usr/bin/env python3
"""Orchestrator for the adaptagrams Lean-4 verification checks.

usage: check.py <Cxx> [--tier quick|thorough] [--replay FILE] [--seed N]

Pipeline (DESIGN.md section 2.3):
  1. regenerate Gen/*.lean from /repo with tools/cpp2lean (properties that use it)
  2. lake build the property's theorem modules + the driver; audit axioms / sorry
  3. build the C++ harness from /repo's *current* sources (ASan+UBSan, hooks on)
  4. run harness -> case stream -> Lean driver -> verdicts
  5. decide: OK / KNOWN-FINDING / VIOLATION (with replay) ; search on a broken tie
  6. write evidence/<Cxx>.json
"""
import argparse, hashlib, importlib.util, json, os, re, subprocess, sys, time, shutil
from concurrent.futures import ThreadPoolExecutor
from pathlib import Path

ROOT = Path(__file__).resolve().parent.parent
REPO = Path(os.environ.get("VERIF_REPO", "/repo"))
COLA = REPO / "cola"
BUILD = ROOT / ".build"
LEAN = ROOT / "lean"
GUARD = "ADAPTAGRAMS_VERIF"
NCPU = os.cpu_count() or 4

CXX = "g++"
BASE_FLAGS = ["-std=gnu++11", "-O1", "-g1", "-fno-omit-frame-pointer",
              "-fsanitize=address,undefined", "-fno-sanitize-recover=all",
              "-D" + GUARD, "-I" + str(COLA), "-w"]
ACCEPTED_AXIOMS = {"propext", "Classical.choice", "Quot.sound"}
FORBIDDEN = re.compile(r"\b(sorry|admit|native_decide|bv_decide|implemented_by)\b|^\s*axiom\s|\bunsafe\s|maxHeartbeats\s+0\b")


def sh(cmd, **kw):
    return subprocess.run(cmd, stdout=subprocess.PIPE, stderr=subprocess.PIPE, text=True, **kw)


def sha(*parts):
    h = hashlib.sha256()
    for p in parts:
        h.update(p if isinstance(p, bytes) else str(p).encode())
        h.update(b"\0")
    return h.hexdigest()[:24]


# ----------------------------------------------------------------------------- C++ build

def header_hash():
    h = hashlib.sha256()
    for f in sorted(COLA.glob("lib*/*.h")):
        h.update(f.name.encode()); h.update(f.read_bytes())
    return h.hexdigest()


def compile_one(src, flags, hh):
    key = sha(src.read_bytes(), " ".join(flags), hh, src.name)
    obj = BUILD / "obj" / (src.stem + "-" + key + ".o")
    if obj.exists():
        return obj, None
    obj.parent.mkdir(parents=True, exist_ok=True)
    tmp = obj.with_suffix(".tmp%d.o" % os.getpid())
    r = sh([CXX] + flags + ["-c", str(src), "-o", str(tmp)])
    if r.returncode != 0:
        return None, "compile failed: %s\n%s" % (src, r.stderr[-4000:])
    os.replace(tmp, obj)
    return obj, None


def build_libs(libs, extra=()):
    """Compile every .cpp of the named cola libraries from the working tree. Cached by content."""
    flags = BASE_FLAGS + list(extra)
    hh = header_hash()
    srcs = []
    for lib in libs:
        srcs += sorted((COLA / lib).glob("*.cpp"))
    objs, errs = [], []
    with ThreadPoolExecutor(NCPU) as ex:
        for obj, err in ex.map(lambda s: compile_one(s, flags, hh), srcs):
            if err: errs.append(err)
            else: objs.append(obj)
    return objs, errs


def build_harness(name, src, objs, extra=()):
    flags = BASE_FLAGS + ["-I" + str(ROOT / "harness")] + list(extra)
    hh = header_hash()
    common = b"".join(p.read_bytes() for p in sorted((ROOT / "harness").glob("*.h")))
    key = sha(src.read_bytes(), common, " ".join(flags), hh, " ".join(o.name for o in objs))
    exe = BUILD / "bin" / ("%s-%s" % (name, key))
    if exe.exists():
        return exe, None
    exe.parent.mkdir(parents=True, exist_ok=True)
    tmp = Path(str(exe) + ".tmp%d" % os.getpid())
    r = sh([CXX] + flags + [str(src)] + [str(o) for o in objs] + ["-o", str(tmp)])
    if r.returncode != 0:
        return None, "harness build failed: %s\n%s" % (src, r.stderr[-4000:])
    os.replace(tmp, exe)
    return exe, None


def gc_build(max_gb=12.0):
    """Keep the object cache bounded: drop least-recently-used files beyond max_gb.
    Tolerates concurrent writers (files may vanish between listing and stat)."""
    ents = []
    for d in ("obj", "bin"):
        p = BUILD / d
        if not p.exists(): continue
        for f in p.iterdir():
            if ".tmp" in f.name: continue
            try:
                st = f.stat()
            except OSError:
                continue
            ents.append((st.st_atime, st.st_size, f))
    ents.sort(key=lambda e: e[0], reverse=True)
    tot = 0
    for _, size, f in ents:
        tot += size
        if tot > max_gb * (1 << 30):
            try: f.unlink()
            except OSError: pass


# ----------------------------------------------------------------------------- Lean build + audit

def lake_build(targets):
    r = sh(["lake", "build"] + targets, cwd=LEAN)
    return r.returncode == 0, (r.stdout + r.stderr)


def lean_sources_of(modules):
    """Transitive closure of project-local imports of the given modules (files under lean/)."""
    seen, todo = {}, list(modules)
    while todo:
        m = todo.pop()
        if m in seen: continue
        f = LEAN / (m.replace(".", "/") + ".lean")
        if not f.exists(): continue
        seen[m] = f
        for line in f.read_text().splitlines():
            mm = re.match(r"\s*(?:public\s+)?import\s+([A-Za-z0-9_.]+)", line)
            if mm and (mm.group(1).startswith("AdaptaVerif") or mm.group(1).startswith("Driver")):
                todo.append(mm.group(1))
    return seen


def strip_comments(text):
    text = re.sub(r"/-.*?-/", lambda m: "\n" * m.group(0).count("\n"), text, flags=re.S)
    return re.sub(r"--.*", "", text)


def grep_forbidden(files):
    hits = []
    for f in files:
        for i, line in enumerate(strip_comments(f.read_text()).splitlines(), 1):
            if FORBIDDEN.search(line):
                hits.append("%s:%d: %s" % (f.relative_to(ROOT), i, line.strip()))
    return hits


def theorems_in(module):
    """All `theorem` names declared in a Props module (fully qualified by enclosing namespaces)."""
    f = LEAN / (module.replace(".", "/") + ".lean")
    names, ns = [], []
    for line in strip_comments(f.read_text()).splitlines():
        m = re.match(r"\s*namespace\s+(\S+)", line)
        if m: ns.append(m.group(1)); continue
        m = re.match(r"\s*end\s+(\S+)", line)
        if m and ns and ns[-1] == m.group(1): ns.pop(); continue
        m = re.match(r"\s*(?:@\[[^\]]*\]\s*)?(?:private\s+|protected\s+)?theorem\s+(\S+)", line)
        if m:
            names.append(".".join(ns + [m.group(1)]))
    return names


def audit_axioms(prop, modules, theorems):
    """Run `#print axioms` on every theorem; returns (ok, {thm: [axioms]}, raw)."""
    d = BUILD / "audit"; d.mkdir(parents=True, exist_ok=True)
    f = d / ("Audit_%s.lean" % prop)
    f.write_text("".join("import %s\n" % m for m in modules) +
                 "".join("#print axioms %s\n" % t for t in theorems))
    r = sh(["lake", "env", "lean", str(f)], cwd=LEAN)
    out = r.stdout + r.stderr
    res, bad = {}, []
    for m in re.finditer(r"'([^']+)' (does not depend on any axioms|depends on axioms: \[([^\]]*)\])", out, re.S):
        axs = [a.strip() for a in (m.group(3) or "").replace("\n", " ").split(",") if a.strip()]
        res[m.group(1)] = axs
        for a in axs:
            if a not in ACCEPTED_AXIOMS: bad.append("%s uses %s" % (m.group(1), a))
    missing = [t for t in theorems if t not in res]
    if missing: bad.append("no axiom report for: " + ", ".join(missing[:8]))
    if r.returncode != 0: bad.append("audit file failed to elaborate: " + out[-1500:])
    return (not bad), res, bad


# ----------------------------------------------------------------------------- running

def parse_verdicts(text):
    verdicts, stats, samples = {}, {}, []
    for line in text.splitlines():
        t = line.split(" ", 3)
        if t[0] == "V" and len(t) >= 3:
            verdicts[int(t[1])] = (t[2], t[3] if len(t) > 3 else "")
        elif t[0] == "STAT" and len(t) >= 3:
            try: stats[t[1]] = stats.get(t[1], 0) + int(t[2])
            except ValueError: pass
        elif t[0] == "SAMPLE":
            samples.append(line[7:])
    return verdicts, stats, samples


def split_cases(text):
    """case index -> text block (CASE .. END). An unterminated last block is returned as `open`."""
    cases, cur, k = {}, None, None
    for line in text.splitlines():
        if line.startswith("CASE "):
            k = int(line.split()[1]); cur = [line]
        elif cur is not None:
            cur.append(line)
            if line == "END":
                cases[k] = "\n".join(cur); cur = None
    return cases, (k, "\n".join(cur)) if cur is not None else None


class Ctx:
    pass


def load_prop(pid):
    f = ROOT / "check" / "props" / (pid + ".py")
    spec = importlib.util.spec_from_file_location("prop_" + pid, f)
    mod = importlib.util.module_from_spec(spec); spec.loader.exec_module(mod)
    return mod


def known_findings(pid):
    f = ROOT / "known_findings.json"
    if not f.exists(): return []
    return [e for e in json.loads(f.read_text()).get("findings", [])
            if e.get("property") == pid and e.get("status") == "known"]


def match_known(kfs, tag, msg, case_text):
    for e in kfs:
        pat = e.get("match", {})
        ok = True
        if "tag" in pat and pat["tag"] != tag: ok = False
        if "msg_re" in pat and not re.search(pat["msg_re"], msg or ""): ok = False
        if "case_re" in pat and not re.search(pat["case_re"], case_text or "", re.S): ok = False
        if ok and pat: return e
    return None


def run_stream(exe, drv_mode, hargs, dargs, timeout, tagfile):
    """harness -> file -> driver. Returns dict with everything needed to decide."""
    env = dict(os.environ)
    env["ASAN_OPTIONS"] = "detect_leaks=1:abort_on_error=0:exitcode=97:allocator_may_return_null=1"
    env["UBSAN_OPTIONS"] = "print_stacktrace=1:halt_on_error=1:exitcode=98"
    env["LSAN_OPTIONS"] = "exitcode=96"
    t0 = time.time()
    with open(tagfile, "w") as out:
        try:
            hp = subprocess.run([str(exe)] + hargs, stdout=out, stderr=subprocess.PIPE, text=True,
                                env=env, timeout=timeout)
            hrc, herr = hp.returncode, hp.stderr
        except subprocess.TimeoutExpired as e:
            hrc, herr = -9, "harness timeout after %ss" % timeout
    th = time.time() - t0
    text = Path(tagfile).read_text(errors="replace")
    drv = LEAN / ".lake" / "build" / "bin" / ("driver_" + drv_mode)
    t1 = time.time()
    with open(tagfile) as inp:
        dp = subprocess.run([str(drv)] + dargs, stdin=inp, stdout=subprocess.PIPE,
                            stderr=subprocess.PIPE, text=True)
    td = time.time() - t1
    return dict(hrc=hrc, herr=herr, text=text, drc=dp.returncode, dout=dp.stdout, derr=dp.stderr,
                t_harness=th, t_driver=td)


def write_replay(pid, kind, payload):
    d = ROOT / "replays"; d.mkdir(exist_ok=True)
    name = "%s-%s-%s.json" % (pid, kind, sha(json.dumps(payload, sort_keys=True))[:10])
    p = d / name
    p.write_text(json.dumps(payload, indent=1))
    return p


def main():
    ap = argparse.ArgumentParser()
    ap.add_argument("prop")
    ap.add_argument("--tier", default=os.environ.get("VERIF_TIER", "quick"))
    ap.add_argument("--seed", type=int, default=int(os.environ.get("VERIF_SEED", "1")))
    ap.add_argument("--replay")
    ap.add_argument("--no-lean", action="store_true", help="(debug) skip the Lean build/audit")
    a = ap.parse_args()
    pid, tier, seed = a.prop, a.tier, a.seed
    if tier not in ("quick", "thorough"): tier = "quick"
    P = load_prop(pid)
    t0 = time.time()
    BUILD.mkdir(exist_ok=True)
    (BUILD / "run").mkdir(exist_ok=True)
    kfs = known_findings(pid)
    notes, broken = [], []          # broken: list of (kind, name, detail) - ties/proofs that no longer check
    violations = []                 # (kind, k, msg, case_text, hargs)
    known_hits = []

    # 1. regenerate Gen
    gen_info = {}
    if hasattr(P, "regenerate"):
        try:
            gen_info = P.regenerate(ROOT, REPO) or {}
        except Exception as e:      # translator failure = broken tie
            broken.append(("translator", "cpp2lean", str(e)[-1500:]))

    # 2. prove + audit
    modules = list(getattr(P, "LEAN_MODULES", []))
    thms, axioms = [], {}
    if not a.no_lean:
        drvt = "driver_" + P.DRIVER_MODE
        ok, out = lake_build(modules + [drvt])
        if not ok:
            # which module failed?
            failed = re.findall(r"error: .*?([A-Za-z0-9_/.]+\.lean):(\d+):\d+: (.*)", out)
            broken.append(("proof", "lake build " + " ".join(modules),
                           "\n".join("%s:%s %s" % f for f in failed[:10]) or out[-2000:]))
            okd, outd = lake_build([drvt])
            if not okd:
                print(outd[-3000:], file=sys.stderr)
        else:
            files = list(lean_sources_of(modules).values())
            hits = grep_forbidden(files)
            if hits: broken.append(("audit", "forbidden construct", "\n".join(hits[:10])))
            for m in getattr(P, "THEOREM_MODULES", modules):
                thms += theorems_in(m)
            okA, axioms, bad = audit_axioms(pid, modules, thms)
            if not okA: broken.append(("audit", "axioms", "\n".join(bad[:10])))
            if tier == "thorough" and getattr(P, "LEANCHECKER", True):
                for m in getattr(P, "THEOREM_MODULES", modules):
                    r = sh(["lake", "env", "leanchecker", m], cwd=LEAN)
                    if r.returncode != 0:
                        broken.append(("audit", "leanchecker " + m, (r.stdout + r.stderr)[-1500:]))
                    else:
                        notes.append("leanchecker ok: " + m)

    # 3. build harness from the working tree
    exe = None
    objs, errs = build_libs(getattr(P, "LIBS", []), getattr(P, "EXTRA_FLAGS", ()))
    if errs:
        broken.append(("build", "library build", errs[0]))
    else:
        exe, err = build_harness(pid.lower(), ROOT / P.HARNESS, objs, getattr(P, "EXTRA_FLAGS", ()))
        if err: broken.append(("build", "harness build", err))

    # 4. correspond + validate
    searching = bool(broken)
    runs = []
    stats, samples, verdict_count = {}, [], {}
    ncases = 0
    nontrivial = 0
    if exe is not None:
        if a.replay:
            rp = json.loads(Path(a.replay).read_text())
            plan = [dict(hargs=rp["harness_args"], dargs=rp.get("driver_args", []), label="replay")]
        else:
            plan = P.plan(tier, seed, searching)
        for i, step in enumerate(plan):
            tagfile = BUILD / "run" / ("%s-%s-%d-%d-%d.cases" % (pid, tier, seed, i, os.getpid()))
            r = run_stream(exe, P.DRIVER_MODE, step["hargs"], step.get("dargs", []),
                           step.get("timeout", 3000), tagfile)
            cases, open_case = split_cases(r["text"])
            v, st, sm = parse_verdicts(r["dout"])
            for k2, val in st.items(): stats[k2] = stats.get(k2, 0) + val
            samples += sm
            ncases += len(cases)
            for k, (verd, msg) in sorted(v.items()):
                verdict_count[verd] = verdict_count.get(verd, 0) + 1
                if verd in ("SPECFAIL", "DIVERGE"):
                    violations.append((verd, k, msg, cases.get(k, ""), step["hargs"], step.get("dargs", [])))
            missing = [k for k in cases if k not in v]
            if r["drc"] != 0 or missing:
                broken.append(("driver", "driver run", "rc=%s missing=%s\n%s" % (r["drc"], missing[:5], r["derr"][-1500:])))
            if r["hrc"] != 0:
                k, txt = open_case if open_case else (-1, "CASE -1 %s (no case open; harness step '%s')" % (step.get("label", ""), step.get("label", "")))
                msg = "harness exit %s: %s" % (r["hrc"], sanitizer_summary(r["herr"]))
                violations.append(("CRASH", k, msg, txt + "\n--- stderr ---\n" + r["herr"][-6000:], step["hargs"], step.get("dargs", [])))
            runs.append(dict(label=step.get("label", str(i)), cases=len(cases), t_harness=round(r["t_harness"], 2),
                             t_driver=round(r["t_driver"], 2)))
            try: os.unlink(tagfile)
            except OSError: pass
    gc_build()

    # 5. decide
    rc = 0
    real = []
    for verd, k, msg, ctext, hargs, dargs in violations:
        tag = ""
        m = re.match(r"CASE -?\d+ (\S+)", ctext or "")
        if m: tag = m.group(1)
        e = match_known(kfs, tag, msg, ctext)
        if e is not None:
            known_hits.append((e, verd, k, msg))
        else:
            real.append((verd, k, msg, ctext, hargs, dargs, tag))
    seen_known = set()
    for e, verd, k, msg in known_hits:
        if e["id"] in seen_known: continue
        seen_known.add(e["id"])
        print("KNOWN-FINDING: property=%s %s" % (pid, e["what"]))
    # a DIVERGE alone is a broken correspondence; SPECFAIL / CRASH are concrete failing inputs
    concrete = [r for r in real if r[0] in ("SPECFAIL", "CRASH")]
    diverge = [r for r in real if r[0] == "DIVERGE"]
    out_lines = []
    if concrete:
        concrete.sort(key=lambda r: len(r[3]))
        verd, k, msg, ctext, hargs, dargs, tag = concrete[0]
        only = P.only_args(hargs, k) if hasattr(P, "only_args") else hargs
        p = write_replay(pid, verd.lower(), dict(property=pid, kind=verd, case_index=k, message=msg, tag=tag,
                                                 harness_args=only, driver_args=dargs, case=ctext,
                                                 broken=[b[:2] for b in broken], tier=tier, seed=seed,
                                                 others=[(r[0], r[1], r[2][:200]) for r in concrete[1:20]]))
        out_lines.append("VIOLATION property=%s replay=%s" % (pid, p))
        rc = 1
    elif diverge or broken:
        what = []
        for b in broken: what.append(dict(kind=b[0], name=b[1], detail=b[2]))
        ex = None
        if diverge:
            diverge.sort(key=lambda r: len(r[3]))
            verd, k, msg, ctext, hargs, dargs, tag = diverge[0]
            only = P.only_args(hargs, k) if hasattr(P, "only_args") else hargs
            ex = dict(case_index=k, message=msg, tag=tag, harness_args=only, driver_args=dargs, case=ctext)
            what.append(dict(kind="correspondence", name="model vs implementation: " + msg[:200], detail=""))
        p = write_replay(pid, "broken", dict(property=pid, kind="BROKEN-TIE", no_longer_checks=what,
                                             diverging_case=ex, harness_args=(ex or {}).get("harness_args"),
                                             driver_args=(ex or {}).get("driver_args", []),
                                             tier=tier, seed=seed,
                                             note="no input violating the property itself was found; "
                                                  "the listed theorem/correspondence no longer checks"))
        out_lines.append("VIOLATION property=%s replay=%s no-failing-input-found" % (pid, p))
        rc = 1

    # 6. evidence
    level = P.LEVEL
    cov = dict(
        evaluations=ncases,
        distinct_nontrivial=stats.get("nontrivial", 0),
        rule=getattr(P, "RULE", ""),
        samples=([x[:400] for x in samples[:6]] if samples else ["(no sample)"]),
        obligations=len(thms), discharged=(len(axioms) if not [b for b in broken if b[0] in ("proof", "audit")] else 0),
        theorems=thms,
        axioms_used=sorted({a for v in axioms.values() for a in v}),
        checker_cmd="cd lean && lake build %s && lake env lean .build/audit/Audit_%s.lean (#print axioms)" % (" ".join(modules), pid),
        trusted_base=getattr(P, "TRUSTED_BASE", []),
        programs=ncases, disagreements_checked=ncases,
        traces_validated_against_impl=ncases,
        explanation=(getattr(P, "EXPLANATION", "") or getattr(P, "LEVEL_TEXT", "") or "see MANIFEST level_claimed.text"),
        verdicts=verdict_count, stats=stats, runs=runs, generated=gen_info, notes=notes,
        known_findings_hit=[e["id"] for e, *_ in known_hits],
        broken=[dict(kind=b[0], name=b[1]) for b in broken],
        exhaustive=bool(getattr(P, "EXHAUSTIVE", {}).get(tier, False)),
    )
    ev = dict(property_id=pid, tier=tier, seed=seed, level=level, coverage=cov,
              assumptions=getattr(P, "ASSUMPTIONS", []), wall_s=round(time.time() - t0, 2),
              violations=(1 if rc else 0))
    if cov["obligations"] < 1 or cov["discharged"] < 1:
        cov["proof_state"] = "obligations=%d discharged=%d (proof build/audit broken or skipped)" % (cov.pop("obligations"), cov.pop("discharged"))
    if not a.replay and not a.no_lean:
        (ROOT / "evidence").mkdir(exist_ok=True)
        (ROOT / "evidence" / (pid + ".json")).write_text(json.dumps(ev, indent=1))
    for l in out_lines: print(l)
    for b in broken:
        print("BROKEN %s: %s\n%s" % (b[0], b[1], b[2][:1500]), file=sys.stderr)
    print("%s tier=%s seed=%d cases=%d verdicts=%s theorems=%d wall=%.1fs rc=%d" %
          (pid, tier, seed, ncases, verdict_count, len(thms), time.time() - t0, rc))
    sys.exit(rc)


def sanitizer_summary(err):
    m = re.search(r"(runtime error: .*|ERROR: AddressSanitizer: .*|ERROR: LeakSanitizer: .*|Assertion.*failed.*|ASSERTION FAILURE.*|terminate called.*)", err)
    return m.group(1)[:300] if m else err.strip().splitlines()[-1][:300] if err.strip() else "(no stderr)"


if __name__ == "__main__":
    main()
