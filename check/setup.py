#!/usr/bin/env python3
"""One-time setup after a fresh restore (offline): build the Lean library, the driver, and
pre-compile the sanitizer objects of the five cola libraries + all harnesses into .build/."""
import sys, importlib.util, time
from pathlib import Path
sys.path.insert(0, str(Path(__file__).resolve().parent))
import check as C
t0 = time.time()
mods, libs, props = [], [], []
for f in sorted((C.ROOT / "check" / "props").glob("C*.py")):
    P = C.load_prop(f.stem)
    if getattr(P, "NOT_APPLICABLE", None) or getattr(P, "WIP", False): continue
    props.append((f.stem, P))
    if hasattr(P, "regenerate"):
        try: P.regenerate(C.ROOT, C.REPO)
        except Exception as e: print("regenerate failed for", f.stem, e)
    for m in getattr(P, "LEAN_MODULES", []):
        if m not in mods: mods.append(m)
drivers = sorted({"driver_" + P.DRIVER_MODE for _, P in props})
ok, out = C.lake_build(mods + drivers)
print(out[-3000:] if not ok else "lean build ok (%d modules) %.0fs" % (len(mods), time.time() - t0))
rc = 0 if ok else 1
for pid, P in props:
    objs, errs = C.build_libs(getattr(P, "LIBS", []), getattr(P, "EXTRA_FLAGS", ()))
    if errs: print(errs[0]); rc = 1; continue
    exe, err = C.build_harness(pid.lower(), C.ROOT / P.HARNESS, objs, getattr(P, "EXTRA_FLAGS", ()))
    if err: print(err); rc = 1
    print("built harness", pid, "%.0fs" % (time.time() - t0))
sys.exit(rc)
