"""cpp2lean job: the eight CompoundConstraint::generateSeparationConstraints methods of cola/libcola/compound_constraints.cpp
(iterator loops over _subConstraintInfo, `cs.push_back(new vpsc::Constraint(l, r, gap, equality))`, `continue`, `throw`).
Key records: lean/AdaptaVerif/Gen/KeysCompound.lean.  Not modelled (explicitly skipped below): `constraint->creator = this`
(the creator index is attached by the model's dispatcher) and the constraints' own bookkeeping list `this->cs` of
MultiSeparation/Distribution."""
_SRC = "cola/libcola/compound_constraints.cpp"
_G = "generateSeparationConstraints"
_COMMON = dict(
    src=_SRC,
    qual_types={"Variables": ("IdArray", "val"), "Constraints": ("List Sep", "state"), "Rectangles": ("Unit", "val")},
    ctors={"Constraint": ("Sep", [("left", "Nat", None), ("right", "Nat", None), ("gap", "Rat", None), ("eq", "Bool", "false")])},
    skip_member_writes=["creator"],
    assert_calls={"assertValidVariableIndex": "decide ({1} < {0})"},
    enum_ctors={"Dim": ["Dim.x", "Dim.y"]},
)

def _part(cls, lean, this_struct, elem=None, **kw):
    d = dict(_COMMON)
    types = {"Dim": "Dim", "Variable": "Nat", "Constraint": "Sep"}
    ptr_vals = []
    if elem:
        types[elem[0]] = elem[1]; types["SubConstraintInfo"] = elem[1]; ptr_vals = [elem[0], "SubConstraintInfo"]
    d.update(functions=[_G], filters={_G: cls + "::" + _G}, lean_names={_G: lean}, this_struct=("self", this_struct[0], this_struct[1]),
             types=types, ptr_vals=ptr_vals, opt_ptrs=["Variable", "Constraint"])
    for k, v in kw.items():
        if isinstance(v, dict) and isinstance(d.get(k), dict): d[k] = dict(d[k], **v)
        else: d[k] = v
    return d

_OFFS = {"_primaryDim": ("primaryDim", "Dim"), "variable": ("var", "Option Nat"), "_subConstraintInfo": ("offs", "List (Nat × Rat)")}
_OFFF = {("Nat × Rat", "varIndex"): ("1", "Nat"), ("Nat × Rat", "distOffset"): ("2", "Rat")}
_MULTI = {"_primaryDim": ("primaryDim", "Dim"), "_subConstraintInfo": ("pairs", "List (AlignK × AlignK)"), "sep": ("sep", "Rat"),
          "equality": ("equality", "Bool")}
_MULTIF = {("AlignK × AlignK", "alignment1"): ("1", "AlignK"), ("AlignK × AlignK", "alignment2"): ("2", "AlignK"),
           ("AlignK", "variable"): ("var", "Option Nat")}

COMPOUND = dict(
    ns="AdaptaVerif.Gen.CompoundK",
    out="lean/AdaptaVerif/Gen/CompoundK.lean",
    src_label=_SRC,
    imports=["AdaptaVerif.Gen.PreludeLoops", "AdaptaVerif.Gen.KeysCompound"],
    opens=["AdaptaVerif.Model.Compound (Dim Sep RelOff)", "AdaptaVerif.Gen.KeysCompound"],
    parts=[
        _part("BoundaryConstraint", "boundaryGen", ("OffsetCC", _OFFS), ("Offset", "Nat × Rat"), fields=_OFFF),
        _part("AlignmentConstraint", "alignmentGen", ("OffsetCC", _OFFS), ("Offset", "Nat × Rat"), fields=_OFFF),
        # VarIndexPair::indexL / indexR (inline, in the .cpp): the alignment's guideline variable id if the pair refers to alignments
        dict(src=_SRC, functions=["indexL", "indexR"], filters={"indexL": "VarIndexPair::indexL", "indexR": "VarIndexPair::indexR"},
             types={"AlignmentConstraint": "AlignK", "Variable": "Nat"}, opt_ptrs=["AlignmentConstraint", "Variable"],
             this_struct=("self", "VarIndexPairK", {"lConstraint": ("lConstraint", "Option AlignK"), "rConstraint": ("rConstraint", "Option AlignK"),
                                                    "varIndex": ("varIndex", "Nat"), "varIndex2": ("varIndex2", "Nat")}),
             fields={("AlignK", "variable"): ("var", "Option Nat"), ("Nat", "id"): (None, "Nat")}),
        _part("SeparationConstraint", "separationGen",
              ("SepCC", {"_primaryDim": ("primaryDim", "Dim"), "_subConstraintInfo": ("info", "List VarIndexPairK"), "gap": ("gap", "Rat"),
                         "equality": ("equality", "Bool")}),
              ("VarIndexPair", "VarIndexPairK"), member_locals={"vpscConstraint": "Option Sep"}),
        _part("OrthogonalEdgeConstraint", "orthogonalGen",
              ("OrthCC", {"_primaryDim": ("primaryDim", "Dim"), "left": ("left", "Nat"), "right": ("right", "Nat")}),
              member_locals={"vpscConstraint": "Option Sep"}),
        _part("MultiSeparationConstraint", "multiSepGen", ("MultiCC", _MULTI), ("AlignmentPair", "AlignK × AlignK"), fields=_MULTIF,
              types={"AlignmentConstraint": "AlignK"}, ptr_vals=["AlignmentPair", "SubConstraintInfo", "AlignmentConstraint"], skip_member_calls=["cs"]),
        _part("DistributionConstraint", "distributionGen", ("MultiCC", _MULTI), ("AlignmentPair", "AlignK × AlignK"), fields=_MULTIF,
              types={"AlignmentConstraint": "AlignK"}, ptr_vals=["AlignmentPair", "SubConstraintInfo", "AlignmentConstraint"], skip_member_calls=["cs"]),
        _part("FixedRelativeConstraint", "fixedRelGen", ("FixedRelCC", {"_subConstraintInfo": ("rel", "List RelOff")}), ("RelativeOffset", "RelOff"),
              fields={("RelOff", "varIndex"): ("first", "Nat"), ("RelOff", "varIndex2"): ("second", "Nat"), ("RelOff", "dim"): "Dim",
                      ("RelOff", "distOffset"): ("off", "Rat")}),
        _part("PageBoundaryConstraints", "pageBoundaryGen",
              ("PageCC", {"vl": ("vl", "Dim → Option Nat"), "vr": ("vr", "Dim → Option Nat"), "_subConstraintInfo": ("shapes", "List PageShapeK")}),
              ("PageBoundaryShapeOffsets", "PageShapeK"),
              fields={("PageShapeK", "varIndex"): "Nat", ("PageShapeK", "halfDim"): "Dim → Rat"}),
    ],
)

JOBS = {"compound": COMPOUND}
