"""cpp2lean job: dialect::SepPair::generateSeparationConstraint (cola/libdialect/constraints.cpp) — the translation of one
SepPair into a vpsc::Constraint.  `this` = the model's SepPair record; the members' `double`s are signed zeros (SZ: the sign
BIT of the gap selects left/right); the local `gap`, which ends as the constraint's gap, is a plain Rat (`sz_to_rat`: the sign
of a zero gap is irrelevant from there on).  What the function reads of its other arguments are explicit function parameters:
`cgr.id2ix.at(id)` = `id2ix id`, `cgr.rs[i]->width()/height()` = `rsW i` / `rsH i`, `m->getExtraBdryGap()` = `extra`;
`vs[i]` = `i` (IdArray).  `c->creator = m` is not modelled."""
_SD = ["east", "south", "west", "north", "right", "down", "left", "up"]
_ENUMS = {"CENTRE": ("GapType.centre", "GapType"), "BDRY": ("GapType.bdry", "GapType"),
          "NONE": ("SepType.none", "SepType"), "EQ": ("SepType.eq", "SepType"), "INEQ": ("SepType.ineq", "SepType"),
          "XDIM": ("Dim.x", "Dim"), "YDIM": ("Dim.y", "Dim")}
_G = "generateSeparationConstraint"
SEPGEN = dict(
    src="cola/libdialect/constraints.cpp",
    ns="AdaptaVerif.Gen.SepGenK",
    out="lean/AdaptaVerif/Gen/SepGenK.lean",
    imports=["AdaptaVerif.Gen.PreludeLoops", "AdaptaVerif.Model.Sep"],
    opens=["AdaptaVerif.Model.Sep (SepType GapType Dim SepPair VCon)", "AdaptaVerif.Num (SZ)"],
    functions=[_G], filters={_G: "SepPair::" + _G},
    types={"SepType": "SepType", "GapType": "GapType", "Dim": "Dim", "double": "SZ", "Constraint": "VCon", "id_type": "Nat"},
    opt_ptrs=["Constraint"],
    qual_types={"ColaGraphRep": ("Unit", "val"), "SepMatrix *": ("Unit", "val"), "Variables": ("IdArray", "val")},
    enums=_ENUMS,
    this_struct=("self", "SepPair", {"xst": ("xst", "SepType"), "yst": ("yst", "SepType"), "xgt": ("xgt", "GapType"),
                                     "ygt": ("ygt", "GapType"), "xgap": ("xgap", "SZ"), "ygap": ("ygap", "SZ"),
                                     "src": ("src", "Nat"), "tgt": ("tgt", "Nat")}),
    var_types={"gap": "Rat"}, sz_to_rat=True,
    fun_paths={"cgr.id2ix.at()": ("id2ix", ["Nat"], "Nat"), "cgr.rs[].width()": ("rsW", ["Nat"], "Rat"),
               "cgr.rs[].height()": ("rsH", ["Nat"], "Rat"), "m.getExtraBdryGap()": ("extra", [], "Rat")},
    extra_params={_G: [("id2ix", "Nat → Nat"), ("rsW", "Nat → Rat"), ("rsH", "Nat → Rat"), ("extra", "Rat")]},
    ctors={"Constraint": ("VCon", [("left", "Nat", None), ("right", "Nat", None), ("gap", "Rat", None), ("equality", "Bool", "false")])},
    skip_member_writes=["creator"],
)
JOBS = {"sepgen": SEPGEN}
