"""cpp2lean jobs for the A* search of libavoid (makepath.cpp, graph.cpp): the comparator of the open list,
the vector helpers of cost()'s bend classification, and the turn order by which the search sorts a vertex's
edges.  Output: lean/AdaptaVerif/Gen/AStarK.lean, bridged to Model/AStar.lean in Props/C05AStar.lean."""

ASTAR = dict(
    ns="AdaptaVerif.Gen.AStarK",
    out="lean/AdaptaVerif/Gen/AStarK.lean",
    imports=["AdaptaVerif.Model.AStar"],
    opens=["AdaptaVerif.Model.AStar (ANodeK)"],
    parts=[
        # ANodeCmp::operator()(const ANode *a, const ANode *b): reads a->f, a->timeStamp, b->f, b->timeStamp
        dict(src="cola/libavoid/makepath.cpp", functions=["operator()"], filters={"operator()": "ANodeCmp::operator()"},
             lean_names={"operator()": "aNodeCmp"}, types={"ANode": "ANodeK"}, ptr_vals=["ANode"],
             paths={"a.f": ("a.f", "Rat"), "a.timeStamp": ("a.ts", "Int"), "b.f": ("b.f", "Rat"), "b.timeStamp": ("b.ts", "Int")}),
        dict(src="cola/libavoid/makepath.cpp", functions=["Dot", "CrossLength"]),
        dict(src="cola/libavoid/geometry.cpp", functions=["vecDir"]),
        dict(src="cola/libavoid/graph.cpp", functions=["orthogTurnOrder"]),
    ],
)

JOBS = {"astar": ASTAR}
