"""cpp2lean job for C10: scalar kernels of NudgingShiftSegment (cola/libavoid/orthogonal.cpp).
`this` (and the `rhs` segment) = the record Model/NudgeKeys.SegK; Point = a two-element list, so p[dim] is list indexing."""

_N = "NudgingShiftSegment::"
_SEG = {"minSpaceLimit": ("minSpaceLimit", "Rat"), "maxSpaceLimit": ("maxSpaceLimit", "Rat"), "dimension": ("dimension", "Nat"),
        "fixed": ("fixed", "Bool"), "finalSegment": ("finalSegment", "Bool"), "endsInShape": ("endsInShape", "Bool"),
        "singleConnectedSegment": ("singleConnectedSegment", "Bool"), "sBend": ("sBend", "Bool"), "zBend": ("zBend", "Bool"),
        "checkpoints": ("checkpoints", "List PtL"), "connRef": ("conn", "Nat"), "variable": ("var_", "Option VarK")}
_PATHS = {
    "this.connRef.displayRoute().ps": ("self.ps", "List PtL"),
    "this.indexes.front()": ("self.lowIdx", "Nat"),
    "this.indexes.back()": ("self.highIdx", "Nat"),
    "this.connRef.router().routingParameter(idealNudgingDistance)": ("self.nudgeDist", "Rat"),
    "this.connRef.router().routingParameter(fixedSharedPathPenalty)": ("self.fsp", "Rat"),
    "this.connRef.router().routingOption(nudgeOrthogonalTouchingColinearSegments)": ("self.nudgeColinear", "Bool"),
    "this.connRef.router().routingOption(nudgeOrthogonalSegmentsConnectedToShapes)": ("self.nudgeFinal", "Bool"),
}
_FNS1 = ["lowPoint", "highPoint", "nudgeDistance", "zigzag", "immovable", "lowC", "highC", "order", "hasCheckpointAtPosition",
         "overlapsWith", "canAlignWith", "shouldAlignWith", "createSolverVariable"]

NUDGEK = dict(
    ns="AdaptaVerif.Gen.NudgeK",
    out="lean/AdaptaVerif/Gen/NudgeK.lean",
    imports=["AdaptaVerif.Model.NudgeKeys"],
    opens=["AdaptaVerif.Model.NudgeKeys"],
    types={"NudgingShiftSegment": "SegK", "ShiftSegment": "SegK", "Point": "PtL", "Variable": "VarK"},
    type_alias={"PtL": "List Rat"},
    ptr_vals=["NudgingShiftSegment", "ShiftSegment"],
    fields={("SegK", k): v for k, v in _SEG.items()},
    this_struct=("self", "SegK", _SEG),
    paths=_PATHS,
    # the ids / weights / CHANNEL_MAX are read from the sources on every run and emitted as k_<name>
    auto_constants={"freeSegmentID": "Int", "fixedSegmentID": "Int", "channelLeftID": "Int", "channelRightID": "Int",
                    "freeWeight": "Rat", "strongWeight": "Rat", "strongerWeight": "Rat", "fixedWeight": "Rat", "CHANNEL_MAX": "Rat"},
    emit_constants=True,
    ctors={"Variable": ("VarK", [("id", "Int", None), ("desiredPosition", "Rat", None), ("weight", "Rat", None), ("scale", "Rat", "1")])},
    parts=[
        dict(src="cola/libavoid/orthogonal.cpp", functions=_FNS1, filters={f: _N + f for f in _FNS1}),
        # fixedOrder(bool& isFixed): the reference parameter is read AND written (in/out)
        dict(src="cola/libavoid/orthogonal.cpp", functions=["fixedOrder"], filters={"fixedOrder": _N + "fixedOrder"},
             qual_types={"bool": ("Bool", "state")}, emit_constants=False),
    ],
)

JOBS = {"nudgek": NUDGEK}
