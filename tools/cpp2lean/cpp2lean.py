#!/usr/bin/env python3
"""cpp2lean: translate small C++ kernels of adaptagrams into pure Lean 4 definitions.

Input : a job = (source file, list of function names, type map, target Lean namespace)
Output: one Lean file with, per function f,
          def f      : the value computed (asserts skipped)
          def f_pre  : Bool — every COLA_ASSERT / assert reached on the executed path holds
                       (including those of callees, with short-circuit semantics of && and ||)
Anything outside the supported subset raises Unsupported (a *hard error*, never a silent default).

Supported: locals (double/int/bool/Point) with reassignment (SSA renaming), if/else with early
return, tuple-merge of branch-assigned variables, ?:, arithmetic/comparison/logical operators,
compound assignment, calls to other whitelisted functions (default arguments resolved from the
callee's declaration), Point member reads, Point ==/!=, fabs/min/max, numeric_limits<double>::epsilon(),
out-parameters through `double *` (returned as extra tuple components), member functions whose
member reads are mapped to explicit parameters (see `members` in the job).
"""
import json, subprocess, sys, re
from concurrent.futures import ThreadPoolExecutor


class Unsupported(Exception):
    pass


def clang_ast(src, fn, incl, std="gnu++11", shim=None):
    """shim: text of a translation unit fed on stdin instead of `src` (it #includes the header that holds a
    template and instantiates it explicitly, so that the dump contains the typed instantiation)"""
    cmd = ["clang++-14", "-std=" + std, "-I" + incl, "-fsyntax-only", "-Xclang", "-ast-dump=json",
           "-Xclang", "-ast-dump-filter=" + fn] + (["-x", "c++", "-"] if shim else [src])
    r = subprocess.run(cmd, input=shim, stdout=subprocess.PIPE, stderr=subprocess.PIPE, text=True)
    if shim and r.returncode != 0:
        raise Unsupported("clang failed on the shim for %s: %s" % (src, r.stderr[-800:]))
    if r.returncode != 0 and not r.stdout.strip():
        raise Unsupported("clang failed on %s: %s" % (src, r.stderr[-800:]))
    dec, s, i, docs = json.JSONDecoder(), r.stdout, 0, []
    while True:
        while i < len(s) and s[i].isspace(): i += 1
        if i >= len(s): break
        d, i = dec.raw_decode(s, i)
        docs.append(d)
    return docs


def find_def(docs, name, cls=None, sig=None):
    """FunctionDecl / CXXMethodDecl named `name` that has a body."""
    found = []
    def walk(n, parents):
        if n.get("kind") in ("FunctionDecl", "CXXMethodDecl") and n.get("name") == name:
            if any(c.get("kind") == "CompoundStmt" for c in n.get("inner", [])):
                found.append(n)
        for c in n.get("inner", []):
            if isinstance(c, dict): walk(c, parents + [n])
    for d in docs: walk(d, [])
    if not found:
        raise Unsupported("no definition of %s found" % name)
    if sig is not None:
        found = [n for n in found if sig in n.get("type", {}).get("qualType", "")]
        if not found: raise Unsupported("no definition of %s with %r in its signature" % (name, sig))
    inst = [n for n in found if any(c.get("kind") == "TemplateArgument" for c in n.get("inner", []))]
    if inst: return inst[0]            # explicit instantiation of a template (typed), not the dependent pattern
    return found[0]


LEAN_KEYWORDS = {"at", "from", "end", "fun", "have", "show", "then", "else", "if", "let", "in", "do", "by",
                 "open", "local", "prefix", "infix", "where", "with", "match", "for", "def", "e", "f", "d", "x", "y"}


class FnTrans:
    def __init__(self, job, decl, known):
        self.job, self.decl, self.known = job, decl, known
        self.name = job.get("lean_names", {}).get(decl["name"], decl["name"])
        self.tmap = job.get("types", {})
        self.paths = job.get("paths", {})       # access path text (e.g. "rhs.conn().id()") -> (lean text, lean type)
        self.counter = {}
        self.helpers = []        # (text) loop helper definitions emitted before the function
        self.nloops = 0
        self._loopctx = None     # inside a loop body: dict(carried=[c names], ret_type=...)
        self.members = dict(job.get("members_all", {}))            # member name -> (lean name, lean type)
        self.members.update(job.get("members", {}).get(self.name, {}))
        self.this_params = list(job.get("this_params", []))        # [(lean name, lean type)] appended to every signature
        self.params = []        # (cname, leanname, leantype, kind) kind in val|out
        self.defaults = []
        self.alias = {}
        body_ = [c for c in decl.get("inner", []) if c.get("kind") == "CompoundStmt"]
        assigned_ = self.assigned_vars(body_[0], set()) if body_ else set()
        for p in decl.get("inner", []):
            if p.get("kind") != "ParmVarDecl": continue
            qt = p["type"]["qualType"]
            lt, kind = self.lean_type(qt, param=True)
            if kind == "val" and qt.rstrip().endswith("&") and not qt.lstrip().startswith("const ") and p.get("name") in assigned_:
                kind = "state"          # T& written by the function: returned as an extra result
            self.params.append((p["name"], self.fresh(p["name"]), lt, kind))
            dflt = [c for c in p.get("inner", []) if "Literal" in c.get("kind", "") or c.get("kind", "").endswith("Expr") or c.get("kind") == "UnaryOperator"]
            self.defaults.append(dflt[0] if dflt else None)
        self.frag_stmt = None
        fr_ = job.get("fragment", {}).get(decl["name"])
        if fr_ is not None:
            # translate ONE statement of the function (e.g. an inner loop) as a function of its free variables
            def find_all(n, kind, acc):
                if n.get("kind") == kind: acc.append(n)
                for c in n.get("inner", []):
                    if isinstance(c, dict): find_all(c, kind, acc)
                return acc
            scope = body_[0]
            if fr_.get("within"):
                outer = find_all(scope, fr_["within"], [])
                if not outer: raise Unsupported("%s: no %s in the function" % (self.name, fr_["within"]))
                scope = outer[0]
                cands = [x for c in scope.get("inner", []) if isinstance(c, dict) for x in find_all(c, fr_["kind"], [])]
            else:
                cands = find_all(scope, fr_["kind"], [])
            if len(cands) <= fr_.get("nth", 0): raise Unsupported("%s: fragment %r not found" % (self.name, fr_))
            st_ = cands[fr_.get("nth", 0)]
            self.frag_stmt = st_
            inside = {d_["name"] for d_ in find_all(st_, "VarDecl", [])}
            assigned_f = self.assigned_vars(st_, set())
            free = (self.vars_read(st_) | assigned_f) - inside
            newp, newd = [], []
            for (pc, pl, pt, pk), df in zip(self.params, self.defaults):
                if pc in free:
                    newp.append((pc, pl, pt, "state" if (pc in assigned_f and pk != "out") else pk)); newd.append(df)
            have = {p_[0] for p_ in newp}
            for d_ in find_all(body_[0], "VarDecl", []):
                if d_["name"] in free and d_["name"] not in have:
                    lt_, _k = self.lean_type(d_["type"]["qualType"], param=True)
                    newp.append((d_["name"], self.fresh(d_["name"]), lt_, "state" if d_["name"] in assigned_f else "val")); newd.append(None)
                    have.add(d_["name"])
            missing = free - have
            if missing: raise Unsupported("%s: free variables %s of the fragment have no declaration" % (self.name, sorted(missing)))
            self.params, self.defaults = newp, newd
        self.state = list(job.get("state_members", {}).get(self.name, []))   # [(member, lean name, lean type)] read AND written
        for (mn, ln, lt) in self.state:
            self.counter[mn] = max(self.counter.get(mn, 0), 1)      # later assignments get fresh names (no shadowing)
            self.params.append((mn, ln, lt, "state"))
            self.defaults.append(None)
        # `this` as ONE struct-typed value (job["this_struct"] = (lean name, lean struct type, {C++ member: (lean field, type)})):
        # member writes become struct updates, method calls receive the CURRENT value, a mutating method returns it
        self.tstruct = job.get("this_struct")
        if self.tstruct and decl.get("kind") == "CXXMethodDecl":
            body0 = [c for c in decl["inner"] if c.get("kind") == "CompoundStmt"][0]
            is_const = decl["type"]["qualType"].rstrip().endswith("const")
            mutates = (not is_const) and self.mutates_this(body0)
            self.params.append(("this", self.tstruct[0], self.tstruct[1], "state" if mutates else "val"))
            self.defaults.append(None)
            self.counter[self.tstruct[0]] = 1
        self.ret_qt = decl["type"]["qualType"].split("(")[0].strip()
        self.ret_type = None if (self.ret_qt == "void" or self.frag_stmt is not None) else self.lean_type(self.ret_qt)[0]
        self.outs = [p for p in self.params if p[3] in ("out", "state")]

    # ---- types
    def lean_type(self, qt, param=False):
        q = qt.replace("const ", "").replace("Avoid::", "").replace("vpsc::", "").replace("dialect::", "").replace("topology::", "").replace("cola::", "").strip()
        kind = "val"
        if q.endswith("&"): q = q[:-1].strip()
        qts = self.job.get("qual_types", {})       # exact C++ type (const / namespaces stripped) -> (lean type, val|state)
        if q in qts:
            return qts[q][0], (qts[q][1] if param else "val")
        if q.endswith("*") and q[:-1].strip().replace("shortest_paths::", "") in self.job.get("ptr_index", {}):
            return "Nat", "val"           # a pointer into an array the job names: the element's index
        if q.endswith("*"):
            q = q[:-1].strip(); kind = "out"
            if q in self.job.get("ptr_vals", []): kind = "val"     # pointer to an object read only through job["paths"]
            if q in self.job.get("opt_ptrs", []):                  # pointer that may be null: Option
                base0 = {"Point": "Pt"}; base0.update(self.tmap)
                return "Option " + base0[q], "val"
        base = {"double": "Rat", "int": "Int", "bool": "Bool", "unsigned int": "Nat", "size_t": "Nat",
                "unsigned long": "Nat", "Point": "Pt", "unsigned": "Nat",
                "std::vector::size_type": "Nat", "std::size_t": "Nat", "std::list::size_type": "Nat"}
        base.update({"Polygon": "List Pt", "std::vector<Point>": "List Pt", "PolygonInterface": "List Pt"})
        base.update(self.tmap)
        if q not in base:
            raise Unsupported("%s: unsupported type %r" % (self.name, qt))
        return base[q], kind

    def safe(self, n):
        return n + "_" if n in LEAN_KEYWORDS else n

    def fresh(self, cname):
        if cname == "this" and getattr(self, "tstruct", None): cname = self.tstruct[0]
        k = self.counter.get(cname, 0)
        self.counter[cname] = k + 1
        base = self.safe(cname)
        return base if k == 0 else "%s_%d" % (base.rstrip("_"), k)

    # ---- expressions: returns (lean_text, type, pre_text or None)
    def conj(self, *ps):
        ps = [p for p in ps if p]
        if not ps: return None
        return " && ".join("(%s)" % p for p in ps)

    def this_field(self, lhs):
        """(lean field, type) if the lvalue is a member of `this` mapped by job["this_struct"], else None"""
        if not getattr(self, "tstruct", None): return None
        while lhs.get("kind") in ("ParenExpr", "ImplicitCastExpr"): lhs = lhs["inner"][0]
        if lhs.get("kind") == "MemberExpr":
            b = lhs["inner"][0]
            while b.get("kind") == "ImplicitCastExpr": b = b["inner"][0]
            if b.get("kind") == "CXXThisExpr" and lhs.get("name") in self.tstruct[2]:
                return self.tstruct[2][lhs["name"]]
        return None

    def this_call(self, n):
        """(method name, arg nodes) if n is a call `this->m(args)` of a method already translated in this job"""
        if n.get("kind") != "CXXMemberCallExpr": return None
        inner = [c for c in n.get("inner", []) if isinstance(c, dict)]
        me = inner[0]
        if me.get("kind") != "MemberExpr": return None
        b = me["inner"][0]
        while b.get("kind") == "ImplicitCastExpr": b = b["inner"][0]
        if b.get("kind") == "CXXThisExpr" and me.get("name") in self.known: return me["name"], inner[1:]
        return None

    def mutates_this(self, n):
        k = n.get("kind")
        if k in ("BinaryOperator", "CompoundAssignOperator") and (n.get("opcode", "") == "=" or k == "CompoundAssignOperator"):
            if self.this_field(n["inner"][0]) is not None: return True
        tc = self.this_call(n)
        if tc and any(p_[0] == "this" and p_[3] == "state" for p_ in self.known[tc[0]].params): return True
        return any(self.mutates_this(c) for c in n.get("inner", []) if isinstance(c, dict))

    def path_of(self, n):
        """textual access path of an expression made of this / parameters / member reads / nullary member calls"""
        k = n.get("kind")
        if k in ("ImplicitCastExpr", "ParenExpr", "MaterializeTemporaryExpr", "ExprWithCleanups"):
            if k == "ImplicitCastExpr" and n.get("castKind") not in ("LValueToRValue", "NoOp", "DerivedToBase", "UncheckedDerivedToBase"):
                return None
            return self.path_of(n["inner"][0])
        if k == "CXXThisExpr": return "this"
        if k == "DeclRefExpr" and n["referencedDecl"]["kind"] in ("ParmVarDecl",): return n["referencedDecl"]["name"]
        if k == "MemberExpr":
            b = self.path_of(n["inner"][0])
            return None if b is None else b + "." + n["name"]
        if k == "CXXMemberCallExpr":
            parts = [c for c in n["inner"] if isinstance(c, dict)]
            b = self.path_of(parts[0])
            if b is None: return None
            args = []
            for a_ in parts[1:]:
                while a_.get("kind") in ("ImplicitCastExpr", "ParenExpr"): a_ = a_["inner"][0]
                if a_.get("kind") == "DeclRefExpr" and a_["referencedDecl"]["kind"] == "EnumConstantDecl":
                    args.append(a_["referencedDecl"]["name"])
                else: return None
            return b + "(" + ",".join(args) + ")"
        return None

    # ---- containers: element type of `Array T` / `List T`, indexed read
    def elem_type(self, ty):
        for pre in ("Array ", "List "):
            if ty.startswith(pre):
                e = ty[len(pre):].strip()
                if e.startswith("(") and e.endswith(")"): e = e[1:-1].strip()
                return pre.strip(), e
        ali = self.job.get("type_alias", {})
        if ty in ali: return self.elem_type(ali[ty])
        return None, None

    def index_read(self, t, ty, p, it, ity, ip):
        if ty == "IdArray" and ity == "Nat":
            # a vector of pointers modelled by their indices (v[i]->id == i): v[i] = i, the vector itself = its size
            return it, "Nat", self.conj(p, ip, "decide (%s < %s)" % (it, t))
        if " → " in ty and ty.split(" → ")[0] == ity and len(ty.split(" → ")) == 2:
            return "(%s %s)" % (t, it), ty.split(" → ")[1], self.conj(p, ip)      # C array indexed by an enum = a function on the enum
        if ity != "Nat": raise Unsupported("%s: index of type %s" % (self.name, ity))
        c, ety = self.elem_type(ty)
        if c == "Array":
            return "(aget %s %s)" % (t, it), ety, self.conj(p, ip, "decide (%s < %s.size)" % (it, t))
        if c == "List":
            return "(%s.getD %s default)" % (t, it), ety, self.conj(p, ip, "decide (%s < %s.length)" % (it, t))
        raise Unsupported("%s: subscript on %s" % (self.name, ty))

    def coerce(self, t, ty, p, want):
        """a possibly-null pointer (Option T) used where the pointee identity T is needed: obligation `isSome`"""
        if ty == want: return t, ty, p
        if ty == "Option " + want: return "(%s.getD default)" % t, want, self.conj(p, "%s.isSome" % t)
        if want.startswith("Option ") and want[7:] == ty: return "(some %s)" % t, want, p
        raise Unsupported("%s: %s where %s is expected" % (self.name, ty, want))

    def ptr_array(self, node):
        """name of the array variable that pointers of this expression's C type index (job["ptr_index"]), or None"""
        qt = node.get("type", {}).get("qualType", "")
        q = qt.replace("const ", "").replace("shortest_paths::", "").strip()
        if not q.endswith("*"): return None
        return self.job.get("ptr_index", {}).get(q[:-1].strip())

    def num(self, ty):
        """numeric class of a Lean type (job["num"][ty] = dict(lit=fmt, max=text, ops={op: fmt}))"""
        return self.job.get("num", {}).get(ty)

    def lvalue_path(self, lhs):
        """(root variable name, [("idx", node) | ("field", name)]) of an lvalue built from a variable by
        subscripts and member selections; None if it is anything else"""
        while lhs.get("kind") in ("ParenExpr", "ImplicitCastExpr"): lhs = lhs["inner"][0]
        k = lhs.get("kind")
        if k == "DeclRefExpr" and lhs["referencedDecl"]["kind"] in ("ParmVarDecl", "VarDecl"):
            return self.alias.get(lhs["referencedDecl"]["name"], lhs["referencedDecl"]["name"]), []
        if k == "ArraySubscriptExpr":
            r = self.lvalue_path(lhs["inner"][0])
            return None if r is None else (r[0], r[1] + [("idx", lhs["inner"][1])])
        if k == "CXXOperatorCallExpr":
            inner = [c for c in lhs["inner"] if isinstance(c, dict)]
            callee = inner[0]
            while callee.get("kind") == "ImplicitCastExpr": callee = callee["inner"][0]
            if callee.get("referencedDecl", {}).get("name") == "operator[]" and len(inner) == 3:
                r = self.lvalue_path(inner[1])
                return None if r is None else (r[0], r[1] + [("idx", inner[2])])
            return None
        if k == "MemberExpr":
            b = lhs["inner"][0]
            while b.get("kind") in ("ImplicitCastExpr", "ParenExpr"): b = b["inner"][0]
            if b.get("kind") == "CXXThisExpr": return None
            arr_ = self.ptr_array(lhs["inner"][0]) if lhs.get("isArrow") else None
            if arr_ is not None: return arr_, [("idx", lhs["inner"][0]), ("field", lhs["name"])]
            r = self.lvalue_path(b)
            return None if r is None else (r[0], r[1] + [("field", lhs["name"])])
        return None

    def assign_to(self, lhs, vt, vty, env, pad):
        """assignment of the Lean value `vt : vty` to an lvalue with a non-empty access path:
        returns (env', let-text, pre or None)"""
        root, accs = self.lvalue_path(lhs)
        if root not in env: raise Unsupported("%s: assignment to unknown %s" % (self.name, root))
        pres = []
        def upd(cur, cty, accs):
            if not accs:
                if cty != vty: raise Unsupported("%s: assign %s to element of type %s" % (self.name, vty, cty))
                return vt
            kind, a = accs[0]
            if kind == "idx":
                it, ity, ip = self.expr(a, env)
                c, ety = self.elem_type(cty)
                if c == "List" and ity == "Nat":
                    pres.extend([ip, "decide (%s < %s.length)" % (it, cur)])
                    return "(%s.set %s %s)" % (cur, it, upd("(%s.getD %s default)" % (cur, it), ety, accs[1:]))
                if c != "Array" or ity != "Nat": raise Unsupported("%s: element assignment into %s[%s]" % (self.name, cty, ity))
                pres.extend([ip, "decide (%s < %s.size)" % (it, cur)])
                return "(aset %s %s %s)" % (cur, it, upd("(aget %s %s)" % (cur, it), ety, accs[1:]))
            if cty == "List Pt" and a == "ps": return upd(cur, cty, accs[1:])       # Polygon::ps of a polygon modelled as its point list
            fty = self.job.get("fields", {}).get((cty, a))
            if cty == "Pt" and a in ("x", "y"): fty = "Rat"
            if isinstance(fty, tuple): a, fty = fty
            if fty is None: raise Unsupported("%s: assignment to field %s of %s" % (self.name, a, cty))
            return "{ %s with %s := %s }" % (cur, a, upd("%s.%s" % (cur, a), fty, accs[1:]))
        newv = upd(env[root]["lean"], env[root]["type"], accs)
        env = dict(env)
        ln = self.fresh(root)
        ty = env[root]["type"]
        env[root] = dict(lean=ln, type=ty)
        return env, "let %s : %s := %s\n%s" % (ln, ty, newv, pad), self.conj(*pres)

    def path_args(self, n):
        """access path with holes: subscripts become `[]`, member calls `.m()`; the index / argument nodes are collected in order.
        `cgr.rs[left_ix]->width()` = ("cgr.rs[].width()", [left_ix])"""
        k = n.get("kind")
        if k in ("ImplicitCastExpr", "ParenExpr", "MaterializeTemporaryExpr", "ExprWithCleanups"):
            return self.path_args(n["inner"][0])
        if k == "CXXThisExpr": return "this", []
        if k == "DeclRefExpr" and n["referencedDecl"]["kind"] in ("ParmVarDecl",): return n["referencedDecl"]["name"], []
        if k == "MemberExpr":
            b = self.path_args(n["inner"][0])
            return None if b is None else (b[0] + "." + n["name"], b[1])
        if k == "CXXOperatorCallExpr":
            parts = [c for c in n["inner"] if isinstance(c, dict)]
            callee = parts[0]
            while callee.get("kind") == "ImplicitCastExpr": callee = callee["inner"][0]
            if callee.get("referencedDecl", {}).get("name") == "operator[]" and len(parts) == 3:
                b = self.path_args(parts[1])
                return None if b is None else (b[0] + "[]", b[1] + [parts[2]])
            if callee.get("referencedDecl", {}).get("name") in ("operator->", "operator*") and len(parts) == 2:
                return self.path_args(parts[1])          # smart pointer: same object
            return None
        if k == "CXXMemberCallExpr":
            parts = [c for c in n["inner"] if isinstance(c, dict)]
            if parts[0].get("kind") != "MemberExpr": return None
            b = self.path_args(parts[0]["inner"][0])
            return None if b is None else (b[0] + "." + parts[0]["name"] + "()", b[1] + parts[1:])
        return None

    def expr(self, n, env):
        k = n.get("kind")
        inner = [c for c in n.get("inner", []) if isinstance(c, dict)]
        if self.job.get("fun_paths") and k in ("CXXMemberCallExpr", "CXXOperatorCallExpr", "MemberExpr"):
            pa = self.path_args(n)
            if pa is not None and pa[0] in self.job["fun_paths"]:
                ln_, atys_, rty_ = self.job["fun_paths"][pa[0]]
                if len(atys_) != len(pa[1]): raise Unsupported("%s: arity of %s" % (self.name, pa[0]))
                as_ = [self.expr(a_, env) for a_ in pa[1]]
                for (t_, ty_, p_), want in zip(as_, atys_):
                    if ty_ != want: raise Unsupported("%s: argument %s of %s" % (self.name, ty_, pa[0]))
                txt = "(%s %s)" % (ln_, " ".join(a_[0] for a_ in as_)) if as_ else ln_
                return txt, rty_, self.conj(*[a_[2] for a_ in as_])
        if self.paths:
            pth = self.path_of(n)
            if pth is not None and pth in self.paths:
                return self.paths[pth][0], self.paths[pth][1], None
        if k in ("ParenExpr",):
            t, ty, p = self.expr(inner[0], env); return "(%s)" % t, ty, p
        if k in ("ExprWithCleanups", "MaterializeTemporaryExpr", "CXXBindTemporaryExpr", "ConstantExpr",
                 "CXXStaticCastExpr", "CXXFunctionalCastExpr", "CStyleCastExpr", "ImplicitCastExpr"):
            ck = n.get("castKind", "NoOp")
            if ck == "NullToPointer":
                lt_ = self.lean_type(n["type"]["qualType"])[0]
                if not lt_.startswith("Option "): raise Unsupported("%s: nullptr as %s" % (self.name, lt_))
                return "(none : %s)" % lt_, lt_, None
            if ck == "ToVoid": raise Unsupported("%s: void cast inside an expression" % self.name)
            t, ty, p = self.expr(inner[0], env)
            if ck in ("LValueToRValue", "NoOp", "FunctionToPointerDecay", "ConstructorConversion", "DerivedToBase", "UserDefinedConversion",
                      "UncheckedDerivedToBase", "ArrayToPointerDecay"):
                return t, ty, p
            if ck == "BaseToDerived":
                # static_cast<Derived*>(base pointer): the job maps both classes to the same Lean type
                if self.lean_type(n["type"]["qualType"])[0] != ty: raise Unsupported("%s: downcast %s -> %s" % (self.name, ty, n["type"]["qualType"]))
                return t, ty, p
            if ck == "PointerToBoolean":
                if not ty.startswith("Option "): raise Unsupported("%s: pointer-to-bool of %s" % (self.name, ty))
                return "%s.isSome" % t, "Bool", p
            if ck == "IntegralToFloating":
                lit = inner[0]
                while lit.get("kind") in ("ParenExpr", "ImplicitCastExpr") and lit.get("castKind", "NoOp") in ("NoOp",): lit = lit["inner"][0]
                if lit.get("kind") == "IntegerLiteral":
                    nc_ = self.num(self.tmap.get("double", "Rat"))
                    if nc_: return nc_["lit"] % lit["value"], self.tmap["double"], p
                    if self.tmap.get("double") == "SZ": return "(SZ.ofRat (%s : Rat))" % lit["value"], "SZ", p
                    return "(%s : Rat)" % lit["value"], "Rat", p
                if self.num(self.tmap.get("double", "Rat")): raise Unsupported("%s: integral-to-floating conversion of a non-literal into %s" % (self.name, self.tmap["double"]))
                return "((%s : %s) : Rat)" % (t, ty), "Rat", p
            if ck == "IntegralToBoolean":
                return "(decide (%s ≠ 0))" % t, "Bool", p
            if ck == "FloatingToBoolean":
                return "(decide (%s ≠ 0))" % t, "Bool", p
            if ck == "IntegralCast":
                dst = self.lean_type(n["type"]["qualType"])[0]
                if ty == dst: return t, ty, p
                if ty == "Bool" and dst == "Int": return "(if %s then (1 : Int) else 0)" % t, "Int", p
                if ty == "Nat" and dst == "Int": return "((%s : Nat) : Int)" % t, "Int", p
                lit = inner[0]
                while lit.get("kind") in ("ParenExpr",): lit = lit["inner"][0]
                if ty == "Int" and dst == "Nat" and lit.get("kind") == "IntegerLiteral" and int(lit["value"]) >= 0:
                    return "(%s : Nat)" % lit["value"], "Nat", p
                raise Unsupported("%s: integral cast %s -> %s" % (self.name, ty, dst))
            raise Unsupported("%s: cast kind %s" % (self.name, ck))
        if k == "CXXConstructExpr" and len(inner) == 1:
            return self.expr(inner[0], env)         # copy construction of a value type
        if k == "CXXConstructExpr" and len(inner) == 2 and inner[1].get("kind") == "CXXDefaultArgExpr":
            q_ = n["type"]["qualType"].replace("const ", "").strip()
            sc_ = self.job.get("sized_ctors", {}).get(q_)
            if sc_ is None: raise Unsupported("%s: construction of %s from one argument" % (self.name, q_))
            t_, ty_, p_ = self.expr(inner[0], env)
            if ty_ != "Nat": raise Unsupported("%s: size argument of type %s" % (self.name, ty_))
            return sc_[0].format(t_), sc_[1], p_
        if k == "CXXConstructExpr" and not inner:
            cls_ = n["type"]["qualType"].replace("const ", "").split("::")[-1].strip()
            dc_ = self.job.get("default_ctors", {}).get(cls_)
            if dc_ is None: raise Unsupported("%s: default construction of %s" % (self.name, cls_))
            return dc_[0], dc_[1], None
        if k == "ArraySubscriptExpr":
            t, ty, p = self.expr(inner[0], env)
            ix = inner[1]
            if " → " in ty:      # enum used as array index: drop the promotion to int
                while ix.get("kind") == "ImplicitCastExpr" and ix.get("castKind") in ("IntegralCast", "LValueToRValue", "NoOp") and ix["inner"][0].get("kind") in ("ImplicitCastExpr", "DeclRefExpr", "MemberExpr"):
                    if ix.get("castKind") == "IntegralCast": ix = ix["inner"][0]; break
                    ix = ix["inner"][0]
            it, ity, ip = self.expr(ix, env)
            return self.index_read(t, ty, p, it, ity, ip)
        if k == "CXXNullPtrLiteralExpr":
            raise Unsupported("%s: nullptr outside a pointer conversion" % self.name)
        if k == "CXXNewExpr":
            ce = inner[0]
            if ce.get("kind") != "CXXConstructExpr": raise Unsupported("%s: new without constructor" % self.name)
            cls = ce["type"]["qualType"].split("::")[-1]
            spec = self.job.get("ctors", {}).get(cls)
            if spec is None: raise Unsupported("%s: new %s" % (self.name, cls))
            lty, flds = spec
            cargs = [c for c in ce.get("inner", []) if isinstance(c, dict)]
            if len(cargs) != len(flds): raise Unsupported("%s: new %s with %d arguments" % (self.name, cls, len(cargs)))
            parts_, pres = [], []
            for a_, (fn_, fty_, dflt_) in zip(cargs, flds):
                if a_.get("kind") == "CXXDefaultArgExpr":
                    if dflt_ is None: raise Unsupported("%s: default argument %s of %s" % (self.name, fn_, cls))
                    parts_.append("%s := %s" % (fn_, dflt_)); continue
                t_, ty_, p_ = self.coerce(*self.expr(a_, env), want=fty_)
                parts_.append("%s := %s" % (fn_, t_)); pres.append(p_)
            return "(some ({ %s } : %s))" % (", ".join(parts_), lty), "Option " + lty, self.conj(*pres)
        if k == "IntegerLiteral":
            ty = self.lean_type(n["type"]["qualType"])[0]
            return "(%s : %s)" % (n["value"], ty), ty, None
        if k == "FloatingLiteral":
            v = n["value"]
            fr = self.float_to_rat(v)
            nc_ = self.num(self.tmap.get("double", "Rat"))
            if nc_: return nc_["lit"] % fr, self.tmap["double"], None
            if self.tmap.get("double") == "SZ": return "(SZ.ofRat (%s : Rat))" % fr, "SZ", None
            return "(%s : Rat)" % fr, "Rat", None
        if k == "CXXBoolLiteralExpr":
            return ("true" if n["value"] else "false"), "Bool", None
        if k == "DeclRefExpr":
            rd = n["referencedDecl"]
            nm = self.alias.get(rd["name"], rd["name"])
            if rd["kind"] in ("ParmVarDecl", "VarDecl"):
                if nm in env and env[nm].get("iter"): raise Unsupported("%s: iterator %s used other than through * / ->" % (self.name, nm))
                if nm in env: return env[nm]["lean"], env[nm]["type"], None
                consts = self.job.get("constants", {})
                if nm in consts: return consts[nm][0], consts[nm][1], None
                raise Unsupported("%s: unknown variable %s" % (self.name, nm))
            if rd["kind"] == "EnumConstantDecl":
                en = self.job.get("enums", {})
                if nm in en: return en[nm][0], en[nm][1], None
                raise Unsupported("%s: enum constant %s" % (self.name, nm))
            raise Unsupported("%s: DeclRef to %s" % (self.name, rd["kind"]))
        if k == "MemberExpr":
            base = inner[0]
            if base.get("kind") == "CXXThisExpr" or (base.get("kind") == "ImplicitCastExpr" and base["inner"][0].get("kind") == "CXXThisExpr"):
                nm = n["name"]
                if getattr(self, "tstruct", None) and nm in self.tstruct[2] and "this" in env:
                    return "%s.%s" % (env["this"]["lean"], self.tstruct[2][nm][0]), self.tstruct[2][nm][1], None
                if nm in env and any(st[0] == nm for st in self.state): return env[nm]["lean"], env[nm]["type"], None
                if nm in env and nm in self.job.get("member_locals", {}): return env[nm]["lean"], env[nm]["type"], None
                if nm in self.members: return self.members[nm][0], self.members[nm][1], None
                raise Unsupported("%s: member %s of this not mapped" % (self.name, nm))
            arr_ = self.ptr_array(base) if n.get("isArrow") else None
            if arr_ is not None:
                if arr_ not in env: raise Unsupported("%s: pointer into %s, which is not in scope" % (self.name, arr_))
                it_, ity_, ip_ = self.expr(base, env)
                t, ty, p = self.index_read(env[arr_]["lean"], env[arr_]["type"], None, it_, ity_, ip_)
            else:
                t, ty, p = self.expr(base, env)
            fld = n["name"]
            if ty == "List Pt" and fld == "ps":
                return t, ty, p
            if fld in ("first", "second") and len(ty.split(" × ")) == 2 and "(" not in ty:
                i_ = 0 if fld == "first" else 1
                return "%s.%d" % (t, i_ + 1), ty.split(" × ")[i_].strip(), p
            fty = self.job.get("fields", {}).get((ty, fld))
            if ty == "Pt" and fld in ("x", "y"): fty = "Rat"
            if fty is None and ty.startswith("Option ") and n.get("isArrow"):
                fty = self.job.get("fields", {}).get((ty[7:], fld))        # p->f on a possibly-null pointer
                if fty is not None: t, ty, p = "(%s.getD default)" % t, ty[7:], self.conj(p, "%s.isSome" % t)
            if fty is None: raise Unsupported("%s: field %s of %s" % (self.name, fld, ty))
            if isinstance(fty, tuple):        # (lean projection, type); projection None = the value itself (p->id of a pointer modelled by its id)
                return (t if fty[0] is None else "%s.%s" % (t, fty[0])), fty[1], p
            return "%s.%s" % (t, fld), fty, p
        if k == "UnaryOperator":
            op = n["opcode"]
            if op == "&":
                lp = self.lvalue_path(inner[0])
                if lp and len(lp[1]) == 1 and lp[1][0][0] == "idx" and lp[0] in self.job.get("elem_addr_as_index", []) and lp[0] in env \
                        and self.elem_type(env[lp[0]]["type"])[0] == "Array":
                    it, ity, ip = self.expr(lp[1][0][1], env)
                    if ity != "Nat": raise Unsupported("%s: &%s[%s]" % (self.name, lp[0], ity))
                    return it, "Nat", self.conj(ip, "decide (%s < %s.size)" % (it, env[lp[0]]["lean"]))
                raise Unsupported("%s: address-of" % self.name)
            t, ty, p = self.expr(inner[0], env)
            if op == "-": return "(-%s)" % t, ty, p
            if op == "+": return t, ty, p
            if op == "!": return "(!%s)" % t, "Bool", p
            if op == "*":   # deref of out-param pointer (read), or of a possibly-null pointer (Option)
                if ty.startswith("Option "):
                    return "(%s.getD default)" % t, ty[7:], self.conj(p, "%s.isSome" % t)
                return t, ty, p
            raise Unsupported("%s: unary %s" % (self.name, op))
        if k == "BinaryOperator":
            op = n["opcode"]
            if op == ",": raise Unsupported("comma operator")
            if op in ("==", "!="):
                def is_null(x):
                    while x.get("kind") in ("ImplicitCastExpr", "ParenExpr"): x = x["inner"][0]
                    return x.get("kind") == "CXXNullPtrLiteralExpr"
                for u_, v_ in ((inner[0], inner[1]), (inner[1], inner[0])):
                    if is_null(v_):
                        t_, ty_, p_ = self.expr(u_, env)
                        if not ty_.startswith("Option "): raise Unsupported("%s: nullptr comparison of %s" % (self.name, ty_))
                        return ("%s.isNone" if op == "==" else "%s.isSome") % t_, "Bool", p_
            if op in ("==", "!="):
                # unscoped enums are compared through promotions to int: compare the enum values themselves
                def strip_ic(x):
                    while x.get("kind") == "ImplicitCastExpr" and x.get("castKind") in ("IntegralCast", "LValueToRValue", "NoOp"):
                        if x.get("castKind") == "IntegralCast":
                            y = x["inner"][0]
                            return y
                        x = x["inner"][0]
                    return None
                sa, sb = strip_ic(inner[0]), strip_ic(inner[1])
                if sa is not None and sb is not None:
                    try:
                        a0, ta0, pa0 = self.expr(sa, env); b0, tb0, pb0 = self.expr(sb, env)
                        if ta0 == tb0 and ta0 not in ("Nat", "Int", "Bool", "Rat", "SZ"):
                            lop0 = "=" if op == "==" else "≠"
                            return "(decide (%s %s %s))" % (a0, lop0, b0), "Bool", self.conj(pa0, pb0)
                    except Unsupported:
                        pass
            a, ta, pa = self.expr(inner[0], env)
            b, tb, pb = self.expr(inner[1], env)
            if ta == tb and self.num(ta):
                f_ = self.num(ta)["ops"].get(op)
                if f_ is None: raise Unsupported("%s: operator %s on %s" % (self.name, op, ta))
                return (f_.format(a, b) if "{" in f_ else f_ % (a, b)), ("Bool" if op in ("<", ">", "<=", ">=", "==", "!=") else ta), self.conj(pa, pb)
            if op in ("+", "-", "*", "/") and self.job.get("sz_to_rat") and {ta, tb} == {"Rat", "SZ"}:
                # a signed-zero value meets a value the job declares sign-of-zero-irrelevant (Rat): the result is Rat
                if ta == "SZ": a, ta = "(SZ.toRat %s)" % a, "Rat"
                else: b, tb = "(SZ.toRat %s)" % b, "Rat"
            if op in ("+", "-", "*", "/"):
                if ta != tb: raise Unsupported("%s: mixed arithmetic %s %s %s" % (self.name, ta, op, tb))
                if op == "/" and ta != "Rat": raise Unsupported("%s: integer division" % self.name)
                if op == "-" and ta == "Nat" and self.job.get("nat_sub_checked"):
                    # unsigned subtraction wraps in C++, Nat subtraction truncates: equal iff there is no wrap-around (an obligation)
                    return "(%s - %s)" % (a, b), ta, self.conj(pa, pb, "decide (%s ≤ %s)" % (b, a))
                return "(%s %s %s)" % (a, op, b), ta, self.conj(pa, pb)
            if op in ("|", "&") and ta == "Int" and tb == "Int":
                # bool & bool / bool | bool: both operands are bools promoted to int (0/1), so the bitwise operator is the logical one
                def unbool(x):
                    while x.get("kind") in ("ParenExpr",): x = x["inner"][0]
                    if x.get("kind") == "ImplicitCastExpr" and x.get("castKind") == "IntegralCast":
                        t_, ty_, p_ = self.expr(x["inner"][0], env)
                        if ty_ == "Bool": return t_, p_
                    return None
                ua, ub = unbool(inner[0]), unbool(inner[1])
                if ua is not None and ub is not None:
                    return "(if (%s %s %s) then (1 : Int) else 0)" % (ua[0], "&&" if op == "&" else "||", ub[0]), "Int", self.conj(ua[1], ub[1])
            if op in ("|", "&"):
                if ta != "Nat" or tb != "Nat": raise Unsupported("%s: bit operator on %s" % (self.name, ta))
                return "(%s %s %s)" % (a, {"|": "|||", "&": "&&&"}[op], b), "Nat", self.conj(pa, pb)
            if op == "%" and ta == "Int" and tb == "Int":
                return "(Int.tmod %s %s)" % (a, b), ta, self.conj(pa, pb, "decide (%s ≠ 0)" % b)      # C++ % truncates toward zero
            if op == "%":
                if ta != "Nat" or tb != "Nat": raise Unsupported("%s: %% on %s" % (self.name, ta))
                return "(%s %% %s)" % (a, b), ta, self.conj(pa, pb)
            if op in ("<", ">", "<=", ">=", "==", "!="):
                if ta != tb: raise Unsupported("%s: mixed comparison %s %s %s" % (self.name, ta, op, tb))
                lop = {"<": "<", ">": ">", "<=": "≤", ">=": "≥", "==": "=", "!=": "≠"}[op]
                if ta == "SZ":
                    f_ = {"==": "(SZ.eqVal %s %s)", "!=": "(!(SZ.eqVal %s %s))", "<": "(SZ.lt %s %s)", "<=": "(SZ.le %s %s)",
                          ">": "(SZ.lt %s %s)", ">=": "(SZ.le %s %s)"}[op]
                    x_, y_ = (b, a) if op in (">", ">=") else (a, b)
                    return f_ % (x_, y_), "Bool", self.conj(pa, pb)
                if ta == "Bool":
                    return ("(%s == %s)" if op == "==" else "(%s != %s)") % (a, b), "Bool", self.conj(pa, pb)
                return "(decide (%s %s %s))" % (a, lop, b), "Bool", self.conj(pa, pb)
            if op == "&&":
                pre = self.conj(pa, "(!%s) || (%s)" % (a, pb) if pb else None)
                return "(%s && %s)" % (a, b), "Bool", pre
            if op == "||":
                pre = self.conj(pa, "%s || (%s)" % (a, pb) if pb else None)
                return "(%s || %s)" % (a, b), "Bool", pre
            raise Unsupported("%s: binary %s" % (self.name, op))
        if k == "ConditionalOperator":
            c, tc, pc = self.expr(inner[0], env)
            a, ta, pa = self.expr(inner[1], env)
            b, tb, pb = self.expr(inner[2], env)
            if ta != tb: raise Unsupported("%s: ?: branches differ" % self.name)
            pre = self.conj(pc, "if %s then (%s) else (%s)" % (c, pa or "true", pb or "true") if (pa or pb) else None)
            return "(if %s then %s else %s)" % (c, a, b), ta, pre
        if k == "CXXOperatorCallExpr":
            callee = inner[0]
            while callee.get("kind") == "ImplicitCastExpr": callee = callee["inner"][0]
            opname = callee["referencedDecl"]["name"]
            if opname in ("operator*", "operator->") and len(inner) == 2:
                a_ = inner[1]
                while a_.get("kind") in ("ImplicitCastExpr", "ParenExpr"): a_ = a_["inner"][0]
                if a_.get("kind") == "DeclRefExpr" and env.get(a_["referencedDecl"]["name"], {}).get("iter"):
                    e_ = env[a_["referencedDecl"]["name"]]
                    return e_["lean"], e_["type"], None
            args = [self.expr(x, env) for x in inner[1:]]
            if opname in ("operator==", "operator!=") and args[0][1] == args[1][1] == "Pt":
                lop = "=" if opname == "operator==" else "≠"
                return "(decide (%s %s %s))" % (args[0][0], lop, args[1][0]), "Bool", self.conj(args[0][2], args[1][2])
            if opname == "operator[]":
                t, ty, p = args[0]
                if self.elem_type(ty)[0] in ("Array", "List") or ty == "IdArray":
                    return self.index_read(t, ty, p, args[1][0], args[1][1], args[1][2])
                if ty.startswith("List "):
                    ety = ty[5:]
                    return "(%s.getD %s default)" % (t, args[1][0]), ety, self.conj(p, args[1][2], "decide (%s < %s.length)" % (args[1][0], t))
            raise Unsupported("%s: operator call %s on %s" % (self.name, opname, [a[1] for a in args]))
        if k == "CXXMemberCallExpr":
            me = inner[0]
            mname = me.get("name")
            mbase = me["inner"][0]
            while mbase.get("kind") == "ImplicitCastExpr": mbase = mbase["inner"][0]
            # this->member->method(...)  mapped to an explicit parameter by the job
            if mbase.get("kind") == "MemberExpr":
                bb = mbase["inner"][0]
                while bb.get("kind") == "ImplicitCastExpr": bb = bb["inner"][0]
                key = (mbase.get("name"), mname)
                if bb.get("kind") == "CXXThisExpr" and key in self.job.get("member_calls", {}):
                    ln, lt = self.job["member_calls"][key]
                    return ln, lt, None
            # this->method(args): call of another translated method, passing the member parameters along
            obj = None      # the object the method is called on, as a Lean value of the callee's `this` type
            if mname in self.known and (getattr(self, "tstruct", None) or getattr(self.known[mname], "tstruct", None)):
                g0 = self.known[mname]
                gthis = [p_ for p_ in g0.params if p_[0] == "this"]
                gtype = gthis[0][2] if gthis else (g0.this_params[0][1] if g0.this_params else None)
                if mbase.get("kind") == "CXXThisExpr":
                    if "this" in env and env["this"]["type"] == gtype: obj = (env["this"]["lean"], None)
                else:
                    try:
                        bt, bty, bp = self.expr(mbase, env)
                        if bty == gtype: obj = (bt, bp)
                    except Unsupported:
                        obj = None
            if obj is not None:
                g = self.known[mname]
                if any(p_[0] == "this" and p_[3] == "state" for p_ in g.params):
                    raise Unsupported("%s: mutating method %s called inside an expression" % (self.name, mname))
                has_this = any(p_[0] == "this" for p_ in g.params)
                args, pres, j = [], [obj[1]], 0
                for (pc, pl, pt, pk) in g.params:
                    if pc == "this": args.append(obj[0]); continue
                    t2, ty2, p2 = self.expr(inner[1 + j], env); j += 1
                    if ty2 != pt: raise Unsupported("%s: arg type %s for %s" % (self.name, ty2, mname))
                    args.append(t2); pres.append(p2)
                tp = [ln for ln, lt in g.this_params]
                if not has_this: tp = [obj[0]] + tp[1:]
                args += tp
                call = "(%s %s)" % (mname, " ".join(args))
                return call, g.ret_type, self.conj(*pres, "%s_pre %s" % (mname, " ".join(args)))
            if mbase.get("kind") == "CXXThisExpr" and mname in self.known:
                g = self.known[mname]
                args, pres = [], []
                for i2, (pc, pl, pt, pk) in enumerate(g.params):
                    t2, ty2, p2 = self.expr(inner[1 + i2], env)
                    if ty2 != pt: raise Unsupported("%s: arg type %s for %s" % (self.name, ty2, mname))
                    args.append(t2); pres.append(p2)
                args += [ln for ln, lt in g.this_params]
                call = "(%s %s)" % (mname, " ".join(args))
                return call, g.ret_type, self.conj(*pres, "%s_pre %s" % (mname, " ".join(args)))
            base, tb, pb = self.expr(me["inner"][0], env)
            if mname == "size" and tb.startswith("List "):
                return "%s.length" % base, "Nat", pb
            if mname == "empty" and tb.startswith("List ") and len(inner) == 1:
                return "%s.isEmpty" % base, "Bool", pb
            if mname in self.job.get("opaque_methods", {}):
                # a method the model does not interpret: an explicit function parameter applied to the object and the arguments
                ln_, rt_ = self.job["opaque_methods"][mname]
                as_ = [self.expr(x, env) for x in inner[1:]]
                return "(%s %s)" % (ln_, " ".join([base] + [a_[0] for a_ in as_])), rt_, self.conj(pb, *[a_[2] for a_ in as_])
            if mname == "front" and tb.startswith("List ") and len(inner) == 1:
                return "(%s.headD default)" % base, self.elem_type(tb)[1], self.conj(pb, "decide (0 < %s.length)" % base)
            if mname == "size" and self.elem_type(tb)[0] == "Array":
                return "%s.size" % base, "Nat", pb
            raise Unsupported("%s: member call %s on %s" % (self.name, mname, tb))
        if k == "CallExpr":
            callee = inner[0]
            while callee.get("kind") in ("ImplicitCastExpr", "ParenExpr"): callee = callee["inner"][0]
            if callee.get("kind") != "DeclRefExpr": raise Unsupported("%s: indirect call" % self.name)
            cname = callee["referencedDecl"]["name"]
            rawargs = inner[1:]
            if cname == "max" and not rawargs and callee["referencedDecl"]["kind"] == "CXXMethodDecl":
                # std::numeric_limits<T>::max()
                lt_ = self.lean_type(n["type"]["qualType"])[0]
                nc_ = self.num(lt_)
                if not nc_ or "max" not in nc_: raise Unsupported("%s: numeric_limits<%s>::max()" % (self.name, lt_))
                return nc_["max"], lt_, None
            if cname in ("min", "max") and len(rawargs) == 2:
                a, ta, pa = self.expr(rawargs[0], env); b, tb, pb = self.expr(rawargs[1], env)
                if ta == tb and self.num(ta):
                    f_ = self.num(ta)["ops"].get(cname)
                    if f_ is None: raise Unsupported("%s: %s on %s" % (self.name, cname, ta))
                    return f_ % (a, b), ta, self.conj(pa, pb)
            if cname in ("fabs", "abs") :
                t, ty, p = self.expr(rawargs[0], env)
                return "(absR %s)" % t, ty, p
            if cname in ("min", "max"):
                a, ta, pa = self.expr(rawargs[0], env); b, tb, pb = self.expr(rawargs[1], env)
                if ta != tb: raise Unsupported("%s: %s of %s and %s" % (self.name, cname, ta, tb))
                if ta in ("Int", "Nat"): return "(%s %s %s)" % (cname, a, b), ta, self.conj(pa, pb)
                return "(%sR %s %s)" % (cname, a, b), ta, self.conj(pa, pb)
            if cname in self.job.get("opaque_calls", {}):
                # a function the model does not interpret (e.g. sqrt-based): an explicit function parameter
                ln_, rt_ = self.job["opaque_calls"][cname]
                as_ = [self.expr(x, env) for x in rawargs]
                return "(%s %s)" % (ln_, " ".join(a_[0] for a_ in as_)), rt_, self.conj(*[a_[2] for a_ in as_])
            if cname == "epsilon":
                return "dblEpsilon", "Rat", None
            if cname == "isnan":
                # doubles are modelled as Rat (finite, never NaN): recorded in the trusted base
                t, ty, p = self.expr(rawargs[0], env)
                if ty != "Rat": raise Unsupported("%s: isnan on %s" % (self.name, ty))
                return "false", "Bool", p
            if cname in ("signbit", "floor", "ceil"):
                t, ty, p = self.expr(rawargs[0], env)
                if ty != "SZ": raise Unsupported("%s needs the SZ type map (double -> SZ)" % cname)
                return "(SZ.%s %s)" % (cname, t), ("Bool" if cname == "signbit" else "SZ"), p
            if cname not in self.known:
                raise Unsupported("%s: call to non-whitelisted %s" % (self.name, cname))
            g = self.known[cname]
            args, pres = [], []
            for i, (pc, pl, pt, pk) in enumerate(g.params):
                if pk == "out": raise Unsupported("%s: call with out-params" % self.name)
                if i < len(rawargs) and rawargs[i].get("kind") != "CXXDefaultArgExpr":
                    t, ty, p = self.expr(rawargs[i], env)
                else:
                    if g.defaults[i] is None: raise Unsupported("%s: missing default for %s" % (self.name, cname))
                    t, ty, p = g.expr(g.defaults[i], {})
                if ty != pt: raise Unsupported("%s: arg type %s for %s param %s" % (self.name, ty, cname, pt))
                args.append(t); pres.append(p)
            call = "(%s %s)" % (cname, " ".join(args))
            pre = self.conj(*pres, "%s_pre %s" % (cname, " ".join(args)))
            return call, g.ret_type, pre
        raise Unsupported("%s: expression kind %s" % (self.name, k))

    def float_to_rat(self, v):
        s = str(v)
        f = float(s)
        n, d = f.as_integer_ratio()
        return "%d" % n if d == 1 else "%d / %d" % (n, d)

    # ---- statements.  cont: function(env) -> (value_text, pre_text) for the rest of the block.
    def is_assert(self, n):
        """assert(e) expands to (static_cast<bool>(e) ? void(0) : __assert_fail(...))"""
        m = n
        while m.get("kind") in ("ParenExpr", "ExprWithCleanups"): m = m["inner"][0]
        if m.get("kind") == "ConditionalOperator":
            txt = json.dumps(m["inner"][2])
            if "__assert_fail" in txt:
                return m["inner"][0]
        return None

    def lvalue_name(self, lhs):
        """name of the variable / state member an lvalue expression denotes, else None"""
        while lhs.get("kind") in ("ParenExpr", "UnaryOperator", "ImplicitCastExpr"): lhs = lhs["inner"][0]
        if lhs.get("kind") == "DeclRefExpr": return self.alias.get(lhs["referencedDecl"]["name"], lhs["referencedDecl"]["name"])
        if lhs.get("kind") in ("ArraySubscriptExpr", "CXXOperatorCallExpr", "MemberExpr"):
            lp = self.lvalue_path(lhs)
            if lp is not None and lp[1]: return lp[0]
        if lhs.get("kind") == "MemberExpr":
            b = lhs["inner"][0]
            while b.get("kind") == "ImplicitCastExpr": b = b["inner"][0]
            if b.get("kind") == "CXXThisExpr":
                if getattr(self, "tstruct", None) and lhs.get("name") in self.tstruct[2]: return "this"
                return lhs.get("name")
        return None

    def is_swap(self, n):
        if n.get("kind") != "CallExpr": return None
        c = n["inner"][0]
        while c.get("kind") in ("ImplicitCastExpr", "ParenExpr"): c = c["inner"][0]
        if c.get("kind") == "DeclRefExpr" and c["referencedDecl"]["name"] == "swap" and len(n["inner"]) == 3:
            a, b = self.lvalue_name(n["inner"][1]), self.lvalue_name(n["inner"][2])
            if a and b: return a, b
        return None

    def is_push_back(self, n):
        """(container lvalue node, argument node) of a statement `c.push_back(x)`"""
        if n.get("kind") != "CXXMemberCallExpr": return None
        inner = [c for c in n.get("inner", []) if isinstance(c, dict)]
        me = inner[0]
        if me.get("kind") != "MemberExpr" or me.get("name") != "push_back" or len(inner) != 2: return None
        return me["inner"][0], inner[1]

    def is_state_call(self, n):
        """(callee FnTrans, argument nodes) of a statement `f(args)` where f is an already translated void function with in/out parameters"""
        if n.get("kind") != "CallExpr": return None
        inner = [c for c in n.get("inner", []) if isinstance(c, dict)]
        callee = inner[0]
        while callee.get("kind") in ("ImplicitCastExpr", "ParenExpr"): callee = callee["inner"][0]
        if callee.get("kind") != "DeclRefExpr": return None
        cands = [g for g in self.known.values() if g.decl.get("name") == callee["referencedDecl"]["name"] and g.frag_stmt is None]
        cands = [g for g in cands if len([p_ for p_ in g.params if p_[0] != "this"]) == len(inner) - 1]
        if len(cands) != 1: return None
        g = cands[0]
        if g.ret_type is not None or not any(p_[3] == "state" for p_ in g.params): return None
        return g, inner[1:]

    def is_state_method(self, n):
        """(object variable, spec, argument nodes) of a statement `obj.m(args)` whose method the job declares as an uninterpreted
        state transformer of `obj` (job["state_methods"][m] = dict(fn=…, skip_args=[…], extra_vars=[…]))"""
        if n.get("kind") != "CXXMemberCallExpr": return None
        inner = [c for c in n.get("inner", []) if isinstance(c, dict)]
        me = inner[0]
        if me.get("kind") != "MemberExpr" or me.get("name") not in self.job.get("state_methods", {}): return None
        o = me["inner"][0]
        while o.get("kind") in ("ImplicitCastExpr", "ParenExpr"): o = o["inner"][0]
        if o.get("kind") != "DeclRefExpr": return None
        return self.alias.get(o["referencedDecl"]["name"], o["referencedDecl"]["name"]), self.job["state_methods"][me["name"]], inner[1:]

    def assigned_vars(self, n, acc):
        k = n.get("kind")
        if k in ("BinaryOperator", "CompoundAssignOperator") and (n.get("opcode", "") == "=" or k == "CompoundAssignOperator"):
            nm = self.lvalue_name(n["inner"][0])
            if nm: acc.add(nm)
        sw = self.is_swap(n)
        if sw: acc.update(sw)
        pb_ = self.is_push_back(n)
        if pb_ is not None:
            lp = self.lvalue_path(pb_[0])
            if lp: acc.add(lp[0])
        sm_ = self.is_state_method(n)
        if sm_ is not None: acc.add(sm_[0])
        sc_ = self.is_state_call(n) if getattr(self, "known", None) is not None else None
        if sc_ is not None:
            for (pc, pl, pt, pk), a_ in zip(sc_[0].params, sc_[1]):
                if pk == "state":
                    lp = self.lvalue_path(a_)
                    if lp: acc.add(lp[0])
        if k == "UnaryOperator" and n.get("opcode") in ("++", "--"):
            t = n["inner"][0]
            while t.get("kind") in ("ParenExpr",): t = t["inner"][0]
            if t.get("kind") == "DeclRefExpr": acc.add(self.alias.get(t["referencedDecl"]["name"], t["referencedDecl"]["name"]))
        if k == "VarDecl" and n.get("type", {}).get("qualType", "").rstrip().endswith("&") and not n["type"]["qualType"].lstrip().startswith("const "):
            # T& r = v;  r is another name for v: what is assigned through r is assigned to v (needed before `block` sees the declaration)
            init_ = [c for c in n.get("inner", []) if isinstance(c, dict)]
            lp_ = self.lvalue_path(init_[0]) if init_ else None
            if lp_ is not None: self.alias.setdefault(n["name"], lp_[0])
        for c in n.get("inner", []):
            if isinstance(c, dict): self.assigned_vars(c, acc)
        return acc

    def has_return(self, n):
        if n.get("kind") == "ReturnStmt": return True
        return any(self.has_return(c) for c in n.get("inner", []) if isinstance(c, dict))

    def has_jump(self, n):
        """contains a `return`, or a `continue` of the loop being translated (loops nested inside n keep their own `continue`s)"""
        if n.get("kind") in ("ReturnStmt",): return True
        if n.get("kind") == "ContinueStmt": return True
        if n.get("kind") in ("ForStmt", "WhileStmt", "DoStmt"): return self.has_return(n)
        return any(self.has_jump(c) for c in n.get("inner", []) if isinstance(c, dict))

    def always_jumps(self, n):
        k = n.get("kind")
        if k in ("ReturnStmt", "ContinueStmt"): return True
        if k == "CompoundStmt":
            return any(self.always_jumps(c) for c in n.get("inner", []))
        if k == "IfStmt":
            parts = n["inner"]
            return len(parts) == 3 and self.always_jumps(parts[1]) and self.always_jumps(parts[2])
        return False

    def only_throws(self, n):
        while n.get("kind") in ("CompoundStmt",) and len(n.get("inner", [])) == 1: n = n["inner"][0]
        while n.get("kind") == "ExprWithCleanups": n = n["inner"][0]
        return n.get("kind") == "CXXThrowExpr"

    def always_returns(self, n):
        k = n.get("kind")
        if k == "ReturnStmt": return True
        if k == "CompoundStmt":
            return any(self.always_returns(c) for c in n.get("inner", []))
        if k == "IfStmt":
            parts = n["inner"]
            return len(parts) == 3 and self.always_returns(parts[1]) and self.always_returns(parts[2])
        return False

    def ret_tuple(self, val, env):
        outs = [env[o[0]]["lean"] for o in self.outs]
        parts = ([val] if val is not None else []) + outs
        return parts[0] if len(parts) == 1 else "(" + ", ".join(parts) + ")"

    def block(self, stmts, env, cont, ind):
        """returns (value_text, pre_text)"""
        pad = "  " * ind
        if not stmts:
            return cont(env)
        s, rest = stmts[0], stmts[1:]
        while s.get("kind") == "ExprWithCleanups" and self.is_assert(s) is None: s = s["inner"][0]
        k = s.get("kind")
        nxt = lambda e: self.block(rest, e, cont, ind)
        if k == "CompoundStmt":
            return self.block(list(s.get("inner", [])) + rest, env, cont, ind)   # C scoping of shadowed names is not supported: checked by fresh()
        if k == "NullStmt":
            return nxt(env)
        a = self.is_assert(s)
        if a is not None:
            c, tc, pc = self.expr(a, env)
            v, p = nxt(env)
            return v, "%s(%s) &&\n%s%s" % ("", self.conj(pc, c), pad, p)
        if k == "DoStmt":
            cnd = s["inner"][1]
            while cnd.get("kind") in ("ImplicitCastExpr", "ParenExpr"): cnd = cnd["inner"][0]
            if cnd.get("kind") in ("IntegerLiteral", "CXXBoolLiteralExpr") and str(cnd.get("value")) in ("0", "False", "false"):
                return self.block([s["inner"][0]] + rest, env, cont, ind)        # do { … } while (0): the body, once
            raise Unsupported("%s: do-while loop" % self.name)
        if k == "CStyleCastExpr" and s.get("castKind") == "ToVoid":
            x_ = s["inner"][0]
            while x_.get("kind") in ("ParenExpr", "ImplicitCastExpr"): x_ = x_["inner"][0]
            if x_.get("kind") == "DeclRefExpr": return nxt(env)        # (void) x;
            raise Unsupported("%s: void cast of an expression with possible effects" % self.name)
        if k == "ContinueStmt":
            if getattr(self, "_contcont", None) is None: raise Unsupported("%s: continue outside a translated loop" % self.name)
            return self._contcont(env)
        if k == "IfStmt" and len([c for c in s["inner"] if isinstance(c, dict)]) == 2 and self.only_throws(s["inner"][1]):
            # if (c) throw …;   = the obligation !c (an exception is a failed obligation, like an assertion)
            c, tc, pc = self.expr(s["inner"][0], env)
            if tc != "Bool": raise Unsupported("%s: non-bool condition" % self.name)
            v, p = nxt(env)
            return v, "(%s) &&\n%s%s" % (self.conj(pc, "!(%s)" % c), pad, p)
        if k == "BinaryOperator" and s.get("opcode") == "=":
            l_ = s["inner"][0]
            if l_.get("kind") == "MemberExpr" and l_.get("name") in self.job.get("skip_member_writes", []):
                # p->creator = this;  bookkeeping field the job does not model: only the dereference obligation remains
                b_ = l_["inner"][0]
                t_, ty_, p_ = self.expr(b_, env)
                if l_.get("isArrow") and ty_.startswith("Option "): p_ = self.conj(p_, "%s.isSome" % t_)
                r_ = self.strip_wrappers(s["inner"][1])
                if self.is_state_method(r_) is not None:
                    # x.f = obj.m(args) with f not modelled: the call still changes obj
                    v, p = self.block([r_] + rest, env, cont, ind)
                    return v, (("(%s) &&\n%s" % (p_, pad)) if p_ else "") + p
                v, p = nxt(env)
                return v, (("(%s) &&\n%s" % (p_, pad)) if p_ else "") + p
        if k == "CXXMemberCallExpr":
            me_ = s["inner"][0]
            ob_ = me_["inner"][0] if me_.get("kind") == "MemberExpr" else {}
            while ob_.get("kind") in ("ImplicitCastExpr", "ParenExpr"): ob_ = ob_["inner"][0]
            if ob_.get("kind") == "MemberExpr" and ob_.get("name") in self.job.get("skip_member_calls", []):
                ob2 = ob_["inner"][0]
                while ob2.get("kind") in ("ImplicitCastExpr", "ParenExpr"): ob2 = ob2["inner"][0]
                if ob2.get("kind") == "CXXThisExpr":
                    args_ = [self.expr(a_, env) for a_ in s["inner"][1:] if isinstance(a_, dict)]      # arguments must still be understood
                    v, p = nxt(env)
                    pc_ = self.conj(*[a_[2] for a_ in args_])
                    return v, (("(%s) &&\n%s" % (pc_, pad)) if pc_ else "") + p
            if ob_.get("kind") == "CXXThisExpr" and me_.get("name") in self.job.get("assert_calls", {}):
                args_ = [self.expr(a_, env) for a_ in s["inner"][1:] if isinstance(a_, dict)]
                cond_ = self.job["assert_calls"][me_["name"]].format(*[a_[0] for a_ in args_])
                v, p = nxt(env)
                return v, "(%s) &&\n%s%s" % (self.conj(*[a_[2] for a_ in args_], cond_), pad, p)
        if k == "DeclStmt":
            env = dict(env)
            lets, pres = [], []
            for d in s["inner"]:
                if d.get("kind") != "VarDecl": raise Unsupported("%s: decl %s" % (self.name, d.get("kind")))
                qt_ = d["type"]["qualType"]
                if qt_.rstrip().endswith("&") and not qt_.lstrip().startswith("const "):
                    # T& r = <lvalue>: r is an alias. Supported when the lvalue is a variable, possibly through members that the
                    # type map makes the identity (Polygon::ps with Polygon = List Pt)
                    init_ = [c for c in d.get("inner", []) if isinstance(c, dict)]
                    lp_ = self.lvalue_path(init_[0]) if init_ else None
                    if lp_ is None or lp_[0] not in env or any(not (a_[0] == "field" and a_[1] == "ps" and env[lp_[0]]["type"] == "List Pt") for a_ in lp_[1]):
                        raise Unsupported("%s: reference %s to something other than a whole variable" % (self.name, d["name"]))
                    self.alias[d["name"]] = lp_[0]
                    continue
                lt = self.lean_type(d["type"]["qualType"])[0]
                lt = self.job.get("var_types", {}).get(d["name"], lt)
                ln = self.fresh(d["name"])
                init = [c for c in d.get("inner", []) if isinstance(c, dict)]
                sm_ = self.is_state_method(self.strip_wrappers(init[0])) if init else None
                if sm_ is not None and sm_[1].get("ret"):
                    # T x = obj.m(args);  m changes obj AND returns a value: (x, obj') = fn obj args…
                    on_, spec_, args_ = sm_
                    if on_ not in env or spec_["ret"] != lt: raise Unsupported("%s: %s = %s.%s(…)" % (self.name, d["name"], on_, spec_["fn"]))
                    ats = []
                    for j_, a_ in enumerate(args_):
                        if j_ in spec_.get("skip_args", []): continue
                        t_, ty_, p_ = self.expr(a_, env); ats.append(t_); pres.append(p_)
                    ats += [env[v_]["lean"] for v_ in spec_.get("extra_vars", [])]
                    call_ = "(%s %s)" % (spec_["fn"], " ".join([env[on_]["lean"]] + ats))
                    on_ln = self.fresh(on_)
                    lets.append("let %s : %s := %s.1" % (ln, lt, call_))
                    lets.append("let %s : %s := %s.2" % (on_ln, env[on_]["type"], call_))
                    env[on_] = dict(lean=on_ln, type=env[on_]["type"])
                    env[d["name"]] = dict(lean=ln, type=lt)
                    continue
                if init:
                    t, ty, p = self.expr(init[0], env)
                    if ty == "SZ" and lt == "Rat" and self.job.get("sz_to_rat"): t, ty = "(SZ.toRat %s)" % t, "Rat"
                    if lt == "Option " + ty: t, ty = "(some %s)" % t, lt      # a non-null object (e.g. an element of an id-vector) stored in a pointer variable
                    if ty == "Rat" and lt == "SZ" and self.job.get("sz_to_rat"): lt = "Rat"    # a double local initialised with a sign-of-zero-free value
                    if ty != lt: raise Unsupported("%s: init type %s for %s %s" % (self.name, ty, lt, d["name"]))
                    lets.append("let %s : %s := %s" % (ln, lt, t)); pres.append(p)
                else:
                    lets.append("let %s : %s := default" % (ln, lt))
                env[d["name"]] = dict(lean=ln, type=lt)
            v, p = nxt(env)
            head = "".join("%s\n%s" % (l, pad) for l in lets)
            pc = self.conj(*pres)
            return head + v, head + (("(%s) &&\n%s" % (pc, pad)) if pc else "") + p
        if k == "BinaryOperator" and s.get("opcode") == "=":
            # chain  a = b = … = e  and/or targets with an access path (D[i][j], v[i].f)
            targets, rhs_ = [s["inner"][0]], s["inner"][1]
            while True:
                r_ = rhs_
                while r_.get("kind") in ("ParenExpr", "ImplicitCastExpr") and r_.get("castKind", "NoOp") in ("NoOp", "LValueToRValue"): r_ = r_["inner"][0]
                if r_.get("kind") == "BinaryOperator" and r_.get("opcode") == "=":
                    targets.append(r_["inner"][0]); rhs_ = r_["inner"][1]
                else: break
            paths_ = [self.lvalue_path(t_) for t_ in targets]
            if len(targets) > 1 or (paths_[0] is not None and paths_[0][1]):
                if any(p_ is None for p_ in paths_): raise Unsupported("%s: assignment target" % self.name)
                t, ty, p = self.expr(rhs_, env)
                head = ""
                phead = ("(%s) &&\n%s" % (p, pad)) if p else ""
                if len(targets) > 1:
                    # the value is computed once; every target of the chain has the same (Lean) type, so no conversion happens in between
                    tmp = self.fresh("chain")
                    h_ = "let %s : %s := %s\n%s" % (tmp, ty, t, pad); t = tmp
                    head += h_; phead += h_
                for tgt, (root, accs) in reversed(list(zip(targets, paths_))):
                    if accs:
                        env, h_, p_ = self.assign_to(tgt, t, ty, env, pad)
                    else:
                        if root not in env or env[root]["type"] != ty: raise Unsupported("%s: chained assignment to %s" % (self.name, root))
                        env = dict(env); ln = self.fresh(root); env[root] = dict(lean=ln, type=ty)
                        h_, p_ = "let %s : %s := %s\n%s" % (ln, ty, t, pad), None
                    head += h_
                    phead += (("(%s) &&\n%s" % (p_, pad)) if p_ else "") + h_
                v, pp = nxt(env)
                return head + v, phead + pp
        if k in ("BinaryOperator", "CompoundAssignOperator") and (s.get("opcode") == "=" or k == "CompoundAssignOperator"):
            if k == "CompoundAssignOperator" and (self.lvalue_path(s["inner"][0]) or (None, []))[1]:
                raise Unsupported("%s: compound assignment to an element" % self.name)
            cn = self.lvalue_name(s["inner"][0])
            if cn is None: raise Unsupported("%s: assignment target" % self.name)
            if cn not in env: raise Unsupported("%s: assignment to unknown %s" % (self.name, cn))
            rhs = s["inner"][1]
            if k == "CompoundAssignOperator" and env[cn]["type"] == "Bool":
                # bool |= (bool expr): the rhs is promoted to int in the AST; strip the promotion
                while rhs.get("kind") == "ImplicitCastExpr" and rhs.get("castKind") == "IntegralCast": rhs = rhs["inner"][0]
            t, ty, p = self.expr(rhs, env)
            if ty == "SZ" and env[cn]["type"] == "Rat" and self.job.get("sz_to_rat"): t, ty = "(SZ.toRat %s)" % t, "Rat"
            tf0 = self.this_field(s["inner"][0])
            if k == "CompoundAssignOperator":
                op = s["opcode"][:-1]
                cur = env[cn]["lean"] if tf0 is None else "%s.%s" % (env["this"]["lean"], tf0[0])
                if tf0 is not None and tf0[1] != "Rat": raise Unsupported("%s: compound assignment to non-Rat member" % self.name)
                if op in ("+", "-", "*", "/"): t = "(%s %s %s)" % (cur, op, t)
                elif op == "|" and env[cn]["type"] == "Nat": t = "(%s ||| %s)" % (cur, t)
                elif op == "&" and env[cn]["type"] == "Nat": t = "(%s &&& %s)" % (cur, t)
                elif op == "|" and env[cn]["type"] == "Bool": t = "(%s || %s)" % (cur, t)
                elif op == "&" and env[cn]["type"] == "Bool": t = "(%s && %s)" % (cur, t)
                else: raise Unsupported("%s: compound op %s" % (self.name, s["opcode"]))
                ty = env[cn]["type"] if tf0 is None else tf0[1]
            tf = self.this_field(s["inner"][0])
            if tf is not None:
                # member write: the compound-assignment operand was computed from the member, not from the struct
                if ty != tf[1]: raise Unsupported("%s: assign %s to member of type %s" % (self.name, ty, tf[1]))
                t = "{ %s with %s := %s }" % (env["this"]["lean"], tf[0], t)
                ty = env["this"]["type"]
            if ty != env[cn]["type"]: raise Unsupported("%s: assign %s to %s" % (self.name, ty, env[cn]["type"]))
            env = dict(env)
            ln = self.fresh(cn)
            env[cn] = dict(lean=ln, type=ty)
            v, pp = nxt(env)
            head = "let %s : %s := %s\n%s" % (ln, ty, t, pad)
            return head + v, head + (("(%s) &&\n%s" % (p, pad)) if p else "") + pp
        sc_ = self.is_state_call(s)
        if sc_ is not None:
            g, args_ = sc_
            ats, pres, backs = [], [], []
            for (pc, pl, pt, pk), a_ in zip(g.params, args_):
                t_, ty_, p_ = self.expr(a_, env)
                if ty_ != pt: raise Unsupported("%s: argument %s for parameter %s of %s" % (self.name, ty_, pt, g.name))
                ats.append(t_); pres.append(p_)
                if pk == "state":
                    if self.lvalue_path(a_) is None: raise Unsupported("%s: in/out argument of %s is not an lvalue" % (self.name, g.name))
                    backs.append((a_, pt))
                elif pk == "out": raise Unsupported("%s: call with out-pointer parameters" % self.name)
            xs_ = [l_ for l_, t_ in g.job.get("extra_params", {}).get(g.name, [])]
            mine = [l_ for l_, t_ in self.job.get("extra_params", {}).get(self.name, [])]
            if any(x_ not in mine for x_ in xs_): raise Unsupported("%s: %s needs the extra parameters %s" % (self.name, g.name, xs_))
            ats += xs_
            if getattr(g, "uses_fuel", False):
                ats.append("fuel_"); self.uses_fuel = True
            call_ = "(%s %s)" % (g.name, " ".join(ats))
            pre_ = self.conj(*pres, "%s_pre %s" % (g.name, " ".join(ats)))
            rv = self.fresh("ret")
            rty = " × ".join(b_[1] for b_ in backs)
            head = "let %s : %s := %s\n%s" % (rv, rty, call_, pad)
            phead = "(%s) &&\n%s" % (pre_, pad) + head
            cur = rv
            for i_, (a_, pt) in enumerate(backs):
                comp = cur if len(backs) == 1 else (cur + (".1" if i_ < len(backs) - 1 else ""))
                lp = self.lvalue_path(a_)
                if lp[1]:
                    env, h_, p_ = self.assign_to(a_, comp, pt, env, pad)
                else:
                    env = dict(env); ln = self.fresh(lp[0]); env[lp[0]] = dict(lean=ln, type=pt)
                    h_, p_ = "let %s : %s := %s\n%s" % (ln, pt, comp, pad), None
                head += h_
                phead += (("(%s) &&\n%s" % (p_, pad)) if p_ else "") + h_
                cur = cur + ".2"
            v, pp = nxt(env)
            return head + v, phead + pp
        sm_ = self.is_state_method(s)
        if sm_ is not None:
            on_, spec_, args_ = sm_
            if on_ not in env: raise Unsupported("%s: %s is not in scope" % (self.name, on_))
            ats, pres = [], []
            for j_, a_ in enumerate(args_):
                if j_ in spec_.get("skip_args", []): continue
                t_, ty_, p_ = self.expr(a_, env); ats.append(t_); pres.append(p_)
            ats += [env[v_]["lean"] for v_ in spec_.get("extra_vars", [])]
            env = dict(env)
            ln = self.fresh(on_); ty = env[on_]["type"]
            head = "let %s : %s := (%s %s %s)\n%s" % (ln, ty, spec_["fn"], env[on_]["lean"], " ".join(ats), pad)
            env[on_] = dict(lean=ln, type=ty)
            v, pp = nxt(env)
            pc = self.conj(*pres)
            return head + v, (("(%s) &&\n%s" % (pc, pad)) if pc else "") + head + pp
        pb_ = self.is_push_back(s)
        if pb_ is not None:
            # c.push_back(x) on a container modelled as a List (c = a variable, or an element / field reached from one)
            lp = self.lvalue_path(pb_[0])
            if lp is None: raise Unsupported("%s: push_back target" % self.name)
            ct, cty, cp = self.expr(pb_[0], env)
            c_, ety = self.elem_type(cty)
            if c_ != "List": raise Unsupported("%s: push_back on %s" % (self.name, cty))
            xt, xty, xp = self.coerce(*self.expr(pb_[1], env), want=ety)
            env, h_, p_ = self.assign_to(pb_[0], "(%s ++ [%s])" % (ct, xt), cty, env, pad)
            v, pp = nxt(env)
            pc = self.conj(cp, xp, p_)
            return h_ + v, (("(%s) &&\n%s" % (pc, pad)) if pc else "") + h_ + pp
        sw = self.is_swap(s)
        if sw is not None:
            a, b = sw
            if a not in env or b not in env or env[a]["type"] != env[b]["type"]: raise Unsupported("%s: swap operands" % self.name)
            env = dict(env)
            na, nb = self.fresh(a), self.fresh(b)
            head = "let %s : %s := %s\n%slet %s : %s := %s\n%s" % (na, env[a]["type"], env[b]["lean"], pad, nb, env[b]["type"], env[a]["lean"], pad)
            env[a] = dict(lean=na, type=env[a]["type"]); env[b] = dict(lean=nb, type=env[b]["type"])
            v, pp = nxt(env)
            return head + v, head + pp
        tc = self.this_call(s) if getattr(self, "tstruct", None) else None
        if tc is not None:
            g = self.known[tc[0]]
            gmut = any(p_[0] == "this" and p_[3] == "state" for p_ in g.params)
            if gmut:
                if g.ret_type is not None or [o[0] for o in g.outs] != ["this"]:
                    raise Unsupported("%s: statement call of %s with results other than this" % (self.name, tc[0]))
                args, pres, j = [], [], 0
                for (pc, pl, pt, pk) in g.params:
                    if pc == "this": args.append(env["this"]["lean"]); continue
                    t2, ty2, p2 = self.expr(tc[1][j], env); j += 1
                    if ty2 != pt: raise Unsupported("%s: arg type %s for %s" % (self.name, ty2, tc[0]))
                    args.append(t2); pres.append(p2)
                args += [ln_ for ln_, lt_ in g.this_params]
                env = dict(env)
                ln = self.fresh("this")
                env["this"] = dict(lean=ln, type=self.tstruct[1])
                v, pp = nxt(env)
                head = "let %s : %s := (%s %s)\n%s" % (ln, self.tstruct[1], tc[0], " ".join(args), pad)
                pc_ = self.conj(*pres, "%s_pre %s" % (tc[0], " ".join(args)))
                return head + v, "(%s) &&\n%s" % (pc_, pad) + head + pp
        if k == "BreakStmt":
            if getattr(self, "_breakcont", None) is None: raise Unsupported("%s: break outside switch" % self.name)
            return self._breakcont(env)
        if k == "ForStmt":
            return self.for_stmt(s, rest, env, cont, ind)
        if k == "WhileStmt":
            return self.while_stmt(s, rest, env, cont, ind)
        if k == "SwitchStmt":
            return self.switch_stmt(s, rest, env, cont, ind)
        if k == "UnaryOperator" and s.get("opcode") in ("++", "--"):
            tgt = s["inner"][0]
            while tgt.get("kind") in ("ParenExpr",): tgt = tgt["inner"][0]
            if tgt.get("kind") != "DeclRefExpr": raise Unsupported("%s: ++ target" % self.name)
            cn = tgt["referencedDecl"]["name"]
            ty = env[cn]["type"]
            if s["opcode"] == "--" and ty == "Nat": raise Unsupported("%s: -- on unsigned" % self.name)
            env = dict(env)
            cur = env[cn]["lean"]
            ln = self.fresh(cn)
            env[cn] = dict(lean=ln, type=ty)
            v, pp = nxt(env)
            head = "let %s : %s := (%s %s 1)\n%s" % (ln, ty, cur, "+" if s["opcode"] == "++" else "-", pad)
            return head + v, head + pp
        if k == "ReturnStmt":
            inner = [c for c in s.get("inner", []) if isinstance(c, dict)]
            if inner:
                t, ty, p = self.expr(inner[0], env)
                if ty != self.ret_type: raise Unsupported("%s: return type %s vs %s" % (self.name, ty, self.ret_type))
                r = self.ret_tuple(t, env)
                if self._loopctx is not None:
                    return "(some (%s), %s)" % (r, self.carried_tuple(env)), (p or "true")
                return ("some (%s)" % r if getattr(self, "_retwrap", None) else r), (p or "true")
            r = self.ret_tuple(None, env)
            if self._loopctx is not None:
                return "(some (%s), %s)" % (r, self.carried_tuple(env)), "true"
            return ("some (%s)" % r if getattr(self, "_retwrap", None) else r), "true"
        if k == "IfStmt" and self.job.get("skip_if_refs"):
            ctext = json.dumps(s["inner"][0])
            if any(('"name": "%s' % r) in ctext for r in self.job["skip_if_refs"]):
                return nxt(env)        # logging statement (FILE_LOG): no effect on the result
        if k == "IfStmt":
            parts = [c for c in s["inner"] if isinstance(c, dict)]
            c, tc, pc = self.expr(parts[0], env)
            if tc != "Bool": raise Unsupported("%s: non-bool condition" % self.name)
            thn = parts[1]
            els = parts[2] if len(parts) > 2 else {"kind": "NullStmt"}
            pcs = ("(%s) &&\n%s" % (pc, pad)) if pc else ""
            if not self.has_jump(thn) and not self.has_jump(els):
                # tuple-merge the variables assigned in the branches
                vs = sorted(v for v in (self.assigned_vars(thn, set()) | self.assigned_vars(els, set())) if v in env)
                if not vs:
                    # branches without effect (asserts only)
                    tv, tp = self.block([thn], env, lambda e: ("()", "true"), ind + 1)
                    ev, ep = self.block([els], env, lambda e: ("()", "true"), ind + 1)
                    v, p = nxt(env)
                    return v, pcs + "(if %s then (%s) else (%s)) &&\n%s%s" % (c, tp, ep, pad, p)
                def fin(e):
                    vals = [e[v]["lean"] for v in vs]
                    return ("(" + ", ".join(vals) + ")" if len(vals) > 1 else vals[0]), "true"
                tv, tp = self.block([thn], env, fin, ind + 1)
                ev, ep = self.block([els], env, fin, ind + 1)
                env2 = dict(env)
                names = []
                for v in vs:
                    ln = self.fresh(v); names.append(ln); env2[v] = dict(lean=ln, type=env[v]["type"])
                pat = "(" + ", ".join(names) + ")" if len(names) > 1 else names[0]
                tys = " × ".join(env[v]["type"] for v in vs)
                v, p = nxt(env2)
                head = "let %s : %s :=\n%s  if %s then\n%s    %s\n%s  else\n%s    %s\n%s" % (
                    pat, tys, pad, c, pad, tv.replace("\n", "\n  "), pad, pad, ev.replace("\n", "\n  "), pad)
                prepart = ""
                if tp != "true" or ep != "true":
                    prepart = "(if %s then (%s) else (%s)) &&\n%s" % (c, tp, ep, pad)
                return head + v, pcs + prepart + head + p
            # some branch returns.
            t_all, e_all = self.always_jumps(thn), self.always_jumps(els)
            pad1 = "  " * (ind + 1)
            if t_all or e_all or not rest:
                # at most one branch falls through: the continuation is emitted once
                tv, tp = self.block([thn], env, (lambda e: self.block(rest, e, cont, ind + 1)), ind + 1)
                ev, ep = self.block([els], env, (lambda e: self.block(rest, e, cont, ind + 1)), ind + 1)
                val = "if %s then\n%s%s\n%selse\n%s%s" % (c, pad1, tv, pad, pad1, ev)
                pre = pcs + "(if %s then\n%s%s\n%selse\n%s%s)" % (c, pad1, tp, pad, pad1, ep)
                return val, pre
            # both branches may fall through: early-exit encoding, `none` = fell through.
            vs = sorted(v for v in (self.assigned_vars(thn, set()) | self.assigned_vars(els, set())) if v in env)
            if vs:
                # both branches may return or fall through with assignments: the rest of the block is emitted in both
                if getattr(self, "_retwrap", None) or self._loopctx is not None: raise Unsupported("%s: if with early return and assignments inside a loop / early-exit" % self.name)
                tv, tp = self.block([thn], env, (lambda e: self.block(rest, e, cont, ind + 1)), ind + 1)
                ev, ep = self.block([els], env, (lambda e: self.block(rest, e, cont, ind + 1)), ind + 1)
                val = "if %s then\n%s%s\n%selse\n%s%s" % (c, pad1, tv, pad, pad1, ev)
                pre = pcs + "(if %s then\n%s%s\n%selse\n%s%s)" % (c, pad1, tp, pad, pad1, ep)
                return val, pre
            saved = getattr(self, "_retwrap", None)
            self._retwrap = True
            try:
                fall = lambda e: ("none", "true")
                tv, tp = self.block([thn], env, fall, ind + 2)
                ev, ep = self.block([els], env, fall, ind + 2)
            finally:
                self._retwrap = saved
            v, p = nxt(env)
            rty = " × ".join(([self.ret_type] if self.ret_type else []) + [o[2] for o in self.outs]) or "Unit"
            opt = "(if %s then\n%s  %s\n%s else\n%s  %s : Option (%s))" % (c, pad1, tv, pad, pad1, ev, rty)
            wrap = (lambda r: "some (%s)" % r) if saved else (lambda r: r)
            if saved: raise Unsupported("%s: nested early-exit if" % self.name)
            val = "earlyExit %s (\n%s%s)" % (opt, pad1, v)
            pre = pcs + "(if %s then\n%s%s\n%selse\n%s%s) &&\n%searlyExitPre %s (\n%s%s)" % (
                c, pad1, tp, pad, pad1, ep, pad, opt, pad1, p)
            return val, pre
        # expression statement without effect we understand
        raise Unsupported("%s: statement kind %s" % (self.name, k))

    def switch_stmt(self, s, rest, env, cont, ind):
        """switch over an enum whose arms all return (stacked case labels allowed, no fall-through
        between arms); becomes a Lean `match`. A `default:` arm is dropped when the cases are exhaustive."""
        pad = "  " * ind
        parts = [c for c in s["inner"] if isinstance(c, dict)]
        scrut, sty, sp = self.expr(parts[0], env)
        ctors = self.job.get("enum_ctors", {}).get(sty)
        if ctors is None: raise Unsupported("%s: switch on non-enum type %s" % (self.name, sty))
        body = parts[1]
        if body.get("kind") != "CompoundStmt": raise Unsupported("%s: switch body" % self.name)
        arms, cur = [], None          # (labels or None for default, [stmts])
        def open_case(n):
            labels = []
            while n.get("kind") == "CaseStmt":
                lab = n["inner"][0]
                while lab.get("kind") in ("ConstantExpr", "ImplicitCastExpr"): lab = lab["inner"][0]
                t, ty, _ = self.expr(lab, env)
                labels.append(t)
                n = n["inner"][1]
            return labels, n
        for st in body.get("inner", []):
            if st.get("kind") == "CaseStmt":
                labels, first = open_case(st)
                cur = [labels, [first]]; arms.append(cur)
            elif st.get("kind") == "DefaultStmt":
                cur = [None, [st["inner"][0]]]; arms.append(cur)
            else:
                if cur is None: raise Unsupported("%s: statement before first case" % self.name)
                cur[1].append(st)
        covered = [l for a in arms if a[0] for l in a[0]]
        exhaustive = set(covered) == set(ctors)
        if not any(self.has_return({"kind": "CompoundStmt", "inner": a[1]}) for a in arms):
            # arms assign and `break` (no return anywhere): tuple-merge the assigned variables
            vs = sorted({v for a in arms for v in self.assigned_vars({"kind": "CompoundStmt", "inner": a[1]}, set()) if v in env})
            if not vs: raise Unsupported("%s: switch without effect" % self.name)
            def fin(e):
                vals = [e[v]["lean"] for v in vs]
                return ("(" + ", ".join(vals) + ")" if len(vals) > 1 else vals[0]), "true"
            saved = getattr(self, "_breakcont", None)
            self._breakcont = fin
            vals, pres = [], []
            try:
                for labels, stmts in arms:
                    if labels is None and exhaustive: continue
                    v, p = self.block(stmts, env, fin, ind + 2)      # falling off the end of the last arm = leaving the switch
                    pat = " | ".join(labels) if labels else "_"
                    vals.append("%s  | %s =>\n%s      %s" % (pad, pat, pad, v)); pres.append("%s  | %s => %s" % (pad, pat, p))
                if not exhaustive and not any(a[0] is None for a in arms):
                    v, p = fin(env)
                    vals.append("%s  | _ => %s" % (pad, v)); pres.append("%s  | _ => %s" % (pad, p))
            finally:
                self._breakcont = saved
            for labels, stmts in arms[:-1]:
                last = stmts[-1] if stmts else {}
                if last.get("kind") != "BreakStmt": raise Unsupported("%s: switch arm falls through into the next" % self.name)
            env2 = dict(env); names = []
            for v in vs:
                ln = self.fresh(v); names.append(ln); env2[v] = dict(lean=ln, type=env[v]["type"])
            pat = "(" + ", ".join(names) + ")" if len(names) > 1 else names[0]
            tys = " × ".join(env[v]["type"] for v in vs)
            v2, p2 = self.block(rest, env2, cont, ind)
            head = "let %s : %s :=\n%s  match %s with\n%s\n%s" % (pat, tys, pad, scrut, "\n".join(vals), pad)
            prem = "(match %s with\n%s) &&\n%s" % (scrut, "\n".join(pres), pad)
            return head + v2, (("(%s) &&\n%s" % (sp, pad)) if sp else "") + prem + head + p2
        vals, pres = [], []
        for labels, stmts in arms:
            if labels is None and exhaustive: continue
            is_assert_only = all(self.is_assert(x) is not None or x.get("kind") == "NullStmt" for x in stmts)
            if not (self.always_returns({"kind": "CompoundStmt", "inner": stmts}) or is_assert_only):
                raise Unsupported("%s: switch arm falls through" % self.name)
            def unreachable_end(e):
                # arm ended in COLA_ASSERT(false) without return: value irrelevant, pre is false already
                if self.ret_type is None: return self.ret_tuple(None, e), "true"
                return "default", "true"
            v, p = self.block(stmts, env, unreachable_end, ind + 2)
            pat = " | ".join(labels) if labels else "_"
            vals.append("%s| %s => %s" % (pad, pat, v)); pres.append("%s| %s => %s" % (pad, pat, p))
        if rest and not all(self.always_returns({"kind": "CompoundStmt", "inner": a[1]}) or True for a in arms):
            raise Unsupported("%s: code after switch" % self.name)
        val = "match %s with\n%s" % (scrut, "\n".join(vals))
        pre = ("(%s) &&\n%s" % (sp, pad) if sp else "") + "(match %s with\n%s)" % (scrut, "\n".join(pres))
        return val, pre

    def state_pack(self, names):
        return "()" if not names else (names[0] if len(names) == 1 else "(" + ", ".join(names) + ")")

    def state_unpack(self, svar, names, tys, pad):
        """lets that project the components of the right-nested tuple `svar` to `names`"""
        if not names: return ""
        if len(names) == 1: return ""
        out, cur = "", svar
        for i_, (nm, ty) in enumerate(zip(names, tys)):
            last = i_ == len(names) - 1
            out += "let %s : %s := %s\n%s" % (nm, ty, cur if last else cur + ".1", pad)
            cur = cur + ".2"
        return out

    def for_header(self, s, env):
        parts = s["inner"]
        init, cond, inc, body = parts[0], parts[2], parts[3], parts[4]
        if init.get("kind") != "DeclStmt" or len(init["inner"]) != 1: raise Unsupported("%s: for-init" % self.name)
        iv = init["inner"][0]
        iname = iv["name"]
        ity = self.lean_type(iv["type"]["qualType"])[0]
        if ity != "Nat": raise Unsupported("%s: loop index type %s" % (self.name, ity))
        i0, t0, p0 = self.expr(iv["inner"][0], env)
        if t0 != "Nat": raise Unsupported("%s: loop start type %s" % (self.name, t0))
        if cond is None or cond.get("kind") != "BinaryOperator" or cond.get("opcode") != "<": raise Unsupported("%s: for-cond" % self.name)
        cl = cond["inner"][0]
        while cl.get("kind") in ("ImplicitCastExpr", "ParenExpr"): cl = cl["inner"][0]
        if cl.get("kind") != "DeclRefExpr" or cl["referencedDecl"]["name"] != iname: raise Unsupported("%s: for-cond lhs" % self.name)
        bound, tb, pb = self.expr(cond["inner"][1], env)
        if tb != "Nat": raise Unsupported("%s: loop bound type" % self.name)
        it = inc
        while it.get("kind") in ("ParenExpr",): it = it["inner"][0]
        if it.get("kind") != "UnaryOperator" or it.get("opcode") != "++": raise Unsupported("%s: for-inc" % self.name)
        tg = it["inner"][0]
        while tg.get("kind") in ("ParenExpr",): tg = tg["inner"][0]
        if tg.get("kind") != "DeclRefExpr" or tg["referencedDecl"]["name"] != iname: raise Unsupported("%s: for-inc target" % self.name)
        assigned = self.assigned_vars(body, set())
        if iname in assigned: raise Unsupported("%s: loop index assigned in body" % self.name)
        # the bound is evaluated once: it must not depend on anything the body changes
        bvars = self.vars_read(cond["inner"][1])
        for r_ in sorted(bvars & assigned):
            rf, wf = self.read_fields(cond["inner"][1], r_), self.write_fields(body, r_)
            if None in rf or None in wf or (rf & wf):
                raise Unsupported("%s: loop bound depends on %s, assigned in the body" % (self.name, r_))
            # the bound reads fields %s of the elements, the body writes only fields %s: evaluated once
        return iname, i0, bound, self.conj(p0, pb), body, assigned

    def vars_read(self, n, acc=None):
        acc = set() if acc is None else acc
        if n.get("kind") == "DeclRefExpr" and n.get("referencedDecl", {}).get("kind") in ("ParmVarDecl", "VarDecl"):
            acc.add(self.alias.get(n["referencedDecl"]["name"], n["referencedDecl"]["name"]))
        if n.get("kind") == "CXXThisExpr": acc.add("this")
        if n.get("kind") == "MemberExpr" and n.get("isArrow"):
            arr_ = self.ptr_array(n["inner"][0])
            if arr_ is not None: acc.add(arr_)
        for c in n.get("inner", []):
            if isinstance(c, dict): self.vars_read(c, acc)
        return acc

    def read_fields(self, n, root, acc=None):
        """fields through which `n` reads elements of the array `root` (via pointers into it); None in the set = some other read of it"""
        acc = set() if acc is None else acc
        if n.get("kind") == "MemberExpr" and n.get("isArrow") and self.ptr_array(n["inner"][0]) == root:
            acc.add(n["name"])
            self.read_fields(n["inner"][0], root, acc)
            return acc
        if n.get("kind") == "DeclRefExpr" and self.alias.get(n.get("referencedDecl", {}).get("name"), n.get("referencedDecl", {}).get("name")) == root:
            acc.add(None)
        for c in n.get("inner", []):
            if isinstance(c, dict): self.read_fields(c, root, acc)
        return acc

    def write_fields(self, n, root, acc=None):
        """fields of elements of `root` that `n` assigns; None in the set = a write that is not a single field of an element"""
        acc = set() if acc is None else acc
        k = n.get("kind")
        tgt = None
        if k in ("BinaryOperator", "CompoundAssignOperator") and (n.get("opcode", "") == "=" or k == "CompoundAssignOperator"): tgt = n["inner"][0]
        pb_ = self.is_push_back(n)
        if pb_ is not None: tgt = pb_[0]
        if tgt is not None:
            lp = self.lvalue_path(tgt)
            if lp is not None and lp[0] == root:
                fs = [a_[1] for a_ in lp[1] if a_[0] == "field"]
                acc.add(fs[0] if (len(lp[1]) >= 2 and lp[1][0][0] == "idx" and fs) else None)
        sm_ = self.is_state_method(n)
        if sm_ is not None and sm_[0] == root: acc.add(None)
        for c in n.get("inner", []):
            if isinstance(c, dict): self.write_fields(c, root, acc)
        return acc

    def order_carried(self, assigned, env):
        """order of the loop-carried variables in the state tuple: alphabetical (default, what the existing bridges expect) or, with
        job["state_order"] = "decl", the order in which the variables came into scope — stable under renaming"""
        if self.job.get("state_order") == "decl": return [v for v in env if v in assigned]
        return sorted(v for v in assigned if v in env)

    def loop_body(self, body, benv, carried, ind):
        """translate a loop body whose result is the tuple of carried variables; `continue` = end of this iteration"""
        fin = lambda e: (self.state_pack([e[c]["lean"] for c in carried]), "true")
        saved = (self._loopctx, getattr(self, "_retwrap", None), getattr(self, "_breakcont", None), getattr(self, "_contcont", None))
        self._loopctx, self._retwrap, self._breakcont, self._contcont = None, None, None, fin
        try:
            return self.block([body], benv, fin, ind)
        finally:
            self._loopctx, self._retwrap, self._breakcont, self._contcont = saved

    def strip_wrappers(self, n):
        while n.get("kind") in ("ExprWithCleanups", "MaterializeTemporaryExpr", "ImplicitCastExpr", "ParenExpr", "CXXBindTemporaryExpr") or \
                (n.get("kind") == "CXXConstructExpr" and len([c for c in n.get("inner", []) if isinstance(c, dict)]) == 1):
            n = [c for c in n["inner"] if isinstance(c, dict)][0]
        return n

    def shape(self, n):
        """structure of an expression without source locations / ids (to compare the containers of begin() and end())"""
        return (n.get("kind"), n.get("name"), n.get("referencedDecl", {}).get("name"), n.get("opcode"),
                tuple(self.shape(c) for c in n.get("inner", []) if isinstance(c, dict)))

    def for_each(self, s, rest, env, cont, ind):
        """`for (C::iterator o = c.begin(); o != c.end(); ++o) body` where the body reads the iterator only through `*o` / `o->`
        and does not change the container: `forEach (fun x state => body) c state`"""
        pad = "  " * ind
        parts = s["inner"]
        init, cond, inc, body = parts[0], parts[2], parts[3], parts[4]
        if len(init["inner"]) != 1: raise Unsupported("%s: iterator loop init" % self.name)
        iv = init["inner"][0]
        oname = iv["name"]
        b_ = self.strip_wrappers(iv["inner"][0])
        if b_.get("kind") != "CXXMemberCallExpr" or b_["inner"][0].get("name") != "begin": raise Unsupported("%s: iterator loop must start at begin()" % self.name)
        cnode = b_["inner"][0]["inner"][0]
        c_ = self.strip_wrappers(cond) if cond is not None else {}
        ok = c_.get("kind") == "CXXOperatorCallExpr"
        if ok:
            ci = [x for x in c_["inner"] if isinstance(x, dict)]
            callee = self.strip_wrappers(ci[0])
            ok = callee.get("referencedDecl", {}).get("name") == "operator!=" and len(ci) == 3
        if ok:
            l_, r_ = self.strip_wrappers(ci[1]), self.strip_wrappers(ci[2])
            ok = l_.get("kind") == "DeclRefExpr" and l_["referencedDecl"]["name"] == oname and r_.get("kind") == "CXXMemberCallExpr" \
                and r_["inner"][0].get("name") == "end" and self.shape(self.strip_wrappers(r_["inner"][0]["inner"][0])) == self.shape(self.strip_wrappers(cnode))
        if not ok: raise Unsupported("%s: iterator loop condition must be `it != c.end()` on the same container" % self.name)
        i_ = self.strip_wrappers(inc) if inc is not None else {}
        ii = [x for x in i_.get("inner", []) if isinstance(x, dict)]
        if not (i_.get("kind") == "CXXOperatorCallExpr" and self.strip_wrappers(ii[0]).get("referencedDecl", {}).get("name") == "operator++"
                and self.strip_wrappers(ii[1]).get("referencedDecl", {}).get("name") == oname):
            raise Unsupported("%s: iterator loop increment" % self.name)
        ct, cty, cp = self.expr(cnode, env)
        ck, ety = self.elem_type(cty)
        if ck != "List": raise Unsupported("%s: iterator loop over %s" % (self.name, cty))
        assigned = self.assigned_vars(body, set())
        if oname in assigned: raise Unsupported("%s: iterator assigned in the loop body" % self.name)
        if self.vars_read(cnode) & assigned: raise Unsupported("%s: the loop body changes the container it iterates over" % self.name)
        carried = self.order_carried(assigned, env)
        if not carried: raise Unsupported("%s: loop without effect" % self.name)
        ctys = [env[c]["type"] for c in carried]
        benv = dict(env)
        xln = self.fresh("item")
        benv[oname] = dict(lean=xln, type=ety, iter=True)
        cnames = []
        for c in carried:
            ln = self.fresh(c); cnames.append(ln); benv[c] = dict(lean=ln, type=env[c]["type"])
        svar = cnames[0] if len(carried) == 1 else self.fresh("st")
        sty = " × ".join(ctys)
        pad2 = "  " * (ind + 2)
        unpack = self.state_unpack(svar, cnames, ctys, pad2)
        bv, bp = self.loop_body(body, benv, carried, ind + 2)
        used = self.vars_read(body)
        keep_all = bool(self.paths)
        fixed = [(c, env[c]["lean"], env[c]["type"]) for c in env if c not in carried and (keep_all or c in used) and not env[c].get("iter")]
        self.nloops += 1
        hname = "%s_body%d" % (self.name, self.nloops)
        xp_ = list(self.job.get("extra_params", {}).get(self.name, []))
        if "fuel_" in bv: xp_.append(("fuel_", "Nat"))          # the body calls a function that runs a while loop on fuel
        fixed_sig = "".join("(%s : %s) " % (l, t) for _, l, t in fixed) + "".join("(%s : %s) " % (l, t) for l, t in xp_)
        fixed_args = "".join(" " + l for _, l, t in fixed) + "".join(" " + l for l, t in xp_)
        self.helpers.append(
            "def %s %s(%s : %s) (%s : %s) : %s :=\n  %s%s\n\n" % (hname, fixed_sig, xln, ety, svar, sty, sty, unpack.replace(pad2, "  "), bv.replace("\n" + pad2, "\n  ")) +
            "def %s_pre %s(%s : %s) (%s : %s) : Bool :=\n  %s%s\n\n" % (hname, fixed_sig, xln, ety, svar, sty, unpack.replace(pad2, "  "), bp.replace("\n" + pad2, "\n  ")))
        s0 = self.state_pack([env[c]["lean"] for c in carried])
        env2 = dict(env)
        outnames = []
        for c in carried:
            ln = self.fresh(c); outnames.append(ln); env2[c] = dict(lean=ln, type=env[c]["type"])
        if len(carried) == 1:
            rvar, post = outnames[0], ""
        else:
            rvar = self.fresh("st")
            post = self.state_unpack(rvar, outnames, ctys, pad)
        head = "let %s : %s := forEach (%s%s) %s %s\n%s%s" % (rvar, sty, hname, fixed_args, ct, s0, pad, post)
        v, p = self.block(rest, env2, cont, ind)
        pre = "forEachPre (%s_pre%s) (%s%s) %s %s &&\n%s" % (hname, fixed_args, hname, fixed_args, ct, s0, pad)
        if cp: pre = "(%s) &&\n%s%s" % (cp, pad, pre)
        return head + v, pre + head + p

    def while_stmt(self, s, rest, env, cont, ind):
        """`while (cond) body` without return/break in the body, at the top level of the function: `whileLoop cond body fuel_ state`
        with an extra parameter `fuel_` of the generated function; `_pre` demands that the loop has terminated when the fuel is used up"""
        pad = "  " * ind
        if self._loopctx is not None or getattr(self, "_retwrap", None) or getattr(self, "_in_helper", 0):
            raise Unsupported("%s: while loop inside another loop" % self.name)
        parts = [c for c in s["inner"] if isinstance(c, dict)]
        cond, body = parts[0], parts[1]
        if self.has_return(body): raise Unsupported("%s: return inside a while loop" % self.name)
        assigned = self.assigned_vars(body, set())
        carried = self.order_carried(assigned, env)
        if not carried: raise Unsupported("%s: while loop without effect" % self.name)
        ctys = [env[c]["type"] for c in carried]
        benv = dict(env)
        cnames = []
        for c in carried:
            ln = self.fresh(c); cnames.append(ln); benv[c] = dict(lean=ln, type=env[c]["type"])
        svar = cnames[0] if len(carried) == 1 else self.fresh("st")
        sty = " × ".join(ctys)
        pad2 = "  " * (ind + 2)
        unpack = self.state_unpack(svar, cnames, ctys, pad2)
        ct, cty_, cp = self.expr(cond, benv)
        if cty_ != "Bool": raise Unsupported("%s: while condition of type %s" % (self.name, cty_))
        self._in_helper = getattr(self, "_in_helper", 0) + 1
        try:
            bv, bp = self.loop_body(body, benv, carried, ind + 2)
        finally:
            self._in_helper -= 1
        used = self.vars_read(body) | self.vars_read(cond)
        keep_all = bool(self.paths) or bool(getattr(self, "tstruct", None))
        fixed = [(c, env[c]["lean"], env[c]["type"]) for c in env if c not in carried and (keep_all or c in used)]
        xp_ = list(self.job.get("extra_params", {}).get(self.name, []))
        fixed_sig = "".join("(%s : %s) " % (l, t) for _, l, t in fixed) + "".join("(%s : %s) " % (l, t) for l, t in xp_)
        fixed_args = "".join(" " + l for _, l, t in fixed) + "".join(" " + l for l, t in xp_)
        self.nloops += 1
        hname = "%s_while%d" % (self.name, self.nloops)
        up_ = unpack.replace(pad2, "  ")
        self.helpers.append(
            "def %s_cond %s(%s : %s) : Bool :=\n  %s%s\n\n" % (hname, fixed_sig, svar, sty, up_, ct) +
            "def %s_cond_pre %s(%s : %s) : Bool :=\n  %s%s\n\n" % (hname, fixed_sig, svar, sty, up_, cp or "true") +
            "def %s_body %s(%s : %s) : %s :=\n  %s%s\n\n" % (hname, fixed_sig, svar, sty, sty, up_, bv.replace("\n" + pad2, "\n  ")) +
            "def %s_body_pre %s(%s : %s) : Bool :=\n  %s%s\n\n" % (hname, fixed_sig, svar, sty, up_, bp.replace("\n" + pad2, "\n  ")))
        self.uses_fuel = True
        s0 = self.state_pack([env[c]["lean"] for c in carried])
        env2 = dict(env)
        outnames = []
        for c in carried:
            ln = self.fresh(c); outnames.append(ln); env2[c] = dict(lean=ln, type=env[c]["type"])
        if len(carried) == 1:
            rvar, post = outnames[0], ""
        else:
            rvar = self.fresh("st")
            post = self.state_unpack(rvar, outnames, ctys, pad)
        call = "whileLoop (%s_cond%s) (%s_body%s) fuel_ %s" % (hname, fixed_args, hname, fixed_args, s0)
        head = "let %s : %s := %s\n%s%s" % (rvar, sty, call, pad, post)
        v, p = self.block(rest, env2, cont, ind)
        pre = "whileLoopPre (%s_cond_pre%s) (%s_cond%s) (%s_body_pre%s) (%s_body%s) fuel_ %s &&\n%s" % (
            hname, fixed_args, hname, fixed_args, hname, fixed_args, hname, fixed_args, s0, pad)
        return head + v, pre + head + p

    def for_range(self, s, rest, env, cont, ind):
        """`for (unsigned i = e0; i < bound; ++i) body` with no `return` in the body (nesting allowed):
        `forRange (fun i state => body) (bound - e0) e0 state`, state = the variables the body assigns"""
        pad = "  " * ind
        iname, i0, bound, phdr, body, assigned = self.for_header(s, env)
        carried = self.order_carried(assigned, env)
        if not carried: raise Unsupported("%s: loop without effect" % self.name)
        ctys = [env[c]["type"] for c in carried]
        benv = dict(env)
        iln = self.fresh(iname)
        benv[iname] = dict(lean=iln, type="Nat")
        cnames = []
        for c in carried:
            ln = self.fresh(c); cnames.append(ln); benv[c] = dict(lean=ln, type=env[c]["type"])
        if len(carried) == 1:
            svar = cnames[0]
        else:
            svar = self.fresh("st")
        sty = " × ".join(ctys)
        pad2 = "  " * (ind + 2)
        unpack = self.state_unpack(svar, cnames, ctys, pad2)
        bv, bp = self.loop_body(body, benv, carried, ind + 2)
        # the body becomes a named definition `<f>_body<k> <fixed variables> i state` (+ `_pre`), so that the text stays
        # linear in the nesting depth and bridge lemmas can be stated per loop body
        used = self.vars_read(body)
        keep_all = bool(self.paths) or bool(getattr(self, "tstruct", None))
        fixed = [(c, env[c]["lean"], env[c]["type"]) for c in env if c not in carried and (keep_all or c in used)]
        self.nloops += 1
        hname = "%s_body%d" % (self.name, self.nloops)
        xp_ = list(self.job.get("extra_params", {}).get(self.name, []))
        if "fuel_" in bv: xp_.append(("fuel_", "Nat"))          # the body calls a function that runs a while loop on fuel
        fixed_sig = "".join("(%s : %s) " % (l, t) for _, l, t in fixed) + "".join("(%s : %s) " % (l, t) for l, t in xp_)
        fixed_args = "".join(" " + l for _, l, t in fixed) + "".join(" " + l for l, t in xp_)
        self.helpers.append(
            "def %s %s(%s : Nat) (%s : %s) : %s :=\n  %s%s\n\n" % (hname, fixed_sig, iln, svar, sty, sty, unpack.replace(pad2, "  "), bv.replace("\n" + pad2, "\n  ")) +
            "def %s_pre %s(%s : Nat) (%s : %s) : Bool :=\n  %s%s\n\n" % (hname, fixed_sig, iln, svar, sty, unpack.replace(pad2, "  "), bp.replace("\n" + pad2, "\n  ")))
        lam_v = "(%s%s)" % (hname, fixed_args)
        lam_p = "(%s_pre%s)" % (hname, fixed_args)
        s0 = self.state_pack([env[c]["lean"] for c in carried])
        env2 = dict(env)
        outnames = []
        for c in carried:
            ln = self.fresh(c); outnames.append(ln); env2[c] = dict(lean=ln, type=env[c]["type"])
        if len(carried) == 1:
            rvar, post = outnames[0], ""
        else:
            rvar = self.fresh("st")
            post = self.state_unpack(rvar, outnames, ctys, pad)
        call = "forRange %s (%s - %s) %s %s" % (lam_v, bound, i0, i0, s0)
        head = "let %s : %s := %s\n%s%s" % (rvar, sty, call, pad, post)
        v, p = self.block(rest, env2, cont, ind)
        pre = "forRangePre %s %s (%s - %s) %s %s &&\n%s" % (lam_p, lam_v, bound, i0, i0, s0, pad)
        if phdr: pre = "(%s) &&\n%s%s" % (phdr, pad, pre)
        return head + v, pre + head + p

    def carried_tuple(self, env):
        cs = self._loopctx["carried"]
        if not cs: return "()"
        vals = [env[c]["lean"] for c in cs]
        return vals[0] if len(vals) == 1 else "(" + ", ".join(vals) + ")"

    def for_stmt(self, s, rest, env, cont, ind):
        """for (T i = e0; i < bound; i++ / ++i) body  with early `return` allowed in body.
        Emitted as a structurally recursive helper on fuel = bound - e0 carrying the variables the
        body assigns; the result is (Option <function result>, carried state)."""
        pad = "  " * ind
        parts = s["inner"]
        init, cond, inc, body = parts[0], parts[2], parts[3], parts[4]
        if init is not None and init.get("kind") == "DeclStmt" and "iterator" in init["inner"][0].get("type", {}).get("qualType", ""):
            if self.has_return(body): raise Unsupported("%s: return inside an iterator loop" % self.name)
            return self.for_each(s, rest, env, cont, ind)
        if not self.has_return(body):
            return self.for_range(s, rest, env, cont, ind)
        if self._loopctx is not None: raise Unsupported("%s: nested loops with return" % self.name)
        if getattr(self, "_retwrap", None): raise Unsupported("%s: loop inside early-exit if" % self.name)
        if init.get("kind") != "DeclStmt" or len(init["inner"]) != 1: raise Unsupported("%s: for-init" % self.name)
        iv = init["inner"][0]
        iname = iv["name"]
        ity = self.lean_type(iv["type"]["qualType"])[0]
        if ity != "Nat": raise Unsupported("%s: loop index type %s" % (self.name, ity))
        i0, t0, p0 = self.expr(iv["inner"][0], env)
        if cond.get("kind") != "BinaryOperator" or cond.get("opcode") != "<": raise Unsupported("%s: for-cond" % self.name)
        cl = cond["inner"][0]
        while cl.get("kind") in ("ImplicitCastExpr", "ParenExpr"): cl = cl["inner"][0]
        if cl.get("kind") != "DeclRefExpr" or cl["referencedDecl"]["name"] != iname: raise Unsupported("%s: for-cond lhs" % self.name)
        bound, tb, pb = self.expr(cond["inner"][1], env)
        if tb != "Nat": raise Unsupported("%s: loop bound type" % self.name)
        it = inc
        while it.get("kind") in ("ParenExpr",): it = it["inner"][0]
        if it.get("kind") != "UnaryOperator" or it.get("opcode") != "++": raise Unsupported("%s: for-inc" % self.name)
        assigned = self.assigned_vars(body, set())
        if iname in assigned: raise Unsupported("%s: loop index assigned in body" % self.name)
        carried = self.order_carried(assigned, env)
        self.nloops += 1
        hname = "%s_loop%d" % (self.name, self.nloops)
        fixed = [(c, env[c]["lean"], env[c]["type"]) for c in env if c not in carried]
        fixed_sig = " ".join("(%s : %s)" % (l, t) for _, l, t in fixed)
        fixed_args = " ".join(l for _, l, t in fixed)
        rty = " × ".join(([self.ret_type] if self.ret_type else []) + [o[2] for o in self.outs]) or "Unit"
        cty = " × ".join(env[c]["type"] for c in carried) or "Unit"
        # environment inside the helper: fresh names for index and carried variables
        benv = dict(env)
        iln = self.fresh(iname)
        benv[iname] = dict(lean=iln, type="Nat")
        cnames = []
        for c in carried:
            ln = self.fresh(c); cnames.append(ln); benv[c] = dict(lean=ln, type=env[c]["type"])
        self._loopctx = dict(carried=carried)
        def again(e):
            cargs = " ".join(e[c]["lean"] for c in carried)
            call = "%s %s loopBound_ fuel_ (%s + 1) %s" % (hname, fixed_args, iln, cargs)
            callp = "%s_pre %s loopBound_ fuel_ (%s + 1) %s" % (hname, fixed_args, iln, cargs)
            return call.rstrip(), callp.rstrip()
        try:
            bv, bp = self.block([body], benv, again, 3)
        finally:
            self._loopctx = None
        cpat = " ".join(cnames)
        done = "(none, %s)" % (("(" + ", ".join(cnames) + ")") if len(cnames) > 1 else (cnames[0] if cnames else "()"))
        ctys = " → ".join(env[c]["type"] for c in carried)
        arrow = (" → " + ctys) if carried else ""
        self.helpers.append(
            "def %s %s (loopBound_ : Nat) : Nat → Nat%s → Option (%s) × (%s)\n  | 0, %s%s => %s\n  | fuel_ + 1, %s%s =>\n      %s\n\n"
            % (hname, fixed_sig, arrow, rty, cty, iln, (", " + ", ".join(cnames)) if cnames else "", done,
               iln, (", " + ", ".join(cnames)) if cnames else "", bv) +
            "def %s_pre %s (loopBound_ : Nat) : Nat → Nat%s → Bool\n  | 0, %s%s => true\n  | fuel_ + 1, %s%s =>\n      %s\n\n"
            % (hname, fixed_sig, arrow, iln, (", " + ", ".join(cnames)) if cnames else "",
               iln, (", " + ", ".join(cnames)) if cnames else "", bp))
        # use in the enclosing function
        env2 = dict(env)
        outnames = []
        for c in carried:
            ln = self.fresh(c); outnames.append(ln); env2[c] = dict(lean=ln, type=env[c]["type"])
        v, p = self.block(rest, env2, cont, ind)
        cargs0 = " ".join(env[c]["lean"] for c in carried)
        call = "(%s %s %s (%s - %s) %s %s)" % (hname, fixed_args, bound, bound, i0, i0, cargs0)
        callp = "(%s_pre %s %s (%s - %s) %s %s)" % (hname, fixed_args, bound, bound, i0, i0, cargs0)
        lam = "fun %s => " % (("(" + ", ".join(outnames) + ")") if len(outnames) > 1 else (outnames[0] if outnames else "_"))
        wrap = "some (r_)" if getattr(self, "_retwrap", None) else None
        val = "loopExit %s (%s\n%s  %s)" % (call, lam, pad, v)
        pre = "%s &&\n%sloopExitPre %s (%s\n%s  %s)" % (callp, pad, call, lam, pad, p)
        pc = self.conj(p0, pb)
        if pc: pre = "(%s) &&\n%s%s" % (pc, pad, pre)
        return val, pre

    def translate(self):
        env = {}
        for (cn, ln, lt, kind) in self.params:
            env[cn] = dict(lean=ln, type=lt)
        body = [c for c in self.decl["inner"] if c.get("kind") == "CompoundStmt"][0]
        sig = []
        for (cn, ln, lt, kind) in self.params:
            if kind in ("val", "state"): sig.append("(%s : %s)" % (ln, lt))
        extra = self.job.get("extra_params", {}).get(self.name, [])
        for (ln, lt) in list(extra) + self.this_params: sig.append("(%s : %s)" % (ln, lt))
        sig_fuel_at = len(sig)
        # out params start as `default` locals
        pre_lets = ""
        for (cn, ln, lt, kind) in self.outs:
            if kind == "out": pre_lets += "let %s : %s := default\n  " % (ln, lt)
        for mn_, mt_ in self.job.get("member_locals", {}).items():
            # a pointer member that the function assigns before it reads it and whose value the kernel's result does not include
            if not mt_.startswith("Option "): raise Unsupported("member_locals: %s must be a pointer (Option)" % mn_)
            ln_ = self.fresh(mn_)
            env[mn_] = dict(lean=ln_, type=mt_)
            pre_lets += "let %s : %s := none\n  " % (ln_, mt_)
        def end(e):
            if self.ret_type is not None:
                raise Unsupported("%s: control reaches end of non-void function" % self.name)
            return self.ret_tuple(None, e), "true"
        val, pre = self.block(body.get("inner", []) if self.frag_stmt is None else [self.frag_stmt], env, end, 1)
        rty = " × ".join(([self.ret_type] if self.ret_type else []) + [o[2] for o in self.outs]) or "Unit"
        if getattr(self, "uses_fuel", False): sig.insert(sig_fuel_at, "(fuel_ : Nat)")
        out = "".join(self.helpers)
        out += "def %s %s : %s :=\n  %s%s\n\n" % (self.name, " ".join(sig), rty, pre_lets, val)
        out += "def %s_pre %s : Bool :=\n  %s%s\n\n" % (self.name, " ".join(sig), pre_lets, pre)
        tps = self.job.get("type_params", [])
        if tps:
            tp_ = " ".join("{%s : Type}" % t_ for t_ in tps)
            out = re.sub(r"(?m)^def (\S+) ", lambda m_: "def %s %s " % (m_.group(1), tp_), out)
        return out


PRELUDE = """/-
GENERATED by tools/cpp2lean/cpp2lean.py from {src}
Do not edit: regenerated from /repo's working tree on every check run.
Each C++ function f becomes `f` (value) and `f_pre` (all reached assertions hold).
-/
import AdaptaVerif.Gen.Prelude
{imports}
namespace {ns}
open AdaptaVerif.Gen
{opens}
set_option linter.unusedVariables false

"""


def const_value(docs, name, lookup, redump=None):
    """numeric value of a `static const T name = <literal | other constant | -literal>` or enum constant"""
    found = []
    enum_parent = []
    def walk(n, parent=None):
        if n.get("kind") in ("VarDecl", "EnumConstantDecl") and n.get("name") == name:
            if n.get("inner"): found.append(n)
            elif n.get("kind") == "EnumConstantDecl" and parent is not None and parent.get("kind") == "EnumDecl":
                enum_parent.append(parent)
        for c in n.get("inner", []):
            if isinstance(c, dict): walk(c, n)
    for d in docs:
        if d.get("kind") == "EnumConstantDecl" and d.get("name") == name and not d.get("inner") and redump is not None:
            # the filter dumped the bare enumerator: dump its enum (named by the enumerator's type) to count positions
            en = d["type"]["qualType"].split("::")[-1]
            def walk2(n):
                if n.get("kind") == "EnumDecl" and any(c.get("name") == name for c in n.get("inner", [])): enum_parent.append(n)
                for c in n.get("inner", []):
                    if isinstance(c, dict): walk2(c)
            for d2 in redump(en): walk2(d2)
        walk(d)
    def ev(n):
        k = n.get("kind")
        if k in ("ImplicitCastExpr", "ParenExpr", "ConstantExpr", "CStyleCastExpr", "CXXStaticCastExpr"): return ev(n["inner"][0])
        if k == "IntegerLiteral": return int(n["value"])
        if k == "FloatingLiteral": return float(n["value"])
        if k == "UnaryOperator" and n.get("opcode") == "-": return -ev(n["inner"][0])
        if k == "DeclRefExpr": return lookup(n["referencedDecl"]["name"])
        raise Unsupported("constant %s: initialiser kind %s" % (name, k))
    for n in found:
        inner = [c for c in n["inner"] if isinstance(c, dict) and c.get("kind") not in ("FullComment",)]
        if inner:
            return ev(inner[-1])
    for par in enum_parent:
        if par is None: continue
        # enumerator without initialiser: previous enumerator + 1 (first: 0), C++ [dcl.enum]
        val = -1
        for c in par.get("inner", []):
            if c.get("kind") != "EnumConstantDecl": continue
            init = [x for x in c.get("inner", []) if isinstance(x, dict) and x.get("kind") not in ("FullComment",)]
            val = ev(init[-1]) if init else val + 1
            if c.get("name") == name: return val
    raise Unsupported("constant %s: no definition with initialiser found" % name)


def resolve_constants(job, src, incl):
    """job['auto_constants'] = {name: lean type}: values are read from the C++ source, not hard-coded"""
    names = job.get("auto_constants", {})
    if not names: return
    cache = {}
    def lookup(nm):
        if nm not in cache:
            cache[nm] = const_value(clang_ast(src, nm, incl), nm, lookup, lambda en: clang_ast(src, en, incl))
        return cache[nm]
    consts = dict(job.get("constants", {})); enums = dict(job.get("enums", {}))
    for nm, lt in names.items():
        v = lookup(nm)
        if lt in ("Nat", "Int"):
            if v != int(v) or (lt == "Nat" and v < 0): raise Unsupported("constant %s = %r is not a %s" % (nm, v, lt))
            txt = "(%d : %s)" % (int(v), lt)
        else:
            f = float(v); n_, d_ = f.as_integer_ratio()
            txt = "(%d : Rat)" % n_ if d_ == 1 else "(%d / %d : Rat)" % (n_, d_)
        consts[nm] = (txt, lt); enums[nm] = (txt, lt)
    job["constants"], job["enums"] = consts, enums


def run_job(job, repo):
    """job: dict(src=relative path, functions=[...], ns=..., out=path, imports=[...], opens=[...]);
    or dict(parts=[{src, functions, ...overrides}], ns, out, ...): several sources into one Lean file"""
    if "parts" in job:
        text, known = "", {}
        # all clang invocations of all parts run concurrently (one process per function)
        pjs = []
        for part in job["parts"]:
            pj = dict(job); pj.pop("parts"); pj.update(part); pjs.append(pj)
        with ThreadPoolExecutor(16) as ex:
            futs = [[ex.submit(clang_ast, str(repo / pj["src"]), pj.get("filters", {}).get(fn, fn), str(repo / "cola"), "gnu++11", pj.get("shim"))
                     for fn in pj["functions"]] for pj in pjs]
            pre = [[f.result() for f in fs] for fs in futs]
        for part, pj, asts in zip(job["parts"], pjs, pre):
            t, k = run_job_body(pj, repo, known, asts)
            text += "-- from %s\n%s" % (part["src"], t)
            known.update(k)
        head = PRELUDE.format(src=job.get("src_label") or ", ".join(p_["src"] for p_ in job["parts"]), ns=job["ns"],
                              imports="\n".join("import " + i for i in job.get("imports", [])),
                              opens="\n".join("open " + o for o in job.get("opens", [])))
        return head + text + "end %s\n" % job["ns"], known
    known0 = dict(job.get("known", {}))
    for dep in job.get("known_from", []):
        # functions of another job that this one calls: translated again only to learn their signatures (text discarded);
        # the generated file imports / opens that job's namespace
        _, kdep = run_job(dep, repo)
        known0.update(kdep)
    text, known = run_job_body(job, repo, known0)
    head = PRELUDE.format(src=job["src"], ns=job["ns"],
                          imports="\n".join("import " + i for i in job.get("imports", [])),
                          opens="\n".join("open " + o for o in job.get("opens", [])))
    return head + text + "end %s\n" % job["ns"], known


def run_job_body(job, repo, known, asts=None):
    src = str(repo / job["src"])
    incl = str(repo / "cola")
    job = dict(job)
    resolve_constants(job, src, incl)
    if asts is None:
      with ThreadPoolExecutor(16) as ex:
        asts = list(ex.map(lambda fn: clang_ast(src, job.get("filters", {}).get(fn, fn), incl, shim=job.get("shim")), job["functions"]))
    text = ""
    if job.get("emit_constants"):
        # the values read from the C++ also become Lean constants `k_<name>` that tie theorems can mention
        for nm, lt in job.get("auto_constants", {}).items():
            text += "def k_%s : %s := %s\n" % (nm, lt, job["constants"][nm][0])
        text += "\n"
    for fn, docs in zip(job["functions"], asts):
        decl = find_def(docs, fn, job.get("classes", {}).get(fn), job.get("sig_contains", {}).get(fn))
        ft = FnTrans(job, decl, known)
        text += ft.translate()
        known[ft.name] = ft
    return text, known


def write_if_changed(path, text):
    if path.exists() and path.read_text() == text: return False
    path.parent.mkdir(parents=True, exist_ok=True)
    path.write_text(text)
    return True
