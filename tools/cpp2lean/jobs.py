"""Translation jobs (function whitelists) for cpp2lean. Order inside a job = dependency order."""
from pathlib import Path
import sys
sys.path.insert(0, str(Path(__file__).resolve().parent))
import cpp2lean

GEOMETRY = dict(
    src="cola/libavoid/geometry.cpp",
    ns="AdaptaVerif.Gen.Geometry",
    out="lean/AdaptaVerif/Gen/Geometry.lean",
    functions=["vecDir", "inBetween", "colinear", "pointOnLine", "segmentIntersect",
               "inValidRegion", "cornerSide", "segmentIntersectPoint", "rayIntersectPoint", "inPoly"],
    auto_constants={"DONT_INTERSECT": "Int", "DO_INTERSECT": "Int", "PARALLEL": "Int"},      # values read from geometry.h
)

MAKEPATH = dict(
    ns="AdaptaVerif.Gen.Makepath",
    out="lean/AdaptaVerif/Gen/Makepath.lean",
    imports=["AdaptaVerif.Model.EstimateKeys"],
    opens=["AdaptaVerif.Model.EstimateKeys"],
    parts=[
        dict(src="cola/libavoid/geometry.cpp", functions=["manhattanDist"]),
        dict(src="cola/libavoid/makepath.cpp",
             functions=["dimDirection", "orthogonalDirectionsCount", "orthogonalDirection", "dirRight", "dirLeft", "dirReverse", "bends",
                        "estimatedCostSpecific"],
             auto_constants={"CostDirectionN": "Nat", "CostDirectionE": "Nat", "CostDirectionS": "Nat", "CostDirectionW": "Nat",
                             "ConnType_PolyLine": "Nat"},
             # estimatedCostSpecific(lineRef, last, curr, costTar, costTarDirs): what it reads of the connector and of the
             # cost target are fields of small records; `last` may be null; the Euclidean distance (sqrt) stays uninterpreted
             types={"ConnRef": "ConnK", "VertInf": "Pt"}, ptr_vals=["ConnRef", "VertInf"], opt_ptrs=["Point"],
             paths={"lineRef.routingType()": ("lineRef.connType", "Nat"),
                    "lineRef.router().routingParameter(segmentPenalty)": ("lineRef.segmentPenalty", "Rat"),
                    "costTar.point": ("costTar", "Pt")},
             opaque_calls={"euclideanDist": ("euclid", "Rat")},
             extra_params={"estimatedCostSpecific": [("euclid", "Pt → Pt → Rat")]}),
    ],
)

_SD = ["east", "south", "west", "north", "right", "down", "left", "up"]
SEPDIR = dict(
    src="cola/libdialect/constraints.cpp",
    ns="AdaptaVerif.Gen.SepDir",
    out="lean/AdaptaVerif/Gen/SepDir.lean",
    imports=["AdaptaVerif.Model.Sep"],
    opens=["AdaptaVerif.Model.Sep (SepDir)"],
    functions=["negateSepDir", "sepDirIsCardinal", "lateralWeakening", "cardinalStrengthening"],
    types={"SepDir": "SepDir"},
    enums={n.upper(): ("SepDir." + n, "SepDir") for n in _SD},
    enum_ctors={"SepDir": ["SepDir." + n for n in _SD]},
)

_TP = [("p", "Rat"), ("g", "Rat"), ("leftOf", "Bool"), ("u1", "Rat"), ("u2", "Rat"), ("v1", "Rat"), ("v2", "Rat"), ("w1", "Rat"), ("w2", "Rat")]
TRI = dict(
    src="cola/libtopology/topology_constraints.cpp",
    ns="AdaptaVerif.Gen.Tri",
    out="lean/AdaptaVerif/Gen/Tri.lean",
    functions=["slack", "slackAtFinal", "slackAtInitial", "maxSafeAlpha"],
    filters={f: "TriConstraint::" + f for f in ["slack", "slackAtFinal", "slackAtInitial", "maxSafeAlpha"]},
    # TriConstraint members / the three Node* it points to become explicit parameters of every kernel
    this_params=_TP,
    members_all={"p": ("p", "Rat"), "g": ("g", "Rat"), "leftOf": ("leftOf", "Bool")},
    member_calls={("u", "initialPos"): ("u1", "Rat"), ("u", "finalPos"): ("u2", "Rat"),
                  ("v", "initialPos"): ("v1", "Rat"), ("v", "finalPos"): ("v2", "Rat"),
                  ("w", "initialPos"): ("w1", "Rat"), ("w", "finalPos"): ("w2", "Rat")},
    skip_if_refs=["logDEBUG", "logERROR", "logWARNING", "logINFO"],
)

_TF = ["rotate90cw", "rotate90acw", "rotate180", "flipv", "fliph", "flipmd", "flipod"]
_SPENUMS = {"ROTATE90CW": ("SepTransform.rotate90cw", "SepTransform"), "ROTATE90ACW": ("SepTransform.rotate90acw", "SepTransform"),
            "ROTATE180": ("SepTransform.rotate180", "SepTransform"), "FLIPV": ("SepTransform.flipv", "SepTransform"),
            "FLIPH": ("SepTransform.fliph", "SepTransform"), "FLIPMD": ("SepTransform.flipmd", "SepTransform"),
            "FLIPOD": ("SepTransform.flipod", "SepTransform"),
            "CENTRE": ("GapType.centre", "GapType"), "BDRY": ("GapType.bdry", "GapType"),
            "NONE": ("SepType.none", "SepType"), "EQ": ("SepType.eq", "SepType"), "INEQ": ("SepType.ineq", "SepType"),
            "XDIM": ("Dim.x", "Dim"), "YDIM": ("Dim.y", "Dim")}
_SPENUMS.update({n.upper(): ("SepDir." + n, "SepDir") for n in _SD})
_SPM = ["addSep", "roundGapsUpAbs", "isVerticalCardinal", "isHorizontalCardinal", "isVAlign", "isHAlign", "isCardinal", "hasConstraintInDim"]
SEPPAIR = dict(
    ns="AdaptaVerif.Gen.SepPair",
    out="lean/AdaptaVerif/Gen/SepPair.lean",
    imports=["AdaptaVerif.Model.Sep"],
    opens=["AdaptaVerif.Model.Sep (SepTransform SepType GapType SepDir Dim SepPair)", "AdaptaVerif.Num (SZ)"],
    types={"SepTransform": "SepTransform", "SepType": "SepType", "GapType": "GapType", "SepDir": "SepDir", "Dim": "Dim", "double": "SZ"},
    enums=_SPENUMS,
    # the model has an extra constructor `ident` (no C++ counterpart): the switch is not exhaustive in Lean
    enum_ctors={"SepTransform": ["SepTransform.ident"] + ["SepTransform." + n for n in _TF], "SepDir": ["SepDir." + n for n in _SD]},
    parts=[
        # members of SepPair that transform() reads and writes: inputs and results of the generated function
        dict(src="cola/libdialect/constraints.cpp", functions=["transform"], filters={"transform": "SepPair::transform"},
             state_members={"transform": [("xst", "xst", "SepType"), ("yst", "yst", "SepType"), ("xgt", "xgt", "GapType"),
                                          ("ygt", "ygt", "GapType"), ("xgap", "xgap", "SZ"), ("ygap", "ygap", "SZ")]}),
        # the other small methods: `this` is the model's SepPair record (same member names)
        dict(src="cola/libdialect/constraints.cpp", functions=_SPM, filters={f: "SepPair::" + f for f in _SPM},
             this_struct=("self", "SepPair", {"xst": ("xst", "SepType"), "yst": ("yst", "SepType"), "xgt": ("xgt", "GapType"),
                                             "ygt": ("ygt", "GapType"), "xgap": ("xgap", "SZ"), "ygap": ("ygap", "SZ")})),
    ],
)

PINDIRS = dict(
    src="cola/libavoid/connectionpin.cpp",
    ns="AdaptaVerif.Gen.PinDirs",
    out="lean/AdaptaVerif/Gen/PinDirs.lean",
    functions=["directions"],
    filters={"directions": "ShapeConnectionPin::directions"},
    types={"ConnDirFlags": "Nat"},
    this_params=[("visDirs", "Nat"), ("xOff", "Rat"), ("yOff", "Rat")],
    members_all={"m_visibility_directions": ("visDirs", "Nat"), "m_x_offset": ("xOff", "Rat"), "m_y_offset": ("yOff", "Rat")},
    # values of the offset sentinels and of the ConnDirFlag enum are read from the headers on every run
    auto_constants={"ATTACH_POS_LEFT": "Rat", "ATTACH_POS_TOP": "Rat", "ATTACH_POS_RIGHT": "Rat", "ATTACH_POS_BOTTOM": "Rat",
                    "ConnDirNone": "Nat", "ConnDirUp": "Nat", "ConnDirDown": "Nat", "ConnDirLeft": "Nat",
                    "ConnDirRight": "Nat", "ConnDirAll": "Nat"},
)

# ---- comparators handed to std::set / std::sort / list::sort / the pairing heap (strict weak orders, Props/CmpTie.lean)
def _keys(obj, lean, fields):
    return {"%s.%s" % (obj, c): ("%s.%s" % (lean, f), t) for (c, f, t) in fields}

_PIN = [("m_class_id", "classId", "Nat"), ("m_visibility_directions", "visDirs", "Nat"), ("m_x_offset", "xOff", "Rat"),
        ("m_y_offset", "yOff", "Rat"), ("m_inside_offset", "insideOff", "Rat"), ("m_router", "router", "Nat"),
        ("containingObjectId()", "objId", "Nat")]
_ACT = [("type", "type", "Nat"), ("objPtr", "ptr", "Nat"), ("conn().id()", "connId", "Nat"), ("obstacle().id()", "obstId", "Nat")]
_VID = [("objID", "objID", "Nat"), ("vn", "vn", "Nat")]
_NODE = [("pos", "pos", "Rat"), ("v.id", "id", "Nat")]
_CON = [("left.block.timeStamp", "blockTs", "Int"), ("timeStamp", "ts", "Int"), ("left.block", "lblock", "Nat"),
        ("right.block", "rblock", "Nat"), ("slack()", "slack", "Rat"), ("left.id", "lid", "Int"), ("right.id", "rid", "Int")]
_SP = [("m_index1", "i1", "Nat"), ("m_index2", "i2", "Nat")]
_LS = [("begin", "begin_", "Rat"), ("pos", "pos", "Rat"), ("finish", "finish", "Rat"), ("shapeSide", "shapeSide", "Bool")]
_VI = [("point.x", "px", "Rat"), ("point.y", "py", "Rat")]

def _two(a, b, la, lb, fields):
    d = _keys(a, la, fields); d.update(_keys(b, lb, fields)); return d

COMPARATORS = dict(
    ns="AdaptaVerif.Gen.Comparators",
    out="lean/AdaptaVerif/Gen/Comparators.lean",
    imports=["AdaptaVerif.Model.CmpKeys"],
    opens=["AdaptaVerif.Model.CmpKeys"],
    parts=[
        dict(src="cola/libavoid/connectionpin.cpp", functions=["operator<"], filters={"operator<": "ShapeConnectionPin::operator<"},
             lean_names={"operator<": "pinLt"}, types={"ShapeConnectionPin": "PinKey"}, this_params=[("self", "PinKey")],
             paths=_two("this", "rhs", "self", "rhs", _PIN)),
        dict(src="cola/libavoid/geomtypes.cpp", functions=["operator<"], filters={"operator<": "Point::operator<"},
             lean_names={"operator<": "pointLt"}, this_params=[("self", "Pt")],
             paths={"this.x": ("self.x", "Rat"), "this.y": ("self.y", "Rat")}),
        dict(src="cola/libavoid/vertices.cpp", functions=["operator<"], filters={"operator<": "VertID::operator<"},
             lean_names={"operator<": "vertIdLt"}, types={"VertID": "VertIdKey"}, this_params=[("self", "VertIdKey")],
             paths=_two("this", "rhs", "self", "rhs", _VID)),
        dict(src="cola/libavoid/actioninfo.cpp", functions=["operator<"], filters={"operator<": "ActionInfo::operator<"},
             lean_names={"operator<": "actionLt"}, types={"ActionInfo": "ActKey"}, this_params=[("self", "ActKey")],
             paths=_two("this", "rhs", "self", "rhs", _ACT),
             auto_constants={n: "Nat" for n in ["ShapeMove", "ShapeAdd", "ShapeRemove", "JunctionMove", "JunctionAdd",
                                                "JunctionRemove", "ConnChange", "ConnectionPinChange"]},
             emit_constants=True),
        dict(src="cola/libavoid/orthogonal.cpp", functions=["operator<"], filters={"operator<": "LineSegment::operator<"},
             lean_names={"operator<": "lineSegmentLt"}, types={"LineSegment": "LineSegKey"}, this_params=[("self", "LineSegKey")],
             paths=_two("this", "rhs", "self", "rhs", _LS)),
        dict(src="cola/libavoid/orthogonal.cpp", functions=["operator()"], filters={"operator()": "CmpVertInf::operator()"},
             lean_names={"operator()": "cmpVertInf"}, types={"VertInf": "VertInfKey"}, ptr_vals=["VertInf"],
             paths=dict(_two("u", "v", "u", "v", _VI), u=("u.addr", "Nat"), v=("v.addr", "Nat"))),
        dict(src="cola/libvpsc/rectangle.cpp", functions=["operator()"], filters={"operator()": "CmpNodePos::operator()"},
             lean_names={"operator()": "cmpNodePos"}, types={"Node": "NodeKey"}, ptr_vals=["Node"],
             paths=dict(_two("u", "v", "u", "v", _NODE), u=("u.addr", "Nat"), v=("v.addr", "Nat"))),
        dict(src="cola/libvpsc/constraint.cpp", functions=["operator()"], filters={"operator()": "CompareConstraints::operator()"},
             lean_names={"operator()": "compareConstraints"}, types={"Constraint": "ConKey"}, ptr_vals=["Constraint"],
             paths=_two("l", "r", "l", "r", _CON)),
        dict(src="cola/libcola/shapepair.cpp", functions=["operator<"], filters={"operator<": "ShapePair::operator<"},
             lean_names={"operator<": "shapePairLt"}, types={"ShapePair": "ShapePairKey"}, this_params=[("self", "ShapePairKey")],
             paths=_two("this", "rhs", "self", "rhs", _SP)),
    ],
)

# ---- vpsc::Rectangle (libvpsc/rectangle.h): getters with the process-global borders, overlap, moves
_RF = ["getMaxX", "getMaxY", "getMinX", "getMinY", "width", "height", "getCentreX", "getCentreY",
       "moveMinX", "moveMinY", "moveCentreX", "moveCentreY", "overlapX", "overlapY"]
RECT = dict(
    src="cola/libvpsc/rectangle.cpp",
    ns="AdaptaVerif.Gen.RectK",
    out="lean/AdaptaVerif/Gen/RectK.lean",
    imports=["AdaptaVerif.Model.Scanline"],
    opens=["AdaptaVerif.Model.Scanline (Rect)"],
    functions=_RF,
    filters={f: "Rectangle::" + f for f in _RF},
    types={"Rectangle": "Rect"}, ptr_vals=["Rectangle"],
    this_struct=("self", "Rect", {"minX": ("minX", "Rat"), "maxX": ("maxX", "Rat"), "minY": ("minY", "Rat"), "maxY": ("maxY", "Rat")}),
    # the static members Rectangle::xBorder / yBorder (process-global state) are explicit parameters of every kernel
    this_params=[("xBorder", "Rat"), ("yBorder", "Rat")],
    constants={"xBorder": ("xBorder", "Rat"), "yBorder": ("yBorder", "Rat")},
)

# ---- libvpsc arithmetic kernels: Variable::position / unscaledPosition / dfdv, Constraint::slack, PositionStats::addVariable
_VARF = {"desiredPosition": ("desiredPosition", "Rat"), "weight": ("weight", "Rat"), "scale": ("scale", "Rat"), "offset": ("offset", "Rat")}
VPSCK = dict(
    ns="AdaptaVerif.Gen.VpscK",
    out="lean/AdaptaVerif/Gen/VpscK.lean",
    imports=["AdaptaVerif.Model.VpscKeys"],
    opens=["AdaptaVerif.Model.VpscKeys"],
    types={"Variable": "VarK"}, ptr_vals=["Variable"],
    fields={("VarK", f): "Rat" for f in ["desiredPosition", "weight", "scale", "offset"]},
    parts=[
        dict(src="cola/libvpsc/block.cpp", functions=["position", "unscaledPosition", "dfdv"],
             filters={"position": "Variable::position", "unscaledPosition": "Variable::unscaledPosition", "dfdv": "Variable::dfdv"},
             this_struct=("self", "VarK", _VARF),
             paths={"this.block.ps.scale": ("self.bScale", "Rat"), "this.block.posn": ("self.bPosn", "Rat")}),
        dict(src="cola/libvpsc/block.cpp", functions=["slack"], filters={"slack": "Constraint::slack"},
             this_struct=("self", "ConK", {"gap": ("gap", "Rat"), "unsatisfiable": ("unsatisfiable", "Bool"), "needsScaling": ("needsScaling", "Bool")}),
             paths={"this.left": ("self.left", "VarK"), "this.right": ("self.right", "VarK"),
                    "this.left.scale": ("self.left.scale", "Rat"), "this.right.scale": ("self.right.scale", "Rat")}),
        dict(src="cola/libvpsc/block.cpp", functions=["addVariable"], filters={"addVariable": "PositionStats::addVariable"},
             this_struct=("self", "PosStats", {"scale": ("scale", "Rat"), "AB": ("AB", "Rat"), "AD": ("AD", "Rat"), "A2": ("A2", "Rat")})),
    ],
)

JOBS = {"vpsck": VPSCK, "rect": RECT, "comparators": COMPARATORS, "geometry": GEOMETRY, "makepath": MAKEPATH, "sepdir": SEPDIR, "tri": TRI, "seppair": SEPPAIR, "pindirs": PINDIRS}

# further jobs live in their own files jobs_<topic>.py (each defines a dict JOBS), so that they can be maintained independently
import importlib.util as _ilu
for _f in sorted(Path(__file__).resolve().parent.glob("jobs_*.py")):
    _spec = _ilu.spec_from_file_location(_f.stem, _f); _m = _ilu.module_from_spec(_spec); _spec.loader.exec_module(_m)
    JOBS.update(_m.JOBS)

def regenerate(names, ROOT, REPO):
    info = {}
    for n in names:
        job = JOBS[n]
        text, known = cpp2lean.run_job(job, REPO)
        changed = cpp2lean.write_if_changed(ROOT / job["out"], text)
        fns = job["functions"] if "functions" in job else [pt.get("lean_names", {}).get(f, f) for pt in job["parts"] for f in pt["functions"]]
        info[n] = dict(functions=fns, changed=changed, out=job["out"])
    return info

if __name__ == "__main__":
    ROOT = Path(__file__).resolve().parent.parent.parent
    print(regenerate(sys.argv[1:] or list(JOBS), ROOT, Path("/repo")))
