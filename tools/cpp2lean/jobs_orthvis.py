"""cpp2lean jobs for the static orthogonal visibility graph builder of libavoid (orthogonal.cpp): the overlap
test by which `SegmentListWrapper::insert` merges candidate segments.  (`getPosVertInfDirections` is not
translated: its `int | int` on unscoped enumerators is outside the translator's bit-operator rule.)  Output: lean/AdaptaVerif/Gen/OrthVisK.lean, bridged to Model/OrthVis.lean in
Props/C05OrthVisTie.lean."""

_LS = [("begin", "begin_", "Rat"), ("pos", "pos", "Rat"), ("finish", "finish", "Rat"), ("shapeSide", "shapeSide", "Bool")]

def _keys(cpp, lean, fields):
    return {"%s.%s" % (cpp, c): ("%s.%s" % (lean, l), t) for c, l, t in fields}

def _two(a, b, la, lb, fields):
    d = _keys(a, la, fields); d.update(_keys(b, lb, fields)); return d

ORTHVIS = dict(
    ns="AdaptaVerif.Gen.OrthVisK",
    out="lean/AdaptaVerif/Gen/OrthVisK.lean",
    imports=["AdaptaVerif.Model.CmpKeys"],
    opens=["AdaptaVerif.Model.CmpKeys"],
    parts=[
        dict(src="cola/libavoid/orthogonal.cpp", functions=["overlaps"], filters={"overlaps": "LineSegment::overlaps"},
             lean_names={"overlaps": "lineSegmentOverlaps"}, types={"LineSegment": "LineSegKey"},
             this_params=[("self", "LineSegKey")], paths=_two("this", "rhs", "self", "rhs", _LS)),
    ],
)

JOBS = {"orthvis": ORTHVIS}
