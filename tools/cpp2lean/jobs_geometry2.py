"""cpp2lean job: the two remaining geometry kernels of cola/libavoid/geometry.cpp
  * segmentShapeIntersect — `bool& seenIntersectionAtEndpoint` is read AND written: returned as a second result;
  * inPolyGen — local copy of the polygon translated by the query point (element assignment `P[i].x = …` through the
    reference `P = poly.ps`), then an indexed loop with early return counting ray crossings.
They call kernels of the job `geometry` (Gen/Geometry.lean), whose signatures are re-read from the source (`known_from`)."""
_DEP = dict(
    src="cola/libavoid/geometry.cpp", ns="AdaptaVerif.Gen.Geometry", out=None,
    functions=["vecDir", "inBetween", "colinear", "pointOnLine", "segmentIntersect"],
)
GEOMETRY2 = dict(
    src="cola/libavoid/geometry.cpp",
    ns="AdaptaVerif.Gen.GeometryK2",
    out="lean/AdaptaVerif/Gen/GeometryK2.lean",
    imports=["AdaptaVerif.Gen.PreludeLoops", "AdaptaVerif.Gen.Geometry"],
    opens=["AdaptaVerif.Gen.Geometry"],
    known_from=[_DEP],
    functions=["segmentShapeIntersect", "inPolyGen"],
    nat_sub_checked=True,
)
JOBS = {"geometry2": GEOMETRY2}
