"""cpp2lean job: cola/libcola/shortest_paths.h (templates; instantiated with T = double through a shim TU).

`double` = the model's `Dist` (`Option Rat`, `none` = std::numeric_limits<double>::max(), the "unreachable"
sentinel): `+` = `oadd`, `std::min` = `omin`, `<` = `ltDist` — the same IEEE argument as in
Model/ShortestPaths.lean (DBL_MAX + x >= DBL_MAX for x >= 0).  `T** D` = `Array (Array Dist)` read AND written
(`aget`/`aset`, every access adds its bounds to `_pre`), `std::vector<Edge>` = `List (Nat × Nat)`,
`std::valarray<T>` = `List Dist`.
"""
_SHIM = """#include "libcola/shortest_paths.h"
template void shortest_paths::floyd_warshall<double>(unsigned const, double**, std::vector<shortest_paths::Edge> const&, std::valarray<double> const&);
template void shortest_paths::dijkstra_init<double>(std::vector<shortest_paths::Node<double> >&, std::vector<shortest_paths::Edge> const&, std::valarray<double> const&);
"""

_DIST = dict(lit="(some (%s : Rat) : Dist)", max="(none : Dist)",
             ops={"+": "(oadd %s %s)", "min": "(omin %s %s)", "<": "(ltDist %s %s)", "==": "(%s == %s)", "!=": "(%s != %s)"})

SHORTEST = dict(
    src="cola/libcola/shortest_paths.h",
    shim=_SHIM,
    ns="AdaptaVerif.Gen.ShortestPathsK",
    out="lean/AdaptaVerif/Gen/ShortestPathsK.lean",
    imports=["AdaptaVerif.Gen.PreludeLoops", "AdaptaVerif.Model.ShortestPaths", "AdaptaVerif.Gen.KeysShortest"],
    opens=["AdaptaVerif.Model.ShortestPaths (Dist oadd omin)", "AdaptaVerif.Model.PairingHeap (ltDist)", "AdaptaVerif.Gen.KeysShortest"],
    functions=["floyd_warshall", "dijkstra_init"],
    types={"double": "Dist"},
    num={"Dist": _DIST},
    qual_types={"double **": ("Array (Array Dist)", "state"),
                "std::vector<Edge>": ("List (Nat × Nat)", "val"),
                "std::valarray<double>": ("List Dist", "val"),
                # dijkstra_init: the node vector (read and written); Node<T>* into it = the element's index
                "std::vector<Node<double>>": ("Array NodeK", "state"),
                "std::vector<shortest_paths::Node<double>>": ("Array NodeK", "state")},
    fields={("NodeK", "neighbours"): "List Nat", ("NodeK", "nweights"): "List Dist"},
    elem_addr_as_index=["vs"],
)

# ---- the relax loop of dijkstra(s, vs, d): ONE statement of the function (the `for` over u's neighbours inside the
# `while (!Q.isEmpty())` loop) translated as a function of its free variables `vs`, `Q`, `u` (job option `fragment`).
# `Node<T>*` = index into `vs` (`ptr_index`: `v->d` = `vs[v].d`); the heap type stays abstract (`H`) and
# `Q.decreaseKey(v->qnode, v)` is an uninterpreted state transformer `decKey Q v vs` (it reads the new key `v->d` itself).
_SHIM2 = """#include "libcola/shortest_paths.h"
template void shortest_paths::dijkstra<double>(unsigned const, std::vector<shortest_paths::Node<double> >&, double*);
"""
_DIST2 = dict(_DIST, ops=dict(_DIST["ops"], **{">": "(ltDist {1} {0})"}))
RELAX = dict(
    src="cola/libcola/shortest_paths.h", shim=_SHIM2,
    ns="AdaptaVerif.Gen.DijkstraRelaxK", out="lean/AdaptaVerif/Gen/DijkstraRelaxK.lean",
    imports=["AdaptaVerif.Gen.PreludeLoops", "AdaptaVerif.Model.ShortestPaths", "AdaptaVerif.Gen.KeysShortest"],
    opens=["AdaptaVerif.Model.ShortestPaths (Dist oadd omin)", "AdaptaVerif.Model.PairingHeap (ltDist)", "AdaptaVerif.Gen.KeysShortest"],
    functions=["dijkstra"], lean_names={"dijkstra": "dijkstra_relax"},
    sig_contains={"dijkstra": "std::vector<Node<double>> &"},
    fragment={"dijkstra": dict(kind="ForStmt", within="WhileStmt", nth=0)},
    types={"double": "Dist"}, num={"Dist": _DIST2},
    qual_types={"std::vector<Node<double>>": ("Array NodeK", "state"),
                "PairingHeap<Node<double> *, CompareNodes<double>>": ("H", "state")},
    type_params=["H"],
    ptr_index={"Node<double>": "vs"},
    fields={("NodeK", "neighbours"): "List Nat", ("NodeK", "nweights"): "List Dist", ("NodeK", "d"): "Dist"},
    skip_member_writes=["p"],
    state_methods={"decreaseKey": dict(fn="decKey", skip_args=[0], extra_vars=["vs"])},
    extra_params={"dijkstra_relax": [("decKey", "H → Nat → Array NodeK → H")]},
)

# ---- the WHOLE function dijkstra(s, vs, d): init loop, heap construction, `while (!Q.isEmpty())` (on fuel: the generated function
# has an extra parameter `fuel_`, and `_pre` demands that the loop is over when the fuel is used up), extractMin, the write
# `d[u->id] = u->d`, the relax loop.  The pairing heap is abstract: its five operations are the record `ops : HeapOps H`
# (Gen/KeysShortest.lean); `vs[i].p = …` / `vs[i].qnode = …` are not modelled (the effect of `Q.insert` on Q is kept).
_HEAP = "PairingHeap<Node<double> *, CompareNodes<double>>"
DIJKSTRA = dict(
    src="cola/libcola/shortest_paths.h", shim=_SHIM2,
    ns="AdaptaVerif.Gen.DijkstraK", out="lean/AdaptaVerif/Gen/DijkstraK.lean",
    imports=["AdaptaVerif.Gen.PreludeLoops", "AdaptaVerif.Model.ShortestPaths", "AdaptaVerif.Gen.KeysShortest"],
    opens=["AdaptaVerif.Model.ShortestPaths (Dist oadd omin)", "AdaptaVerif.Model.PairingHeap (ltDist)", "AdaptaVerif.Gen.KeysShortest"],
    functions=["dijkstra"],
    sig_contains={"dijkstra": "std::vector<Node<double>> &"},
    types={"double": "Dist"}, num={"Dist": _DIST2},
    qual_types={"std::vector<Node<double>>": ("Array NodeK", "state"), _HEAP: ("H", "state"), "double *": ("Array Dist", "state")},
    type_params=["H"],
    ptr_index={"Node<double>": "vs"}, elem_addr_as_index=["vs"],
    fields={("NodeK", "neighbours"): "List Nat", ("NodeK", "nweights"): "List Dist", ("NodeK", "d"): "Dist", ("NodeK", "id"): "Nat"},
    skip_member_writes=["p", "qnode"],
    default_ctors={_HEAP: ("ops.empty", "H")},
    opaque_methods={"isEmpty": ("ops.isEmpty", "Bool")},
    state_methods={"decreaseKey": dict(fn="ops.decreaseKey", skip_args=[0], extra_vars=["vs"]),
                   "insert": dict(fn="ops.insert", extra_vars=["vs"]),
                   "extractMin": dict(fn="ops.extractMin", ret="Nat")},
    extra_params={"dijkstra": [("ops", "HeapOps H")]},
)

# ---- johnsons(n, D, es, eweights) and the top-level dijkstra(s, n, d, es, eweights): fresh node vector `std::vector<Node<T>> vs(n)`,
# then CALLS of the generated dijkstra_init / dijkstra (in/out arguments `vs`, `D[k]` written back; the callee's fuel is passed on)
_SHIM3 = """#include "libcola/shortest_paths.h"
template void shortest_paths::johnsons<double>(unsigned const, double**, std::vector<shortest_paths::Edge> const&, std::valarray<double> const&);
template void shortest_paths::dijkstra<double>(unsigned const, unsigned const, double*, std::vector<shortest_paths::Edge> const&, std::valarray<double> const&);
"""
JOHNSONS = dict(
    src="cola/libcola/shortest_paths.h", shim=_SHIM3,
    ns="AdaptaVerif.Gen.JohnsonsK", out="lean/AdaptaVerif/Gen/JohnsonsK.lean",
    imports=["AdaptaVerif.Gen.ShortestPathsK", "AdaptaVerif.Gen.DijkstraK"],
    opens=["AdaptaVerif.Model.ShortestPaths (Dist oadd omin)", "AdaptaVerif.Model.PairingHeap (ltDist)", "AdaptaVerif.Gen.KeysShortest",
           "AdaptaVerif.Gen.ShortestPathsK (dijkstra_init dijkstra_init_pre)", "AdaptaVerif.Gen.DijkstraK (dijkstra dijkstra_pre)"],
    known_from=[SHORTEST, DIJKSTRA],
    functions=["johnsons", "dijkstra"], lean_names={"dijkstra": "dijkstraTop"},
    sig_contains={"dijkstra": "(const unsigned int, const unsigned int, double *"},
    types={"double": "Dist"}, num={"Dist": _DIST2},
    qual_types={"std::vector<Node<double>>": ("Array NodeK", "state"), "double *": ("Array Dist", "state"),
                "double **": ("Array (Array Dist)", "state"),
                "std::vector<Edge>": ("List (Nat × Nat)", "val"), "std::valarray<double>": ("List Dist", "val")},
    sized_ctors={"std::vector<Node<double>>": ("(Array.replicate {0} (default : NodeK))", "Array NodeK")},
    type_params=["H"],
    extra_params={"johnsons": [("ops", "HeapOps H")], "dijkstraTop": [("ops", "HeapOps H")]},
)

JOBS = {"shortest": SHORTEST, "dijkstra_relax": RELAX, "dijkstra": DIJKSTRA, "johnsons": JOHNSONS}
