"""cpp2lean job: cola/libcola/shortest_paths.h (templates; instantiated with T = double through a shim TU).

`double` = the model's `Dist` (`Option Rat`, `none` = std::numeric_limits<double>::max(), the "unreachable"
sentinel): `+` = `oadd`, `std::min` = `omin`, `<` = `ltDist` — the same IEEE argument as in
Model/ShortestPaths.lean (DBL_MAX + x >= DBL_MAX for x >= 0).  `T** D` = `Array (Array Dist)` read AND written
(`aget`/`aset`, every access adds its bounds to `_pre`), `std::vector<Edge>` = `List (Nat × Nat)`,
`std::valarray<T>` = `List Dist`.
"""
_SHIM = """#include "libcola/shortest_paths.h"
template void shortest_paths::floyd_warshall<double>(unsigned const, double**, std::vector<shortest_paths::Edge> const&, std::valarray<double> const&);
template void shortest_paths::dijkstra_init<double>(std::vector<shortest_paths::Node<double> >&, std::vector<shortest_paths::Edge> const&, std::valarray<double> const&);
"""

_DIST = dict(lit="(some (%s : Rat) : Dist)", max="(none : Dist)",
             ops={"+": "(oadd %s %s)", "min": "(omin %s %s)", "<": "(ltDist %s %s)", "==": "(%s == %s)", "!=": "(%s != %s)"})

SHORTEST = dict(
    src="cola/libcola/shortest_paths.h",
    shim=_SHIM,
    ns="AdaptaVerif.Gen.ShortestPathsK",
    out="lean/AdaptaVerif/Gen/ShortestPathsK.lean",
    imports=["AdaptaVerif.Gen.PreludeLoops", "AdaptaVerif.Model.ShortestPaths", "AdaptaVerif.Gen.KeysShortest"],
    opens=["AdaptaVerif.Model.ShortestPaths (Dist oadd omin)", "AdaptaVerif.Model.PairingHeap (ltDist)", "AdaptaVerif.Gen.KeysShortest"],
    functions=["floyd_warshall", "dijkstra_init"],
    types={"double": "Dist"},
    num={"Dist": _DIST},
    qual_types={"double **": ("Array (Array Dist)", "state"),
                "std::vector<Edge>": ("List (Nat × Nat)", "val"),
                "std::valarray<double>": ("List Dist", "val"),
                # dijkstra_init: the node vector (read and written); Node<T>* into it = the element's index
                "std::vector<Node<double>>": ("Array NodeK", "state"),
                "std::vector<shortest_paths::Node<double>>": ("Array NodeK", "state")},
    fields={("NodeK", "neighbours"): "List Nat", ("NodeK", "nweights"): "List Dist"},
    elem_addr_as_index=["vs"],
)

JOBS = {"shortest": SHORTEST}
