"""cpp2lean job: ShapeConnectionPin::position (cola/libavoid/connectionpin.cpp) with Box::width/height (geomtypes.cpp).
`this` = the model's PinSpec record (offsets, proportional flag, inside offset); what is read through `m_junction` and
`m_shape` are explicit parameters (`junction : Option Pt` = the junction's position if the pin sits on a junction,
`shapePoly` = `m_shape->polygon()`); `Polygon::offsetBoundingBox` stays an uninterpreted function parameter `bbox`.
`point.vn = …` (vertex-number tag of the returned Point) is not modelled."""
_PINSPEC = {"m_using_proportional_offsets": ("proportional", "Bool"), "m_x_offset": ("xOff", "Rat"), "m_y_offset": ("yOff", "Rat"),
            "m_inside_offset": ("inside", "Rat")}
PINPOS = dict(
    ns="AdaptaVerif.Gen.PinPosK",
    out="lean/AdaptaVerif/Gen/PinPosK.lean",
    imports=["AdaptaVerif.Gen.KeysPins", "AdaptaVerif.Model.Pins"],
    opens=["AdaptaVerif.Gen.KeysPins", "AdaptaVerif.Model.Pins (PinSpec)"],
    types={"Box": "BoxK"},
    fields={("BoxK", "min"): "Pt", ("BoxK", "max"): "Pt"},
    parts=[
        dict(src="cola/libavoid/geomtypes.cpp", functions=["width", "height"], filters={"width": "Box::width", "height": "Box::height"},
             this_struct=("self", "BoxK", {"min": ("min", "Pt"), "max": ("max", "Pt")})),
        dict(src="cola/libavoid/connectionpin.cpp", functions=["position"], filters={"position": "ShapeConnectionPin::position"},
             this_struct=("self", "PinSpec", _PINSPEC),
             paths={"this.m_junction": ("junction", "Option Pt"), "this.m_junction.position()": ("(junction.getD default)", "Pt"),
                    "this.m_shape.polygon()": ("shapePoly", "List Pt")},
             opaque_methods={"offsetBoundingBox": ("bbox", "BoxK")},
             extra_params={"position": [("junction", "Option Pt"), ("shapePoly", "List Pt"), ("bbox", "List Pt → Rat → BoxK")]},
             default_ctors={"Point": ("(⟨0, 0⟩ : Pt)", "Pt")},
             skip_member_writes=["vn"],
             auto_constants={"ATTACH_POS_LEFT": "Rat", "ATTACH_POS_TOP": "Rat", "ATTACH_POS_RIGHT": "Rat", "ATTACH_POS_BOTTOM": "Rat",
                             "ATTACH_POS_MIN_OFFSET": "Rat", "ATTACH_POS_MAX_OFFSET": "Rat"}),
    ],
)
JOBS = {"pinpos": PINPOS}
