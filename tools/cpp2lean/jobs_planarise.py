"""cpp2lean job: cola/libdialect/planarise.cpp — `dialect::CompareActiveEvents`, the comparator handed to std::sort in
OrthoPlanariser::computeCrossings.  `Event*` = a key record `EvKey` (y-coordinate of the end node, event type as the
value of the enumerator); `EventType` enumerators are read from planarise.h on every run and emitted as constants, the
tolerance is the function's own local constant.  Bridge: Props/C19PlanariseTie.lean (generated = Model.Planarise.compareActive).
"""
PLANARISE_CMP = dict(
    src="cola/libdialect/planarise.cpp",
    ns="AdaptaVerif.Gen.PlanariseCmp",
    out="lean/AdaptaVerif/Gen/PlanariseCmp.lean",
    imports=["AdaptaVerif.Model.Planarise"],
    opens=["AdaptaVerif.Model.Planarise"],
    functions=["CompareActiveEvents"],
    lean_names={"CompareActiveEvents": "compareActiveEvents"},
    types={"Event": "EvKey"}, ptr_vals=["Event"],
    paths={"a.y()": ("a.y", "Rat"), "b.y()": ("b.y", "Rat"), "a.type": ("a.ty", "Nat"), "b.type": ("b.ty", "Nat")},
    auto_constants={n: "Nat" for n in ["CLOSE", "SUSTAIN", "OPEN"]},
    emit_constants=True,
)

JOBS = {"planarise_cmp": PLANARISE_CMP}
