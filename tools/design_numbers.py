#!/usr/bin/env python3
"""Fill the @PLACEHOLDERS@ of DESIGN.md with numbers measured on the tree (Lean lines, theorem counts, regenerated functions)."""
import re, subprocess, sys
from pathlib import Path
R = Path(__file__).resolve().parent.parent
sys.path.insert(0, str(R / "tools/cpp2lean"))
import jobs
lean = [p for p in (R / "lean").rglob("*.lean") if ".lake" not in p.parts]
nlines = sum(len(p.read_text().splitlines()) for p in lean)
thm = re.compile(r"^\s*(?:private |protected )?(?:theorem|lemma) ", re.M)
nthm = sum(len(thm.findall(p.read_text())) for p in lean)
nprop = sum(len(re.findall(r"^\s*(?:private |protected )?theorem ", p.read_text(), re.M)) for p in (R / "lean/AdaptaVerif/Props").glob("*.lean"))
nharn = sum(len(p.read_text().splitlines()) for p in list((R / "harness").glob("*.cpp")) + list((R / "harness").glob("*.h")))
nfun = sum(len(j["functions"]) if "functions" in j else sum(len(pt["functions"]) for pt in j["parts"]) for j in jobs.JOBS.values())
vals = {"@LEAN@": str(round(nlines / 1000)), "@NTHM@": str(nthm), "@NPROP@": str(nprop), "@NHARN@": "%.1f" % (nharn / 1000), "@NFUN@": str(nfun), "@NJOBS@": str(len(jobs.JOBS))}
s = (R / "DESIGN.md").read_text()
for k, v in vals.items(): s = s.replace(k, v)
(R / "DESIGN.md").write_text(s)
print(vals)
