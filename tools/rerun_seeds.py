#!/usr/bin/env python3
"""rerun_seeds.py [ids…] — re-run every stored seeded change against its checks (scratch worktree, never /repo)
and update seeded/<id>/meta.json: checks_run, caught_by, history."""
import sys, json, subprocess, time
from pathlib import Path
R = Path("/verif")
ids = sys.argv[1:] or sorted(p.name for p in (R / "seeded").iterdir() if (p / "meta.json").exists())
for i in ids:
    d = R / "seeded" / i
    m = json.loads((d / "meta.json").read_text())
    checks = sorted({r["check"] for r in m.get("checks_run", [])} | {m["property"]})
    runs = []
    for c in checks:
        out = subprocess.run([str(R / "tools/run_seed.sh"), str(d / "patch.diff"), "quick", c], capture_output=True, text=True).stdout.strip().splitlines()
        out = [l for l in out if not l.startswith("KNOWN-FINDING")]
        runs.append(dict(check=c, tier="quick", output=[l[:300] for l in out[-3:]], caught=any(l.startswith("VIOLATION") for l in out)))
    hist = m.get("history", [])
    if not hist: hist.append(dict(when="first run", caught_by=m.get("caught_by", [])))
    m["checks_run"] = runs
    m["caught_by"] = [r["check"] for r in runs if r["caught"]]
    hist.append(dict(when=time.strftime("%Y-%m-%d %H:%M"), caught_by=m["caught_by"]))
    m["history"] = hist
    (d / "meta.json").write_text(json.dumps(m, indent=1))
    print(i, "caught_by", m["caught_by"])
