import re, sys
L='/verif/lean/AdaptaVerif/Lemmas/'
def sig(fn, n):
    s=open(L+fn).read()
    m=re.search(r'^theorem '+n+r'\b(.*?):=\s*(by\b|\n|fun\b|⟨)', s, re.S|re.M)
    if not m: raise SystemExit('no theorem '+n+' in '+fn)
    return m.group(1).rstrip()
def doc(fn,n):
    s=open(L+fn).read()
    m=re.search(r'/--((?:(?!-/).)*?)-/\s*\ntheorem '+n+r'\b', s, re.S)
    return m.group(1).strip() if m else None
def binders(sg):
    """names of explicit binders and position of the top-level ':'"""
    names=[]; depth=0; i=0; n=len(sg)
    while i<n:
        c=sg[i]
        if sg.startswith('--',i):
            j=sg.find('\n',i); i = n if j<0 else j; continue
        if depth==0 and c==':':
            return names, i
        if c in '({[⦃':
            if depth==0:
                close={'(' : ')','{':'}','[':']','⦃':'⦄'}[c]
                # find matching
                d=1; j=i+1
                while d>0:
                    if sg[j] in '({[⦃': d+=1
                    elif sg[j] in ')}]⦄': d-=1
                    j+=1
                grp=sg[i+1:j-1]
                if c=='(':
                    # names before first top-level ':'
                    dd=0
                    for k,ch in enumerate(grp):
                        if ch in '({[': dd+=1
                        elif ch in ')}]': dd-=1
                        elif ch==':' and dd==0:
                            names += grp[:k].split(); break
                i=j; continue
        i+=1
    raise SystemExit('no colon')
out=[]
def emit(fn, ns, n, text=None, newname=None):
    sg=sig(fn,n); names,_=binders(sg)
    d = text or doc(fn,n)
    if d: out.append('/-- '+d+' -/')
    out.append('theorem '+(newname or n)+sg+' :=\n  '+ns+'.'+n+' '+' '.join(names)+'\n')
HEADER = open(''+__import__('os').path.dirname(__file__)+'/props_header.txt').read()
out.append(HEADER)
import json
plan=json.load(open(''+__import__('os').path.dirname(__file__)+'/props_plan.json'))
for item in plan:
    if 'raw' in item: out.append(item['raw']); continue
    emit(item['file'], item['ns'], item['name'], item.get('text'))
out.append('end AdaptaVerif.Props.C13Cons\n')
open('/verif/lean/AdaptaVerif/Props/C13Cons.lean','w').write('\n'.join(out))
