#!/usr/bin/env python3
"""keep_seed.py <Cxx> <outdir> [--checks C01,C02] [--tier quick]
Independently confirms a seeded change (full test suite + demo on modified and pristine build), runs the
named checks against it, and stores it as /verif/seeded/<Cxx>[-k]/ with meta.json."""
import sys, json, subprocess, shutil, re
from pathlib import Path
pid, out = sys.argv[1], Path(sys.argv[2])
checks = [pid]; tier = "quick"
for i, a in enumerate(sys.argv):
    if a == "--checks": checks = sys.argv[i + 1].split(",")
    if a == "--tier": tier = sys.argv[i + 1]
R = Path("/verif")
conf = subprocess.run([str(R / "tools/confirm_seed.sh"), pid, str(out)], capture_output=True, text=True).stdout.strip()
m = re.search(r"suites_with_FAIL0=(\d+) tests_passed=(\d+) demo_mod_exit=(\d+) demo_base_exit=(\d+)", conf)
print(conf)
if not m: sys.exit("confirmation failed")
suites, npass, em, eb = map(int, m.groups())
ok = suites == 5 and npass == 178 and em != 0 and eb == 0
runs = []
for c in checks:
    r = subprocess.run([str(R / "tools/run_seed.sh"), str(out / "patch.diff"), tier, c], capture_output=True, text=True).stdout.strip().splitlines()
    runs.append(dict(check=c, tier=tier, output=[l[:300] for l in r[-4:]], caught=any(l.startswith("VIOLATION") for l in r)))
    print(c, runs[-1]["output"])
k = 0
d = R / "seeded" / pid
while d.exists():
    k += 1; d = R / "seeded" / ("%s-%d" % (pid, k))
d.mkdir(parents=True)
for f in ("patch.diff", "demo.cpp", "build_and_run.sh"):
    if (out / f).exists(): shutil.copy(out / f, d / f)
am = {}
try: am = json.loads((out / "meta.json").read_text())
except Exception: pass
meta = dict(property=pid, origin="independent sub-agent given only the property text and a scratch worktree",
            summary=am.get("summary", ""), needs=am.get("needs", ""), files_changed=am.get("files_changed", ""),
            confirmed_by_lead=dict(command="tools/confirm_seed.sh", existing_tests_pass=(suites == 5 and npass == 178),
                                   tests_passed=npass, demo_exit_with_change=em, demo_exit_without=eb, valid_seed=ok),
            checks_run=runs, caught_by=[r["check"] for r in runs if r["caught"]])
(d / "meta.json").write_text(json.dumps(meta, indent=1))
print("stored", d, "valid_seed=", ok, "caught_by=", meta["caught_by"])
