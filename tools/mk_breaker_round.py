#!/usr/bin/env python3
"""usage: mk_breaker_round.py <dir e.g. /tmp/seed4> <Cxx> [<Cxx> ...]
Prepares, per property, a scratch worktree <dir>/<Cxx> of /repo (with build products) and <dir>/<Cxx>-out/PROMPT.txt
for an independent breaker sub-agent.  The prompt holds ONLY the property text, the task, and one-paragraph summaries
of the changes earlier breakers delivered for the same property (so that the new one differs) — nothing about /verif."""
import json, subprocess, sys
from pathlib import Path
ROOT = Path(__file__).resolve().parent.parent
base, ids = Path(sys.argv[1]), sys.argv[2:]
props = {json.loads(l)["id"]: json.loads(l) for l in open(ROOT / "properties.jsonl") if l.strip()}
TEMPLATE = (ROOT / "tools" / "breaker_prompt.txt").read_text()
for cid in ids:
    wt, out = base / cid, base / (cid + "-out")
    out.mkdir(parents=True, exist_ok=True)
    if not wt.exists():
        subprocess.run([str(ROOT / "tools" / "mkworktree.sh"), str(wt)], check=True)
    p = props[cid]
    ptxt = "id: %s\ntitle: %s\n\nstatement: %s\n\nquantified over: %s\n\nanchor files (where the mechanism lives): %s\n" % (
        cid, p["title"], p["statement"], p["quantifier"], ", ".join(p["anchors"]) if isinstance(p["anchors"], list) else p["anchors"])
    (out / "property.txt").write_text(ptxt)
    prev = []
    for d in sorted((ROOT / "seeded").glob(cid + "*")):
        m = json.loads((d / "meta.json").read_text())
        if m.get("property") == cid:
            prev.append("  - files: %s; summary: %s" % (m.get("files_changed"), m.get("summary", "")[:600]))
    also = ""
    if prev:
        also = ("\n\nIMPORTANT: colleagues have already delivered the following changes for this property; yours must be DIFFERENT "
                "in kind from all of them — a different function/mechanism and, where possible, a different clause or a different "
                "library path of the property, not a variation:\n" + "\n".join(prev) + "\n")
    (out / "PROMPT.txt").write_text(TEMPLATE.replace("@WT@", str(wt)).replace("@OUT@", str(out)).replace("@ID@", cid).replace("@PROP@", ptxt) + also)
    print("prepared", wt, out)
