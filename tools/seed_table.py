#!/usr/bin/env python3
"""Regenerate the table of seeded changes in DESIGN.md section 9 from seeded/*/meta.json."""
import json, re
from pathlib import Path
R = Path("/verif")
rows = []
for d in sorted((R / "seeded").iterdir()):
    f = d / "meta.json"
    if not f.exists(): continue
    m = json.loads(f.read_text())
    hist = m.get("history", [])
    first = hist[0]["caught_by"] if hist else m.get("caught_by", [])
    now = m.get("caught_by", [])
    summ = re.sub(r"\s+", " ", (m.get("summary") or ""))[:230].replace("|", "/")
    needs = re.sub(r"\s+", " ", (m.get("needs") or ""))[:170].replace("|", "/")
    status = ", ".join(now) if now else "**not caught**"
    if now and not first: status += " (missed at first; check strengthened)"
    elif now and set(now) - set(first): status += " (first run: %s)" % (", ".join(first) or "none")
    rows.append("| %s | %s | %s | %s |" % (d.name, summ, needs, status))
tab = "| seed | change | needs | caught by |\n|------|--------|-------|-----------|\n" + "\n".join(rows)
p = R / "DESIGN.md"
s = p.read_text()
s = re.sub(r"<!-- SEEDS:BEGIN -->.*?<!-- SEEDS:END -->", "<!-- SEEDS:BEGIN -->\n" + tab + "\n<!-- SEEDS:END -->", s, flags=re.S)
p.write_text(s)
n = len(rows); c = sum(1 for r in rows if "**not caught**" not in r)
print("seeds:", n, "caught:", c)
