#!/bin/sh
# usage: run_seed.sh <patch.diff> <tier> <Cxx> [<Cxx>...]
# Applies a seeded change to a scratch worktree of /repo HEAD and runs the named checks against it
# (VERIF_REPO), then removes the worktree. Evidence files are restored afterwards.
P="$1"; T="$2"; shift 2
W=/tmp/wt-seed-$$
/verif/tools/mkworktree.sh "$W" >/dev/null 2>&1 || exit 2
if ! git -C "$W" apply "$P"; then echo "PATCH DOES NOT APPLY"; git -C /repo worktree remove --force "$W"; exit 2; fi
cd /verif
for c in "$@"; do
  cp evidence/$c.json /tmp/ev-$c-$$.json 2>/dev/null
  VERIF_REPO="$W" python3 check/check.py $c --tier $T 2>&1 | grep -E "^VIOLATION|^KNOWN|^BROKEN|tier=" | cut -c1-300
  [ -f /tmp/ev-$c-$$.json ] && mv /tmp/ev-$c-$$.json evidence/$c.json
done
git -C /repo worktree remove --force "$W"
# the run regenerated lean/AdaptaVerif/Gen from the scratch tree: restore it from /repo
python3 /verif/tools/cpp2lean/jobs.py >/dev/null 2>&1
# ...and whatever else the properties' own regenerate hooks write
for c in "$@"; do
  python3 - "$c" <<'PY' >/dev/null 2>&1
import sys, importlib
from pathlib import Path
sys.path.insert(0, "/verif/check")
m = importlib.import_module("props." + sys.argv[1])
if hasattr(m, "regenerate"): m.regenerate(Path("/verif"), Path("/repo"))
PY
done
