#!/bin/sh
# usage: run_seed.sh <patch.diff> <tier> <Cxx> [<Cxx>...]
# Applies a seeded change to a scratch worktree of /repo HEAD and runs the named checks against it
# (VERIF_REPO).  The checks run from a PRIVATE COPY of /verif (rsync, including its build caches), so
# that the Gen/*.lean files regenerated from the modified tree, the evidence and the replays never touch
# /verif itself (other work may be building there at the same time).  Worktree and copy are removed.
P="$(readlink -f "$1")"; T="$2"; shift 2
W=/var/tmp/wt-seed-$$
V=/var/tmp/verif-seed-$$
/verif/tools/mkworktree.sh "$W" >/dev/null 2>&1 || exit 2
if ! git -C "$W" apply "$P"; then echo "PATCH DOES NOT APPLY"; git -C /repo worktree remove --force "$W"; exit 2; fi
rsync -a --exclude=.git --exclude=seeded --exclude='.build/run' /verif/ "$V"/
cd "$V"
for c in "$@"; do
  VERIF_REPO="$W" python3 check/check.py $c --tier $T 2>&1 | grep -E "^VIOLATION|^KNOWN|^BROKEN|tier=" | cut -c1-300
  for r in $(ls replays 2>/dev/null); do [ -f /verif/replays/$r ] || { mkdir -p /var/tmp/seed-replays; cp replays/$r /var/tmp/seed-replays/; }; done
done
cd /
git -C /repo worktree remove --force "$W"
rm -rf "$V"
