#!/bin/sh
# usage: run_all.sh [tier] [seed]  — run every registered check once on /repo and print one line each
T=${1:-quick}; S=${2:-1}
cd /verif
for c in $(python3 -c "import json; print(' '.join(x['property_id'] for x in json.load(open('MANIFEST.json'))['checks']))"); do
  VERIF_SEED=$S python3 check/check.py $c --tier $T 2>/dev/null | grep -E "^VIOLATION|tier=" | cut -c1-220
done
