#!/bin/sh
# usage: mkworktree.sh <dir>   — scratch git worktree of /repo (HEAD) that also carries /repo's
# in-tree autotools build products with their timestamps, so `make -k check` there only
# rebuilds what was edited. Remove with: git -C /repo worktree remove --force <dir>
set -e
D="$1"
git -C /repo worktree add --detach "$D" HEAD -q
rsync -a --exclude=.git /repo/ "$D"/
git -C "$D" status --short | head -5
