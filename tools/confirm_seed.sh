#!/bin/sh
# usage: confirm_seed.sh <Cxx> <outdir-with patch.diff demo.cpp>   (independent confirmation of a seeded change)
# 1. scratch worktree of /repo HEAD with build products; apply patch; full `make -k check`
# 2. build demo.cpp against the modified libs and against /repo's pristine libs; run both
# prints a JSON-ish summary; removes the worktree.
C="$1"; O="$2"
W=/tmp/wt-confirm-$C-$$
/verif/tools/mkworktree.sh "$W" >/dev/null 2>&1 || exit 2
if ! git -C "$W" apply "$O/patch.diff"; then echo "PATCH DOES NOT APPLY to HEAD"; git -C /repo worktree remove --force "$W"; exit 2; fi
( cd "$W/cola" && make -s -j8 >/dev/null 2>&1; make -k -j8 check 2>&1 | grep -E "^# (TOTAL|PASS|FAIL|ERROR)|^FAIL|^ERROR" ) > /tmp/confirm-$C-tests.txt
LIBS_ORDER="libdialect libtopology libcola libavoid libvpsc"
ML=""; BL=""
for l in $LIBS_ORDER; do ML="$ML $W/cola/$l/.libs/$l.a"; BL="$BL /repo/cola/$l/.libs/$l.a"; done
g++ -std=gnu++11 -I"$W/cola" "$O/demo.cpp" $ML -o /tmp/confirm-$C-mod 2>/tmp/confirm-$C-build.txt
g++ -std=gnu++11 -I/repo/cola "$O/demo.cpp" $BL -o /tmp/confirm-$C-base 2>>/tmp/confirm-$C-build.txt
timeout 600 /tmp/confirm-$C-mod > /tmp/confirm-$C-mod.out 2>&1; RM=$?
timeout 600 /tmp/confirm-$C-base > /tmp/confirm-$C-base.out 2>&1; RB=$?
PASS=$(grep -c "^# FAIL:  0" /tmp/confirm-$C-tests.txt); TOT=$(grep "^# PASS" /tmp/confirm-$C-tests.txt | awk '{s+=$3} END {print s}')
echo "seed=$C suites_with_FAIL0=$PASS tests_passed=$TOT demo_mod_exit=$RM demo_base_exit=$RB"
grep -E "^FAIL|^ERROR" /tmp/confirm-$C-tests.txt | head
rm -f /tmp/confirm-$C-mod /tmp/confirm-$C-base
git -C /repo worktree remove --force "$W"
