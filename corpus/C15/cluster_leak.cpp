#include "libavoid/libavoid.h"
using namespace Avoid;
int main(int argc, char**argv){
  Router *r = new Router(OrthogonalRouting);
  r->setRoutingParameter(clusterCrossingPenalty, 50);
  Rectangle a(Point(0,0), Point(20,20)), b(Point(100,0), Point(120,20));
  ShapeRef *s1 = new ShapeRef(r, a), *s2 = new ShapeRef(r, b);
  Polygon cp = Rectangle(Point(-10,-10), Point(30,30));
  ClusterRef *c = new ClusterRef(r, cp);
  ConnRef *cn = new ConnRef(r, ConnEnd(Point(10,-30)), ConnEnd(Point(110,50)));
  r->processTransaction();
  printf("route %zu\n", cn->displayRoute().size());
  if (argc > 1) r->deleteCluster(c);
  r->processTransaction();
  delete r;
  return 0;
}
