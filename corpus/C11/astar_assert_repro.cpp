// C15 candidate: COLA_ASSERT(orthogonalDirectionsCount(thisDirs) > 0) makepath.cpp:938 (AStarPathPrivate::determineEndPointLocation).
// Minimised from harness/c11.cpp --seed 2 --tier thorough --only 5413.
#include "libavoid/libavoid.h"
#include <cstdio>
using namespace Avoid;
static void pr(const char*n,const PolyLine&r){printf("%s:",n);for(size_t i=0;i<r.size();++i)printf(" (%g,%g)",r.ps[i].x,r.ps[i].y);printf("\n");}
int main(){
 Router *router = new Router(OrthogonalRouting); router->setTransactionUse(true);
 router->setRoutingParameter(shapeBufferDistance, 4.0); router->setRoutingParameter(idealNudgingDistance, 1.0);
 router->setRoutingOption(improveHyperedgeRoutesMovingJunctions, true);
 Rectangle r0(Point(328.0,48.0),Point(361.0,95.0)); ShapeRef *s0 = new ShapeRef(router, r0, 10);
 Rectangle r1(Point(40.0,52.0),Point(124.0,85.0)); ShapeRef *s1 = new ShapeRef(router, r1, 11);
 Rectangle r2(Point(587.0,93.0),Point(634.0,145.0)); ShapeRef *s2 = new ShapeRef(router, r2, 12);
 ShapeConnectionPin *p0 = new ShapeConnectionPin(s0, 1, 0.0, 0.5, true, 0.0, (ConnDirFlags) 1);
 ShapeConnectionPin *p1 = new ShapeConnectionPin(s0, 1, 0.5, 0.5, true, 0.0, (ConnDirFlags) 14);
 ShapeConnectionPin *p3 = new ShapeConnectionPin(s1, 2, 0.4375, 0.75, true, 0.0, (ConnDirFlags) 0);
 ShapeConnectionPin *p5 = new ShapeConnectionPin(s2, 2, 0.0, -1.0, false, 0.0, (ConnDirFlags) 0);
 ShapeConnectionPin *p6 = new ShapeConnectionPin(s2, 2, 0.5, 1.0, true, 5.0, (ConnDirFlags) 11);
 ShapeConnectionPin *p7 = new ShapeConnectionPin(s2, 3, 21.0, 52.0, false, 2.5, (ConnDirFlags) 14);
 ShapeConnectionPin *p8 = new ShapeConnectionPin(s2, 1, 0.1875, 0.0, true, 5.0, (ConnDirFlags) 0);
 ShapeConnectionPin *p9 = new ShapeConnectionPin(s2, 1, 0.5, 0.3125, true, 5.0, (ConnDirFlags) 8);
 JunctionRef *j0 = new JunctionRef(router, Point(577.0,644.0), 100);
 ConnRef *c0 = new ConnRef(router, ConnEnd(j0), ConnEnd(Point(577.0,488.0)), 1000); c0->setRoutingType(ConnType_Orthogonal);
 ConnRef *c1 = new ConnRef(router, ConnEnd(s1, 1), ConnEnd(s2, 1), 1001); c1->setRoutingType(ConnType_Orthogonal);
 ConnRef *c2 = new ConnRef(router, ConnEnd(s2, 2), ConnEnd(s1, 2), 1002); c2->setRoutingType(ConnType_Orthogonal);
 ConnRef *c3 = new ConnRef(router, ConnEnd(s1, 2), ConnEnd(Point(759.0,273.0)), 1003); c3->setRoutingType(ConnType_Orthogonal);
 router->processTransaction();
 delete router; return 0; }

