// C11/C10 candidate (class cp-disp): the checkpoint is reached by a there-and-back spur; route() visits
// it, Polygon::simplify() (vecDir == 0 also at a 180 degree turn) erases the turning point, so
// displayRoute() no longer contains the checkpoint.
#include "libavoid/libavoid.h"
#include <cstdio>
using namespace Avoid;
static void pr(const char *n, const PolyLine &r) { printf("%s:", n); for (size_t i = 0; i < r.size(); ++i) printf(" (%g,%g)", r.ps[i].x, r.ps[i].y); printf("\n"); }
int main() {
    Router *router = new Router(OrthogonalRouting);
    router->setTransactionUse(true);
    Rectangle r1(Point(300, 300), Point(340, 340));
    new ShapeRef(router, r1);
    ConnRef *a = new ConnRef(router, ConnEnd(Point(100, 100)), ConnEnd(Point(100, 200)));
    a->setRoutingType(ConnType_Orthogonal);
    std::vector<Checkpoint> v; v.push_back(Checkpoint(Point(100, 50)));   // beyond the source, on the same line
    a->setRoutingCheckpoints(v);
    router->processTransaction();
    pr("route       ", a->route());
    pr("displayRoute", a->displayRoute());
    delete router;
    return 0;
}
