// C11 candidate (class del-attached): after Router::deleteShape() the connector end that was attached
// to the deleted shape becomes a point end whose vertex keeps visDirections == ConnDirNone
// (set in ConnRef::common_updateEndPoint for dummy pin ends), so the connector can no longer be routed:
// route() is the straight dummy line and the OTHER end, still attached to a live shape's pin class,
// no longer ends at a pin.
#include "libavoid/libavoid.h"
#include <cstdio>
using namespace Avoid;
static void pr(const char *n, const PolyLine &r) { printf("%s:", n); for (size_t i = 0; i < r.size(); ++i) printf(" (%g,%g)", r.ps[i].x, r.ps[i].y); printf("\n"); }
int main() {
    Router *router = new Router(OrthogonalRouting);
    router->setTransactionUse(true);
    Rectangle r1(Point(0, 0), Point(40, 40)), r2(Point(200, 100), Point(240, 140));
    ShapeRef *s1 = new ShapeRef(router, r1), *s2 = new ShapeRef(router, r2);
    new ShapeConnectionPin(s1, 1, 0.5, 0.5, true, 0.0, ConnDirNone);
    new ShapeConnectionPin(s2, 1, 0.5, 0.5, true, 0.0, ConnDirNone);
    ConnRef *a = new ConnRef(router, ConnEnd(s1, 1), ConnEnd(s2, 1));
    a->setRoutingType(ConnType_Orthogonal);
    router->processTransaction();
    pr("before", a->route());
    router->deleteShape(s1);
    router->processTransaction();
    pr("after ", a->route());
    delete router;
    return 0;
}
