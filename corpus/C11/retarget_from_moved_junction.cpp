// C11 candidate (class retarget-jmove, seen on the unchanged tree): a connector end attached to a
// junction is re-targeted by the user (setDestEndpoint) and the junction is moved in the SAME
// transaction. JunctionRef::moveAttachedConns() re-queues the old ConnEnd WITHOUT the
// connPinMoveUpdate flag (ShapeRef::moveAttachedConns passes it), so ActionInfo::addConnEndUpdate
// overwrites the user's queued change: the end stays on the junction.
#include "libavoid/libavoid.h"
#include <cstdio>
using namespace Avoid;
int main() {
    Router *router = new Router(OrthogonalRouting);
    router->setTransactionUse(true);
    JunctionRef *j = new JunctionRef(router, Point(100, 100), 1);
    ConnRef *a = new ConnRef(router, ConnEnd(Point(0, 0)), ConnEnd(j));
    a->setRoutingType(ConnType_Orthogonal);
    router->processTransaction();
    a->setDestEndpoint(ConnEnd(Point(300, 50)));     // user: detach from the junction
    router->moveJunction(j, 20, 10);                  // same transaction: the junction moves
    router->processTransaction();
    const PolyLine &r = a->route();
    printf("dst ConnEnd type %d (ConnEndPoint=%d, ConnEndJunction=%d); route ends at (%g,%g), expected (300,50)\n",
           (int) a->endpointConnEnds().second.type(), (int) ConnEndPoint, (int) ConnEndJunction,
           r.ps[r.size() - 1].x, r.ps[r.size() - 1].y);
    delete router;
    return 0;
}
