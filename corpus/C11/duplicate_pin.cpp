// a second pin with identical (class, dirs, offsets, insideOffset) is not inserted into the
// shape's std::set<ShapeConnectionPin*, CmpConnPinPtr> (Obstacle::addConnectionPin) and is never freed
#include "libavoid/libavoid.h"
using namespace Avoid;
int main() {
    Router *router = new Router(OrthogonalRouting);
    router->setTransactionUse(true);
    Rectangle r(Point(0, 0), Point(40, 40));
    ShapeRef *s = new ShapeRef(router, r, 1);
    new ShapeConnectionPin(s, 1, 0.5, 0.5, true, 0, ConnDirNone);
    new ShapeConnectionPin(s, 1, 0.5, 0.5, true, 0, ConnDirNone);
    router->processTransaction();
    delete router;
    return 0;
}
