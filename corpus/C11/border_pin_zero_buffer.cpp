// C11 candidate (class border0): a directional pin on the border of its shape, insideOffset 0,
// shapeBufferDistance 0: the orthogonal route leaves the pin ALONG the border line (Down), not in the
// only permitted direction (Left). With insideOffset > 0 or a buffer > 0 the first leg goes Left.
#include "libavoid/libavoid.h"
#include <cstdio>
using namespace Avoid;
int main() {
    Router *router = new Router(OrthogonalRouting);
    router->setTransactionUse(true);
    Rectangle r1(Point(0, 0), Point(40, 40)), r2(Point(100, 0), Point(140, 40));
    ShapeRef *s1 = new ShapeRef(router, r1), *s2 = new ShapeRef(router, r2);
    new ShapeConnectionPin(s1, 1, ATTACH_POS_LEFT, 0.5, true, 0.0, ConnDirLeft);
    new ShapeConnectionPin(s2, 1, 0.5, 0.5, true, 0.0, ConnDirNone);
    ConnRef *a = new ConnRef(router, ConnEnd(s1, 1), ConnEnd(s2, 1));
    a->setRoutingType(ConnType_Orthogonal);
    router->processTransaction();
    const PolyLine &r = a->displayRoute();
    for (size_t i = 0; i < r.size(); ++i) printf("(%g,%g) ", r.ps[i].x, r.ps[i].y);
    printf("\n");   // observed: (0,20) (0,40) (120,40) (120,20)  -- first leg is Down, mask is Left
    delete router;
    return 0;
}
