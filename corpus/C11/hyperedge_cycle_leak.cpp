// C15 candidate: HyperedgeImprover::execute leaks the HyperedgeTreeNode/Edge objects of a cyclic
// hyperedge (two connectors between the same two junctions); libavoid prints
// "Warning: Skipping cyclic hyperedge rooted at junction ..." and LeakSanitizer reports the tree.
#include "libavoid/libavoid.h"
using namespace Avoid;
int main() {
    Router *router = new Router(OrthogonalRouting);
    router->setTransactionUse(true);
    JunctionRef *j0 = new JunctionRef(router, Point(100, 100), 1);
    JunctionRef *j1 = new JunctionRef(router, Point(300, 200), 2);
    ConnRef *a = new ConnRef(router, ConnEnd(j0), ConnEnd(j1)); a->setRoutingType(ConnType_Orthogonal);
    ConnRef *b = new ConnRef(router, ConnEnd(j1), ConnEnd(j0)); b->setRoutingType(ConnType_Orthogonal);
    router->processTransaction();
    delete router;
    return 0;
}
