// C15 candidate (seen only in generator mode delattached): heap-use-after-free.
// A connector attached to a shape's pin class is created and the shape is deleted in the SAME
// transaction: Router::processActions deletes the ShapeRef first, then ConnRef::updateEndPoint ->
// common_updateEndPoint -> ConnEnd::position() dereferences m_anchor_obj of the queued ConnEnd copy
// (connend.cpp:128 reads the freed ShapeRef).
#include "libavoid/libavoid.h"
using namespace Avoid;
int main() {
    Router *router = new Router(OrthogonalRouting);
    router->setTransactionUse(true);
    Rectangle r1(Point(0, 0), Point(40, 40)), r2(Point(200, 100), Point(240, 140));
    ShapeRef *s1 = new ShapeRef(router, r1), *s2 = new ShapeRef(router, r2);
    new ShapeConnectionPin(s1, 1, 0.5, 0.5, true, 0.0, ConnDirNone);
    new ShapeConnectionPin(s2, 1, 0.5, 0.5, true, 0.0, ConnDirNone);
    router->processTransaction();
    ConnRef *a = new ConnRef(router, ConnEnd(s1, 1), ConnEnd(s2, 1));
    a->setRoutingType(ConnType_Orthogonal);
    router->deleteShape(s1);
    router->processTransaction();
    delete router;
    return 0;
}
