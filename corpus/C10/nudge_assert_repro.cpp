// C15/C10 candidate: COLA_ASSERT(vs[it->second]->id != freeSegmentID) orthogonal.cpp:3041 fails (debug-only loop in nudgeOrthogonalRoutes):
// an unsatisfied channel-left variable starts the range (i, i+1) whose second index is the free segment itself.
// Minimised from harness/c11.cpp --seed 1 --tier quick --scale 8 --only 2728. Standalone: g++ -I/repo/cola this.cpp libavoid objects.
#include "libavoid/libavoid.h"
#include <cstdio>
using namespace Avoid;
static void pr(const char*n,const PolyLine&r){printf("%s:",n);for(size_t i=0;i<r.size();++i)printf(" (%g,%g)",r.ps[i].x,r.ps[i].y);printf("\n");}
int main(){
 Router *router = new Router(OrthogonalRouting); router->setTransactionUse(true);
 router->setRoutingParameter(shapeBufferDistance, 2.0); router->setRoutingParameter(idealNudgingDistance, 4.0);
 router->setRoutingOption(improveHyperedgeRoutesMovingJunctions, true);
 Rectangle r0(Point(311.0,611.0),Point(403.0,673.75)); ShapeRef *s0 = new ShapeRef(router, r0, 10);
 Rectangle r1(Point(573.0,580.0),Point(618.0,658.0)); ShapeRef *s1 = new ShapeRef(router, r1, 11);
 ShapeConnectionPin *p0 = new ShapeConnectionPin(s0, 2, 1.0, 0.5625, true, 2.5, (ConnDirFlags) 0);
 p0->setExclusive(false);
 ShapeConnectionPin *p2 = new ShapeConnectionPin(s1, 2, 0.5, 1.0, true, 0.0, (ConnDirFlags) 0);
 p2->setExclusive(false);
 ShapeConnectionPin *p4 = new ShapeConnectionPin(s1, 1, 14.75, 78.0, false, 5.0, (ConnDirFlags) 0);
 JunctionRef *j1 = new JunctionRef(router, Point(91.0,689.0), 101); j1->setPositionFixed(true);
 ConnRef *c0 = new ConnRef(router, ConnEnd(j1), ConnEnd(Point(143.5,485.0)), 1000); c0->setRoutingType(ConnType_Orthogonal);
 ConnRef *c1 = new ConnRef(router, ConnEnd(s1, 2), ConnEnd(s0, 2), 1001); c1->setRoutingType(ConnType_Orthogonal);
 ConnRef *c2 = new ConnRef(router, ConnEnd(j1), ConnEnd(Point(480.0,289.0)), 1002); c2->setRoutingType(ConnType_Orthogonal);
 ConnRef *c3 = new ConnRef(router, ConnEnd(s1, 2), ConnEnd(Point(128.75,391.0)), 1003); c3->setRoutingType(ConnType_Orthogonal);
 ConnRef *c4 = new ConnRef(router, ConnEnd(s1, 2), ConnEnd(s0, 2), 1004); c4->setRoutingType(ConnType_Orthogonal);
 ConnRef *c5 = new ConnRef(router, ConnEnd(s1, 2), ConnEnd(s0, 2), 1005); c5->setRoutingType(ConnType_Orthogonal);
 { std::vector<Checkpoint> v; v.push_back(Checkpoint(Point(240.0,256.0))); v.push_back(Checkpoint(Point(312.0,256.0))); v.push_back(Checkpoint(Point(296.0,512.0))); c5->setRoutingCheckpoints(v); }
 router->processTransaction();
 router->moveShape(s0, -9.0, 17.0);
 router->processTransaction();
 delete router; return 0; }

