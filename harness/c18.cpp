// C18 correspondence harness: libdialect separation constraints (SepPair / SepMatrix / TGLF) vs the
// Lean model (lean/AdaptaVerif/Model/Sep.lean, driver mode c18).
//
// Case classes (tag):
//   table          exhaustive: one case per (SepDir, SepType, GapType); rows = gaps {-7,-0,+0,7} x
//                  extra boundary gap {0,1.5} x base pair {fresh, pre-seeded}; per row the pair is
//                  transformed by each of the 8 symmetries (0 = identity = no call) and we print the
//                  fields, SepPair::writeTglf and the two generated vpsc::Constraints; plus all 64
//                  two-step compositions (fields only).
//   hist-oriented  random op history on one SepMatrix; every unordered id pair is always addressed
//                  in one fixed orientation.
//   flip-history   same, but orientations are mixed (the class in which a stale
//                  SepPair::flippedRetrieval can matter). Case 0 of the class is the minimal witness.
//   pair-random    random SepPair field values (also states addSep cannot produce), random
//                  tglfPrecision 0..6 and gaps k/64: same observations as a table row.
//   graph-rotate   random Graph with square nodes, routed edges and constraints chosen near the
//                  actual separations; Graph::rotate90cw / rotate90acw / rotate180 applied; node
//                  centres, routes and generated constraints before and after.
//   tglf, tglf-fine  random Graph (nodes, routed edges, SepMatrix) -> Graph::writeTglf ->
//                  buildGraphFromTglf; "fine" uses values that do not survive the writer's precision.
// Inputs are printed before the library is called. Doubles are printed with %a.
#include "common.h"
#include <sstream>
#include <stdexcept>
#include <map>
#include <set>
#include "libvpsc/variable.h"
#include "libvpsc/constraint.h"
#include "libvpsc/rectangle.h"
#include "libdialect/commontypes.h"
#include "libdialect/constraints.h"
#include "libdialect/graphs.h"
#include "libdialect/io.h"
#include "libdialect/ortho.h"

using namespace dialect;
using std::string;
using std::vector;

static const char *hxs(double d) { static char buf[8][64]; static int i = 0; i = (i + 1) % 8; snprintf(buf[i], 64, "%s", vh::hx(d).c_str()); return buf[i]; }

static const char *GT[] = {"C", "B"};
static const char *ST[] = {"NONE", "EQ", "INEQ"};
static const char *SD[] = {"EAST", "SOUTH", "WEST", "NORTH", "RIGHT", "DOWN", "LEFT", "UP"};
static const char *CD[] = {"EAST", "SOUTH", "WEST", "NORTH"};

// transform index: 0 = identity, 1.. = the C++ enum value + 1
static std::string oneTok(std::string t) { for (auto &c : t) if (c == ' ' || c == '\n') c = '_'; return t.substr(0, 120); }
static void applyTf(SepPair &sp, int t) { if (t > 0) sp.transform((SepTransform)(t - 1)); }
static bool swapsAxes(int t) { return t == 1 || t == 2 || t == 6 || t == 7; }

static void printFields(const SepPair &sp) {
    printf(" %s %s %s %s %s %s", GT[(int)sp.xgt], ST[(int)sp.xst], hxs(sp.xgap), GT[(int)sp.ygt], ST[(int)sp.yst], hxs(sp.ygap));
}

// TGLF text -> "<nlines> tok tok ..." (each SEPCO line has 6 tokens)
static void printTglfLines(const string &s) {
    std::istringstream in(s);
    string line; vector<string> lines;
    while (std::getline(in, line)) if (!line.empty()) lines.push_back(line);
    printf(" %zu", lines.size());
    for (auto &l : lines) printf(" %s", l.c_str());
}

struct Rep {          // a hand-built ColaGraphRep for ids with given sizes
    ColaGraphRep cgr;
    vpsc::Variables vs;
    vector<unsigned> ids;
    ~Rep() { for (auto r : cgr.rs) delete r; for (auto v : vs) delete v; }
    void add(unsigned id, double w, double h) {
        size_t ix = cgr.rs.size();
        cgr.rs.push_back(new vpsc::Rectangle(-w / 2, w / 2, -h / 2, h / 2));
        cgr.id2ix[id] = ix; cgr.ix2id[ix] = id;
        vs.push_back(new vpsc::Variable((int)ix));
        ids.push_back(id);
    }
};

static void printCon(vpsc::Constraint *c, const vector<unsigned> &ix2id) {
    if (!c) { printf(" none"); return; }
    printf(" %u %u %s %d", ix2id[c->left->id], ix2id[c->right->id], hxs(c->gap), (int)c->equality);
}

// ------------------------------------------------------------------------------------------ table
static void observePair(int row, const SepPair &sp0, SepMatrix &M, bool compose, double SW, double SH, double TW, double TH) {
    for (int t = 0; t < 8; ++t) {
        SepPair sp = sp0;
        applyTf(sp, t);
        printf("F %d %d", row, t); printFields(sp); printf("\n");
        std::map<id_type, unsigned> id2ext;
        printf("W %d %d", row, t);
        try { string s = sp.writeTglf(id2ext, M); printTglfLines(s); }
        catch (std::runtime_error &e) { printf(" THROW"); }
        printf("\n");
        Rep rep;
        if (swapsAxes(t)) { rep.add(3, SH, SW); rep.add(8, TH, TW); }
        else { rep.add(3, SW, SH); rep.add(8, TW, TH); }
        vpsc::Constraint *cx = sp.generateSeparationConstraint(vpsc::XDIM, rep.cgr, &M, rep.vs);
        vpsc::Constraint *cy = sp.generateSeparationConstraint(vpsc::YDIM, rep.cgr, &M, rep.vs);
        printf("C %d %d X", row, t); printCon(cx, rep.ids); printf(" Y"); printCon(cy, rep.ids); printf("\n");
        delete cx; delete cy;
        if (compose) {
            for (int t2 = 0; t2 < 8; ++t2) {
                SepPair sq = sp;
                applyTf(sq, t2);
                printf("G %d %d %d", row, t, t2); printFields(sq); printf("\n");
            }
        }
    }
    {
        SepPair sp = sp0;
        printf("Q %d %d %d %d %d %d", row, (int)sp.isVerticalCardinal(), (int)sp.isHorizontalCardinal(), (int)sp.isVAlign(), (int)sp.isHAlign(), (int)sp.isCardinal());
        try { CardinalDir d = sp.getCardinalDir(); printf(" %s", CD[(int)d]); } catch (std::runtime_error &e) { printf(" THROW"); }
        printf("\n");
        sp.roundGapsUpAbs();
        printf("R %d %s %s\n", row, hxs(sp.xgap), hxs(sp.ygap));
    }
}

static void tableCase(long k, int dir, int st, int gt) {
    vh::beginCase(k, "table");
    const double gaps[4] = {-7.0, -0.0, 0.0, 7.0};
    const double extras[2] = {0.0, 1.5};
    const double SW = 30, SH = 20, TW = 50, TH = 44;
    printf("sizes %s %s %s %s\n", hxs(SW), hxs(SH), hxs(TW), hxs(TH));
    printf("ids 3 8\n");
    int row = 0;
    for (int gi = 0; gi < 4; ++gi) for (int ei = 0; ei < 2; ++ei) for (int base = 0; base < 2; ++base, ++row) {
        printf("I %d %s %s %s %s %s %d 3\n", row, SD[dir], ST[st], GT[gt], hxs(gaps[gi]), hxs(extras[ei]), base);
        fflush(stdout);
        Graph G;
        SepMatrix &M = G.getSepMatrix();
        M.setExtraBdryGap(extras[ei]);
        SepPair sp0;
        sp0.src = 3; sp0.tgt = 8;
        if (base == 1) {
            sp0.addSep(GapType::BDRY, SepDir::RIGHT, SepType::INEQ, 3.0);
            sp0.addSep(GapType::CENTRE, SepDir::UP, SepType::EQ, 4.0);
        }
        sp0.addSep((GapType)gt, (SepDir)dir, (SepType)st, gaps[gi]);
        observePair(row, sp0, M, ei == 0, SW, SH, TW, TH);
    }
    // the free functions on SepDir
    printf("D %s %s %d %s %s\n", SD[dir], SD[(int)negateSepDir((SepDir)dir)], (int)sepDirIsCardinal((SepDir)dir),
           SD[(int)lateralWeakening((SepDir)dir)], SD[(int)cardinalStrengthening((SepDir)dir)]);
    vh::endCase();
}


static void pairRandomCase(long k, uint64_t seed) {
    vh::Rng r = vh::caseRng(seed, k);
    vh::beginCase(k, "pair-random");
    const double SW = 30, SH = 20, TW = 50, TH = 44;
    printf("sizes %s %s %s %s\n", hxs(SW), hxs(SH), hxs(TW), hxs(TH));
    printf("ids 3 8\n");
    for (int row = 0; row < 6; ++row) {
        auto gap = [&]() -> double {
            int c = r.range(0, 7);
            if (c == 0) return 0.0;
            if (c == 1) return -0.0;
            double v = (c < 4) ? (double)r.range(1, 30) : (c < 6 ? r.range(1, 2000) / 8.0 : r.range(1, 20000) / 64.0);
            return r.coin() ? -v : v;
        };
        SepPair sp0;
        sp0.src = 3; sp0.tgt = 8;
        sp0.xgt = (GapType)r.range(0, 1); sp0.ygt = (GapType)r.range(0, 1);
        sp0.xst = (SepType)r.range(0, 2); sp0.yst = (SepType)r.range(0, 2);
        sp0.xgap = gap(); sp0.ygap = gap();
        if (r.coin(1, 3)) { sp0.xgt = GapType::CENTRE; sp0.xst = SepType::EQ; sp0.xgap = r.coin() ? 0.0 : -0.0; }
        else if (r.coin(1, 3)) { sp0.ygt = GapType::CENTRE; sp0.yst = SepType::EQ; sp0.ygap = r.coin() ? 0.0 : -0.0; }
        sp0.tglfPrecision = (unsigned)r.range(0, 6);
        double extra = r.coin() ? 0.0 : r.range(0, 400) / 64.0;
        printf("P %d", row); printFields(sp0); printf(" %s %u\n", hxs(extra), sp0.tglfPrecision);
        fflush(stdout);
        Graph G;
        SepMatrix &M = G.getSepMatrix();
        M.setExtraBdryGap(extra);
        observePair(row, sp0, M, false, SW, SH, TW, TH);
    }
    vh::endCase();
}

// ------------------------------------------------------------------------------------------ ops
struct OpGen {
    vh::Rng &r;
    vector<unsigned> ids;          // the ids in play (model ids = these numbers)
    bool mixed;                    // mixed orientation allowed?
    bool fine;                     // gaps not multiples of 1/8
    std::map<std::pair<unsigned, unsigned>, bool> orient;   // pair -> address as (hi,lo)?
    OpGen(vh::Rng &r, bool mixed, bool fine) : r(r), mixed(mixed), fine(fine) {}
    void pickPair(unsigned &a, unsigned &b, bool allowEqual) {
        size_t i = r.range(0, ids.size() - 1), j = r.range(0, ids.size() - 1);
        if (!(allowEqual && r.coin(1, 25))) while (j == i) j = r.range(0, ids.size() - 1);
        unsigned lo = std::min(ids[i], ids[j]), hi = std::max(ids[i], ids[j]);
        bool rev;
        if (mixed) rev = r.coin();
        else {
            auto key = std::make_pair(lo, hi);
            if (!orient.count(key)) orient[key] = r.coin();
            rev = orient[key];
        }
        a = rev ? hi : lo; b = rev ? lo : hi;
    }
    double gap() {
        int c = r.range(0, 9);
        if (c == 0) return 0.0;
        if (c == 1) return -0.0;
        double v;
        if (fine) { v = r.range(1, 40000) / 64.0 + (r.coin() ? 1.0 / 3.0 : 0.0007); }
        else if (c < 5) v = r.range(1, 40);
        else v = r.range(1, 400) / 8.0;
        return r.coin(1, 3) ? -v : v;
    }
    vector<unsigned> subset() {
        vector<unsigned> s;
        for (unsigned id : ids) if (r.coin()) s.push_back(id);
        return s;
    }
};

// Performs one random op on M; prints "op <i> ..." before and "res <i> ..." after.
// `allowed` bit mask: 1 = structural ops (free/removeNode/clear/subset transforms/round/extra), 2 = queries
static void randomOp(int i, OpGen &g, SepMatrix &M, int allowed) {
    vh::Rng &r = g.r;
    unsigned a, b;
    int kind = r.range(0, 99);
    auto done = [&](const char *s) { printf("res %d %s\n", i, s); };
    try {
        if (kind < 40) {
            g.pickPair(a, b, true);
            int gt = r.range(0, 1), sd = r.range(0, 7), st = r.coin(1, 12) ? 0 : r.range(1, 2);
            double gap = g.gap();
            printf("op %d addSep %u %u %s %s %s %s\n", i, a, b, GT[gt], SD[sd], ST[st], hxs(gap)); fflush(stdout);
            M.addSep(a, b, (GapType)gt, (SepDir)sd, (SepType)st, gap); done("done");
        } else if (kind < 48) {
            g.pickPair(a, b, true);
            double dx = g.gap(), dy = g.gap();
            printf("op %d addFixedRelativeSep %u %u %s %s\n", i, a, b, hxs(dx), hxs(dy)); fflush(stdout);
            M.addFixedRelativeSep(a, b, dx, dy); done("done");
        } else if (kind < 54) {
            g.pickPair(a, b, false);
            int d = r.range(0, 3);
            printf("op %d setCardinalOP %u %u %s\n", i, a, b, CD[d]); fflush(stdout);
            M.setCardinalOP(a, b, (CardinalDir)d); done("done");
        } else if (kind < 58) {
            g.pickPair(a, b, false);
            printf("op %d hAlign %u %u\n", i, a, b); fflush(stdout);
            M.hAlign(a, b); done("done");
        } else if (kind < 62) {
            g.pickPair(a, b, false);
            printf("op %d vAlign %u %u\n", i, a, b); fflush(stdout);
            M.vAlign(a, b); done("done");
        } else if (kind < 65) {
            g.pickPair(a, b, false);
            int d = r.range(0, 1);
            printf("op %d alignByEquatedCoord %u %u %s\n", i, a, b, d == 0 ? "X" : "Y"); fflush(stdout);
            M.alignByEquatedCoord(a, b, d == 0 ? vpsc::XDIM : vpsc::YDIM); done("done");
        } else if (kind < 77 || !(allowed & 1)) {
            int t = r.range(1, 7);
            printf("op %d transform %d\n", i, t); fflush(stdout);
            M.transform((SepTransform)(t - 1)); done("done");
        } else if (kind < 81) {
            int t = r.range(1, 7);
            vector<unsigned> s = g.subset();
            printf("op %d transformClosed %d %zu", i, t, s.size()); for (unsigned x : s) printf(" %u", x); printf("\n"); fflush(stdout);
            M.transformClosedSubset((SepTransform)(t - 1), std::set<id_type>(s.begin(), s.end())); done("done");
        } else if (kind < 85) {
            int t = r.range(1, 7);
            vector<unsigned> s = g.subset();
            printf("op %d transformOpen %d %zu", i, t, s.size()); for (unsigned x : s) printf(" %u", x); printf("\n"); fflush(stdout);
            M.transformOpenSubset((SepTransform)(t - 1), std::set<id_type>(s.begin(), s.end())); done("done");
        } else if (kind < 88) {
            g.pickPair(a, b, true);
            printf("op %d free %u %u\n", i, a, b); fflush(stdout);
            M.free(a, b); done("done");
        } else if (kind < 90) {
            a = g.ids[r.range(0, g.ids.size() - 1)];
            printf("op %d removeNode %u\n", i, a); fflush(stdout);
            M.removeNode(a); done("done");
        } else if (kind < 91) {
            printf("op %d clear\n", i); fflush(stdout);
            M.clear(); done("done");
        } else if (kind < 93) {
            printf("op %d roundGapsUpward\n", i); fflush(stdout);
            M.roundGapsUpward(); done("done");
        } else if (kind < 95) {
            double e = g.fine ? r.range(0, 4000) / 64.0 + 0.0004 : r.range(0, 40) / 8.0;
            printf("op %d setExtraBdryGap %s\n", i, hxs(e)); fflush(stdout);
            M.setExtraBdryGap(e); done("done");
        } else if (!(allowed & 2)) {
            int t = r.range(1, 7);
            printf("op %d transform %d\n", i, t); fflush(stdout);
            M.transform((SepTransform)(t - 1)); done("done");
        } else if (kind < 97) {
            g.pickPair(a, b, true);
            printf("op %d getCardinalDir %u %u\n", i, a, b); fflush(stdout);
            try {
                CardinalDir d = M.getCardinalDir(a, b);
                printf("res %d card %s\n", i, CD[(int)d]);
            } catch (std::runtime_error &e) {
                printf("res %d card %s\n", i, string(e.what()) == "No constraint." ? "NOCONSTRAINT" : "NOTCARDINAL");
            }
        } else if (kind < 99) {
            g.pickPair(a, b, true);
            printf("op %d areHAligned %u %u\n", i, a, b); fflush(stdout);
            printf("res %d bool %d\n", i, (int)M.areHAligned(a, b));
        } else {
            g.pickPair(a, b, true);
            printf("op %d areVAligned %u %u\n", i, a, b); fflush(stdout);
            printf("res %d bool %d\n", i, (int)M.areVAligned(a, b));
        }
    } catch (std::runtime_error &e) {
        done("threw");
    }
}

// dump observable state of M after op i: TGLF text and generated constraints in both dimensions
static void dumpState(int i, Graph &G, SepMatrix &M, vpsc::Variables &vs, const vector<unsigned> &ix2id, const char *pfx = "") {
    std::map<id_type, unsigned> id2ext;
    printf("%sw %d", pfx, i);
    try { string s = M.writeTglf(id2ext); printTglfLines(s); } catch (std::runtime_error &e) { printf(" THROW"); }
    printf("\n");
    for (int d = 0; d < 2; ++d) {
        vpsc::Constraints cs; vpsc::Rectangles bbs;
        M.generateSeparationConstraints(d == 0 ? vpsc::XDIM : vpsc::YDIM, vs, cs, bbs);
        printf("%s%s %d %zu", pfx, d == 0 ? "cx" : "cy", i, cs.size());
        for (auto c : cs) { printCon(c, ix2id); delete c; }
        printf("\n");
    }
}

static void historyCase(long k, uint64_t seed, bool mixed, long classIndex) {
    vh::Rng r = vh::caseRng(seed, k);
    vh::beginCase(k, mixed ? "flip-history" : "hist-oriented");
    Graph G;
    SepMatrix &M = G.getSepMatrix();
    ColaGraphRep &cgr = G.getColaGraphRep();
    vpsc::Variables vs;
    vector<unsigned> ix2id;
    OpGen g(r, mixed, false);
    bool witness2 = mixed && classIndex == 1;       // query-triggered variant
    bool witness = (mixed && classIndex == 0) || witness2;
    int n = witness ? 2 : r.range(2, 5);
    // ids: increasing, not necessarily dense
    unsigned id = witness ? 0 : r.range(0, 3);
    for (int i = 0; i < n; ++i) {
        double w = witness ? 30 : r.range(1, 40) * 2, h = witness ? 30 : r.range(1, 40) * 2;
        printf("node %u %s %s\n", id, hxs(w), hxs(h));
        size_t ix = cgr.rs.size();
        cgr.rs.push_back(new vpsc::Rectangle(-w / 2, w / 2, -h / 2, h / 2));   // owned (deleted) by ~Graph
        cgr.id2ix[id] = ix; cgr.ix2id[ix] = id;
        vs.push_back(new vpsc::Variable((int)ix));
        ix2id.push_back(id); g.ids.push_back(id);
        id += witness ? 1 : r.range(1, 3);
    }
    if (witness2) {
        // a read-only query in the reverse orientation leaves the flag set; the next addSep in the
        // *original* orientation is then stored reversed
        printf("op 0 addSep 0 1 C EAST INEQ %s\n", hxs(5.0)); fflush(stdout);
        M.addSep(0, 1, GapType::CENTRE, SepDir::EAST, SepType::INEQ, 5.0); printf("res 0 done\n");
        dumpState(0, G, M, vs, ix2id);
        printf("op 1 getCardinalDir 1 0\n"); fflush(stdout);
        printf("res 1 card %s\n", CD[(int)M.getCardinalDir(1, 0)]);
        dumpState(1, G, M, vs, ix2id);
        printf("op 2 addSep 0 1 C EAST INEQ %s\n", hxs(10.0)); fflush(stdout);
        M.addSep(0, 1, GapType::CENTRE, SepDir::EAST, SepType::INEQ, 10.0); printf("res 2 done\n");
        dumpState(2, G, M, vs, ix2id);
    } else if (witness) {
        // minimal history exhibiting the stale-flag behaviour: create the pair via (hi, lo), then
        // address it as (lo, hi)
        printf("op 0 addSep 1 0 C EAST INEQ %s\n", hxs(5.0)); fflush(stdout);
        M.addSep(1, 0, GapType::CENTRE, SepDir::EAST, SepType::INEQ, 5.0); printf("res 0 done\n");
        dumpState(0, G, M, vs, ix2id);
        printf("op 1 addSep 0 1 C EAST INEQ %s\n", hxs(10.0)); fflush(stdout);
        M.addSep(0, 1, GapType::CENTRE, SepDir::EAST, SepType::INEQ, 10.0); printf("res 1 done\n");
        dumpState(1, G, M, vs, ix2id);
    } else {
        int nops = r.range(1, 14);
        for (int i = 0; i < nops; ++i) {
            randomOp(i, g, M, 3);
            dumpState(i, G, M, vs, ix2id);
        }
    }
    for (auto v : vs) delete v;
    vh::endCase();
}


// ------------------------------------------------------------------------------------------ graph-rotate
static void graphRotateCase(long k, uint64_t seed) {
    vh::Rng r = vh::caseRng(seed, k);
    vh::beginCase(k, "graph-rotate");
    Graph G;
    int n = r.range(2, 5);
    vector<Node_SP> nodes;
    for (int i = 0; i < n; ++i) {
        double cx = r.range(-400, 400) / 2.0, cy = r.range(-400, 400) / 2.0, w = r.range(1, 40) * 2.0;
        printf("node %d -1 %s %s %s %s\n", i, hxs(cx), hxs(cy), hxs(w), hxs(w));     // square nodes
        Node_SP u = Node::allocate(cx, cy, w, w);
        G.addNode(u); nodes.push_back(u);
    }
    int ne = r.range(0, 3);
    for (int e = 0; e < ne; ++e) {
        int s = r.range(0, n - 1), t = r.range(0, n - 1);
        if (s == t) continue;
        bool dup = false;
        for (auto &p : G.getEdgeLookup()) {
            unsigned a = p.second->getSourceEnd()->id(), b = p.second->getTargetEnd()->id();
            if ((a == nodes[s]->id() && b == nodes[t]->id()) || (a == nodes[t]->id() && b == nodes[s]->id())) dup = true;
        }
        if (dup) continue;
        int np = r.range(1, 4);
        vector<Avoid::Point> pts;
        for (int j = 0; j < np; ++j) pts.push_back(Avoid::Point(r.range(-400, 400) / 2.0, r.range(-400, 400) / 2.0));
        Edge_SP ed = Edge::allocate(nodes[s], nodes[t]);
        ed->setRoute(pts);
        G.addEdge(ed);
    }
    SepMatrix &M = G.getSepMatrix();
    if (r.coin(1, 3)) { double e = r.range(0, 16) / 2.0; printf("op 0 setExtraBdryGap %s\n", hxs(e)); M.setExtraBdryGap(e); printf("res 0 done\n"); }
    int nc = r.range(1, 5);
    for (int i = 1; i <= nc; ++i) {
        int a = r.range(0, n - 1), b = r.range(0, n - 1);
        if (a == b) continue;
        if (a > b) std::swap(a, b);          // one orientation only: independent of the flag semantics
        int gt = r.range(0, 1), sd = r.range(0, 7), st = r.range(1, 2);
        Avoid::Point ca = nodes[a]->getCentre(), cb = nodes[b]->getCentre();
        double d;
        switch (sd % 4) { case 0: d = cb.x - ca.x; break; case 1: d = cb.y - ca.y; break; case 2: d = ca.x - cb.x; break; default: d = ca.y - cb.y; }
        if (gt == 1) d -= (nodes[a]->getDimensions().first + nodes[b]->getDimensions().first) / 2.0 + M.getExtraBdryGap();
        double gap = d + (double[]){-2.0, 0.0, 0.0, 2.0}[r.range(0, 3)];
        printf("op %d addSep %d %d %s %s %s %s\n", i, a, b, GT[gt], SD[sd], ST[st], hxs(gap)); fflush(stdout);
        M.addSep(nodes[a]->id(), nodes[b]->id(), (GapType)gt, (SepDir)sd, (SepType)st, gap);
        printf("res %d done\n", i);
    }
    std::map<unsigned, unsigned> id2index;
    for (int i = 0; i < n; ++i) id2index[nodes[i]->id()] = i;
    auto dump = [&](const char *pfx) {
        for (int i = 0; i < n; ++i) { Avoid::Point c = nodes[i]->getCentre(); printf("%spos %d %s %s\n", pfx, i, hxs(c.x), hxs(c.y)); }
        for (auto &p : G.getEdgeLookup()) {
            vector<Avoid::Point> rt = p.second->getRoute();
            printf("%sroute %zu", pfx, rt.size());
            for (auto &q : rt) printf(" %s %s", hxs(q.x), hxs(q.y));
            printf("\n");
        }
        ColaGraphRep &cgr = G.updateColaGraphRep();
        vector<unsigned> ix2idx(cgr.rs.size());
        for (auto &p : cgr.ix2id) ix2idx[p.first] = id2index[p.second];
        vpsc::Variables vs;
        for (size_t i = 0; i < cgr.rs.size(); ++i) vs.push_back(new vpsc::Variable((int)i));
        for (int d = 0; d < 2; ++d) {
            vpsc::Constraints cs; vpsc::Rectangles bbs;
            M.generateSeparationConstraints(d == 0 ? vpsc::XDIM : vpsc::YDIM, vs, cs, bbs);
            printf("%s%s %zu", pfx, d == 0 ? "cx" : "cy", cs.size());
            for (auto c : cs) { printCon(c, ix2idx); delete c; }
            printf("\n");
        }
        for (auto v : vs) delete v;
    };
    dump("b");
    int which = r.range(1, 3);       // 1 = rotate90cw, 2 = rotate90acw, 3 = rotate180 (transform indices)
    printf("rotate %d\n", which); fflush(stdout);
    if (which == 1) G.rotate90cw(); else if (which == 2) G.rotate90acw(); else G.rotate180();
    dump("a");
    vh::endCase();
}

// ------------------------------------------------------------------------------------------ tglf
static void tglfCase(long k, uint64_t seed, bool fine) {
    vh::Rng r = vh::caseRng(seed, k);
    vh::beginCase(k, fine ? "tglf-fine" : "tglf");
    Graph G;
    int n = r.range(2, 6);
    int extMode = r.range(0, 3);     // 0: no external ids, write internal; 1: all set; 2: some set; 3: some set, NEAR the internal ids
    bool useExt = extMode != 0;
    vector<Node_SP> nodes;
    std::set<unsigned> usedExt;
    auto coord = [&]() -> double {
        if (fine) return r.range(-40000000, 40000000) / 1024.0;    // needs > 6 significant digits
        return r.range(-39999, 39999) / 4.0;                        // exact in 6 significant digits
    };
    auto dim = [&]() -> double { return fine ? r.range(1, 400000) / 1024.0 : r.range(1, 400) / 4.0; };
    printf("useext %d\n", (int)useExt);
    for (int i = 0; i < n; ++i) {
        double cx = coord(), cy = coord(), w = dim(), h = dim();
        int ext = -1;
        Node_SP u = Node::allocate(cx, cy, w, h);
        if (extMode == 1 || (extMode == 2 && r.coin())) { do { ext = r.range(0, 60); } while (usedExt.count(ext)); usedExt.insert(ext); }
        // internal ids come from a process-wide counter, so fixed small external ids are soon far below them: mode 3
        // draws the external ids around the internal ids of this graph's own nodes (u->id() - 3 .. + n + 2), which is
        // what a file numbered 0..k with a few nodes added later looks like (ids tie, interleave, or sit just above)
        if (extMode == 3 && r.coin(2, 3)) {
            int tries = 0;
            do { ext = (int) u->id() - 3 + (int) r.range(0, n + 5); if (ext < 0) ext = 0; } while (usedExt.count(ext) && ++tries < 20);
            if (usedExt.count(ext)) ext = -1; else usedExt.insert(ext);
        }
        printf("node %d %d %s %s %s %s\n", i, ext, hxs(cx), hxs(cy), hxs(w), hxs(h));
        printf("nid %d %u\n", i, u->id());
        if (ext >= 0) u->setExternalId((unsigned)ext);
        G.addNode(u);
        nodes.push_back(u);
    }
    int ne = r.range(0, 5);
    for (int e = 0; e < ne; ++e) {
        int s = r.range(0, n - 1), t = r.range(0, n - 1);
        if (s == t) continue;
        bool dup = false;
        for (auto &p : G.getEdgeLookup()) {
            unsigned a = p.second->getSourceEnd()->id(), b = p.second->getTargetEnd()->id();
            if ((a == nodes[s]->id() && b == nodes[t]->id()) || (a == nodes[t]->id() && b == nodes[s]->id())) dup = true;
        }
        if (dup) continue;
        int np = r.range(0, 4);
        printf("edge %d %d %d", s, t, np);
        vector<Avoid::Point> pts;
        for (int j = 0; j < np; ++j) { double x = coord(), y = coord(); pts.push_back(Avoid::Point(x, y)); printf(" %s %s", hxs(x), hxs(y)); }
        printf("\n");
        Edge_SP ed = Edge::allocate(nodes[s], nodes[t]);
        if (np > 0) ed->setRoute(pts);
        G.addEdge(ed);
    }
    // constraints: ops on the graph's SepMatrix, ids printed as node indices
    SepMatrix &M = G.getSepMatrix();
    vh::Rng r2 = vh::caseRng(seed, k, 7);
    OpGen g(r2, false, fine);
    for (int i = 0; i < n; ++i) g.ids.push_back(i);
    // wrapper matrix on indices: we run the ops on a scratch matrix keyed by indices? No: run them on
    // the real matrix with real ids; print indices. Node ids increase with allocation order, so the
    // index order and the id order agree.
    int nops = r.range(0, 8);
    struct Redirect { };
    for (int i = 0; i < nops; ++i) {
        // generate the op on indices into a scratch SepMatrix-free description, then apply with ids
        // (only the op kinds that take ids need translating; do it by generating on a shadow OpGen)
        vh::Rng &rr = g.r;
        int kind = rr.range(0, 99);
        unsigned a, b;
        try {
            if (kind < 55) {
                g.pickPair(a, b, false);
                int gt = rr.range(0, 1), sd = rr.range(0, 7), st = rr.coin(1, 12) ? 0 : rr.range(1, 2);
                double gap = g.gap();
                printf("op %d addSep %u %u %s %s %s %s\n", i, a, b, GT[gt], SD[sd], ST[st], hxs(gap)); fflush(stdout);
                M.addSep(nodes[a]->id(), nodes[b]->id(), (GapType)gt, (SepDir)sd, (SepType)st, gap);
            } else if (kind < 65) {
                g.pickPair(a, b, false);
                double dx = g.gap(), dy = g.gap();
                printf("op %d addFixedRelativeSep %u %u %s %s\n", i, a, b, hxs(dx), hxs(dy)); fflush(stdout);
                M.addFixedRelativeSep(nodes[a]->id(), nodes[b]->id(), dx, dy);
            } else if (kind < 72) {
                g.pickPair(a, b, false);
                int d = rr.range(0, 3);
                printf("op %d setCardinalOP %u %u %s\n", i, a, b, CD[d]); fflush(stdout);
                M.setCardinalOP(nodes[a]->id(), nodes[b]->id(), (CardinalDir)d);
            } else if (kind < 78) {
                g.pickPair(a, b, false);
                printf("op %d hAlign %u %u\n", i, a, b); fflush(stdout);
                M.hAlign(nodes[a]->id(), nodes[b]->id());
            } else if (kind < 84) {
                g.pickPair(a, b, false);
                printf("op %d vAlign %u %u\n", i, a, b); fflush(stdout);
                M.vAlign(nodes[a]->id(), nodes[b]->id());
            } else if (kind < 94) {
                int t = rr.range(1, 7);
                printf("op %d transform %d\n", i, t); fflush(stdout);
                M.transform((SepTransform)(t - 1));
            } else {
                double e = fine ? rr.range(0, 4000) / 64.0 + 0.0004 : rr.range(0, 40) / 8.0;
                printf("op %d setExtraBdryGap %s\n", i, hxs(e)); fflush(stdout);
                M.setExtraBdryGap(e);
            }
            printf("res %d done\n", i);
        } catch (std::runtime_error &e) { printf("res %d threw\n", i); }
    }
    fflush(stdout);
    // generated constraints of G (ids -> node indices)
    std::map<unsigned, unsigned> id2index;
    for (int i = 0; i < n; ++i) id2index[nodes[i]->id()] = i;
    auto dumpCons = [&](Graph &H, const char *pfx, std::map<unsigned, unsigned> &idx) {
        ColaGraphRep &cgr = H.updateColaGraphRep();
        vector<unsigned> ix2idx(cgr.rs.size());
        for (auto &p : cgr.ix2id) ix2idx[p.first] = idx[p.second];
        vpsc::Variables vs;
        for (size_t i = 0; i < cgr.rs.size(); ++i) vs.push_back(new vpsc::Variable((int)i));
        for (int d = 0; d < 2; ++d) {
            vpsc::Constraints cs; vpsc::Rectangles bbs;
            H.getSepMatrix().generateSeparationConstraints(d == 0 ? vpsc::XDIM : vpsc::YDIM, vs, cs, bbs);
            printf("%s%s %zu", pfx, d == 0 ? "cx" : "cy", cs.size());
            for (auto c : cs) { printCon(c, ix2idx); delete c; }
            printf("\n");
        }
        for (auto v : vs) delete v;
    };
    dumpCons(G, "g1", id2index);
    // write
    string text;
    try { text = G.writeTglf(useExt); }
    catch (std::runtime_error &e) { printf("tglf THROW\n"); vh::endCase(); return; }
    {
        std::istringstream in(text); string line; int ln = 0;
        while (std::getline(in, line)) printf("t %d %s\n", ln++, line.c_str());
        printf("tglf %d\n", ln);
    }
    fflush(stdout);
    // read back
    Graph_SP H;
    try { H = buildGraphFromTglf(text); }
    catch (std::runtime_error &e) { printf("readback THROW %s\n", oneTok(e.what()).c_str()); vh::endCase(); return; }
    std::map<unsigned, unsigned> id2index2;
    {
        int i = 0;
        for (auto &p : H->getNodeLookup()) {
            Node_SP u = p.second;
            Avoid::Point c = u->getCentre(); dimensions d = u->getDimensions();
            id2index2[p.first] = i;
            printf("node2 %d %d %s %s %s %s\n", i, u->getExternalId(), hxs(c.x), hxs(c.y), hxs(d.first), hxs(d.second));
            ++i;
        }
        for (auto &p : H->getEdgeLookup()) {
            Edge_SP e = p.second;
            vector<Avoid::Point> rt = e->getRoute();
            printf("edge2 %u %u %zu", id2index2[e->getSourceEnd()->id()], id2index2[e->getTargetEnd()->id()], rt.size());
            for (auto &q : rt) printf(" %s %s", hxs(q.x), hxs(q.y));
            printf("\n");
        }
    }
    // the original's edges in the graph's own iteration order (edge ids), for positional comparison
    for (auto &p : G.getEdgeLookup()) {
        Edge_SP e = p.second;
        vector<Avoid::Point> rt = e->getRoute();
        printf("edge1 %u %u %zu", id2index[e->getSourceEnd()->id()], id2index[e->getTargetEnd()->id()], rt.size());
        for (auto &q : rt) printf(" %s %s", hxs(q.x), hxs(q.y));
        printf("\n");
    }
    printf("extra2 %s\n", hxs(H->getSepMatrix().getExtraBdryGap()));
    dumpCons(*H, "g2", id2index2);
    vh::endCase();
}

int main(int argc, char **argv) {
    vh::Args a = vh::parseArgs(argc, argv);
    bool thorough = a.tier == "thorough";
    long k = 0;
    // exhaustive table (independent of the seed)
    for (int dir = 0; dir < 8; ++dir) for (int st = 0; st < 3; ++st) for (int gt = 0; gt < 2; ++gt, ++k)
        if (a.want(k)) tableCase(k, dir, st, gt);
    long nOriented = (thorough ? 40000 : 2000) * a.scale;
    long nMixed = (thorough ? 10000 : 500) * a.scale;
    long nTglf = (thorough ? 20000 : 1000) * a.scale;
    long nFine = (thorough ? 6000 : 300) * a.scale;
    long nPair = (thorough ? 10000 : 500) * a.scale;
    long nRot = (thorough ? 10000 : 500) * a.scale;
    if (a.n >= 0) { nOriented = a.n; nMixed = a.n / 2; nTglf = a.n / 2; nFine = a.n / 4; nPair = a.n / 4; nRot = a.n / 4; }
    for (long i = 0; i < nOriented; ++i, ++k) if (a.want(k)) historyCase(k, a.seed, false, i);
    for (long i = 0; i < nMixed; ++i, ++k) if (a.want(k)) historyCase(k, a.seed, true, i);
    for (long i = 0; i < nTglf; ++i, ++k) if (a.want(k)) tglfCase(k, a.seed, false);
    for (long i = 0; i < nFine; ++i, ++k) if (a.want(k)) tglfCase(k, a.seed, true);
    for (long i = 0; i < nPair; ++i, ++k) if (a.want(k)) pairRandomCase(k, a.seed);
    for (long i = 0; i < nRot; ++i, ++k) if (a.want(k)) graphRotateCase(k, a.seed);
    return 0;
}
