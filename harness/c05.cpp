// C05 correspondence harness: libavoid orthogonal routing.
//  (a) bends()/orthogonalDirection()/dirLeft/dirRight/dirReverse/dimDirection/estimatedCostSpecific
//      of makepath.cpp evaluated on enumerated + random inputs (compared with the Lean model and the
//      proven exact minimum by the driver);
//  (b) scenes of separated rectangles, one orthogonal connector each: raw route(), displayRoute(),
//      plus an *untrusted* certificate (potential over the Hanan-grid state graph + witness path)
//      computed here by a plain Dijkstra; the Lean driver re-checks the certificate exactly.
//
// Access to the file-static kernels of makepath.cpp: the .cpp is included into this translation
// unit with the three external-linkage names it defines renamed, so that nothing collides with
// makepath.o (which is linked as part of libavoid and is what the router itself runs).
// `Avoid::bends` has external linkage in the library and is additionally called through an
// extern declaration (that is the copy the router uses).
#define AStarPath AStarPath_C05TU
#define AStarPathPrivate AStarPathPrivate_C05TU
#define bends bends_C05TU
#define verifAStarLast verifAStarLast_C05TU      // (optional hook, see harness/c05_astar_hook.patch)
#include "libavoid/makepath.cpp"
#undef verifAStarLast
#undef bends
#undef AStarPath
#undef AStarPathPrivate
namespace Avoid { int bends(const Point& curr, unsigned int currDir, const Point& dest, unsigned int destDir); }
// Optional hook harness/c05_astar_hook.patch (guarded by ADAPTAGRAMS_VERIF): {connector id, g of the popped
// target node, exploredCount, PENDING.size(), timestamp} of the last successful search of the LINKED library.
// Weak: without the hook the symbol is absent and nothing is printed.
namespace Avoid { extern double verifAStarLast[5] __attribute__((weak)); }
static void printAStarHook(Avoid::ConnRef *conn);

#include "common.h"
#include "libavoid/libavoid.h"
#include <queue>
#include <set>
#include <map>
#include <cstdarg>
using namespace Avoid;

static std::string H(double d) { return vh::hx(d); }

static void printAStarHook(Avoid::ConnRef *conn) {
    double *h = Avoid::verifAStarLast;
    if (h == nullptr) return;
    if (h[0] != (double) conn->id()) return;         // the last search was another connector's
    printf("ahook %s %s %s %s\n", H(h[1]).c_str(), H(h[2]).c_str(), H(h[3]).c_str(), H(h[4]).c_str());
}

// ---------------------------------------------------------------------------- (a) kernels
static const unsigned DIRS[4] = {1, 2, 4, 8};   // N E S W

static void emitBend(double cx, double cy, unsigned cd, double dx, double dy, unsigned dd) {
    Point c(cx, cy), d(dx, dy);
    printf("b %s %s %u %s %s %u", H(cx).c_str(), H(cy).c_str(), cd, H(dx).c_str(), H(dy).c_str(), dd);
    fflush(stdout);                      // input is out before a possible COLA_ASSERT abort
    int r = Avoid::bends(c, cd, d, dd);
    int r2 = Avoid::bends_C05TU(c, cd, d, dd);
    printf(" %d %d\n", r, r2);
}

static void kernelGrid(long k) {
    vh::beginCase(k, "bends-grid");
    for (int d = 0; d < 4; ++d)
        printf("dir %u %u %u %u\n", DIRS[d], dirLeft(DIRS[d]), dirRight(DIRS[d]), dirReverse(DIRS[d]));
    double vals[5] = {-2, -0.5, 0, 0.25, 3};
    for (int i = 0; i < 5; ++i) printf("dd %s %d\n", H(vals[i]).c_str(), dimDirection(vals[i]));
    for (int dx = -2; dx <= 2; ++dx) for (int dy = -2; dy <= 2; ++dy) {
        Point a(1, 1), b(1 + dx, 1 + dy);
        printf("od %s %s %s %s %u %u\n", H(a.x).c_str(), H(a.y).c_str(), H(b.x).c_str(), H(b.y).c_str(),
               orthogonalDirection(a, b), orthogonalDirectionsCount(orthogonalDirection(a, b)));
    }
    for (int dx = -2; dx <= 2; ++dx) for (int dy = -2; dy <= 2; ++dy) {
        if (dx == 0 && dy == 0) continue;           // curr != dest is the documented precondition
        for (int i = 0; i < 4; ++i) for (int j = 0; j < 4; ++j)
            emitBend(0, 0, DIRS[i], dx, dy, DIRS[j]);
    }
    vh::endCase();
}

static double rndCoord(vh::Rng &r) {
    switch (r.range(0, 3)) {
    case 0: return (double) r.range(-3, 3);
    case 1: return r.range(-2000, 2000) / 8.0;
    case 2: return r.range(-(1L << 30), 1L << 30) / 1024.0;
    default: return std::ldexp((double) r.range(-1000, 1000), (int) r.range(-40, 40));
    }
}

static void kernelRandom(long k, vh::Rng r, int n) {
    vh::beginCase(k, "bends-random");
    for (int i = 0; i < n; ++i) {
        double cx = rndCoord(r), cy = rndCoord(r), dx = rndCoord(r), dy = rndCoord(r);
        if (r.coin(1, 3)) dx = cx;
        else if (r.coin(1, 3)) dy = cy;
        if (cx == dx && cy == dy) { dx = cx + 1; }
        emitBend(cx, cy, DIRS[r.range(0, 3)], dx, dy, DIRS[r.range(0, 3)]);
    }
    vh::endCase();
}

// estimatedCostSpecific called on a real orthogonal ConnRef / VertInf
static void kernelEstimate(long k, vh::Rng r, int n) {
    vh::beginCase(k, "estimate");
    Router *router = new Router(OrthogonalRouting);
    const double pens[3] = {10, 50, 200};
    for (int i = 0; i < n; ++i) {
        double pen = pens[r.range(0, 2)];
        router->setRoutingParameter(segmentPenalty, pen);
        ConnRef *conn = new ConnRef(router);
        conn->setRoutingType(ConnType_Orthogonal);
        int m = (int) r.range(1, 4);
        Point last((double) r.range(-m, m), (double) r.range(-m, m));
        Point curr((double) r.range(-m, m), (double) r.range(-m, m));
        Point tar((double) r.range(-m, m), (double) r.range(-m, m));
        if (r.coin(1, 2)) { if (r.coin()) curr.x = last.x; else curr.y = last.y; }
        unsigned dirs = (unsigned) r.range(1, 15);
        bool haveLast = !r.coin(1, 8);
        VertInf *v = new VertInf(router, VertID(0, 0), tar, false);
        printf("est %d %s %s %s %s %s %s %u %s", haveLast ? 1 : 0, H(last.x).c_str(), H(last.y).c_str(),
               H(curr.x).c_str(), H(curr.y).c_str(), H(tar.x).c_str(), H(tar.y).c_str(), dirs, H(pen).c_str());
        fflush(stdout);
        double e = estimatedCostSpecific(conn, haveLast ? &last : nullptr, curr, v, dirs);
        printf(" %s\n", H(e).c_str());
        delete v;
        router->deleteConnector(conn);
    }
    delete router;
    vh::endCase();
}

// ---------------------------------------------------------------------------- (b) scenes
struct R4 { double x0, y0, x1, y1; };

struct Scene {
    std::vector<R4> rects;
    double buf, pen;
    double sx, sy, tx, ty;
    unsigned smask, tmask;     // ConnDirFlags: Up=1 Down=2 Left=4 Right=8  (Up = smaller y)
    std::vector<R4> others;    // further connectors (x0,y0)->(x1,y1), all ConnDirAll; only connector 0 is judged
};

static bool separated(const R4 &a, const R4 &b, double gap) {
    return a.x1 + gap <= b.x0 || b.x1 + gap <= a.x0 || a.y1 + gap <= b.y0 || b.y1 + gap <= a.y0;
}

static bool freePoint(const Scene &s, double x, double y, double margin) {
    for (const R4 &r : s.rects)
        if (x > r.x0 - s.buf - margin && x < r.x1 + s.buf + margin &&
            y > r.y0 - s.buf - margin && y < r.y1 + s.buf + margin) return false;
    return true;
}

static unsigned pickMask(vh::Rng &r) {
    switch (r.range(0, 3)) {
    case 0: case 1: return 15;
    case 2: return 1u << r.range(0, 3);
    default: return (unsigned) r.range(1, 15);
    }
}

// libavoid's documented rule (orthogonal.cpp, fixConnectionPointVisibilityOnOutsideOfVisibilityGraph):
// an endpoint lying on the first or last sweep position (over all routing-box sides and endpoints)
// additionally gets visibility Left|Right (extreme y) resp. Up|Down (extreme x).  The scene's masks
// are the *effective* ones, i.e. this rule is part of the generator, not of the oracle.
static void applyOutsideRule(Scene &s) {
    double ylo = std::min(s.sy, s.ty), yhi = std::max(s.sy, s.ty), xlo = std::min(s.sx, s.tx), xhi = std::max(s.sx, s.tx);
    for (const R4 &r : s.rects) {
        ylo = std::min(ylo, r.y0 - s.buf); yhi = std::max(yhi, r.y1 + s.buf);
        xlo = std::min(xlo, r.x0 - s.buf); xhi = std::max(xhi, r.x1 + s.buf);
    }
    if (s.sy == ylo || s.sy == yhi) s.smask |= 12;
    if (s.ty == ylo || s.ty == yhi) s.tmask |= 12;
    if (s.sx == xlo || s.sx == xhi) s.smask |= 3;
    if (s.tx == xlo || s.tx == xhi) s.tmask |= 3;
}

// generator classes
static const char *CLASSES[] = {"scene-random", "scene-lattice", "scene-brick", "scene-walls", "scene-tiny"};

static Scene genScene(vh::Rng &r, int cls, int maxRects, int dirsKind) {
    Scene s;
    const double pens[3] = {10, 50, 200};
    s.pen = pens[r.range(0, 2)];
    s.buf = r.coin(1, 3) ? 0.5 : 0.0;
    int n = (int) r.range(1, maxRects);
    double W = 10;
    if (cls == 0) {                                  // random separated rectangles
        W = 8 + 5 * std::sqrt((double) n) + r.range(0, 10);
        int tries = 0;
        while ((int) s.rects.size() < n && tries++ < 400) {
            double w = r.range(1, 6), h = r.range(1, 6);
            R4 c; c.x0 = r.range(0, (long) (W - w)); c.y0 = r.range(0, (long) (W - h)); c.x1 = c.x0 + w; c.y1 = c.y0 + h;
            bool ok = true;
            for (const R4 &o : s.rects) if (!separated(c, o, 2)) { ok = false; break; }
            if (ok) s.rects.push_back(c);
        }
    } else if (cls == 1) {                           // aligned lattice, uniform corridors
        int cols = (int) r.range(1, std::max(1, (int) std::sqrt((double) maxRects)));
        int rows = (int) r.range(1, std::max(1, maxRects / cols));
        double w = r.range(1, 4), h = r.range(1, 4), gx = r.range(2, 4), gy = r.range(2, 4);
        for (int i = 0; i < cols; ++i) for (int j = 0; j < rows; ++j) {
            if (r.coin(1, 6) && cols * rows > 1) continue;       // holes in the lattice
            R4 c; c.x0 = 2 + i * (w + gx); c.y0 = 2 + j * (h + gy); c.x1 = c.x0 + w; c.y1 = c.y0 + h;
            s.rects.push_back(c);
        }
        W = 4 + std::max(cols * (w + gx), rows * (h + gy));
    } else if (cls == 2) {                           // brick pattern: rows shifted against each other
        int rows = (int) r.range(1, std::max(1, (int) std::sqrt((double) maxRects)));
        int per = std::max(1, maxRects / rows);
        double h = r.range(1, 3), gy = r.range(2, 3);
        double maxx = 0;
        for (int j = 0; j < rows; ++j) {
            double x = 1 + r.range(0, 4);
            int cnt = (int) r.range(1, per);
            for (int i = 0; i < cnt; ++i) {
                double w = r.range(1, 5);
                R4 c; c.x0 = x; c.x1 = x + w; c.y0 = 2 + j * (h + gy); c.y1 = c.y0 + h;
                s.rects.push_back(c);
                x += w + r.range(2, 4);
            }
            maxx = std::max(maxx, x);
        }
        W = 3 + std::max(maxx, rows * (h + gy));
    } else if (cls == 3) {                           // long walls forcing detours
        int cnt = (int) r.range(1, std::min(maxRects, 6));
        double y = 2;
        W = 24;
        for (int i = 0; i < cnt; ++i) {
            double a = r.range(0, 8), b = r.range(14, 22);
            R4 c; c.x0 = a; c.x1 = b; c.y0 = y; c.y1 = y + r.range(1, 2);
            if (r.coin()) { c.x0 = r.range(2, 10); c.x1 = 24 + r.range(0, 4); }
            s.rects.push_back(c);
            y = c.y1 + r.range(2, 4);
        }
        W = std::max(W, y + 2);
    } else {                                         // tiny: 1-2 rectangles, endpoints close by
        n = (int) r.range(1, 2);
        W = 8;
        int tries = 0;
        while ((int) s.rects.size() < n && tries++ < 100) {
            double w = r.range(1, 3), h = r.range(1, 3);
            R4 c; c.x0 = r.range(1, 5); c.y0 = r.range(1, 5); c.x1 = c.x0 + w; c.y1 = c.y0 + h;
            bool ok = true;
            for (const R4 &o : s.rects) if (!separated(c, o, 2)) { ok = false; break; }
            if (ok) s.rects.push_back(c);
        }
    }
    // endpoints: free space, at least 1 away from every (buffered) rectangle, on the half-integer grid
    auto pickPt = [&](double &x, double &y) {
        for (int t = 0; t < 1000; ++t) {
            x = r.range(-4, (long) (2 * W) + 4) / 2.0; y = r.range(-4, (long) (2 * W) + 4) / 2.0;
            if (r.coin(2, 3)) { x = std::floor(x); y = std::floor(y); }
            if (r.coin(1, 4) && !s.rects.empty()) {              // aligned with some rectangle side
                const R4 &q = s.rects[r.range(0, (long) s.rects.size() - 1)];
                if (r.coin()) x = r.coin() ? q.x0 - s.buf : q.x1 + s.buf; else y = r.coin() ? q.y0 - s.buf : q.y1 + s.buf;
            }
            if (freePoint(s, x, y, 1.0)) return;
        }
        x = -5; y = -5;
    };
    pickPt(s.sx, s.sy);
    do { pickPt(s.tx, s.ty); } while (s.tx == s.sx && s.ty == s.sy);
    if (r.coin(1, 5)) { if (r.coin()) s.tx = s.sx; else s.ty = s.sy; if (!freePoint(s, s.tx, s.ty, 1.0) || (s.tx == s.sx && s.ty == s.sy)) { s.tx = -6; s.ty = -7; } }
    s.smask = 15; s.tmask = 15;
    if (dirsKind == 1) {            // only the source restricted; endpoints not on a common row/column
        if (s.tx == s.sx) s.tx += 1.5;
        if (s.ty == s.sy) s.ty += 1.5;
        if (!freePoint(s, s.tx, s.ty, 1.0)) { s.tx = -6; s.ty = -7; }
        do { s.smask = pickMask(r); } while (s.smask == 15);
    } else if (dirsKind == 2) {     // target restricted, source anything
        do { s.tmask = pickMask(r); } while (s.tmask == 15);
        s.smask = pickMask(r);
    }
    applyOutsideRule(s);
    return s;
}

// ---- the oracle: Dijkstra over the Hanan-grid state graph (untrusted; re-checked in Lean)
// headings: 0=N(-y) 1=E(+x) 2=S(+y) 3=W(-x)
static const int HDX[4] = {0, 1, 0, -1}, HDY[4] = {-1, 0, 1, 0};
// ConnDirFlags bit for "visible towards heading h from the endpoint"
static const unsigned VISBIT[4] = {1 /*Up*/, 8 /*Right*/, 2 /*Down*/, 4 /*Left*/};

struct Oracle {
    std::vector<double> xs, ys;
    int nx, ny;
    std::vector<char> hblk, vblk;     // hblk[j*nx+i]: edge (i,j)-(i+1,j) blocked ; vblk[j*nx+i]: (i,j)-(i,j+1)
    std::vector<double> pot;          // pot[(j*nx+i)*4+h]
    double opt; bool reachable;
    std::vector<std::pair<int,int>> wit;
    static const double BIG;
    int idx(int i, int j, int h) const { return (j * nx + i) * 4 + h; }
    bool blocked(int i, int j, int h) const {     // edge leaving (i,j) in heading h
        int i2 = i + HDX[h], j2 = j + HDY[h];
        if (i2 < 0 || j2 < 0 || i2 >= nx || j2 >= ny) return true;
        if (h == 1) return hblk[j * nx + i]; if (h == 3) return hblk[j * nx + i2];
        if (h == 2) return vblk[j * nx + i]; return vblk[j2 * nx + i];
    }
    double len(int i, int j, int h) const {
        int i2 = i + HDX[h], j2 = j + HDY[h];
        return std::fabs(xs[i2] - xs[i]) + std::fabs(ys[j2] - ys[j]);
    }
};
const double Oracle::BIG = 1e9;

static Oracle solve(const Scene &s) {
    Oracle o;
    std::set<double> X, Y;
    for (const R4 &r : s.rects) { X.insert(r.x0 - s.buf); X.insert(r.x1 + s.buf); Y.insert(r.y0 - s.buf); Y.insert(r.y1 + s.buf); }
    X.insert(s.sx); X.insert(s.tx); Y.insert(s.sy); Y.insert(s.ty);
    o.xs.assign(X.begin(), X.end()); o.ys.assign(Y.begin(), Y.end());
    o.nx = (int) o.xs.size(); o.ny = (int) o.ys.size();
    o.hblk.assign(o.nx * o.ny, 0); o.vblk.assign(o.nx * o.ny, 0);
    for (int j = 0; j < o.ny; ++j) for (int i = 0; i < o.nx; ++i) {
        if (i + 1 < o.nx) { double mx = (o.xs[i] + o.xs[i + 1]) / 2, y = o.ys[j];
            for (const R4 &r : s.rects) if (mx > r.x0 - s.buf && mx < r.x1 + s.buf && y > r.y0 - s.buf && y < r.y1 + s.buf) o.hblk[j * o.nx + i] = 1; }
        if (j + 1 < o.ny) { double my = (o.ys[j] + o.ys[j + 1]) / 2, x = o.xs[i];
            for (const R4 &r : s.rects) if (x > r.x0 - s.buf && x < r.x1 + s.buf && my > r.y0 - s.buf && my < r.y1 + s.buf) o.vblk[j * o.nx + i] = 1; }
    }
    int si = (int) (std::lower_bound(o.xs.begin(), o.xs.end(), s.sx) - o.xs.begin());
    int sj = (int) (std::lower_bound(o.ys.begin(), o.ys.end(), s.sy) - o.ys.begin());
    int ti = (int) (std::lower_bound(o.xs.begin(), o.xs.end(), s.tx) - o.xs.begin());
    int tj = (int) (std::lower_bound(o.ys.begin(), o.ys.end(), s.ty) - o.ys.begin());
    // backward Dijkstra from goal states (dst, h) where the dst is visible towards reverse(h)
    o.pot.assign(o.nx * o.ny * 4, Oracle::BIG);
    typedef std::pair<double, int> QE;
    std::priority_queue<QE, std::vector<QE>, std::greater<QE>> pq;
    for (int h = 0; h < 4; ++h) if (s.tmask & VISBIT[(h + 2) % 4]) { o.pot[o.idx(ti, tj, h)] = 0; pq.push(QE(0, o.idx(ti, tj, h))); }
    while (!pq.empty()) {
        QE e = pq.top(); pq.pop();
        if (e.first > o.pot[e.second]) continue;
        int h = e.second % 4, c = e.second / 4, i = c % o.nx, j = c / o.nx;
        // predecessors (p, g) --move heading h--> (i,j,h); goal states have no outgoing edges
        int pi = i - HDX[h], pj = j - HDY[h];
        if (pi < 0 || pj < 0 || pi >= o.nx || pj >= o.ny || o.blocked(pi, pj, h)) continue;
        double l = o.len(pi, pj, h);
        for (int g = 0; g < 4; ++g) {
            if (pi == ti && pj == tj && (s.tmask & VISBIT[(g + 2) % 4])) continue;    // goal state: path ended there
            // bend charge as in makepath.cpp cost(): quarter turn = pen, doubling back = 2*pen
            double w = e.first + l + (g == h ? 0 : (g == (h + 2) % 4 ? 2 * s.pen : s.pen));
            int u = o.idx(pi, pj, g);
            if (w < o.pot[u]) { o.pot[u] = w; pq.push(QE(w, u)); }
        }
    }
    // start: first leg leaves the source in a visible direction, no bend charged
    o.opt = Oracle::BIG; int bh = -1;
    for (int h = 0; h < 4; ++h) if ((s.smask & VISBIT[h]) && !o.blocked(si, sj, h)) {
        double w = o.len(si, sj, h) + o.pot[o.idx(si + HDX[h], sj + HDY[h], h)];
        if (w < o.opt) { o.opt = w; bh = h; }
    }
    o.reachable = o.opt < Oracle::BIG / 2;
    if (o.reachable) {
        int i = si, j = sj, h = bh;
        o.wit.push_back(std::make_pair(i, j));
        i += HDX[h]; j += HDY[h]; o.wit.push_back(std::make_pair(i, j));
        int guard = 0;
        while (!(i == ti && j == tj && (s.tmask & VISBIT[(h + 2) % 4])) && guard++ < 100000) {
            double cur = o.pot[o.idx(i, j, h)]; int nh = -1;
            for (int d = 0; d < 4; ++d) {
                if (o.blocked(i, j, d)) continue;
                double w = o.len(i, j, d) + (d == h ? 0 : (d == (h + 2) % 4 ? 2 * s.pen : s.pen)) + o.pot[o.idx(i + HDX[d], j + HDY[d], d)];
                if (w == cur) { nh = d; break; }
            }
            if (nh < 0) break;
            i += HDX[nh]; j += HDY[nh]; h = nh; o.wit.push_back(std::make_pair(i, j));
        }
    }
    return o;
}

// Every node the search pops (bestNode) is reported by the library's own DebugHandler::updateCurrentSearchPath
// (compiled in: asserts on, no NDEBUG) with the points of its prevNode chain.  The tap records, for the searches of
// the judged connector, the point of each popped node and of its previous node: the expansion order of the real
// A*, which the driver compares with the DONE list of the Lean model.
struct PopTap : public Avoid::DebugHandler {
    Avoid::Point src, tar;             // end points of the judged connector (no other connector shares both)
    bool active;
    std::vector<double> pops;          // per pop: x y hasPrev px py
    PopTap() : active(false) {}
    void beginningSearchWithEndpoints(Avoid::VertInf *s, Avoid::VertInf *t) override {
        active = (s->point == src && t->point == tar);
        if (active) pops.clear();
    }
    void updateCurrentSearchPath(Avoid::PolyLine p) override {
        if (!active || p.size() == 0) return;
        pops.push_back(p.ps[0].x); pops.push_back(p.ps[0].y);
        if (p.size() > 1) { pops.push_back(1); pops.push_back(p.ps[1].x); pops.push_back(p.ps[1].y); }
        else { pops.push_back(0); pops.push_back(0); pops.push_back(0); }
    }
};
static PopTap *g_tap = nullptr;
static long g_astarEvery = 1;          // thorough tier: raw graph dump for every 2nd case only (keeps the run inside its budget)
static long g_caseIdx = 0;
static void dumpGraphRaw(Router *router, ConnRef *conn);
static void printPoly(const char *key, const Polygon &p) {
    printf("%s", key);
    for (size_t i = 0; i < p.size(); ++i) printf(" %s %s", H(p.at(i).x).c_str(), H(p.at(i).y).c_str());
    printf("\n");
}

static void runScene(long k, const char *tag, const Scene &s) {
    g_caseIdx = k;
    vh::beginCase(k, tag);
    printf("pen %s\nbuf %s\n", H(s.pen).c_str(), H(s.buf).c_str());
    for (const R4 &r : s.rects) printf("rect %s %s %s %s\n", H(r.x0).c_str(), H(r.y0).c_str(), H(r.x1).c_str(), H(r.y1).c_str());
    printf("src %s %s %u\ndst %s %s %u\n", H(s.sx).c_str(), H(s.sy).c_str(), s.smask, H(s.tx).c_str(), H(s.ty).c_str(), s.tmask);
    for (const R4 &c : s.others) printf("other %s %s %s %s\n", H(c.x0).c_str(), H(c.y0).c_str(), H(c.x1).c_str(), H(c.y1).c_str());
    fflush(stdout);
    // --- certificate from the oracle (independent of the implementation)
    Oracle o = solve(s);
    printf("reachable %d\n", o.reachable ? 1 : 0);
    if (o.reachable) {
        printf("opt %s\n", H(o.opt).c_str());
        printf("pot"); for (size_t i = 0; i < o.pot.size(); ++i) printf(" %s", H(o.pot[i]).c_str()); printf("\n");
        printf("wit"); for (size_t i = 0; i < o.wit.size(); ++i) printf(" %d %d", o.wit[i].first, o.wit[i].second); printf("\n");
    }
    fflush(stdout);
    // --- the implementation
    Router *router = new Router(OrthogonalRouting);
    router->setRoutingParameter(segmentPenalty, s.pen);
    router->setRoutingParameter(shapeBufferDistance, s.buf);
    router->setRoutingParameter(idealNudgingDistance, 1.0);
    for (const R4 &r : s.rects) { Rectangle poly(Point(r.x0, r.y0), Point(r.x1, r.y1)); new ShapeRef(router, poly); }
    ConnRef *conn = new ConnRef(router, ConnEnd(Point(s.sx, s.sy), s.smask), ConnEnd(Point(s.tx, s.ty), s.tmask));
    conn->setRoutingType(ConnType_Orthogonal);
    for (const R4 &c : s.others) {
        ConnRef *oc = new ConnRef(router, ConnEnd(Point(c.x0, c.y0)), ConnEnd(Point(c.x1, c.y1)));
        oc->setRoutingType(ConnType_Orthogonal);
    }
    PopTap tap; tap.src = Point(s.sx, s.sy); tap.tar = Point(s.tx, s.ty);
    router->setDebugHandler(&tap); g_tap = &tap;
    router->processTransaction();
    printPoly("route", conn->route());
    printPoly("display", conn->displayRoute());
    printAStarHook(conn);
    fflush(stdout);
    dumpGraphRaw(router, conn);
    g_tap = nullptr; router->setDebugHandler(nullptr);
    delete router;
    vh::endCase();
}

// Multi-connector scenes (all endpoints ConnDirAll, crossing penalties 0, so every connector's optimum
// is its own Hanan optimum with true geometric lengths).  Other connectors' endpoints lie exactly on
// the row/column of an endpoint P of connector 0, which makes libavoid add "bypass" edges around
// them; a mis-weighted edge there shows up as a dearer real route.
//  kind A ("tempting line"): source (0,0), target (a,b), an obstacle sitting on the target's column so
//     that "along the source row, then down" needs one bend more than "down, then along the target
//     row"; a free endpoint of another connector at (g,0) (or (-g,0) as control), gap g in 20..200;
//     random mirror / transpose / source-target swap.
//  kind B: a random scene of the single-connector generator plus 1-3 connectors with endpoints
//     collinear with the source or the target of connector 0.
static Scene genMulti(vh::Rng &r, int maxRects) {
    Scene s;
    if (r.coin(2, 3)) {
        const double pens[2] = {10, 50};
        s.pen = pens[r.range(0, 1)];
        s.buf = r.coin(1, 3) ? 0.5 : 0.0;
        double a = 10 * r.range(15, 45), b = 10 * r.range(12, 40);
        double g = (double) r.range(20, 200);
        double half = 10 * r.range(3, 6);
        if (g >= a - half - s.buf - 2) g = std::max(20.0, a - half - s.buf - 10);
        R4 ob; ob.x0 = a - half; ob.x1 = a + half; ob.y0 = 10 * r.range(2, 5); ob.y1 = std::min(b - 10, ob.y0 + 10 * r.range(2, 10));
        if (ob.y1 <= ob.y0) ob.y1 = ob.y0 + 5;
        s.rects.push_back(ob);
        R4 fa = {-600, -600, -500, -500}, fb = {a + 300, b + 300, a + 400, b + 400};
        s.rects.push_back(fa); s.rects.push_back(fb);
        s.sx = 0; s.sy = 0; s.tx = a; s.ty = b; s.smask = 15; s.tmask = 15;
        double side = r.coin(4, 5) ? 1 : -1;
        R4 oc = {side * g, 0, side * g, -(double) r.range(20, 150)};
        if (r.coin(1, 4)) { oc.x1 = oc.x0 + side * r.range(10, 60); }      // second endpoint elsewhere
        s.others.push_back(oc);
        if (r.coin(1, 3)) { R4 o2 = {0, (double) r.range(20, 200), -(double) r.range(20, 100), 0}; o2.y1 = o2.y0; s.others.push_back(o2); }
        bool fx = r.coin(), fy = r.coin(), tr = r.coin(), sw = r.coin();
        auto fp = [&](double &x, double &y) { if (fx) x = -x; if (fy) y = -y; if (tr) std::swap(x, y); };
        for (R4 &q : s.rects) {
            double ax = q.x0, ay = q.y0, bx = q.x1, by = q.y1; fp(ax, ay); fp(bx, by);
            q.x0 = std::min(ax, bx); q.x1 = std::max(ax, bx); q.y0 = std::min(ay, by); q.y1 = std::max(ay, by);
        }
        for (R4 &q : s.others) { fp(q.x0, q.y0); fp(q.x1, q.y1); }
        fp(s.sx, s.sy); fp(s.tx, s.ty);
        if (sw) { std::swap(s.sx, s.tx); std::swap(s.sy, s.ty); }
        return s;
    }
    int cls = (int) r.range(0, 4);
    s = genScene(r, cls, maxRects, 0);
    int no = (int) r.range(1, 3);
    for (int i = 0; i < no; ++i) {
        for (int t = 0; t < 50; ++t) {
            bool atSrc = r.coin(); double px = atSrc ? s.sx : s.tx, py = atSrc ? s.sy : s.ty;
            double gap = (double) r.range(1, 14) * (r.coin() ? 1 : -1);
            R4 oc; if (r.coin()) { oc.x0 = px + gap; oc.y0 = py; } else { oc.x0 = px; oc.y0 = py + gap; }
            oc.x1 = oc.x0 + r.range(-6, 6); oc.y1 = oc.y0 + r.range(-6, 6);
            if (oc.x1 == oc.x0 && oc.y1 == oc.y0) oc.x1 += 3;
            auto clash = [&](double x, double y) { return (x == s.sx && y == s.sy) || (x == s.tx && y == s.ty); };
            if (!freePoint(s, oc.x0, oc.y0, 1.0) || !freePoint(s, oc.x1, oc.y1, 1.0) || clash(oc.x0, oc.y0) || clash(oc.x1, oc.y1)) continue;
            s.others.push_back(oc); break;
        }
    }
    return s;
}


// "leave-away" shape: the source may only be left in ONE direction, which does not head at the
// target, so the route has to turn off its very first segment; the only line on which it can turn
// is generated by a rectangle lying on the far side of the first segment from the target, so the
// turn towards the target heads away from that rectangle.  Base orientation: source (0,0) leaves
// South, rectangle to the West whose bottom side gives the turning row, target to the North-East
// or South-East of the turning row; then mirrored / transposed at random.
static Scene genLeaveAway(vh::Rng &r) {
    Scene s;
    const double pens[3] = {10, 50, 200};
    s.pen = pens[r.range(0, 2)];
    s.buf = r.coin(1, 3) ? 0.5 : 0.0;
    double rowY = r.range(2, 9);                       // turning row (bottom side of the rectangle + buf)
    double gapX = r.range(2, 8), w = r.range(1, 8), h = r.range(2, 12);
    R4 W; W.x1 = -gapX - s.buf; W.x0 = W.x1 - w; W.y1 = rowY - s.buf; W.y0 = W.y1 - h;
    s.rects.push_back(W);
    s.sx = 0; s.sy = 0; s.smask = 2;                   // ConnDirDown only
    s.tx = r.range(2, 12) + (r.coin(1, 3) ? 0.5 : 0.0);
    s.ty = r.coin(3, 4) ? -(double) r.range(1, 12) : rowY + r.range(1, 6);
    s.tmask = 15;
    // optional far-away clutter that creates no line between source and target
    int extra = (int) r.range(0, 2);
    for (int e = 0; e < extra; ++e) {
        R4 c; c.x0 = W.x0 - 4 - r.range(0, 6) - 3; c.x1 = c.x0 + r.range(1, 3); c.y0 = r.range(-30, -20); c.y1 = c.y0 + r.range(1, 3);
        bool ok = true; for (const R4 &o : s.rects) if (!separated(c, o, 2)) ok = false;
        if (ok) s.rects.push_back(c);
    }
    // random orientation: flip x, flip y, transpose
    bool fx = r.coin(), fy = r.coin(), tr = r.coin();
    auto fm = [&](unsigned m) {                         // Up=1 Down=2 Left=4 Right=8
        unsigned u = m & 1, d = (m >> 1) & 1, l = (m >> 2) & 1, rr = (m >> 3) & 1;
        if (fx) std::swap(l, rr);
        if (fy) std::swap(u, d);
        if (tr) { std::swap(u, l); std::swap(d, rr); }
        return u | (d << 1) | (l << 2) | (rr << 3);
    };
    auto fp = [&](double &x, double &y) { if (fx) x = -x; if (fy) y = -y; if (tr) std::swap(x, y); };
    for (R4 &q : s.rects) {
        double ax = q.x0, ay = q.y0, bx = q.x1, by = q.y1; fp(ax, ay); fp(bx, by);
        q.x0 = std::min(ax, bx); q.x1 = std::max(ax, bx); q.y0 = std::min(ay, by); q.y1 = std::max(ay, by);
    }
    fp(s.sx, s.sy); fp(s.tx, s.ty);
    s.smask = fm(s.smask);
    applyOutsideRule(s);
    return s;
}

// ---- oracle on libavoid's own orthogonal visibility graph (direction-restricted scenes)
static int hopHeading(const Point &a, const Point &b) {      // -1: not axis-parallel or zero length
    if (a.y == b.y) return b.x > a.x ? 1 : (b.x < a.x ? 3 : -1);
    if (a.x == b.x) return b.y > a.y ? 2 : 0;
    return -1;
}

struct VGOut { std::string text; bool reach; double gopt, popt; VGOut() : reach(false), gopt(0), popt(0) {} };

static void ap(std::string &t, const char *fmt, ...) {
    char buf[256]; va_list ap_; va_start(ap_, fmt); vsnprintf(buf, sizeof buf, fmt, ap_); va_end(ap_); t += buf;
}

// the turn-pruning rule of AStarPathPrivate::search exactly as written in the clean source
// (flags: XL_EDGE=1 XH_EDGE=4 YL_EDGE=16 YH_EDGE=64); h = heading by which `best` was entered
static bool prunedTurn(const Point &srcPt, const Point &tarPt, const Point &best, unsigned flags, int h, int d) {
    if ((h == 1 || h == 3) && (d == 0 || d == 2))
        return best.y != srcPt.y && !(flags & (d == 0 ? 16u : 64u)) && best.x != tarPt.x;
    if ((h == 0 || h == 2) && (d == 1 || d == 3))
        return best.x != srcPt.x && !(flags & (d == 3 ? 1u : 4u)) && best.y != tarPt.y;
    return false;
}

// Dumps libavoid's orthogonal visibility graph and two certificates: optimum over all routes of the
// graph (vg*) and optimum over the routes the documented pruning rule permits (vp*).
static VGOut analyseGraph(Router *router, ConnRef *conn, double pen) {
    VGOut out;
    std::vector<VertInf *> vs;
    std::map<VertInf *, int> id;
    for (VertInf *v = router->vertices.connsBegin(); v != router->vertices.end(); v = v->lstNext) {
        id[v] = (int) vs.size(); vs.push_back(v);
    }
    int n = (int) vs.size();
    std::vector<std::vector<int>> adj(n);
    for (int u = 0; u < n; ++u)
        for (EdgeInfList::const_iterator e = vs[u]->orthogVisList.begin(); e != vs[u]->orthogVisList.end(); ++e) {
            if ((*e)->isDisabled() || (*e)->getDist() == 0) continue;
            VertInf *w = (*e)->otherVert(vs[u]);
            if (hopHeading(vs[u]->point, w->point) < 0) continue;
            adj[u].push_back(id[w]);
        }
    int src = id[conn->src()], tar = id[conn->dst()];
    std::string &t = out.text;
    t += "vgx"; for (int u = 0; u < n; ++u) ap(t, " %s", H(vs[u]->point.x).c_str()); t += "\n";
    t += "vgy"; for (int u = 0; u < n; ++u) ap(t, " %s", H(vs[u]->point.y).c_str()); t += "\n";
    t += "vgf"; for (int u = 0; u < n; ++u) ap(t, " %u", vs[u]->orthogVisPropFlags); t += "\n";
    t += "vga"; for (int u = 0; u < n; ++u) { ap(t, " %d", (int) adj[u].size()); for (int w : adj[u]) ap(t, " %d", w); } t += "\n";
    ap(t, "vgs %d %d\n", src, tar);
    const double BIG = 1e9;
    auto manh = [&](int a, int b) { return std::fabs(vs[a]->point.x - vs[b]->point.x) + std::fabs(vs[a]->point.y - vs[b]->point.y); };
    auto turn = [&](int h, int d) { return d == h ? 0.0 : (d == (h + 2) % 4 ? 2 * pen : pen); };
    Point srcPt = vs[src]->point, tarPt = vs[tar]->point;
    for (int pass = 0; pass < 2; ++pass) {
        bool prune = pass == 1;
        const char *px = prune ? "vp" : "vg";
        auto cut = [&](int u, int h, int d) { return prune && prunedTurn(srcPt, tarPt, vs[u]->point, vs[u]->orthogVisPropFlags, h, d); };
        std::vector<double> pot(n * 4, BIG);
        typedef std::pair<double, int> QE;
        std::priority_queue<QE, std::vector<QE>, std::greater<QE>> pq;
        for (int h = 0; h < 4; ++h) { pot[tar * 4 + h] = 0; pq.push(QE(0, tar * 4 + h)); }
        while (!pq.empty()) {
            QE e = pq.top(); pq.pop();
            if (e.first > pot[e.second]) continue;
            int w = e.second / 4, d = e.second % 4;
            if (w == src) continue;                      // the source is never re-entered
            for (int u : adj[w]) {
                if (u == tar || hopHeading(vs[u]->point, vs[w]->point) != d) continue;
                double l = manh(u, w);
                for (int h = 0; h < 4; ++h) {
                    if (cut(u, h, d)) continue;
                    double c = e.first + l + turn(h, d);
                    if (c < pot[u * 4 + h]) { pot[u * 4 + h] = c; pq.push(QE(c, u * 4 + h)); }
                }
            }
        }
        double opt = BIG; int bw = -1, bd = -1;
        for (int w : adj[src]) {
            if (w == src) continue;
            int d = hopHeading(vs[src]->point, vs[w]->point);
            double c = manh(src, w) + pot[w * 4 + d];
            if (c < opt) { opt = c; bw = w; bd = d; }
        }
        bool reach = opt < BIG / 2;
        ap(t, "%sreachable %d\n", px, reach ? 1 : 0);
        if (pass == 0) { out.reach = reach; out.gopt = opt; } else out.popt = opt;
        if (!reach) continue;
        ap(t, "%sopt %s\n", px, H(opt).c_str());
        t += px; t += "pot"; for (size_t i = 0; i < pot.size(); ++i) ap(t, " %s", H(pot[i]).c_str()); t += "\n";
        ap(t, "%swit %d", px, bw);
        int u = bw, h = bd, guard = 0;
        while (u != tar && guard++ < 100000) {
            int nw = -1, nd = -1;
            for (int w : adj[u]) {
                if (w == src) continue;
                int d = hopHeading(vs[u]->point, vs[w]->point);
                if (cut(u, h, d)) continue;
                if (manh(u, w) + turn(h, d) + pot[w * 4 + d] == pot[u * 4 + h]) { nw = w; nd = d; break; }
            }
            if (nw < 0) break;
            u = nw; h = nd; ap(t, " %d", u);
        }
        t += "\n";
    }
    return out;
}

// ---- raw dump of the orthogonal visibility graph for the A* model (Model/AStar.lean, driver: checkAStar):
// every vertex (point, orthogVisPropFlags, isConnPt), every non-disabled entry of orthogVisList in LIST ORDER
// with EdgeInf::getDist() and isDummyConnection().  (list::sort in the search is stable and only entries in
// the same direction compare equal, so their relative order is the insertion order before and after routing.)
static void dumpGraphRaw(Router *router, ConnRef *conn) {
    if (g_caseIdx % g_astarEvery != 0) return;
    std::vector<VertInf *> vs;
    std::map<VertInf *, int> id;
    for (VertInf *v = router->vertices.connsBegin(); v != router->vertices.end(); v = v->lstNext) {
        id[v] = (int) vs.size(); vs.push_back(v);
    }
    int n = (int) vs.size();
    if (n > 400) { printf("agskip %d\n", n); return; }     // the list-based Lean model is quadratic
    std::string t;
    t += "agx"; for (int u = 0; u < n; ++u) ap(t, " %s", H(vs[u]->point.x).c_str()); t += "\n";
    t += "agy"; for (int u = 0; u < n; ++u) ap(t, " %s", H(vs[u]->point.y).c_str()); t += "\n";
    t += "agf"; for (int u = 0; u < n; ++u) ap(t, " %u", vs[u]->orthogVisPropFlags); t += "\n";
    t += "agc"; for (int u = 0; u < n; ++u) ap(t, " %d", vs[u]->id.isConnPt() ? 1 : 0); t += "\n";
    t += "aga";
    for (int u = 0; u < n; ++u) {
        int deg = 0;
        for (EdgeInfList::const_iterator e = vs[u]->orthogVisList.begin(); e != vs[u]->orthogVisList.end(); ++e)
            if (!(*e)->isDisabled()) ++deg;
        ap(t, " %d", deg);
        for (EdgeInfList::const_iterator e = vs[u]->orthogVisList.begin(); e != vs[u]->orthogVisList.end(); ++e) {
            if ((*e)->isDisabled()) continue;
            ap(t, " %d %s %d", id[(*e)->otherVert(vs[u])], H((*e)->getDist()).c_str(), (*e)->isDummyConnection() ? 1 : 0);
        }
    }
    t += "\n";
    ap(t, "ags %d %d\n", id[conn->src()], id[conn->dst()]);
    if (g_tap) {
        t += "apop";
        for (size_t i = 0; i < g_tap->pops.size(); ++i) ap(t, " %s", H(g_tap->pops[i]).c_str());
        t += "\n";
    }
    fputs(t.c_str(), stdout);
}

// ---- kernels of the search called directly (the copies in this translation unit, compiled from the same
// makepath.cpp): cost() on point triples (orthogonal connector, no clusters, not in the crossing stage) and
// ANodeCmp on (f, timeStamp) pairs around its 1e-7 threshold.
static void kernelAStar(long k, vh::Rng r, int n) {
    vh::beginCase(k, "astar-kernels");
    Router *router = new Router(OrthogonalRouting);
    const double pens[6] = {10, 50, 200, 0, 2.5, 0.75};
    for (int i = 0; i < n; ++i) {
        double pen = pens[r.range(0, 5)];
        double rev = r.coin(1, 3) ? (double) r.range(1, 9) : 0.0;
        router->setRoutingParameter(segmentPenalty, pen);
        router->setRoutingParameter(reverseDirectionPenalty, rev);
        Point cs((double) r.range(-3, 3), (double) r.range(-3, 3)), cd((double) r.range(-3, 3), (double) r.range(-3, 3));
        ConnRef *conn = new ConnRef(router, ConnEnd(cs), ConnEnd(cd));
        conn->setRoutingType(ConnType_Orthogonal);
        int m = (int) r.range(1, 4);
        Point p1((double) r.range(-m, m), (double) r.range(-m, m)), p2((double) r.range(-m, m), (double) r.range(-m, m)),
              p3((double) r.range(-m, m), (double) r.range(-m, m));
        if (r.coin(3, 4)) {                        // axis-parallel hops (what the orthogonal search sees)
            if (r.coin()) p2.x = p1.x; else p2.y = p1.y;
            if (r.coin()) p3.x = p2.x; else p3.y = p2.y;
        }
        if (r.coin(1, 4)) { p1.x /= 2; p3.y /= 2; }
        bool have1 = !r.coin(1, 6);
        double dist = std::fabs(p3.x - p2.x) + std::fabs(p3.y - p2.y);
        if (r.coin(1, 5)) dist = (double) r.range(0, 40) / 4;
        VertInf *v1 = new VertInf(router, VertID(0, 0), p1, false);
        VertInf *v2 = new VertInf(router, VertID(0, 1), p2, false);
        VertInf *v3 = new VertInf(router, VertID(0, 2), p3, false);
        ANode n1(v1, 1);
        bool ends = conn->src() && conn->dst();
        if (!ends) { rev = 0; router->setRoutingParameter(reverseDirectionPenalty, 0); }
        printf("ck %d %s %s %s %s %s %s %s %s %s %s %s %s %s", have1 ? 1 : 0, H(p1.x).c_str(), H(p1.y).c_str(), H(p2.x).c_str(),
               H(p2.y).c_str(), H(p3.x).c_str(), H(p3.y).c_str(), H(dist).c_str(), H(pen).c_str(), H(rev).c_str(),
               H(cs.x).c_str(), H(cs.y).c_str(), H(cd.x).c_str(), H(cd.y).c_str());
        fflush(stdout);
        double c = cost(conn, dist, v2, v3, have1 ? &n1 : nullptr);
        printf(" %s\n", H(c).c_str());
        delete v1; delete v2; delete v3;
        router->deleteConnector(conn);
    }
    delete router;
    for (int i = 0; i < n; ++i) {
        ANode a, b;
        a.f = (double) r.range(0, 400) / 4;
        switch (r.range(0, 4)) {
        case 0: b.f = a.f; break;
        case 1: b.f = a.f + std::ldexp((double) r.range(-64, 64), -29); break;      // around 1e-7 = 53.7 * 2^-29
        case 2: b.f = a.f + (double) r.range(-8, 8) / 4; break;
        case 3: b.f = a.f + (r.coin() ? 1e-7 : -1e-7); break;
        default: b.f = (double) r.range(0, 400) / 4;
        }
        a.timeStamp = (int) r.range(1, 6); b.timeStamp = r.coin(1, 3) ? a.timeStamp : (int) r.range(1, 6);
        ANodeCmp cmp;
        printf("cmp %s %d %s %d %d\n", H(a.f).c_str(), a.timeStamp, H(b.f).c_str(), b.timeStamp, cmp(&a, &b) ? 1 : 0);
    }
    vh::endCase();
}

static Router *buildRouter(const Scene &s, ConnRef *&conn) {
    Router *router = new Router(OrthogonalRouting);
    router->setRoutingParameter(segmentPenalty, s.pen);
    router->setRoutingParameter(shapeBufferDistance, s.buf);
    router->setRoutingParameter(idealNudgingDistance, 1.0);
    for (const R4 &r : s.rects) { Rectangle poly(Point(r.x0, r.y0), Point(r.x1, r.y1)); new ShapeRef(router, poly); }
    conn = new ConnRef(router, ConnEnd(Point(s.sx, s.sy), s.smask), ConnEnd(Point(s.tx, s.ty), s.tmask));
    conn->setRoutingType(ConnType_Orthogonal);
    return router;
}

// Direction-restricted scene: judged against libavoid's own visibility graph.
// If `lossyTag` is given, the generator class (tag) is decided by a pre-pass on a separate router
// instance (same scene, same graph) BEFORE the case is opened -- it is a property of the scene alone:
//   lossyTag   the documented pruning rule discards every optimal route of the graph (optimum under
//              pruning > optimum), or the endpoints share a row/column;
//   strictTag  everything else.
static void runSceneVG(long k, const char *strictTag, const char *lossyTag, const Scene &s) {
    const char *tag = strictTag;
    if (lossyTag) {
        ConnRef *c0 = nullptr; Router *r0 = buildRouter(s, c0);
        r0->processTransaction();
        VGOut pre = analyseGraph(r0, c0, s.pen);
        delete r0;
        if (s.sx == s.tx || s.sy == s.ty || !pre.reach || pre.popt > pre.gopt) tag = lossyTag;
    }
    g_caseIdx = k;
    vh::beginCase(k, tag);
    printf("pen %s\nbuf %s\n", H(s.pen).c_str(), H(s.buf).c_str());
    for (const R4 &r : s.rects) printf("rect %s %s %s %s\n", H(r.x0).c_str(), H(r.y0).c_str(), H(r.x1).c_str(), H(r.y1).c_str());
    printf("src %s %s %u\ndst %s %s %u\n", H(s.sx).c_str(), H(s.sy).c_str(), s.smask, H(s.tx).c_str(), H(s.ty).c_str(), s.tmask);
    fflush(stdout);
    ConnRef *conn = nullptr; Router *router = buildRouter(s, conn);
    PopTap tap; tap.src = Point(s.sx, s.sy); tap.tar = Point(s.tx, s.ty);
    router->setDebugHandler(&tap); g_tap = &tap;
    router->processTransaction();
    printPoly("route", conn->route());
    printPoly("display", conn->displayRoute());
    printAStarHook(conn);
    fflush(stdout);
    VGOut o = analyseGraph(router, conn, s.pen);
    fputs(o.text.c_str(), stdout);
    dumpGraphRaw(router, conn);
    g_tap = nullptr; router->setDebugHandler(nullptr);
    delete router;
    vh::endCase();
}

#include "c05_orthvis.h"   // builder H: scene classes ovis-* (graph tie only)

int main(int argc, char **argv) {
    vh::Args a = vh::parseArgs(argc, argv);
    bool thorough = a.tier == "thorough";
    g_astarEvery = thorough ? 2 : 1;
    long k = 0;
    if (a.want(k)) kernelGrid(k);
    ++k;
    long nrk = thorough ? 8 : 2;
    for (long c = 0; c < nrk; ++c, ++k) if (a.want(k)) kernelRandom(k, vh::caseRng(a.seed, k), 500);
    for (long c = 0; c < nrk; ++c, ++k) if (a.want(k)) kernelEstimate(k, vh::caseRng(a.seed, k), 300);
    // Scenes.  Default: both endpoints visible in all four directions (the configuration for which
    // "optimal among all orthogonal obstacle-avoiding paths" is well defined and libavoid's cost model
    // is exactly length + penalty*bends).  `--mode dirs` additionally emits direction-restricted
    // endpoints under the single tag scene-dirs (see check/props/C05.py for why this is separate).
    long nscenes = (thorough ? 10000 : 1500) * a.scale;
    if (a.n >= 0) nscenes = a.n;
    int maxRects = thorough ? 30 : 10;
    for (long c = 0; c < nscenes; ++c, ++k) {
        if (!a.want(k)) continue;
        vh::Rng r = vh::caseRng(a.seed, k);
        int cls = (int) r.range(0, 4);
        Scene s = genScene(r, cls, maxRects, 0);
        runScene(k, CLASSES[cls], s);
    }
    // Direction-restricted endpoints.  The geometric optimum is not attained there (a first leg may be
    // arbitrarily short), so these scenes are judged against the optimum of libavoid's OWN visibility
    // graph (dumped after routing; certificate re-checked in Lean).
    //   scene-dirs-src       only the source restricted, target ConnDirAll (incl. the leave-away shape),
    //                        and the documented turn-pruning rule keeps an optimal route: STRICT
    //   scene-dirs-src-lossy same, but the pruning rule provably discards every optimal route (rare)
    //   scene-dirs-dst       target restricted, source anything (known finding: search not optimal)
    // Until known_findings.json names the two new non-strict tags (--mode dirs2) they are emitted under
    // the legacy tag scene-dirs.
    bool newTags = a.mode == "dirs2";
    const char *srcLossyTag = newTags ? "scene-dirs-src-lossy" : "scene-dirs";
    const char *dstTag = newTags ? "scene-dirs-dst" : "scene-dirs";
    long ns = (thorough ? 3000 : 600) * a.scale;
    for (long c = 0; c < ns; ++c, ++k) {
        if (!a.want(k)) continue;
        vh::Rng r = vh::caseRng(a.seed, k);
        if (r.coin(1, 3)) { Scene s = genLeaveAway(r); if (s.smask != 15) { runSceneVG(k, "scene-dirs-src", srcLossyTag, s); continue; } }
        int cls = (int) r.range(0, 4);
        Scene s = genScene(r, cls, maxRects, 1);
        if (s.smask == 15) s = genLeaveAway(r);          // outside rule lifted the restriction: use the shape class
        runSceneVG(k, "scene-dirs-src", srcLossyTag, s);
    }
    long nd = (thorough ? 3000 : 500) * a.scale;
    for (long c = 0; c < nd; ++c, ++k) {
        if (!a.want(k)) continue;
        vh::Rng r = vh::caseRng(a.seed, k);
        int cls = (int) r.range(0, 4);
        Scene s = genScene(r, cls, maxRects, 2);
        runSceneVG(k, dstTag, nullptr, s);
    }
    // multi-connector scenes (appended last so that earlier case indices are stable)
    long nm = (thorough ? 3000 : 500) * a.scale;
    for (long c = 0; c < nm; ++c, ++k) {
        if (!a.want(k)) continue;
        vh::Rng r = vh::caseRng(a.seed, k);
        Scene s = genMulti(r, maxRects);
        runScene(k, "scene-multi", s);
    }
    // kernels of the A* search itself (appended last: earlier case indices stay stable)
    long nak = thorough ? 6 : 2;
    for (long c = 0; c < nak; ++c, ++k) if (a.want(k)) kernelAStar(k, vh::caseRng(a.seed, k), 400);
    k = runOrthVisCases(a, k, thorough);      // ovis-* classes (appended last: earlier case indices stay stable)
    return 0;
}
