// C08 harness: (a) tie — NonOverlapConstraints::generateSeparationConstraints and
// ClusterContainmentConstraints::generateSeparationConstraints called directly on shapes / rectangular
// clusters, dumped for exact comparison with the Lean model; (b) end-to-end — ConstrainedFDLayout
// with overlap avoidance (exemption groups, nested RectangularCluster hierarchies with padding and
// margins, heavily overlapping / coincident starts, user constraints that admit a non-overlapping
// layout): makeFeasible() then run(); final rectangles and unsatisfiable reports are dumped.
#include "c07_cc.h"
#include <functional>
#include <unistd.h>
#include <signal.h>
#include <sys/wait.h>
#include <libcola/cluster.h>
#include <libcola/cc_nonoverlapconstraints.h>
#include <libcola/cc_clustercontainmentconstraints.h>
using namespace c07;

struct ClusterSpec {
    int parent = -1;                 // index of the parent cluster, -1 = child of the root
    int rect = -1;                   // >= 0: cluster built from this node's rectangle (RectangularCluster(rectIndex))
    std::vector<unsigned> nodes;
    double pad[4] = {0, 0, 0, 0};    // xMin xMax yMin yMax
    double mar[4] = {0, 0, 0, 0};
};

struct Scene8 : Scene {
    std::vector<ClusterSpec> clusters;
    std::vector<std::vector<unsigned> > exempt;
};

static void printClusters(const Scene8 &s) {
    for (size_t c = 0; c < s.clusters.size(); ++c) {
        const ClusterSpec &k = s.clusters[c];
        printf("cluster %zu %d %s %s %s %s %s %s %s %s %zu", c, k.parent, H(k.pad[0]), H(k.pad[1]), H(k.pad[2]), H(k.pad[3]),
               H(k.mar[0]), H(k.mar[1]), H(k.mar[2]), H(k.mar[3]), k.nodes.size());
        for (unsigned i : k.nodes) printf(" %u", i);
        printf("\n");
    }
    for (size_t c = 0; c < s.clusters.size(); ++c) if (s.clusters[c].rect >= 0) printf("crect %zu %d\n", c, s.clusters[c].rect);
    for (auto &g : s.exempt) { printf("exempt %zu", g.size()); for (unsigned i : g) printf(" %u", i); printf("\n"); }
}

// builds the hierarchy; `out[c]` is the RectangularCluster of spec c; the root owns everything
static cola::RootCluster *buildClusters(const Scene8 &s, std::vector<cola::RectangularCluster *> &out) {
    cola::RootCluster *root = new cola::RootCluster();
    for (auto &k : s.clusters) {
        cola::RectangularCluster *rc = k.rect >= 0 ? new cola::RectangularCluster((unsigned) k.rect) : new cola::RectangularCluster();
        if (k.rect < 0) {
            rc->setPadding(cola::Box(k.pad[0], k.pad[1], k.pad[2], k.pad[3]));
            rc->setMargin(cola::Box(k.mar[0], k.mar[1], k.mar[2], k.mar[3]));
        }
        for (unsigned i : k.nodes) rc->addChildNode(i);
        out.push_back(rc);
    }
    for (size_t c = 0; c < s.clusters.size(); ++c) {
        if (s.clusters[c].parent < 0) root->addChildCluster(out[c]);
        else out[s.clusters[c].parent]->addChildCluster(out[c]);
    }
    return root;
}

// random hierarchy: up to `kmax` clusters, depth <= 3, every cluster has at least one own node,
// every node in at most one cluster
static void genClusters(vh::Rng &r, Scene8 &s, unsigned kmax, int rectNum = 0, int rectDen = 1) {
    unsigned n = (unsigned) s.rects.size();
    if (n < 2) return;
    unsigned k = (unsigned) r.range(1, std::min(kmax, n / 2 + 1));
    std::vector<unsigned> order = pickSubset(r, n, n);
    unsigned used = 0;
    for (unsigned c = 0; c < k && used < n; ++c) {
        ClusterSpec cs;
        if (c > 0 && r.coin(2, 5)) {
            int p = (int) r.range(0, c - 1);
            int depth = 1; for (int q = p; s.clusters[q].parent >= 0; q = s.clusters[q].parent) ++depth;
            if (depth < 3) cs.parent = p;
        }
        unsigned m = (unsigned) r.range(1, std::max(1u, std::min(3u, n - used - (k - c - 1))));
        for (unsigned j = 0; j < m && used < n; ++j) cs.nodes.push_back(order[used++]);
        std::sort(cs.nodes.begin(), cs.nodes.end());
        if (rectNum > 0 && r.coin(rectNum, rectDen) && used < n) {
            // container rectangle: another node, made large enough to hold the members, any aspect ratio
            cs.rect = (int) order[used++];
            RectSpec &R = s.rects[cs.rect];
            double cx = cxOf(R), cy = cyOf(R);
            const double dims[3][2] = {{120, 120}, {200, 80}, {80, 200}};
            int asp = (int) r.range(0, 2); double sc = r.coin() ? 1 : 1.5;
            double w = dims[asp][0] * sc, h = dims[asp][1] * sc;
            R.x = cx - w / 2; R.X = cx + w / 2; R.y = cy - h / 2; R.Y = cy + h / 2;
            s.clusters.push_back(cs);
            continue;
        }
        bool uniform = r.coin();
        double p0 = r.range(0, 3) * 2.5, m0 = r.range(0, 3) * 2.5;
        for (int i = 0; i < 4; ++i) { cs.pad[i] = uniform ? p0 : r.range(0, 4) * 2.5; cs.mar[i] = uniform ? m0 : r.range(0, 4) * 2.5; }
        s.clusters.push_back(cs);
    }
}

// hidden placement compatible with the hierarchy: nodes on a line in DFS order of the hierarchy,
// so every cluster's members are contiguous; spacing leaves room for sizes + paddings + margins
static void genHiddenClustered(vh::Rng &r, Scene8 &s, double spacing) {
    unsigned n = (unsigned) s.rects.size();
    std::vector<unsigned> order; std::vector<bool> seen(n, false);
    std::function<void(int)> dfs = [&](int c) {
        for (unsigned i : s.clusters[c].nodes) { order.push_back(i); seen[i] = true; }
        for (size_t d = 0; d < s.clusters.size(); ++d) if (s.clusters[d].parent == c) dfs((int) d);
    };
    std::vector<int> tops; for (size_t c = 0; c < s.clusters.size(); ++c) if (s.clusters[c].parent < 0) tops.push_back((int) c);
    r.shuffle(tops);
    for (int c : tops) dfs(c);
    for (unsigned i = 0; i < n; ++i) if (!seen[i]) order.insert(order.begin() + (r.coin() ? 0 : order.size()), i);
    s.hx.assign(n, 0); s.hy.assign(n, 0);
    bool vertical = r.coin();
    for (unsigned k = 0; k < n; ++k) { (vertical ? s.hy : s.hx)[order[k]] = k * spacing; }
}

static void genExempt(vh::Rng &r, Scene8 &s) {
    unsigned n = (unsigned) s.rects.size();
    if (n < 2 || !r.coin(2, 5)) return;
    unsigned g = (unsigned) r.range(1, 2);
    for (unsigned j = 0; j < g; ++j) {
        std::vector<unsigned> grp = pickSubset(r, n, (unsigned) r.range(2, std::min(n, 4u)));
        if (r.coin(1, 4)) grp.push_back(grp[0]);
        s.exempt.push_back(grp);
    }
}

// ------------------------------------------------------------------------------------------ tie
static void genCase(long k, const vh::Args &a, bool rectMode = false) {
    vh::Rng r = vh::caseRng(a.seed, k);
    bool thorough = a.tier == "thorough";
    Scene8 s;
    unsigned n = (unsigned) r.range(2, thorough ? 12 : 7);
    // overlapping starts of every flavour so that the 0.0005 threshold and centre order matter
    genRects(r, s, n, (int) r.range(0, 4));
    if (r.coin(1, 3)) {   // a pair overlapping by a hair around the threshold in one dimension
        unsigned i = (unsigned) r.range(0, n - 1), j = (unsigned) r.range(0, n - 2); if (j >= i) ++j;
        const double eps[] = {0.00048828125, 0.00048828125, 0.0009765625, 0.000244140625, 0};   // dyadic, around 0.0005
        double e = eps[r.range(0, 4)];
        RectSpec &A = s.rects[i], &B = s.rects[j];
        double w = B.X - B.x; B.x = A.X - e; B.X = B.x + w;
    }
    bool clustered = rectMode || r.coin();
    if (clustered) { if (rectMode) genClusters(r, s, 4, 2, 3); else genClusters(r, s, 4); }
    genExempt(r, s);
    vh::beginCase(k, rectMode ? "gen-noc-rectclusters" : clustered ? "gen-noc-clusters" : "gen-noc-flat");
    printRects(s.rects);
    printClusters(s);
    fflush(stdout);

    vpsc::Rectangles rs = buildRects(s.rects);
    std::vector<cola::RectangularCluster *> rcs;
    cola::RootCluster *root = buildClusters(s, rcs);
    root->computeBoundingRect(rs);
    // variable ids exactly as recGenerateClusterVariablesAndConstraints assigns them: post-order
    unsigned next = n;
    std::function<void(int)> number = [&](int c) {
        for (size_t d = 0; d < s.clusters.size(); ++d) if (s.clusters[d].parent == c) number((int) d);
        if (c >= 0) { rcs[c]->clusterVarId = next; next += 2; }
    };
    number(-1);
    root->clusterVarId = 0;
    for (size_t c = 0; c < rcs.size(); ++c) {
        vpsc::Rectangle &b = rcs[c]->bounds;
        printf("cvar %zu %u\nbounds %zu %s %s %s %s\n", c, rcs[c]->clusterVarId, c, H(b.getMinX()), H(b.getMaxX()), H(b.getMinY()), H(b.getMaxY()));
    }
    cola::NonOverlapConstraintExemptions ex;
    ex.addExemptGroupOfNodes(s.exempt);
    cola::NonOverlapConstraints noc(&ex);
    // the calls of recGenerateClusterVariablesAndConstraints(noc != nullptr), children first
    std::vector<bool> inCluster(n, false);
    for (auto &c : s.clusters) { for (unsigned i : c.nodes) inCluster[i] = true; if (c.rect >= 0) inCluster[c.rect] = true; }
    std::function<void(int)> feed = [&](int c) {
        for (size_t d = 0; d < s.clusters.size(); ++d) if (s.clusters[d].parent == c) feed((int) d);
        unsigned group = c < 0 ? root->clusterVarId : rcs[c]->clusterVarId;
        std::vector<unsigned> nodes;
        if (c < 0) { for (unsigned i = 0; i < n; ++i) if (!inCluster[i]) nodes.push_back(i); }
        else nodes = s.clusters[c].nodes;
        for (unsigned i : nodes) {
            printf("addshape %u %s %s %u\n", i, H(rs[i]->width() / 2), H(rs[i]->height() / 2), group);
            noc.addShape(i, rs[i]->width() / 2, rs[i]->height() / 2, group);
        }
        for (size_t d = 0; d < s.clusters.size(); ++d) if (s.clusters[d].parent == c) {
            if (rcs[d]->clusterIsFromFixedRectangle()) {      // treated like a shape, as in colafd.cpp
                unsigned id = (unsigned) rcs[d]->rectangleIndex();
                printf("addshape %u %s %s %u\n", id, H(rs[id]->width() / 2), H(rs[id]->height() / 2), group);
                noc.addShape(id, rs[id]->width() / 2, rs[id]->height() / 2, group);
            } else {
                printf("addcluster %zu %u\n", d, group);
                noc.addCluster(rcs[d], group);
            }
        }
    };
    feed(-1);
    fflush(stdout);
    for (int dim = 0; dim < 2; ++dim) {
        vpsc::Variables vars; vpsc::Constraints cs;
        for (unsigned i = 0; i < next; ++i) vars.push_back(new vpsc::Variable((int) i, 0));
        noc.generateSeparationConstraints((vpsc::Dim) dim, vars, cs, rs);
        for (auto *c : cs) printf("nocon %d %d %d %s %d\n", dim, c->left->id, c->right->id, H(c->gap), (int) c->equality);
        for (auto *c : cs) delete c;
        cs.clear();
        for (size_t c = 0; c < rcs.size(); ++c) {
            cola::ClusterContainmentConstraints ccc(rcs[c], 1, rs);
            ccc.generateSeparationConstraints((vpsc::Dim) dim, vars, cs, rs);
            for (auto *q : cs) printf("cccon %zu %d %d %d %s %d\n", c, dim, q->left->id, q->right->id, H(q->gap), (int) q->equality);
            for (auto *q : cs) delete q;
            cs.clear();
        }
        for (auto *v : vars) delete v;
    }
    // RectangularCluster::generateFixedRectangleConstraints: the equalities tying the boundary
    // variables of a rectangle-based cluster to its container rectangle
    for (size_t c = 0; c < rcs.size(); ++c) {
        cola::CompoundConstraints idle; vpsc::Variables dummy[2];
        rcs[c]->generateFixedRectangleConstraints(idle, rs, dummy);
        for (auto *q : idle) {
            cola::SeparationConstraint *sc = static_cast<cola::SeparationConstraint *>(q);
            printf("frcon %zu %d %u %u %s %d\n", c, (int) sc->dimension(), sc->left(), sc->right(), H(sc->gap), (int) sc->equality);
            delete q;
        }
    }
    if (!clustered) {
        // makeFeasible's encoding: the four alternatives (left/right/below/above) offered for the
        // most overlapping pair, with live variables at the current centres
        vpsc::Variables vs[2];
        for (int dim = 0; dim < 2; ++dim)
            for (unsigned i = 0; i < n; ++i) vs[dim].push_back(new vpsc::Variable((int) i, rs[i]->getCentreD(dim), 1));
        noc.markAllSubConstraintsAsInactive();
        if (noc.subConstraintsRemaining()) {
            cola::SubConstraintAlternatives alts = noc.getCurrSubConstraintAlternatives(vs);
            for (auto &al : alts)
                printf("noalt %d %d %d %s %d\n", (int) al.dim, al.constraint.left->id, al.constraint.right->id, H(al.constraint.gap), (int) al.constraint.equality);
        }
        printf("noaltdone 1\n");
        for (int dim = 0; dim < 2; ++dim) for (auto *v : vs[dim]) delete v;
    }
    delete root;
    for (auto *q : rs) delete q;
    vh::endCase();
}

// ------------------------------------------------------------------------------------------ end to end
static std::string runGuarded(const std::function<void()> &f) {
    try { f(); return "none"; }
    catch (cola::InvalidVariableIndexException &e) { return "InvalidVariableIndexException"; }
    catch (cola::InvalidConstraint &e) { return "InvalidConstraint"; }
    catch (vpsc::CriticalFailure &e) { return std::string("CriticalFailure:") + e.what(); }
    catch (vpsc::UnsatisfiedConstraint &e) { return "UnsatisfiedConstraint"; }
    catch (char *) { return "char*"; }
    catch (const char *) { return "constchar*"; }
    catch (std::exception &e) { return std::string("std:") + e.what(); }
    catch (...) { return "unknown"; }
}

// Scene for rectangle-based clusters: container rectangles of every aspect ratio, small members
// starting inside, outsiders starting beyond one chosen side and tied to a member by a short edge,
// so that the member is pulled against that side from inside and the outsider from outside.
static void genRectClusterScene(vh::Rng &r, Scene8 &s) {
    unsigned nc = (unsigned) r.range(1, 2);
    double originX = 0;
    for (unsigned c = 0; c < nc; ++c) {
        const double dims[3][2] = {{120, 120}, {200, 80}, {80, 200}};
        int asp = (int) r.range(0, 2); double sc = r.coin() ? 1 : 1.5;
        double w = dims[asp][0] * sc, h = dims[asp][1] * sc;
        double cx = originX + q4(r, -20, 20), cy = q4(r, -20, 20);
        originX += 500;
        ClusterSpec cs; cs.rect = (int) s.rects.size();
        RectSpec R; R.x = cx - w / 2; R.X = cx + w / 2; R.y = cy - h / 2; R.Y = cy + h / 2; s.rects.push_back(R);
        unsigned m = (unsigned) r.range(1, 3), o = (unsigned) r.range(1, 3);
        int side = (int) r.range(0, 3);                      // 0 min-x, 1 max-x, 2 min-y, 3 max-y
        bool coincident = r.coin(1, 3);
        std::vector<unsigned> members, outs;
        for (unsigned j = 0; j < m; ++j) {
            double mw = r.range(5, 10) * 2, mh = r.range(5, 10) * 2;
            double mx = coincident ? cx : cx + q4(r, -(long) (w / 4), (long) (w / 4)), my = coincident ? cy : cy + q4(r, -(long) (h / 4), (long) (h / 4));
            RectSpec M; M.x = mx - mw / 2; M.X = mx + mw / 2; M.y = my - mh / 2; M.Y = my + mh / 2;
            members.push_back((unsigned) s.rects.size()); cs.nodes.push_back((unsigned) s.rects.size()); s.rects.push_back(M);
        }
        for (unsigned j = 0; j < o; ++j) {
            double ow = r.range(5, 15) * 2, oh = r.range(5, 15) * 2;
            double d = q4(r, 20, 120), t = q4(r, -40, 40);
            double ox = cx, oy = cy;
            if (side == 0) { ox = cx - w / 2 - d; oy = cy + t; } else if (side == 1) { ox = cx + w / 2 + d; oy = cy + t; }
            else if (side == 2) { oy = cy - h / 2 - d; ox = cx + t; } else { oy = cy + h / 2 + d; ox = cx + t; }
            if (r.coin(1, 5)) { ox = cx; oy = cy; }             // outsider starting inside the container
            RectSpec O; O.x = ox - ow / 2; O.X = ox + ow / 2; O.y = oy - oh / 2; O.Y = oy + oh / 2;
            outs.push_back((unsigned) s.rects.size()); s.rects.push_back(O);
        }
        for (unsigned j = 0; j < o; ++j) { s.edges.push_back(std::make_pair(members[j % m], outs[j])); s.elen.push_back(r.coin() ? 0.25 : 1); }
        for (unsigned j = 1; j < m; ++j) if (r.coin()) { s.edges.push_back(std::make_pair(members[0], members[j])); s.elen.push_back(2); }
        if (c > 0 && r.coin()) { s.edges.push_back(std::make_pair(outs[0], 1u)); s.elen.push_back(4); }
        s.clusters.push_back(cs);
    }
    s.ideal = r.coin() ? 20 : 40;
    s.graphKind = "rectclusters"; s.startKind = "rectclusters";
    s.hx.assign(s.rects.size(), 0); s.hy.assign(s.rects.size(), 0);
}

static void layoutCase(long k, const vh::Args &a, bool rectMode = false) {
    vh::Rng r = vh::caseRng(a.seed, k);
    bool thorough = a.tier == "thorough";
    Scene8 s;
    unsigned n = 0; bool clustered = true, withUser = false;
    if (rectMode) { genRectClusterScene(r, s); n = (unsigned) s.rects.size(); }
    else {
    unsigned nmax = thorough ? (r.coin(1, 8) ? 40 : 14) : 10;
    n = (unsigned) r.range(2, nmax);
    genGraph(r, s, n);
    int start = (int) r.range(0, 5); if (start == 5) start = 1;      // coincident twice as likely
    genRects(r, s, n, start);
    clustered = r.coin(1, 2);
    if (clustered) genClusters(r, s, thorough ? 6 : 4);
    genExempt(r, s);
    if (clustered) genHiddenClustered(r, s, 160); else genHidden(r, s, 80);
    withUser = r.coin(1, 2);
    if (withUser) genSatisfiable(r, s, (unsigned) r.range(1, 4), !clustered, false);
    }
    bool nstress = r.coin(1, 4);
    unsigned iters = (unsigned) r.range(2, thorough ? 30 : 15);
    if (rectMode) iters = (unsigned) r.range(10, 40);
    // RootCluster::setAllowsMultipleParents(true) only declares an intention (it silences a warning about nodes listed
    // in several clusters); on a strict hierarchy - ours is - it must not change what is kept apart
    bool multiParents = clustered && r.coin(1, 3);
    std::string tag = rectMode ? "rectclusters" : std::string(clustered ? "clusters" : "flat") + (withUser ? "-user" : "-plain");
    vh::beginCase(k, tag.c_str());
    printScene(s);
    printClusters(s);
    printf("algo fdmfrun\noverlap 1\nnstress %d\niters %u\nmultiparents %d\n", (int) nstress, iters, (int) multiParents);
    for (unsigned i = 0; i < n; ++i) printf("hidden %u %s %s\n", i, H(s.hx[i]), H(s.hy[i]));
    fflush(stdout);

    vpsc::Rectangles rs = buildRects(s.rects);
    cola::CompoundConstraints ccs = buildCCs(s.ccs, rs);
    cola::EdgeLengths el(s.elen.begin(), s.elen.end());
    cola::UnsatisfiableConstraintInfos ux, uy;
    std::vector<cola::RectangularCluster *> rcs;
    cola::RootCluster *root = clustered ? buildClusters(s, rcs) : nullptr;
    std::string exc;
    {
        cola::TestConvergence test(1e-4, iters);
        cola::ConstrainedFDLayout alg(rs, s.edges, s.ideal, el, &test);
        alg.setConstraints(ccs);
        alg.setUnsatisfiableConstraintInfo(&ux, &uy);
        alg.setAvoidNodeOverlaps(true, s.exempt);
        alg.setUseNeighbourStress(nstress);
        if (root && multiParents) root->setAllowsMultipleParents(true);
        if (root) alg.setClusterHierarchy(root);
        exc = runGuarded([&]() { alg.makeFeasible(); alg.run(); });
    }
    printOut(rs);
    printUnsat(0, ux, ccs); printUnsat(1, uy, ccs);
    printf("exc %s\n", exc.substr(0, 100).c_str());
    if (exc != "none") { vh::endCase(); _exit(0); }
    for (auto *p : ux) delete p;
    for (auto *p : uy) delete p;
    for (auto *c : ccs) delete c;
    delete root;
    for (auto *q : rs) delete q;
    vh::endCase();
}

int main(int argc, char **argv) {
    vh::Args a = vh::parseArgs(argc, argv);
    bool thorough = a.tier == "thorough";
    long ngen = (thorough ? 4000 : 500) * a.scale;
    long nlay = (thorough ? 2000 : 400) * a.scale;
    long ngenR = (thorough ? 1500 : 200) * a.scale, nlayR = (thorough ? 800 : 150) * a.scale;
    if (a.n >= 0) { ngen = a.n; nlay = a.n; ngenR = a.n; nlayR = a.n; }
    long k = 0;
    for (long i = 0; i < ngen; ++i, ++k) if (a.want(k)) genCase(k, a);
    const unsigned limit = thorough ? 10 : 5;
    for (long i = 0; i < nlay + nlayR; ++i, ++k) {
        if (i == nlay) for (long j = 0; j < ngenR; ++j, ++k) if (a.want(k)) genCase(k, a, true);
        if (!a.want(k)) continue;
        fflush(stdout);
        pid_t pid = fork();
        if (pid == 0) { alarm(limit); layoutCase(k, a, i >= nlay); fflush(stdout); exit(0); }
        int st = 0; waitpid(pid, &st, 0);
        if (WIFSIGNALED(st) && WTERMSIG(st) == SIGALRM) { printf("hang %u\n", limit); vh::endCase(); continue; }
        if (WIFSIGNALED(st)) { fprintf(stderr, "child killed by signal %d in case %ld\n", WTERMSIG(st), k); return 99; }
        if (WEXITSTATUS(st) != 0) return WEXITSTATUS(st);
    }
    return 0;
}
