// C10: per-region dump of ImproveOrthogonalRoutes::nudgeOrthogonalRoutes (verification hook H1).
// The hook lives in /repo (cola/libavoid/orthogonal.{h,cpp}) inside #ifdef ADAPTAGRAMS_VERIF and
// defines the feature macro ADAPTAGRAMS_VERIF_NUDGE_HOOK; while it is not in the tree under test this
// header compiles to no-ops and the harness prints `hook 0`.
//
// Lines (r = region number in call order, doubles as %a):
//   hook <0|1>
//   nreg r dim justUnifying skipped nudgeFinal nudgeCommonEnd nudgeColinear fsp baseSepDist satisfied nsegs nvars natts
//   nseg r i conn low high pos min max fixed final endsInShape single sBend zBend nidx wLow wHigh ncp (cpDim cpAlt)*
//   nvar r nvars (id desired weight)*
//   ncep r npairs (a b)*
//   natt r a sepDist satisfied retry ncons (left right gap eq unsat)*
//   npos r a nvars pos*
#ifndef VERIF_C10_REGIONS_H
#define VERIF_C10_REGIONS_H
#include "common.h"
#include "libavoid/libavoid.h"
#include "libavoid/orthogonal.h"
#include <vector>

namespace c10r {
#ifdef ADAPTAGRAMS_VERIF_NUDGE_HOOK
static std::vector<Avoid::VerifNudgeRegion> g_regions;
static void sink(const Avoid::VerifNudgeRegion &r) { g_regions.push_back(r); }
inline void arm() { g_regions.clear(); Avoid::verifNudgeRegionSink = &sink; }
inline void dump() {
    using vh::hx;
    printf("hook 1\n");
    for (size_t r = 0; r < g_regions.size(); ++r) {
        const Avoid::VerifNudgeRegion &g = g_regions[r];
        printf("nreg %zu %zu %d %d %d %d %d %s %s %d %zu %zu %zu\n", r, g.dimension, (int) g.justUnifying, (int) g.skipped,
               (int) g.nudgeFinalSegments, (int) g.nudgeSharedPathsWithCommonEnd, (int) g.nudgeTouchingColinearSegments,
               hx(g.fixedSharedPathPenalty).c_str(), hx(g.baseSepDist).c_str(), (int) g.satisfied, g.segments.size(),
               g.variables.size(), g.attempts.size());
        for (size_t i = 0; i < g.segments.size(); ++i) {
            const Avoid::VerifNudgeSegment &s = g.segments[i];
            printf("nseg %zu %zu %u %s %s %s %s %s %d %d %d %d %d %d %zu %s %s %zu", r, i, s.connId, hx(s.low).c_str(),
                   hx(s.high).c_str(), hx(s.pos).c_str(), hx(s.minSpaceLimit).c_str(), hx(s.maxSpaceLimit).c_str(), (int) s.fixed,
                   (int) s.finalSegment, (int) s.endsInShape, (int) s.singleConnectedSegment, (int) s.sBend, (int) s.zBend,
                   s.indexCount, hx(s.writtenLow).c_str(), hx(s.writtenHigh).c_str(), s.checkpoints.size() / 2);
            for (size_t c = 0; c < s.checkpoints.size(); ++c) printf(" %s", hx(s.checkpoints[c]).c_str());
            printf("\n");
        }
        printf("nvar %zu %zu", r, g.variables.size());
        for (size_t i = 0; i < g.variables.size(); ++i)
            printf(" %d %s %s", g.variables[i].id, hx(g.variables[i].desiredPosition).c_str(), hx(g.variables[i].weight).c_str());
        printf("\nncep %zu %zu", r, g.commonEndPairs.size());
        for (size_t i = 0; i < g.commonEndPairs.size(); ++i) printf(" %u %u", g.commonEndPairs[i].first, g.commonEndPairs[i].second);
        printf("\n");
        for (size_t a = 0; a < g.attempts.size(); ++a) {
            const Avoid::VerifNudgeAttempt &t = g.attempts[a];
            printf("natt %zu %zu %s %d %d %zu", r, a, hx(t.sepDist).c_str(), (int) t.satisfied, (int) t.retry, t.constraints.size());
            for (size_t c = 0; c < t.constraints.size(); ++c)
                printf(" %zu %zu %s %d %d", t.constraints[c].left, t.constraints[c].right, hx(t.constraints[c].gap).c_str(),
                       (int) t.constraints[c].equality, (int) t.constraints[c].unsatisfiable);
            printf("\nnpos %zu %zu %zu", r, a, t.finalPositions.size());
            for (size_t i = 0; i < t.finalPositions.size(); ++i) printf(" %s", hx(t.finalPositions[i]).c_str());
            printf("\n");
        }
    }
    g_regions.clear();
}
#else
inline void arm() {}
inline void dump() { printf("hook 0\n"); }
#endif
} // namespace c10r
#endif
