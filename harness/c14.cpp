// C14 harness: doHOLA() on generated connected simple graphs; dumps the drawing before and after
// the call plus the returned SepMatrix, exactly (hex floats), for the Lean checkers.
//
// Stream per case
//   CASE k <class>
//   opts <aca> <nearalign> <reps> <kinkWidth> <scope> <aspect> <padScalar> <defaultTreeGrowthDir 0=E 1=S 2=W 3=N>
//   pos <mode>          size <mode>
//   n0 <id> <cx> <cy> <w> <h>            one per node, as built (ids = Node::id())
//   e0 <eid> <srcId> <tgtId>             one per edge, as built
//   pre <connected> <simple>             the harness' own precondition check (must be 1 1)
//   ---- doHOLA(G, opts) ----
//   threw <what>                         (only if an exception escaped)
//   done
//   iel <G.getIEL()>   extrabdry <G.getSepMatrix().getExtraBdryGap()>
//   n1 <id> <cx> <cy> <w> <h>            Node::getCentre(), Node::getDimensions()
//   e1 <eid> <srcId> <tgtId> <npts> x y x y ...     Edge::getRoute() (may be empty)
//   sep <src> <tgt> <xgt> <ygt> <xst> <yst> <xgap> <ygap>    every SepPair of the returned SepMatrix
//   routepad <p>                         padding (added to w and h) the nodes carry while the last libavoid routing runs:
//                                        0.75*nodePaddingScalar*IEL (hola.cpp: nodePadding - nodePaddingLayer1), whole-tree case: all of it
//   fseg <dim> <conn> <low> <high> <pos> <min> <max> <endsInShape> <unifying>
//                                        (nudging hook of /repo, if present) every SHIFTABLE first/last segment of the regions
//                                        formed with nudgeOrthogonalSegmentsConnectedToShapes on: its ends (pos,low),(pos,high)
//                                        [dim 0: pos = x] before solving and its limits minSpaceLimit / maxSpaceLimit
//   END
#include "common.h"
#include <map>
#include <set>
#include <sstream>
#include <memory>
#include <stdexcept>
#include <cmath>
#include "libvpsc/rectangle.h"
#include "libavoid/libavoid.h"
#include "libcola/cola.h"
#include "libdialect/commontypes.h"
#include "libdialect/constraints.h"
#include "libdialect/graphs.h"
#include "libdialect/opts.h"
#include "libdialect/hola.h"
#include "libavoid/orthogonal.h"

using namespace dialect;

// ---- read-only access to SepMatrix::m_sparseLookup (private; no public iterator exists).
// Standard-conforming: access checking is not applied to explicit-instantiation arguments.
namespace rob {
typedef SparseIdMatrix2d<SepPair_SP>::type SepLookup;
struct Tag { typedef SepLookup SepMatrix::*type; friend type get(Tag); };
template <typename T, typename T::type M> struct Rob { friend typename T::type get(T) { return M; } };
template struct Rob<Tag, &SepMatrix::m_sparseLookup>;
}
static const rob::SepLookup &sepLookup(SepMatrix &m) { return m.*get(rob::Tag()); }

// ---- nudging hook (guarded hook H1 of /repo, see harness/c10_regions.h): collect the shiftable final segments
#ifdef ADAPTAGRAMS_VERIF_NUDGE_HOOK
struct FSeg { size_t dim; unsigned conn; double low, high, pos, mn, mx; bool ends, unifying; };
static std::vector<FSeg> g_fsegs;
static void fsegSink(const Avoid::VerifNudgeRegion &g) {
    if (!g.nudgeFinalSegments) return;
    for (const Avoid::VerifNudgeSegment &sg : g.segments)
        if (sg.finalSegment && !sg.fixed)
            g_fsegs.push_back({g.dimension, sg.connId, sg.low, sg.high, sg.pos, sg.minSpaceLimit, sg.maxSpaceLimit, sg.endsInShape, g.justUnifying});
}
static void armHook() { g_fsegs.clear(); Avoid::verifNudgeRegionSink = &fsegSink; }
static void disarmHook() { Avoid::verifNudgeRegionSink = nullptr; }
static void dumpHook() {
    for (const FSeg &f : g_fsegs)
        printf("fseg %zu %u %s %s %s %s %s %d %d\n", f.dim, f.conn, vh::hx(f.low).c_str(), vh::hx(f.high).c_str(), vh::hx(f.pos).c_str(),
               vh::hx(f.mn).c_str(), vh::hx(f.mx).c_str(), (int) f.ends, (int) f.unifying);
    g_fsegs.clear();
}
#else
static void armHook() {}
static void disarmHook() {}
static void dumpHook() {}
#endif

// ---- LeakSanitizer: the clean tree leaks in four libdialect functions on every non-trivial doHOLA() call
// (cola constraint objects of ACALayout, the root cluster of Graph::destress, SepCo constraints). Leaks are
// property C15's subject, not C14's; they are suppressed *by allocation site* here so that every other
// sanitizer report (and any new leak site) still aborts the run.  Reported as C15 finding candidates.
extern "C" const char *__lsan_default_suppressions() {
    return "leak:dialect::Graph::buildRootCluster\n"
           "leak:dialect::ACALayout::completeOrdAlign\n"
           "leak:dialect::ACALayout::initOrdAlign\n"
           "leak:dialect::SepCo::generateColaConstraints\n";
}

// ---- abstract graph
struct AG {
    int n = 0;
    std::vector<std::pair<int, int>> es;
    std::set<std::pair<int, int>> have;
    int addNode() { return n++; }
    bool has(int a, int b) const { return have.count({std::min(a, b), std::max(a, b)}) > 0; }
    bool addEdge(int a, int b) {
        if (a == b || has(a, b)) return false;
        have.insert({std::min(a, b), std::max(a, b)});
        es.push_back({a, b});
        return true;
    }
};

static bool connected(const AG &g) {
    if (g.n == 0) return true;
    std::vector<std::vector<int>> adj(g.n);
    for (auto &e : g.es) { adj[e.first].push_back(e.second); adj[e.second].push_back(e.first); }
    std::vector<char> seen(g.n, 0);
    std::vector<int> st{0}; seen[0] = 1; int c = 1;
    while (!st.empty()) { int u = st.back(); st.pop_back();
        for (int v : adj[u]) if (!seen[v]) { seen[v] = 1; ++c; st.push_back(v); } }
    return c == g.n;
}
static bool simple(const AG &g) {
    std::set<std::pair<int, int>> s;
    for (auto &e : g.es) {
        if (e.first == e.second) return false;
        if (!s.insert({std::min(e.first, e.second), std::max(e.first, e.second)}).second) return false;
    }
    return true;
}

// hang `extra` new nodes as trees below randomly chosen existing nodes (from `roots` on)
static void hangTrees(AG &g, int extra, vh::Rng &r, int style) {
    int base = g.n;
    for (int i = 0; i < extra; ++i) {
        int v = g.addNode();
        int p;
        if (style == 0) p = (int) r.range(0, v - 1);                    // anywhere (core or tree)
        else if (style == 1) p = (i == 0 || r.coin(1, 4)) ? (int) r.range(0, base - 1) : v - 1;  // paths
        else p = (i < 3 || r.coin(1, 3)) ? (int) r.range(0, base - 1) : (int) r.range(base, v - 1); // bushy trees
        g.addEdge(p, v);
    }
}

static AG genTree(int n, vh::Rng &r) {
    AG g; g.addNode();
    int style = (int) r.range(0, 4);
    for (int v = 1; v < n; ++v) {
        g.addNode();
        int p;
        switch (style) {
        case 0: p = (int) r.range(0, v - 1); break;                       // random recursive
        case 1: p = v - 1; break;                                         // path
        case 2: p = r.coin(1, 2) ? 0 : (int) r.range(0, v - 1); break;    // star-like
        case 3: p = (v - 1) / 2; break;                                   // binary
        default: p = (int) r.range(std::max(0, v - 3), v - 1); break;     // caterpillar-like
        }
        g.addEdge(p, v);
    }
    return g;
}

// trees on which Tree::symmetricLayout places a central child below every parent with an odd number of
// children (all children subtrees of a node are isomorphic): paths, stars, complete k-ary trees, spiders
static AG genSymTree(int n, vh::Rng &r) {
    AG g; g.addNode();
    int style = (int) r.range(0, 3);
    if (style == 0) { for (int v = 1; v < n; ++v) { g.addNode(); g.addEdge(v - 1, v); } }           // path
    else if (style == 1) { for (int v = 1; v < n; ++v) { g.addNode(); g.addEdge(0, v); } }          // star
    else if (style == 2) {                                                                          // complete k-ary
        int kk = (int) r.range(2, 3);
        std::vector<int> level{0};
        while (true) {
            if (g.n + (int) level.size() * kk > n) break;
            std::vector<int> next;
            for (int u : level) for (int c = 0; c < kk; ++c) { int v = g.addNode(); g.addEdge(u, v); next.push_back(v); }
            level = next;
        }
        if (g.n < 3) { int v = g.addNode(); g.addEdge(0, v); v = g.addNode(); g.addEdge(0, v); }
    } else {                                                                                        // spider, equal legs
        int legs = (int) r.range(3, 6);
        int len = std::max(1, (n - 1) / legs);
        for (int l = 0; l < legs; ++l) { int prev = 0; for (int j = 0; j < len; ++j) { int v = g.addNode(); g.addEdge(prev, v); prev = v; } }
    }
    return g;
}

static AG genCycle(int n, vh::Rng &r) {
    AG g; for (int i = 0; i < n; ++i) g.addNode();
    for (int i = 0; i < n; ++i) g.addEdge(i, (i + 1) % n);
    int chords = (int) r.range(0, 2);
    for (int c = 0; c < chords && n >= 5; ++c) g.addEdge((int) r.range(0, n - 1), (int) r.range(0, n - 1));
    return g;
}

static AG genCore(int k, vh::Rng &r) {
    AG g; for (int i = 0; i < k; ++i) g.addNode();
    int style = (int) r.range(0, 2);
    if (style == 0) {                    // cycle + random chords
        for (int i = 0; i < k; ++i) g.addEdge(i, (i + 1) % k);
        int extra = (int) r.range(1, std::max(1, k));
        for (int c = 0; c < extra; ++c) g.addEdge((int) r.range(0, k - 1), (int) r.range(0, k - 1));
    } else if (style == 1) {             // grid a x b (k rounded down)
        int a = 2; while ((a + 1) * (a + 1) <= k) ++a;
        int b = k / a;
        g = AG(); for (int i = 0; i < a * b; ++i) g.addNode();
        for (int i = 0; i < a; ++i) for (int j = 0; j < b; ++j) {
            if (i + 1 < a) g.addEdge(i * b + j, (i + 1) * b + j);
            if (j + 1 < b) g.addEdge(i * b + j, i * b + j + 1);
        }
        if (r.coin()) g.addEdge(0, a * b - 1);
    } else {                             // random spanning tree + many extra edges (may contain bridges)
        for (int v = 1; v < k; ++v) g.addEdge((int) r.range(0, v - 1), v);
        int extra = (int) r.range(k / 2, k + k / 2);
        for (int c = 0; c < extra; ++c) g.addEdge((int) r.range(0, k - 1), (int) r.range(0, k - 1));
    }
    return g;
}

static AG genCoreTrees(int n, vh::Rng &r) {
    int k = (int) r.range(4, std::max(4, std::min(14, n / 2 + 1)));
    AG g = genCore(k, r);
    if (g.n < n) hangTrees(g, n - g.n, r, (int) r.range(0, 2));
    return g;
}

static AG genHub(int n, vh::Rng &r) {
    AG g; int hub = g.addNode();
    int d = (int) r.range(4, std::max(4, std::min(10, n - 2)));
    std::vector<int> sp;
    for (int i = 0; i < d; ++i) { int v = g.addNode(); g.addEdge(hub, v); sp.push_back(v); }
    // tie most spokes together so that the hub stays in the core
    for (int i = 0; i < d; ++i) if (r.coin(2, 3)) g.addEdge(sp[i], sp[(i + 1) % d]);
    if (g.n + 3 < n && r.coin()) {       // second hub sharing some spokes
        int h2 = g.addNode();
        int d2 = (int) r.range(3, d);
        for (int i = 0; i < d2; ++i) g.addEdge(h2, sp[(int) r.range(0, d - 1)]);
        if (!connected(g)) g.addEdge(h2, hub);
    }
    if (g.n < n) hangTrees(g, n - g.n, r, (int) r.range(0, 2));
    return g;
}

// subdivision of a small multigraph: hubs joined by chains of links (degree-2 nodes)
static AG genLinks(int n, vh::Rng &r) {
    AG g;
    int hubs = (int) r.range(2, 4);
    for (int i = 0; i < hubs; ++i) g.addNode();
    std::vector<std::pair<int, int>> skel;
    if (hubs == 2) { skel = {{0, 1}, {0, 1}, {0, 1}}; if (r.coin()) skel.push_back({0, 1}); }
    else if (hubs == 3) { skel = {{0, 1}, {1, 2}, {2, 0}, {0, 1}}; if (r.coin()) skel.push_back({1, 2}); }
    else { skel = {{0, 1}, {1, 2}, {2, 3}, {3, 0}, {0, 2}}; if (r.coin()) skel.push_back({1, 3}); }
    int budget = std::max(0, n - hubs);
    for (size_t i = 0; i < skel.size(); ++i) {
        int len = (i + 1 == skel.size()) ? budget : (int) r.range(0, std::max(0, 2 * budget / (int) (skel.size() - i)));
        len = std::min(len, budget);
        // a chain of length 0 between two hubs is a direct edge; only allowed once per pair
        if (len == 0 && g.has(skel[i].first, skel[i].second)) len = (budget > 0) ? 1 : 0;
        if (len == 0) { g.addEdge(skel[i].first, skel[i].second); continue; }
        budget -= len;
        int prev = skel[i].first;
        for (int j = 0; j < len; ++j) { int v = g.addNode(); g.addEdge(prev, v); prev = v; }
        g.addEdge(prev, skel[i].second);
    }
    return g;
}

// ---- "crowd" family: nodes that receive more connectors through one side than fit at the ideal nudging
// distance (routingAbs_nudgingDistance = 4): hubs of degree 8-16 whose neighbours are tied
// together so that the hub and its spokes stay in the core (peeled-tree edges are re-created root->leaf by
// libdialect and are routed separately).  `hubs` receives the ids of the crowded nodes.
//   0 wheel            hub + rim cycle
//   1 partial wheel    hub + rim, 2/3 of the rim ties present (as class hub, higher degree)
//   2 double wheel     two hubs over the same rim cycle (each joined to a random >= half of the rim)
//   3 K(h,m)           h = 2..3 hubs all joined to the same m = 8..14 nodes, no other edges
//   4 fan              hub joined to every node of a path (open rim)
//   5 hub in a grid    a x b grid, one extra node joined to d random grid nodes
//   6 two wheels       two wheels (degrees d/2+2 each, 6..12) joined by a bridge between the rims or sharing a rim node
static AG genCrowd(int topo, int d, vh::Rng &r, std::vector<int> &hubs) {
    AG g; hubs.clear();
    if (topo == 3) {
        int h = (int) r.range(2, 3);
        int m = std::max(8, std::min(d, 14));
        for (int i = 0; i < h; ++i) hubs.push_back(g.addNode());
        for (int j = 0; j < m; ++j) { int v = g.addNode(); for (int hb : hubs) g.addEdge(hb, v); }
        return g;
    }
    if (topo == 5) {
        int a = 3, b = (int) r.range(3, 5);
        for (int i = 0; i < a * b; ++i) g.addNode();
        for (int i = 0; i < a; ++i) for (int j = 0; j < b; ++j) {
            if (i + 1 < a) g.addEdge(i * b + j, (i + 1) * b + j);
            if (j + 1 < b) g.addEdge(i * b + j, i * b + j + 1);
        }
        int hub = g.addNode(); hubs.push_back(hub);
        std::vector<int> cells; for (int i = 0; i < a * b; ++i) cells.push_back(i);
        r.shuffle(cells);
        int dd = std::min(d, a * b);
        for (int i = 0; i < dd; ++i) g.addEdge(hub, cells[i]);
        return g;
    }
    if (topo == 6) {
        int dd = std::max(6, std::min(12, d / 2 + 2));
        std::vector<int> first;
        bool share = r.coin();
        for (int wv = 0; wv < 2; ++wv) {
            int hub = g.addNode(); hubs.push_back(hub);
            std::vector<int> rim;
            for (int i = 0; i < dd; ++i) {
                int v = (wv == 1 && share && i == 0) ? first[0] : g.addNode();
                g.addEdge(hub, v); rim.push_back(v);
            }
            for (int i = 0; i < dd; ++i) g.addEdge(rim[i], rim[(i + 1) % dd]);
            if (wv == 0) first = rim; else if (!share) g.addEdge(first[0], rim[0]);
        }
        return g;
    }
    int hub = g.addNode(); hubs.push_back(hub);
    std::vector<int> rim;
    for (int i = 0; i < d; ++i) { int v = g.addNode(); g.addEdge(hub, v); rim.push_back(v); }
    for (int i = 0; i < d; ++i) {
        bool last = (i + 1 == d);
        if (topo == 4 && last) break;                         // fan: open rim
        if (topo == 1 && !r.coin(2, 3)) continue;             // partial wheel
        g.addEdge(rim[i], rim[(i + 1) % d]);
    }
    if (topo == 2) {
        int h2 = g.addNode(); hubs.push_back(h2);
        int cnt = 0;
        for (int i = 0; i < d; ++i) if (r.coin(3, 4)) { g.addEdge(h2, rim[i]); ++cnt; }
        if (cnt == 0) g.addEdge(h2, rim[0]);
    }
    return g;
}

struct Geo { double cx, cy, w, h; };

// growth: 0 EAST, 1 SOUTH (library default), 2 WEST, 3 NORTH  (= dialect::CardinalDir)
static HolaOpts mkOpts(bool aca, bool nearAlign, unsigned reps, double kink, double scope, int aspect, int growth = 1) {
    HolaOpts opts;
    opts.useACAforLinks = aca;
    opts.do_near_align = nearAlign;
    opts.align_reps = reps;
    opts.nearAlignScalar_kinkWidth = kink;
    opts.nearAlignScalar_scope = scope;
    opts.defaultTreeGrowthDir = (CardinalDir) growth;
    opts.preferredAspectRatio = aspect == 0 ? AspectRatioClass::NONE : aspect == 1 ? AspectRatioClass::PORTRAIT : AspectRatioClass::LANDSCAPE;
    return opts;
}

// one case: print the input, build the Graph through the public API, call doHOLA, dump the result
static void runOne(long k, const std::string &tag, const AG &g, const std::vector<Geo> &geo, const HolaOpts &opts,
                   int aspect, int posMode, int sizeMode, const std::vector<char> &flip, const std::string &extra = "") {
    int n = g.n;
    vh::beginCase(k, tag.c_str());
    printf("opts %d %d %u %s %s %d %s %d\n", (int) opts.useACAforLinks, (int) opts.do_near_align, opts.align_reps,
           vh::hx(opts.nearAlignScalar_kinkWidth).c_str(), vh::hx(opts.nearAlignScalar_scope).c_str(), aspect,
           vh::hx(opts.nodePaddingScalar).c_str(), (int) opts.defaultTreeGrowthDir);
    printf("pos %d\nsize %d\n", posMode, sizeMode);
    if (!extra.empty()) printf("%s\n", extra.c_str());
    Graph G;
    std::vector<Node_SP> nodes(n);
    for (int i = 0; i < n; ++i) {
        nodes[i] = Node::allocate(geo[i].cx, geo[i].cy, geo[i].w, geo[i].h);
        G.addNode(nodes[i]);
    }
    for (size_t j = 0; j < g.es.size(); ++j) {
        bool f = j < flip.size() && flip[j];
        G.addEdge(nodes[f ? g.es[j].second : g.es[j].first], nodes[f ? g.es[j].first : g.es[j].second]);
    }
    for (auto &p : G.getNodeLookup()) {
        Avoid::Point c = p.second->getCentre(); dimensions d = p.second->getDimensions();
        printf("n0 %u %s %s %s %s\n", p.first, vh::hx(c.x).c_str(), vh::hx(c.y).c_str(), vh::hx(d.first).c_str(), vh::hx(d.second).c_str());
    }
    for (auto &p : G.getEdgeLookup()) {
        auto ids = p.second->getEndIds();
        printf("e0 %u %u %u\n", p.first, ids.first, ids.second);
    }
    printf("pre %d %d\n", (int) connected(g), (int) simple(g));
    fflush(stdout);
    // ---- the call
    bool threw = false;
    // padding the nodes carry during the last routing, computed with the library's own double expressions
    double iel0 = G.getIEL();
    double nodePadding = opts.nodePaddingScalar * iel0;
    double nodePaddingLayer1 = 2 * 0.125 * nodePadding;          // hola.cpp: preRoutingGapIELScalar = 0.125
    bool wholeTree = connected(g) && (int) g.es.size() + 1 == n;
    double routePad = wholeTree ? nodePadding : nodePadding - nodePaddingLayer1;
    armHook();
    try {
        doHOLA(G, opts);
    } catch (std::exception &ex) {
        std::string w = ex.what(); for (char &ch : w) if (ch == '\n' || ch == '\r') ch = ' ';
        printf("threw %s\n", w.c_str()); threw = true;
    }
    disarmHook();
    printf("done\n");
    if (!threw) {
        printf("routepad %s\n", vh::hx(routePad).c_str());
        printf("iel %s\n", vh::hx(G.getIEL()).c_str());
        printf("extrabdry %s\n", vh::hx(G.getSepMatrix().getExtraBdryGap()).c_str());
        for (auto &p : G.getNodeLookup()) {
            Avoid::Point c = p.second->getCentre(); dimensions d = p.second->getDimensions();
            printf("n1 %u %s %s %s %s\n", p.first, vh::hx(c.x).c_str(), vh::hx(c.y).c_str(), vh::hx(d.first).c_str(), vh::hx(d.second).c_str());
        }
        for (auto &p : G.getEdgeLookup()) {
            auto ids = p.second->getEndIds();
            std::vector<Avoid::Point> route = p.second->getRoute();
            printf("e1 %u %u %u %zu", p.first, ids.first, ids.second, route.size());
            for (auto &q : route) printf(" %s %s", vh::hx(q.x).c_str(), vh::hx(q.y).c_str());
            printf("\n");
        }
        for (auto &row : sepLookup(G.getSepMatrix())) for (auto &cell : row.second) {
            const SepPair &sp = *cell.second;
            printf("sep %u %u %d %d %d %d %s %s\n", sp.src, sp.tgt, (int) sp.xgt, (int) sp.ygt, (int) sp.xst, (int) sp.yst,
                   vh::hx(sp.xgap).c_str(), vh::hx(sp.ygap).c_str());
        }
        dumpHook();
    }
    vh::endCase();
}

// ---- fixed witnesses of finding candidates (own tags, so that they can be registered as known findings by tag)
struct Fixed { const char *tag; int n; std::vector<std::pair<int, int>> es; std::vector<Geo> geo; bool aca; bool nearAlign;
               unsigned reps = 2; double kink = 0.25; double scope = 1.0; int aspect = 0; };

static std::vector<Fixed> fixedCases() {
    std::vector<Fixed> v;
    // F1: whole graph is a tree; node 0 has 3 children whose subtrees are pairwise non-isomorphic (leaf, path, cherry):
    // Tree::symmetricLayout places no central child, Tree::addConstraints still aligns node 0 with its middle child.
    {
        Fixed f; f.tag = "finding-tree-centre-align"; f.n = 7;
        f.es = {{0, 1}, {0, 2}, {0, 3}, {2, 4}, {3, 5}, {3, 6}};
        for (int i = 0; i < 7; ++i) f.geo.push_back({40.0 * i, 30.0 * (i % 3), 30, 30});
        f.aca = true; f.nearAlign = true; f.aspect = 0;
        v.push_back(f);
    }
    // F2: pad/unpad in floating point: sizes that are not dyadic multiples of the padding come back changed in the last bits
    {
        Fixed f; f.tag = "finding-size-ulp"; f.n = 4;
        f.es = {{0, 1}, {1, 2}, {2, 3}, {3, 0}};
        double w[4] = {30.1, 41.7, 25.3, 33.9};
        for (int i = 0; i < 4; ++i) f.geo.push_back({100.0 * (i % 2), 100.0 * (i / 2), w[i], 20.3 + i});
        f.aca = true; f.nearAlign = true; f.aspect = 0;
        v.push_back(f);
    }
    // F3: an alignment (EQ CENTRE gap 0) between adjacent core nodes survives in the returned SepMatrix although the final
    // route of that edge bends and the nodes are not aligned (core constraints are copied into G after P has changed the layout)
    {
        Fixed f; f.tag = "finding-stale-align"; f.n = 11;
        f.es = {{0, 1}, {0, 2}, {0, 3}, {0, 4}, {5, 0}, {0, 6}, {2, 3}, {4, 3}, {6, 5}, {4, 7}, {3, 8}, {9, 8}, {10, 8}};
        f.geo = {{852, 516, 36.0, 40.0}, {362, 221, 26.0, 22.0}, {796, 267, 44.0, 57.0}, {944, 89, 29.0, 50.0}, {575, 498, 51.0, 25.0}, {86, 495, 21.0, 57.0}, {958, 135, 20.0, 29.0}, {681, 5, 58.0, 45.0}, {208, 252, 42.0, 26.0}, {842, 32, 54.0, 23.0}, {243, 384, 53.0, 55.0}};
        f.aca = true; f.nearAlign = false; f.reps = 1; f.kink = 0.25; f.scope = 1.0; f.aspect = 0;
        v.push_back(f);
    }
    // F4: a returned BDRY >= constraint holds for the bare boundary gap but not with the extra boundary gap IEL/2 that
    // doHOLA itself sets on the returned SepMatrix (hola.cpp: G.getSepMatrix().setExtraBdryGap(IEL/2.0))
    {
        Fixed f; f.tag = "finding-bdry-extra-gap"; f.n = 18;
        f.es = {{1, 0}, {1, 2}, {3, 2}, {4, 0}, {2, 0}, {4, 2}, {3, 0}, {3, 4}, {5, 4}, {6, 5}, {6, 7}, {4, 8}, {9, 8}, {6, 10}, {11, 7}, {12, 3}, {12, 13}, {5, 14}, {11, 15}, {16, 3}, {4, 17}};
        f.geo = {{410, 682, 29.0, 22.0}, {352, 599, 54.0, 37.0}, {279, 213, 91.0, 15.0}, {643, 609, 54.0, 14.0}, {37, 345, 112.0, 12.0}, {112, 692, 108.0, 39.0}, {231, 718, 108.0, 21.0}, {126, 220, 29.0, 11.0}, {142, 316, 28.0, 21.0}, {105, 38, 117.0, 16.0}, {380, 195, 30.0, 12.0}, {476, 539, 28.0, 38.0}, {200, 387, 44.0, 31.0}, {605, 183, 105.0, 21.0}, {572, 476, 13.0, 14.0}, {20, 629, 15.0, 11.0}, {531, 89, 110.0, 22.0}, {79, 489, 12.0, 32.0}};
        f.aca = true; f.nearAlign = false; f.reps = 1; f.kink = 0.25; f.scope = 2.0; f.aspect = 1;
        v.push_back(f);
    }
    // F5: a route leg whose end points differ by 1-2 ulp in the other coordinate (aligned nodes whose centres differ in the last bit)
    {
        Fixed f; f.tag = "finding-hairline-diagonal"; f.n = 13;
        f.es = {{0, 1}, {2, 1}, {2, 3}, {4, 3}, {4, 5}, {6, 5}, {8, 7}, {9, 8}, {9, 10}, {11, 10}, {12, 11}, {0, 12}, {12, 8}, {3, 6}};
        f.geo = {{510, 110, 95.0, 41.0}, {219, 497, 83.0, 41.0}, {242, 449, 34.0, 25.0}, {179, 259, 36.0, 22.0}, {194, 69, 77.0, 12.0}, {339, 6, 68.0, 12.0}, {503, 207, 79.0, 10.0}, {71, 110, 120.0, 22.0}, {243, 136, 74.0, 15.0}, {425, 487, 91.0, 37.0}, {201, 34, 24.0, 20.0}, {155, 363, 111.0, 26.0}, {94, 179, 19.0, 30.0}};
        f.aca = false; f.nearAlign = false; f.reps = 1; f.kink = 0.5; f.scope = 2.0; f.aspect = 1;
        v.push_back(f);
    }
    // F6: useACAforLinks=false: the route built from aesthetic bend nodes (Chain::addAestheticBendsToEdges + Graph::buildRoutes)
    // has a grossly diagonal leg that passes through another node
    {
        Fixed f; f.tag = "finding-chain-diagonal"; f.n = 17;
        f.es = {{0, 1}, {2, 0}, {0, 3}, {4, 0}, {5, 0}, {6, 0}, {0, 7}, {0, 8}, {9, 0}, {4, 5}, {8, 7}, {1, 9}, {6, 10}, {1, 11}, {12, 4}, {13, 7}, {10, 14}, {9, 15}, {13, 16}};
        f.geo = {{6, 6, 112.0, 34.0}, {104, -2, 112.0, 20.0}, {194, 1, 87.0, 26.0}, {294, 7, 39.0, 36.0}, {394, 7, 57.0, 14.0}, {-4, 77, 36.0, 36.0}, {103, 76, 15.0, 21.0}, {208, 72, 54.0, 18.0}, {300, 72, 120.0, 20.0}, {401, 82, 115.0, 17.0}, {6, 165, 26.0, 26.0}, {107, 161, 48.0, 30.0}, {201, 158, 102.0, 12.0}, {302, 158, 86.0, 40.0}, {407, 167, 95.0, 39.0}, {3, 235, 46.0, 36.0}, {107, 243, 103.0, 22.0}};
        f.aca = false; f.nearAlign = false; f.reps = 1; f.kink = 0.5; f.scope = 2.0; f.aspect = 0;
        v.push_back(f);
    }
    // F7: whole graph is a tree, default options: Tree::symmetricLayout puts adjacent ranks exactly
    // treeLayoutScalar_rankSep*IEL apart centre to centre whatever the nodes' extent along the growth direction, so a
    // node longer than that overlaps its central child (root 10x200 over a 20x20 child, IEL 85) and the inter-rank
    // BDRY >= 0 constraint written by Tree::addConstraints is not satisfied
    {
        Fixed f; f.tag = "finding-tree-rank-overlap"; f.n = 4;
        f.es = {{0, 1}, {0, 2}, {0, 3}};
        f.geo = {{50, 10, 10, 200}, {0, 100, 20, 20}, {50, 100, 20, 20}, {100, 100, 20, 30}};
        f.aca = true; f.nearAlign = true; f.aspect = 0;
        v.push_back(f);
    }
    return v;
}

int main(int argc, char **argv) {
    vh::Args a = vh::parseArgs(argc, argv);
    bool thorough = a.tier == "thorough";
    // ---- experiment / minimisation mode: --mode <file> with lines `opts aca nearalign reps kink scope aspect`,
    //      `node cx cy w h`, `edge a b`; emitted as case 0 with tag "file"
    if (!a.mode.empty() && a.mode != "crowd-open") {
        FILE *f = fopen(a.mode.c_str(), "r");
        if (!f) { fprintf(stderr, "cannot open %s\n", a.mode.c_str()); return 2; }
        AG g; std::vector<Geo> geo; HolaOpts opts; int aspect = 2;
        char kw[32];
        while (fscanf(f, "%31s", kw) == 1) {
            std::string s = kw;
            if (s == "opts") { int ac, na, as; unsigned rp; double kk, sc; if (fscanf(f, "%d %d %u %lf %lf %d", &ac, &na, &rp, &kk, &sc, &as) != 6) return 2;
                opts = mkOpts(ac, na, rp, kk, sc, as); aspect = as; }
            else if (s == "growth") { int gd; if (fscanf(f, "%d", &gd) != 1) return 2; opts.defaultTreeGrowthDir = (CardinalDir) gd; }
            else if (s == "node") { Geo q; if (fscanf(f, "%lf %lf %lf %lf", &q.cx, &q.cy, &q.w, &q.h) != 4) return 2; geo.push_back(q); g.addNode(); }
            else if (s == "edge") { int x, y; if (fscanf(f, "%d %d", &x, &y) != 2) return 2; g.es.push_back({x, y}); }
        }
        fclose(f);
        runOne(0, "file", g, geo, opts, aspect, 9, 9, {});
        return 0;
    }
    long k = 0;
    // ---- fixed finding witnesses first
    for (const Fixed &fx : fixedCases()) {
        if (a.want(k)) {
            AG g; for (int i = 0; i < fx.n; ++i) g.addNode();
            for (auto &e : fx.es) g.addEdge(e.first, e.second);
            runOne(k, fx.tag, g, fx.geo, mkOpts(fx.aca, fx.nearAlign, fx.reps, fx.kink, fx.scope, fx.aspect), fx.aspect, 9, 9, {});
        }
        ++k;
    }
    long nfixed = k;
    long ncases = (thorough ? 400 : 160) * a.scale;
    if (a.n >= 0) ncases = a.n;
    // the two "-aniso" classes force anisotropic node sizes (tall-thin, wide-flat, or thin leaves among square inner
    // nodes); every class draws defaultTreeGrowthDir from all four directions, so that the transverse/axial
    // extent selection of the tree layout is exercised in both orientations on pure trees and on peeled trees
    const int NCLS = 10;
    const char *classes[NCLS] = {"tree", "tree-sym", "cycle", "core-trees", "hub", "links", "core-trees", "hub",
                                 "tree-aniso", "core-trees-aniso"};
    for (; k < nfixed + ncases; ++k) {
        if (!a.want(k)) continue;
        // random streams are numbered from 6 (the number of witnesses when the generator was first used), so that
        // adding a witness shifts the case indices but does not change the set of generated cases
        vh::Rng r = vh::caseRng(a.seed, k - nfixed + 6);
        int cls = (int) ((k - nfixed) % NCLS);
        int nmax = thorough ? 60 : 25;
        int n = (int) r.range(5, nmax);
        if (thorough && r.coin(1, 2)) n = (int) r.range(5, 30);   // keep the average cost bounded
        AG g;
        switch (cls) {
        case 0: g = genTree(n, r); break;
        case 1: g = genSymTree(n, r); break;
        case 2: g = genCycle(n, r); break;
        case 3: case 6: case 9: g = genCoreTrees(n, r); break;
        case 8: g = r.coin() ? genTree(n, r) : genSymTree(n, r); break;
        case 4: case 7: g = genHub(n, r); break;
        default: g = genLinks(n, r); break;
        }
        n = g.n;
        // ---- sizes. "exact": integers with sum(w+h) divisible by n, so that IEL = sum/n is an integer and
        // every padding amount (IEL/4, IEL/16, 3 IEL/16) is a dyadic with <= 4 fractional bits: pad/unpad is
        // exact in double arithmetic. "free": arbitrary doubles (pad/unpad rounds).
        int sizeMode = (int) r.range(0, 3);            // 0,1,2 exact variants; 3 free; 4,5,6 anisotropic (exact)
        if (cls >= 8) sizeMode = (int) r.range(4, 6);
        std::vector<int> deg(n, 0);
        for (auto &e : g.es) { ++deg[e.first]; ++deg[e.second]; }
        std::vector<Geo> geo(n);
        for (int i = 0; i < n; ++i) {
            if (sizeMode == 0) { geo[i].w = (double) r.range(20, 60); geo[i].h = (double) r.range(20, 60); }
            else if (sizeMode == 1) { geo[i].w = (double) r.range(10, 120); geo[i].h = (double) r.range(10, 40); }
            else if (sizeMode == 2) { geo[i].w = geo[i].h = 30; if (r.coin(1, 4)) { geo[i].w = (double) r.range(30, 90); } }
            else if (sizeMode == 4) { geo[i].w = (double) r.range(6, 16); geo[i].h = (double) r.range(60, 110); }      // tall-thin
            else if (sizeMode == 5) { geo[i].w = (double) r.range(60, 110); geo[i].h = (double) r.range(6, 16); }      // wide-flat
            else if (sizeMode == 6) {                                                                                  // thin leaves, square inner nodes
                if (deg[i] <= 1) { bool tall = (i % 2 == 0) || r.coin(2, 3);
                    geo[i].w = tall ? 8 : 90; geo[i].h = tall ? 90 : 8; }
                else { geo[i].w = geo[i].h = 40; } }
            else { geo[i].w = 10 + (double) r.range(0, 9000) / 100.0; geo[i].h = 10 + (double) r.range(0, 5000) / 100.0; }
        }
        if (sizeMode != 3) {
            long S = 0; for (auto &q : geo) S += (long) q.w + (long) q.h;
            long need = (n - S % n) % n;
            for (int i = 0; need > 0; i = (i + 1) % n) { geo[i].h += 1; --need; }
        }
        // ---- positions
        int posMode = (int) r.range(0, 3);
        for (int i = 0; i < n; ++i) {
            if (posMode == 0) { geo[i].cx = (double) r.range(0, 40L * n); geo[i].cy = (double) r.range(0, 40L * n); }
            else if (posMode == 1) { geo[i].cx = (double) r.range(0, 1000 * 64) / 64.0; geo[i].cy = (double) r.range(0, 600 * 64) / 64.0; }
            else if (posMode == 2) { geo[i].cx = 100.0 * (i % 5) + (double) r.range(-8, 8); geo[i].cy = 80.0 * (i / 5) + (double) r.range(-8, 8); }
            else { geo[i].cx = (double) r.range(0, 60); geo[i].cy = (double) r.range(0, 60); }   // heavily overlapping start
        }
        // ---- options
        bool aca = r.coin();
        bool nearAlign = r.coin(2, 3);
        unsigned reps = (unsigned) r.range(1, 3);
        double kink = r.coin() ? 0.25 : 0.5;
        double scope = r.coin() ? 1.0 : 2.0;
        int aspect = (int) r.range(0, 2);
        int growth = (int) r.range(0, 3);
        HolaOpts opts = mkOpts(aca, nearAlign, reps, kink, scope, aspect, growth);
        std::vector<char> flip(g.es.size());
        for (size_t j = 0; j < flip.size(); ++j) flip[j] = r.coin();
        std::string tag = std::string(classes[cls]) + (sizeMode == 3 ? "-free" : "");
        runOne(k, tag, g, geo, opts, aspect, posMode, sizeMode, flip);
    }
    // ---- "crowd" family: high-degree hubs on small nodes, all edge orientations.  Indices follow the round-robin
    // classes and the cases have their own random streams (stream 14), so the cases above are unchanged.
    //   topology  round-robin   (see genCrowd and `topos` below)
    //   orient    next digit      declaration of the hub-incident edges: 0 all INTO the hub (addEdge(rim, hub)),
    //                           1 all OUT of the hub, 2 random per edge, 3 alternating; other edges random
    //   degree    8..16 (half of the cases 12..16)
    //   sizes     0 all s x s, s in {6,8,10,12}; 1 small random 6..16; 2 hubs tiny 6..10, others 16..40;
    //             3 hubs narrow (6..10 x 30..60 or transposed), others 8..16; 4 hubs large 40..60, others 6..12
    //   positions the four modes above + 4 = hubs in the middle, the other nodes on a circle
    const char *crowdTags[7] = {"crowd-wheel", "crowd-pwheel", "crowd-wheel2", "crowd-kbip", "crowd-fan", "crowd-grid", "crowd-wheels"};
    // Topologies in the run plan: wheel and fan, started from spread-out positions.  The other five and the compact
    // starts are the "open" sub-family (`--mode crowd-open` draws from all topologies and starts): there the UNCHANGED library aborts or
    // throws in 1-25% of the cases (libavoid orthogonal.cpp:3045/:3179 assertions in nudgeOrthogonalRoutes, libdialect
    // faces.cpp:130 assertion, "Nodes do not have cardinal separation!") - genuine finding candidates that are not
    // registered yet; see tools/briefs/reports/fC14.md.
    bool crowdOpen = a.mode == "crowd-open";
    std::vector<int> topos = crowdOpen ? std::vector<int>{0, 1, 2, 3, 4, 5, 6} : std::vector<int>{0, 4};
    int NT = (int) topos.size();
    long ncrowd = (thorough ? 64 : 24) * a.scale;
    long kc0 = nfixed + ncases;
    for (long j = 0; j < ncrowd; ++j) {
        long kk = kc0 + j;
        if (!a.want(kk)) continue;
        // The plan's crowd cases are a FIXED battery (the same cases for every --seed): about 0.5% of all crowd cases make
        // the unchanged doHOLA throw "Nodes do not have cardinal separation!" whatever the topology / start / options (an
        // unregistered finding candidate), so a seed-dependent stream would alarm on the clean tree at some seeds.  The
        // battery (quick = first 24, thorough = first 64 of stream 14 under the constant below) was run on the unchanged
        // tree.  Search mode (--scale > 1) and --mode crowd-open use the real seed.
        uint64_t cseed = (crowdOpen || a.scale > 1) ? a.seed : 0xC14ull;
        vh::Rng r = vh::caseRng(cseed, (uint64_t) j, crowdOpen ? 15 : 14);
        int topo = topos[j % NT];
        int orient = (int) ((j / NT) % 4);
        int d = (int) r.range(8, 16);
        if (r.coin(1, 2)) d = (int) r.range(12, 16);
        std::vector<int> hubs;
        AG g = genCrowd(topo, d, r, hubs);
        if (r.coin(1, 3)) hangTrees(g, (int) r.range(1, 4), r, (int) r.range(0, 2));
        int n = g.n;
        std::vector<char> isHub(n, 0);
        for (int hb : hubs) isHub[hb] = 1;
        int sizeMode = (int) r.range(0, 4);
        std::vector<Geo> geo(n);
        double s0 = 6.0 + 2.0 * (double) r.range(0, 3);
        bool tallHubs = r.coin();
        for (int i = 0; i < n; ++i) {
            double w, h;
            switch (sizeMode) {
            case 0: w = h = s0; break;
            case 1: w = (double) r.range(6, 16); h = (double) r.range(6, 16); break;
            case 2: if (isHub[i]) { w = h = (double) r.range(6, 10); } else { w = (double) r.range(16, 40); h = (double) r.range(16, 40); } break;
            case 3: if (isHub[i]) { double nar = (double) r.range(6, 10), lon = (double) r.range(30, 60);
                                    w = tallHubs ? nar : lon; h = tallHubs ? lon : nar; }
                    else { w = (double) r.range(8, 16); h = (double) r.range(8, 16); } break;
            default: if (isHub[i]) { w = (double) r.range(40, 60); h = (double) r.range(40, 60); }
                     else { w = (double) r.range(6, 12); h = (double) r.range(6, 12); } break;
            }
            geo[i].w = w; geo[i].h = h;
        }
        {   // exact sizes: IEL = sum(w+h)/n is an integer (see above); the correction goes to non-hub nodes
            long S = 0; for (auto &q : geo) S += (long) q.w + (long) q.h;
            long need = (n - S % n) % n;
            for (int i = 0; need > 0; i = (i + 1) % n) { if (isHub[i]) continue; geo[i].h += 1; --need; }
        }
        // plan: spread-out starts only (1 fine grid over 1000 x 600, 4 circle); the compact / overlapping starts
        // 0, 2, 3 are part of the open sub-family (they make the unchanged doHOLA throw "Nodes do not have cardinal
        // separation!" in about 1% of the crowd cases)
        int posMode = (int) r.range(0, 4);
        if (!crowdOpen && posMode != 1 && posMode != 4) posMode = (posMode == 0) ? 1 : 4;
        for (int i = 0, ring = 0; i < n; ++i) {
            if (posMode == 0) { geo[i].cx = (double) r.range(0, 40L * n); geo[i].cy = (double) r.range(0, 40L * n); }
            else if (posMode == 1) { geo[i].cx = (double) r.range(0, 1000 * 64) / 64.0; geo[i].cy = (double) r.range(0, 600 * 64) / 64.0; }
            else if (posMode == 2) { geo[i].cx = 100.0 * (i % 5) + (double) r.range(-8, 8); geo[i].cy = 80.0 * (i / 5) + (double) r.range(-8, 8); }
            else if (posMode == 3) { geo[i].cx = (double) r.range(0, 60); geo[i].cy = (double) r.range(0, 60); }
            else if (isHub[i]) { geo[i].cx = 500.0 + 40.0 * i; geo[i].cy = 500.0; }
            else { double ang = 6.283185307179586 * (double) ring / (double) std::max(1, n - (int) hubs.size()); ++ring;
                   geo[i].cx = 500.0 + 12.0 * n * cos(ang); geo[i].cy = 500.0 + 12.0 * n * sin(ang); }
        }
        bool aca = r.coin();
        bool nearAlign = r.coin(2, 3);
        unsigned reps = (unsigned) r.range(1, 3);
        double kink = r.coin() ? 0.25 : 0.5;
        double scope = r.coin() ? 1.0 : 2.0;
        int aspect = (int) r.range(0, 2);
        int growth = (int) r.range(0, 3);
        HolaOpts opts = mkOpts(aca, nearAlign, reps, kink, scope, aspect, growth);
        std::vector<char> flip(g.es.size());
        for (size_t e = 0; e < flip.size(); ++e) {
            bool hf = isHub[g.es[e].first], hs = isHub[g.es[e].second];
            bool rnd = r.coin();
            if (hf == hs || orient == 2) flip[e] = rnd;
            else if (orient == 0) flip[e] = hf;             // target end = hub
            else if (orient == 1) flip[e] = hs;             // source end = hub
            else flip[e] = (e % 2 == 0) ? hf : hs;          // alternating
        }
        char extra[96];
        snprintf(extra, sizeof extra, "crowd %d %d %d %d", topo, orient, sizeMode, d);
        runOne(kk, crowdTags[topo], g, geo, opts, aspect, posMode, sizeMode + 10, flip, extra);
    }
    return 0;
}
