// C05, builder H: scene classes for the exact tie of the static orthogonal visibility graph
// (Model/OrthVis.lean vs Router::visOrthogGraph).  Included by c05.cpp right before main(); uses its
// H(), R4, dumpGraphRaw(), g_caseIdx.  A case is: buf, rect*, oconn* (every connector end point in
// vertex-id order: connector 0 source, connector 0 target, connector 1 source, ...; x y ConnDirFlags as
// GIVEN to ConnEnd -- the outside rule is NOT pre-applied, the model has to reproduce it), then the raw
// graph dump (ag*) after processTransaction().  No route is judged in these classes.
//
//   ovis-touch      integer rectangles that may share side lines, touch along a side or at a corner
//                   (interiors disjoint), buffer 0; end points anywhere outside the open rectangles
//   ovis-overlap    rectangles with overlapping routing boxes (touching + buffer, or plain overlap)
//   ovis-collinear  separated rectangles, every end point on the line of some rectangle side (sometimes
//                   on the side itself) or collinear with another end point
//   ovis-extreme    end points on / beyond the first or last sweep position, single-direction flags
//   ovis-inshape    end points strictly inside rectangles (also nested rectangles)
//   ovis-multi      3-6 connectors, restricted flags, end points collinear / coincident, few shapes
//   ovis-pins       separated rectangles carrying ShapeConnectionPins (on the border, at corners, inside by an
//                   inside offset; flags given or derived from the side); pin vertices are connector-end-point
//                   vertices of the graph (VertID = shape id, so they precede every connector end): emitted as
//                   `pin` (input) + `oconn` with the position() / directions() the library reports
#ifndef VERIF_C05_ORTHVIS_H
#define VERIF_C05_ORTHVIS_H

struct OvConn { double x, y; unsigned mask; };
struct OvPin { int rect; double xo, yo, inside; unsigned mask; };       // proportional offsets on shape `rect`
struct OvScene { std::vector<R4> rects; double buf; std::vector<OvConn> ends; std::vector<OvPin> pins; };   // ends.size() even

static bool ovInteriorsDisjoint(const R4 &a, const R4 &b) {
    return a.x1 <= b.x0 || b.x1 <= a.x0 || a.y1 <= b.y0 || b.y1 <= a.y0;
}
static bool ovInOpenRect(const OvScene &s, double x, double y) {
    for (const R4 &r : s.rects)
        if (x > r.x0 - s.buf && x < r.x1 + s.buf && y > r.y0 - s.buf && y < r.y1 + s.buf) return true;
    return false;
}
static unsigned ovMask(vh::Rng &r) {
    switch (r.range(0, 4)) {
    case 0: return 15;
    case 1: return 1u << r.range(0, 3);
    case 2: return r.coin() ? 3 : 12;
    default: return (unsigned) r.range(1, 15);
    }
}

static void ovRects(vh::Rng &r, OvScene &s, int n, int W, int mode) {
    // mode 0: interiors disjoint (touching allowed); 1: anything; 2: separated by >= 2
    int tries = 0;
    while ((int) s.rects.size() < n && tries++ < 300) {
        double w = r.range(1, 4), h = r.range(1, 4);
        R4 c; c.x0 = r.range(0, W - (long) w); c.y0 = r.range(0, W - (long) h); c.x1 = c.x0 + w; c.y1 = c.y0 + h;
        if (mode != 1 && !s.rects.empty() && r.coin(1, 2)) {          // snap to a neighbour: touch / align
            const R4 &q = s.rects[r.range(0, (long) s.rects.size() - 1)];
            double gap = mode == 2 ? 2 : 0;
            switch (r.range(0, 5)) {
            case 0: c.x0 = q.x1 + gap; c.x1 = c.x0 + w; break;
            case 1: c.x1 = q.x0 - gap; c.x0 = c.x1 - w; break;
            case 2: c.y0 = q.y1 + gap; c.y1 = c.y0 + h; break;
            case 3: c.y1 = q.y0 - gap; c.y0 = c.y1 - h; break;
            case 4: c.y0 = q.y0; c.y1 = c.y0 + h; break;
            default: c.x1 = q.x1; c.x0 = c.x1 - w; break;
            }
        }
        bool ok = true;
        for (const R4 &o : s.rects) {
            if (mode == 0 && !ovInteriorsDisjoint(c, o)) ok = false;
            if (mode == 2 && !separated(c, o, 2)) ok = false;
        }
        if (ok) s.rects.push_back(c);
    }
}

static OvScene ovGen(vh::Rng &r, int cls, int maxRects) {
    OvScene s; s.buf = 0;
    int W = 6 + (int) r.range(0, 8);
    int n = (int) r.range(1, maxRects);
    int nconn = 1;
    if (cls == 0) { ovRects(r, s, n, W, 0); nconn = (int) r.range(1, 2); }
    else if (cls == 1) {
        if (r.coin()) { ovRects(r, s, n, W, 0); s.buf = 0.5; } else { ovRects(r, s, std::min(n, 5), W, 1); s.buf = r.coin(1, 3) ? 0.5 : 0.0; }
        nconn = (int) r.range(1, 2);
    }
    else if (cls == 2) { ovRects(r, s, n, W + 6, 2); s.buf = r.coin(1, 3) ? 0.5 : 0.0; nconn = (int) r.range(1, 3); }
    else if (cls == 3) { ovRects(r, s, std::min(n, 4), W, 2); s.buf = r.coin(1, 3) ? 0.5 : 0.0; nconn = (int) r.range(1, 2); }
    else if (cls == 4) {
        ovRects(r, s, std::min(n, 5), W + 4, r.coin(1, 4) ? 1 : 2); s.buf = r.coin(1, 3) ? 0.5 : 0.0; nconn = (int) r.range(1, 2);
        if (r.coin(1, 3) && !s.rects.empty()) {                       // a rectangle nested in another one
            const R4 &q = s.rects[0]; R4 big = {q.x0 - 2, q.y0 - 2, q.x1 + 3, q.y1 + 2}; s.rects.push_back(big);
        }
    }
    else if (cls == 6) {
        ovRects(r, s, std::min(n, 5), W + 4, 2); s.buf = r.coin(1, 3) ? 0.5 : 0.0; nconn = (int) r.range(1, 2);
        const double offs[5] = {0.0, 0.25, 0.5, 0.75, 1.0};
        for (size_t q = 0; q < s.rects.size(); ++q) {
            int np = (int) r.range(0, 2);
            for (int e = 0; e < np; ++e) {
                OvPin pn; pn.rect = (int) q; pn.xo = offs[r.range(0, 4)]; pn.yo = offs[r.range(0, 4)];
                if (r.coin(2, 3)) { if (r.coin()) pn.xo = r.coin() ? 0.0 : 1.0; else pn.yo = r.coin() ? 0.0 : 1.0; }   // on a side
                pn.inside = r.coin(1, 3) ? 0.5 : 0.0;
                pn.mask = r.coin(1, 3) ? 0u : ovMask(r);                  // 0 = ConnDirNone: derived from the side
                // two pins of one shape at one POINT are skipped: they share their VertID (shape id, kShapeConnectionPin),
                // so std::set<PosVertInf> keeps only one of them on a line where their scan directions agree
                auto px = [&](const OvPin &o) { const R4 &b = s.rects[o.rect]; double w = b.x1 - b.x0;
                    return o.xo == 0.0 ? b.x0 + o.inside : (o.xo == 1.0 ? b.x1 - o.inside : b.x0 + o.xo * w); };
                auto py = [&](const OvPin &o) { const R4 &b = s.rects[o.rect]; double h = b.y1 - b.y0;
                    return o.yo == 0.0 ? b.y0 + o.inside : (o.yo == 1.0 ? b.y1 - o.inside : b.y0 + o.yo * h); };
                bool dup = false;
                for (const OvPin &o : s.pins) if (o.rect == pn.rect && px(o) == px(pn) && py(o) == py(pn)) dup = true;
                if (!dup) s.pins.push_back(pn);
            }
        }
    }
    else { ovRects(r, s, std::min(n, 3), W, 2); nconn = (int) r.range(3, 6); }
    std::vector<double> sx, sy;                                       // side lines of the routing boxes
    for (const R4 &q : s.rects) { sx.push_back(q.x0 - s.buf); sx.push_back(q.x1 + s.buf); sy.push_back(q.y0 - s.buf); sy.push_back(q.y1 + s.buf); }
    double xlo = 0, xhi = W, ylo = 0, yhi = W;
    for (double v : sx) { xlo = std::min(xlo, v); xhi = std::max(xhi, v); }
    for (double v : sy) { ylo = std::min(ylo, v); yhi = std::max(yhi, v); }
    for (int e = 0; e < 2 * nconn; ++e) {
        OvConn c; c.mask = ovMask(r);
        for (int t = 0; t < 200; ++t) {
            c.x = r.range(2 * (long) xlo - 6, 2 * (long) xhi + 6) / 2.0; c.y = r.range(2 * (long) ylo - 6, 2 * (long) yhi + 6) / 2.0;
            if (r.coin(2, 3)) { c.x = std::floor(c.x); c.y = std::floor(c.y); }
            bool wantIn = false;
            if (cls == 2 && !sx.empty()) {                            // on a side line (or collinear with an earlier end point)
                if (!s.ends.empty() && r.coin(1, 4)) { const OvConn &p = s.ends[r.range(0, (long) s.ends.size() - 1)]; if (r.coin()) c.x = p.x; else c.y = p.y; }
                else if (r.coin()) c.x = sx[r.range(0, (long) sx.size() - 1)]; else c.y = sy[r.range(0, (long) sy.size() - 1)];
                if (r.coin(1, 6)) { const R4 &q = s.rects[r.range(0, (long) s.rects.size() - 1)];        // on the side itself
                    if (r.coin()) { c.y = r.coin() ? q.y0 - s.buf : q.y1 + s.buf; c.x = q.x0 + r.range(0, (long) (q.x1 - q.x0)); }
                    else { c.x = r.coin() ? q.x0 - s.buf : q.x1 + s.buf; c.y = q.y0 + r.range(0, (long) (q.y1 - q.y0)); } }
            } else if (cls == 3) {                                    // extreme lines, looking outwards or along
                switch (r.range(0, 5)) {
                case 0: c.x = xlo - r.range(0, 2); break;
                case 1: c.x = xhi + r.range(0, 2); break;
                case 2: c.y = ylo - r.range(0, 2); break;
                case 3: c.y = yhi + r.range(0, 2); break;
                case 4: c.x = xlo; c.y = ylo; break;
                default: break;
                }
                if (r.coin(2, 3)) c.mask = 1u << r.range(0, 3);
            } else if (cls == 4 && !s.rects.empty() && (e % 2 == 0 || r.coin())) {                       // inside a rectangle
                const R4 &q = s.rects[r.range(0, (long) s.rects.size() - 1)];
                c.x = q.x0 + r.range(1, std::max(1L, 2 * (long) (q.x1 - q.x0) - 1)) / 2.0;
                c.y = q.y0 + r.range(1, std::max(1L, 2 * (long) (q.y1 - q.y0) - 1)) / 2.0;
                wantIn = true;
            } else if (cls == 5 && !s.ends.empty() && r.coin(2, 3)) {                                     // collinear / coincident
                const OvConn &p = s.ends[r.range(0, (long) s.ends.size() - 1)];
                if (r.coin(1, 8)) { c.x = p.x; c.y = p.y; } else if (r.coin()) c.x = p.x; else c.y = p.y;
            }
            if (wantIn || cls == 1 || !ovInOpenRect(s, c.x, c.y)) break;
        }
        s.ends.push_back(c);
    }
    // a connector whose two ends coincide is degenerate for the router: move the target
    for (size_t e = 0; e + 1 < s.ends.size(); e += 2)
        if (s.ends[e].x == s.ends[e + 1].x && s.ends[e].y == s.ends[e + 1].y) s.ends[e + 1].x += 1.5;
    return s;
}

static const char *OVIS_CLASSES[] = {"ovis-touch", "ovis-overlap", "ovis-collinear", "ovis-extreme", "ovis-inshape", "ovis-multi", "ovis-pins"};

// raw dump of the orthogonal visibility graph (the ag* lines of dumpGraphRaw without `ags`)
static void ovDump(Router *router) {
    std::vector<VertInf *> vs;
    std::map<VertInf *, int> id;
    for (VertInf *v = router->vertices.connsBegin(); v != router->vertices.end(); v = v->lstNext) {
        id[v] = (int) vs.size(); vs.push_back(v);
    }
    int n = (int) vs.size();
    std::string t;
    t += "agx"; for (int u = 0; u < n; ++u) ap(t, " %s", H(vs[u]->point.x).c_str()); t += "\n";
    t += "agy"; for (int u = 0; u < n; ++u) ap(t, " %s", H(vs[u]->point.y).c_str()); t += "\n";
    t += "agf"; for (int u = 0; u < n; ++u) ap(t, " %u", vs[u]->orthogVisPropFlags); t += "\n";
    t += "agc"; for (int u = 0; u < n; ++u) ap(t, " %d", vs[u]->id.isConnPt() ? 1 : 0); t += "\n";
    t += "aga";
    for (int u = 0; u < n; ++u) {
        int deg = 0;
        for (EdgeInfList::const_iterator e = vs[u]->orthogVisList.begin(); e != vs[u]->orthogVisList.end(); ++e)
            if (!(*e)->isDisabled()) ++deg;
        ap(t, " %d", deg);
        for (EdgeInfList::const_iterator e = vs[u]->orthogVisList.begin(); e != vs[u]->orthogVisList.end(); ++e) {
            if ((*e)->isDisabled()) continue;
            ap(t, " %d %s %d", id[(*e)->otherVert(vs[u])], H((*e)->getDist()).c_str(), (*e)->isDummyConnection() ? 1 : 0);
        }
    }
    t += "\n";
    fputs(t.c_str(), stdout);
}

// The graph is built by the router's own transaction (Router::regenerateStaticBuiltGraph ->
// generateStaticOrthogonalVisGraph) on a router that holds the shapes (+ pins) and the connector end point
// VERTICES but no connector, so that nothing is routed or nudged: these scenes (coincident / collinear / enclosed end
// points) are outside what the route search and the nudging stage are specified for (a 10-end-point
// ovis-multi scene ran into COLA_ASSERT(vs[it->second]->id != freeSegmentID) of nudgeOrthogonalRoutes),
// and only the graph is judged here.  The end point vertices are made the way ConnRef::updateEndPoint
// makes them: VertInf(router, VertID(connector id, 1|2, PROP_ConnPoint), point), visDirections = flags.
static void runOvis(long k, const char *tag, const OvScene &s) {
    vh::beginCase(k, tag);
    printf("buf %s\n", H(s.buf).c_str());
    for (const R4 &r : s.rects) printf("rect %s %s %s %s\n", H(r.x0).c_str(), H(r.y0).c_str(), H(r.x1).c_str(), H(r.y1).c_str());
    for (const OvPin &p : s.pins) printf("pin %d %s %s %s %u\n", p.rect, H(p.xo).c_str(), H(p.yo).c_str(), H(p.inside).c_str(), p.mask);
    fflush(stdout);
    Router *router = new Router(OrthogonalRouting);
    router->setRoutingParameter(segmentPenalty, 10);
    router->setRoutingParameter(shapeBufferDistance, s.buf);
    router->setRoutingParameter(idealNudgingDistance, 1.0);
    std::vector<ShapeRef *> shapes;
    for (const R4 &r : s.rects) { Rectangle poly(Point(r.x0, r.y0), Point(r.x1, r.y1)); shapes.push_back(new ShapeRef(router, poly)); }
    // pins first: their vertices carry the shape's id and so precede all connector ends in the id order
    for (const OvPin &p : s.pins) {
        ShapeConnectionPin *pin = new ShapeConnectionPin(shapes[p.rect], 1 + (unsigned) (&p - &s.pins[0]), p.xo, p.yo, true, p.inside, (ConnDirFlags) p.mask);
        Point pp = pin->position();
        printf("oconn %s %s %u\n", H(pp.x).c_str(), H(pp.y).c_str(), (unsigned) pin->directions());
    }
    for (const OvConn &c : s.ends) printf("oconn %s %s %u\n", H(c.x).c_str(), H(c.y).c_str(), c.mask);
    fflush(stdout);
    std::vector<VertInf *> ends;
    for (size_t e = 0; e < s.ends.size(); ++e) {
        VertInf *v = new VertInf(router, VertID(1000 + (unsigned) (e / 2), (unsigned short) (1 + e % 2), VertID::PROP_ConnPoint),
                                 Point(s.ends[e].x, s.ends[e].y));
        v->visDirections = (ConnDirFlags) s.ends[e].mask;
        ends.push_back(v);
    }
    // ONE transaction: shapes and pins enter the router and Router::regenerateStaticBuiltGraph() builds the graph
    // once, with the end point vertices present; there is no connector, so nothing is routed or nudged.
    // (One build only: the outside rule's `visDirections |= …` is sticky on a vertex across rebuilds.)
    router->processTransaction();
    ovDump(router);
    router->destroyOrthogonalVisGraph();
    for (VertInf *v : ends) { router->vertices.removeVertex(v); delete v; }
    delete router;
    vh::endCase();
}

// appended after all other C05 cases; returns the next free case index
static long runOrthVisCases(const vh::Args &a, long k, bool thorough) {
    long n = (thorough ? 6000 : 900) * a.scale;
    for (long c = 0; c < n; ++c, ++k) {
        if (!a.want(k)) continue;
        vh::Rng r = vh::caseRng(a.seed, k);
        int cls = (int) r.range(0, 6);
        OvScene s = ovGen(r, cls, thorough ? 12 : 7);
        runOvis(k, OVIS_CLASSES[cls], s);
    }
    return k;
}
#endif
