// Shared by the C07 / C08 harnesses: a plain-data description of libcola compound constraints
// (so that a case can be printed *before* the library is called), the builder that turns the
// description into real cola::CompoundConstraint objects, scene generators and the dump of the
// variables / separation constraints that generateVariables / generateSeparationConstraints produce.
#ifndef VERIF_C07_CC_H
#define VERIF_C07_CC_H
#include "common.h"
#include <map>
#include <set>
#include <valarray>
#include <utility>
#include <libvpsc/rectangle.h>
#include <libvpsc/variable.h>
#include <libvpsc/constraint.h>
#include <libvpsc/exceptions.h>
#include <libvpsc/assertions.h>
#include <libcola/cola.h>
#include <libcola/compound_constraints.h>
#include <libcola/exceptions.h>

namespace c07 {

struct RectSpec { double x, X, y, Y; };

struct CCSpec {
    enum Kind { BOUNDARY, ALIGNMENT, SEPARATION, SEPALIGN, MULTISEP, DISTRIBUTION, FIXEDREL, PAGEBOUNDS };
    Kind kind = SEPARATION;
    int dim = 0;
    double pos = 0;            // boundary / alignment initial position
    bool fixed = false;        // alignment fixPos
    bool eq = false;
    double gap = 0;            // separation gap / multisep sep / distribution sep
    std::vector<std::pair<unsigned, double> > offs;          // boundary / alignment shapes
    unsigned l = 0, r = 0;                                   // node ids (SEPARATION) or cc indices (SEPALIGN)
    std::vector<std::pair<unsigned, unsigned> > pairs;       // cc indices of alignments
    std::vector<unsigned> ids; bool fixedPos = false;        // FIXEDREL
    double xLow = 0, xHigh = 1, yLow = 0, yHigh = 1, weight = 100;   // PAGEBOUNDS
    struct PShape { unsigned id; double hw, hh; };
    std::vector<PShape> shapes;
};

inline const char *H(double d) { static char buf[8][64]; static int i = 0; i = (i + 1) % 8;
    std::string s = vh::hx(d); strncpy(buf[i], s.c_str(), 63); buf[i][63] = 0; return buf[i]; }

inline void printCC(size_t idx, const CCSpec &c) {
    printf("cc %zu ", idx);
    switch (c.kind) {
    case CCSpec::BOUNDARY:
        printf("boundary %d %s %zu", c.dim, H(c.pos), c.offs.size());
        for (auto &o : c.offs) printf(" %u %s", o.first, H(o.second));
        break;
    case CCSpec::ALIGNMENT:
        printf("alignment %d %s %d %zu", c.dim, H(c.pos), (int) c.fixed, c.offs.size());
        for (auto &o : c.offs) printf(" %u %s", o.first, H(o.second));
        break;
    case CCSpec::SEPARATION:
        printf("separation %d %u %u %s %d", c.dim, c.l, c.r, H(c.gap), (int) c.eq); break;
    case CCSpec::SEPALIGN:
        printf("sepalign %d %u %u %s %d", c.dim, c.l, c.r, H(c.gap), (int) c.eq); break;
    case CCSpec::MULTISEP:
        printf("multisep %d %s %d %zu", c.dim, H(c.gap), (int) c.eq, c.pairs.size());
        for (auto &p : c.pairs) printf(" %u %u", p.first, p.second);
        break;
    case CCSpec::DISTRIBUTION:
        printf("distribution %d %s %zu", c.dim, H(c.gap), c.pairs.size());
        for (auto &p : c.pairs) printf(" %u %u", p.first, p.second);
        break;
    case CCSpec::FIXEDREL:
        printf("fixedrel %d %zu", (int) c.fixedPos, c.ids.size());
        for (unsigned i : c.ids) printf(" %u", i);
        break;
    case CCSpec::PAGEBOUNDS:
        printf("pagebounds %s %s %s %s %s %zu", H(c.xLow), H(c.xHigh), H(c.yLow), H(c.yHigh), H(c.weight), c.shapes.size());
        for (auto &s : c.shapes) printf(" %u %s %s", s.id, H(s.hw), H(s.hh));
        break;
    }
    printf("\n");
}

inline void printRects(const std::vector<RectSpec> &rs) {
    printf("n %zu\n", rs.size());
    for (size_t i = 0; i < rs.size(); ++i)
        printf("rect %zu %s %s %s %s\n", i, H(rs[i].x), H(rs[i].X), H(rs[i].y), H(rs[i].Y));
}

inline vpsc::Rectangles buildRects(const std::vector<RectSpec> &rs) {
    vpsc::Rectangles out;
    for (auto &r : rs) out.push_back(new vpsc::Rectangle(r.x, r.X, r.y, r.Y));
    return out;
}

// Alignments are created first (other constraints hold pointers to them); the returned vector
// keeps the order of `specs`.
inline cola::CompoundConstraints buildCCs(const std::vector<CCSpec> &specs, const vpsc::Rectangles &rs) {
    cola::CompoundConstraints out(specs.size(), nullptr);
    for (size_t i = 0; i < specs.size(); ++i) {
        const CCSpec &c = specs[i];
        if (c.kind != CCSpec::ALIGNMENT) continue;
        cola::AlignmentConstraint *a = new cola::AlignmentConstraint((vpsc::Dim) c.dim, c.pos);
        if (c.fixed) a->fixPos(c.pos);
        for (auto &o : c.offs) a->addShape(o.first, o.second);
        out[i] = a;
    }
    auto al = [&](unsigned j) { return static_cast<cola::AlignmentConstraint *>(out[j]); };
    for (size_t i = 0; i < specs.size(); ++i) {
        const CCSpec &c = specs[i];
        switch (c.kind) {
        case CCSpec::ALIGNMENT: break;
        case CCSpec::BOUNDARY: {
            cola::BoundaryConstraint *b = new cola::BoundaryConstraint((vpsc::Dim) c.dim);
            b->position = c.pos;
            for (auto &o : c.offs) b->addShape(o.first, o.second);
            out[i] = b; break; }
        case CCSpec::SEPARATION:
            out[i] = new cola::SeparationConstraint((vpsc::Dim) c.dim, c.l, c.r, c.gap, c.eq); break;
        case CCSpec::SEPALIGN:
            out[i] = new cola::SeparationConstraint((vpsc::Dim) c.dim, al(c.l), al(c.r), c.gap, c.eq); break;
        case CCSpec::MULTISEP: {
            cola::MultiSeparationConstraint *m = new cola::MultiSeparationConstraint((vpsc::Dim) c.dim, c.gap, c.eq);
            for (auto &p : c.pairs) m->addAlignmentPair(al(p.first), al(p.second));
            out[i] = m; break; }
        case CCSpec::DISTRIBUTION: {
            cola::DistributionConstraint *d = new cola::DistributionConstraint((vpsc::Dim) c.dim);
            d->setSeparation(c.gap);       // `sep` is not initialised by the constructor
            for (auto &p : c.pairs) d->addAlignmentPair(al(p.first), al(p.second));
            out[i] = d; break; }
        case CCSpec::FIXEDREL:
            out[i] = new cola::FixedRelativeConstraint(rs, c.ids, c.fixedPos); break;
        case CCSpec::PAGEBOUNDS: {
            cola::PageBoundaryConstraints *p = new cola::PageBoundaryConstraints(c.xLow, c.xHigh, c.yLow, c.yHigh, c.weight);
            for (auto &s : c.shapes) p->addShape(s.id, s.hw, s.hh);
            out[i] = p; break; }
        }
    }
    return out;
}

inline long ccIndex(const cola::CompoundConstraints &ccs, const void *p) {
    if (p == nullptr) return -2;
    for (size_t i = 0; i < ccs.size(); ++i) if ((const void *) ccs[i] == p) return (long) i;
    return -1;
}

// Calls generateVariables (all) then generateSeparationConstraints (all) exactly as
// cola::setupVarsAndConstraints / GradientProjection do, for one dimension, and dumps the result.
inline void dumpGenerated(const cola::CompoundConstraints &ccs, vpsc::Rectangles &rs, int dim) {
    vpsc::Variables vars;
    vpsc::Constraints cs;
    for (size_t i = 0; i < rs.size(); ++i)
        vars.push_back(new vpsc::Variable((int) i, rs[i]->getCentreD(dim)));
    std::string exc = "none";
    try {
        for (auto *c : ccs) c->generateVariables((vpsc::Dim) dim, vars);
        for (auto *c : ccs) c->generateSeparationConstraints((vpsc::Dim) dim, vars, cs, rs);
    } catch (cola::InvalidVariableIndexException &e) {
        char b[96]; snprintf(b, sizeof b, "invalidindex %ld %u", ccIndex(ccs, e.constraint), e.index); exc = b;
    } catch (cola::InvalidConstraint &e) {
        char b[96]; snprintf(b, sizeof b, "invalidconstraint %ld", ccIndex(ccs, e.constraint)); exc = b;
    }
    for (auto *v : vars)
        printf("var %d %d %s %s %d %s\n", dim, v->id, H(v->desiredPosition), H(v->weight), (int) v->fixedDesiredPosition, H(v->scale));
    for (auto *c : cs)
        printf("con %d %d %d %s %d %ld\n", dim, c->left->id, c->right->id, H(c->gap), (int) c->equality, ccIndex(ccs, c->creator));
    printf("exc %d %s\n", dim, exc.c_str());
    for (auto *c : cs) delete c;
    for (auto *v : vars) delete v;
}

// makeFeasible() does not use generateSeparationConstraints but a second encoding of every
// constraint type: getCurrSubConstraintAlternatives(vs[2]). Dump what it yields, sub-constraint by
// sub-constraint, with live variables of both dimensions (as in makeFeasible).
inline void dumpAlternatives(const cola::CompoundConstraints &ccs, vpsc::Rectangles &rs) {
    vpsc::Variables vs[2];
    for (int dim = 0; dim < 2; ++dim) {
        for (size_t i = 0; i < rs.size(); ++i) vs[dim].push_back(new vpsc::Variable((int) i, rs[i]->getCentreD(dim), 1));
        for (auto *c : ccs) c->generateVariables((vpsc::Dim) dim, vs[dim]);
    }
    for (size_t i = 0; i < ccs.size(); ++i) {
        cola::CompoundConstraint *cc = ccs[i];
        cc->markAllSubConstraintsAsInactive();
        int guard = 0;
        try {
            while (cc->subConstraintsRemaining() && guard++ < 1000) {
                cola::SubConstraintAlternatives alts = cc->getCurrSubConstraintAlternatives(vs);
                if (alts.empty()) continue;
                for (auto &a : alts)
                    printf("alt %zu %d %d %d %s %d\n", i, (int) a.dim, a.constraint.left->id, a.constraint.right->id, H(a.constraint.gap), (int) a.constraint.equality);
                cc->markCurrSubConstraintAsActive(true);
            }
        } catch (cola::InvalidVariableIndexException &e) { printf("altexc %zu invalidindex %u\n", i, e.index);
        } catch (cola::InvalidConstraint &e) { printf("altexc %zu invalidconstraint\n", i); }
    }
    printf("altdone 1\n");
    for (int dim = 0; dim < 2; ++dim) for (auto *v : vs[dim]) delete v;
}

// ------------------------------------------------------------------------------------------
// Scene generation

struct Scene {
    std::vector<RectSpec> rects;
    std::vector<std::pair<unsigned, unsigned> > edges;
    std::vector<double> elen;       // empty or one per edge
    double ideal = 50;
    std::vector<CCSpec> ccs;
    std::vector<double> hx, hy;     // hidden placement the satisfiable constraints were derived from
    std::string graphKind, startKind;
    bool planted = false;           // an unsatisfiable gadget was planted
};

inline double q4(vh::Rng &r, long lo, long hi) { return r.range(lo * 4, hi * 4) / 4.0; }

inline void genGraph(vh::Rng &r, Scene &s, unsigned n) {
    int kind = (int) r.range(0, 4);
    if (n < 2) kind = 0;
    auto add = [&](unsigned u, unsigned v) { if (u != v) s.edges.push_back(std::make_pair(u, v)); };
    switch (kind) {
    case 0: s.graphKind = "edgeless"; break;
    case 1: {   // two or three components, possibly isolated nodes
        s.graphKind = "disconnected";
        unsigned cut = (unsigned) r.range(1, n - 1);
        for (unsigned i = 1; i < cut; ++i) add((unsigned) r.range(0, i - 1), i);
        for (unsigned i = cut + 1; i < n; ++i) if (r.coin(3, 4)) add((unsigned) r.range(cut, i - 1), i);
        break; }
    case 2: s.graphKind = "tree";
        for (unsigned i = 1; i < n; ++i) add((unsigned) r.range(0, i - 1), i);
        break;
    case 3: s.graphKind = "path";
        for (unsigned i = 1; i < n; ++i) add(i - 1, i);
        if (r.coin() && n > 2) add(n - 1, 0);
        break;
    default: s.graphKind = "dense";
        for (unsigned i = 1; i < n; ++i) add((unsigned) r.range(0, i - 1), i);
        for (unsigned k = 0; k < n; ++k) { unsigned u = (unsigned) r.range(0, n - 1), v = (unsigned) r.range(0, n - 1);
            bool dup = false; for (auto &e : s.edges) if ((e.first == u && e.second == v) || (e.first == v && e.second == u)) dup = true;
            if (!dup) add(u, v); }
        break;
    }
    if (!s.edges.empty() && r.coin(1, 3)) {
        const double ls[] = {0.5, 1, 1, 2, 3};
        for (size_t i = 0; i < s.edges.size(); ++i) s.elen.push_back(ls[r.range(0, 4)]);
    }
    const double ideals[] = {10, 30, 50, 100};
    s.ideal = ideals[r.range(0, 3)];
}

// node sizes and start positions (dyadic, so centres are exact)
inline void genRects(vh::Rng &r, Scene &s, unsigned n, int forceStart = -1) {
    int kind = forceStart >= 0 ? forceStart : (int) r.range(0, 4);
    const char *names[] = {"spread", "coincident", "clumps", "grid", "tight"};
    s.startKind = names[kind];
    double cx0 = q4(r, -100, 100), cy0 = q4(r, -100, 100);
    std::vector<std::pair<double, double> > clump;
    for (int i = 0; i < 3; ++i) clump.push_back(std::make_pair(q4(r, -60, 60), q4(r, -60, 60)));
    bool sameSize = r.coin(1, 4);
    double w0 = r.range(1, 20) * 2, h0 = r.range(1, 20) * 2;
    for (unsigned i = 0; i < n; ++i) {
        double w = sameSize ? w0 : r.range(1, 30) * (r.coin(1, 4) ? 0.5 : 2.0);
        double h = sameSize ? h0 : r.range(1, 30) * (r.coin(1, 4) ? 0.5 : 2.0);
        double cx, cy;
        switch (kind) {
        case 0: cx = q4(r, -200, 200); cy = q4(r, -200, 200); break;
        case 1: cx = cx0; cy = cy0; break;
        case 2: { auto &c = clump[r.range(0, 2)]; cx = c.first; cy = c.second; break; }
        case 3: cx = (i % 4) * 40.0; cy = (i / 4) * 40.0; break;
        default: cx = cx0 + q4(r, -3, 3); cy = cy0 + q4(r, -3, 3); break;
        }
        RectSpec R; R.x = cx - w / 2; R.X = cx + w / 2; R.y = cy - h / 2; R.Y = cy + h / 2;
        s.rects.push_back(R);
    }
}

inline double cxOf(const RectSpec &R) { return R.x + (R.X - R.x) / 2; }
inline double cyOf(const RectSpec &R) { return R.y + (R.Y - R.y) / 2; }

// hidden placement; `spacing` > 0 puts the nodes on distinct cells of a coarse grid so that the
// placement is overlap-free for sizes up to `spacing`
inline void genHidden(vh::Rng &r, Scene &s, double spacing) {
    unsigned n = (unsigned) s.rects.size();
    s.hx.resize(n); s.hy.resize(n);
    if (spacing > 0) {
        unsigned side = 1; while (side * side < n) ++side;
        side += (unsigned) r.range(0, 2);
        std::vector<unsigned> cells; for (unsigned i = 0; i < side * side; ++i) cells.push_back(i);
        r.shuffle(cells);
        for (unsigned i = 0; i < n; ++i) { s.hx[i] = (cells[i] % side) * spacing; s.hy[i] = (cells[i] / side) * spacing; }
    } else {
        bool coarse = r.coin();
        for (unsigned i = 0; i < n; ++i) {
            s.hx[i] = coarse ? r.range(-5, 5) * 20.0 : q4(r, -150, 150);
            s.hy[i] = coarse ? r.range(-5, 5) * 20.0 : q4(r, -150, 150);
        }
    }
}

inline std::vector<unsigned> pickSubset(vh::Rng &r, unsigned n, unsigned k) {
    std::vector<unsigned> all; for (unsigned i = 0; i < n; ++i) all.push_back(i);
    r.shuffle(all); if (k < all.size()) all.resize(k); return all;
}

// one alignment (in dim d) at guideline position p through the given nodes, consistent with h
inline size_t addAlignment(Scene &s, int d, double p, const std::vector<unsigned> &nodes, bool fixed, double initPos) {
    CCSpec c; c.kind = CCSpec::ALIGNMENT; c.dim = d; c.pos = initPos; c.fixed = fixed;
    for (unsigned i : nodes) c.offs.push_back(std::make_pair(i, (d == 0 ? s.hx[i] : s.hy[i]) - p));
    s.ccs.push_back(c); return s.ccs.size() - 1;
}

// Constraints that the hidden placement satisfies (so the whole mix is jointly satisfiable).
// If `withFixedRel`, the start positions of the group are moved to h + shift (the constraint
// captures offsets at construction time).
inline void genSatisfiable(vh::Rng &r, Scene &s, unsigned count, bool allowFixedRel, bool allowPage) {
    unsigned n = (unsigned) s.rects.size();
    auto hd = [&](int d, unsigned i) { return d == 0 ? s.hx[i] : s.hy[i]; };
    for (unsigned k = 0; k < count; ++k) {
        int d = (int) r.range(0, 1);
        int t = (int) r.range(0, 9);
        if (n < 2 && (t == 0 || t == 1 || t == 6)) t = 2;
        switch (t) {
        case 0: case 1: {     // separation between two nodes
            unsigned a = (unsigned) r.range(0, n - 1), b = (unsigned) r.range(0, n - 2); if (b >= a) ++b;
            if (hd(d, a) > hd(d, b)) std::swap(a, b);
            double diff = hd(d, b) - hd(d, a);
            CCSpec c; c.kind = CCSpec::SEPARATION; c.dim = d; c.l = a; c.r = b;
            c.eq = r.coin(1, 4);
            if (c.eq) c.gap = diff;
            else { int m = (int) r.range(0, 3); c.gap = m == 0 ? diff : m == 1 ? diff / 2 : m == 2 ? 0 : -q4(r, 0, 20); if (c.gap > diff) c.gap = diff; }
            s.ccs.push_back(c); break; }
        case 2: case 3: {     // alignment with offsets
            unsigned m = (unsigned) r.range(1, std::min(n, 4u));
            std::vector<unsigned> nodes = pickSubset(r, n, m);
            double p = r.coin() ? hd(d, nodes[0]) : q4(r, -100, 100);
            addAlignment(s, d, p, nodes, r.coin(1, 5), r.coin() ? p : q4(r, -100, 100)); break; }
        case 4: {             // boundary
            CCSpec c; c.kind = CCSpec::BOUNDARY; c.dim = d;
            double b = q4(r, -100, 100); c.pos = r.coin() ? b : q4(r, -100, 100);
            unsigned m = (unsigned) r.range(1, std::min(n, 5u));
            for (unsigned i : pickSubset(r, n, m)) {
                double h = hd(d, i);
                if (h < b) { double lo = h - b; double off = r.coin() ? lo : lo / 2; c.offs.push_back(std::make_pair(i, off)); }
                else { double hi = h - b; double off = r.coin() ? hi : (r.coin() ? hi / 2 : 0); c.offs.push_back(std::make_pair(i, off)); }
            }
            s.ccs.push_back(c); break; }
        case 5: {             // separation between two alignments
            double p1 = q4(r, -80, 80), p2 = p1 + q4(r, 0, 60);
            size_t a1 = addAlignment(s, d, p1, pickSubset(r, n, (unsigned) r.range(1, std::min(n, 3u))), false, p1);
            size_t a2 = addAlignment(s, d, p2, pickSubset(r, n, (unsigned) r.range(1, std::min(n, 3u))), false, q4(r, -50, 50));
            CCSpec c; c.kind = CCSpec::SEPALIGN; c.dim = d; c.l = (unsigned) a1; c.r = (unsigned) a2;
            c.eq = r.coin(1, 3); c.gap = c.eq ? (p2 - p1) : (r.coin() ? (p2 - p1) / 2 : -q4(r, 0, 10));
            if (r.coin(1, 4)) { s.ccs.insert(s.ccs.end() - 2, c); // referencing constraint placed before its alignments
                CCSpec &cc = s.ccs[s.ccs.size() - 3]; cc.l = (unsigned) a1 + 1; cc.r = (unsigned) a2 + 1; }
            else s.ccs.push_back(c);
            break; }
        case 6: {             // multi-separation over a chain of alignments
            unsigned m = (unsigned) r.range(2, 4);
            double p = q4(r, -80, 80), step = q4(r, 1, 30);
            bool eq = r.coin(1, 3);
            std::vector<size_t> al;
            for (unsigned j = 0; j < m; ++j) {
                al.push_back(addAlignment(s, d, p, pickSubset(r, n, (unsigned) r.range(1, std::min(n, 2u))), false, p));
                p += eq ? step : step + q4(r, 0, 10);
            }
            CCSpec c; c.kind = CCSpec::MULTISEP; c.dim = d; c.gap = r.coin(1, 5) && !eq ? 0 : step; c.eq = eq;
            for (unsigned j = 0; j + 1 < m; ++j) c.pairs.push_back(std::make_pair((unsigned) al[j], (unsigned) al[j + 1]));
            s.ccs.push_back(c); break; }
        case 7: {             // distribution
            unsigned m = (unsigned) r.range(2, 4);
            double p = q4(r, -80, 80), step = q4(r, 0, 30);
            std::vector<size_t> al;
            for (unsigned j = 0; j < m; ++j) { al.push_back(addAlignment(s, d, p, pickSubset(r, n, (unsigned) r.range(1, std::min(n, 2u))), false, q4(r, -50, 50))); p += step; }
            CCSpec c; c.kind = CCSpec::DISTRIBUTION; c.dim = d; c.gap = step;
            for (unsigned j = 0; j + 1 < m; ++j) c.pairs.push_back(std::make_pair((unsigned) al[j], (unsigned) al[j + 1]));
            s.ccs.push_back(c); break; }
        case 8: {             // fixed-relative group
            if (!allowFixedRel || n < 2) break;
            unsigned m = (unsigned) r.range(2, std::min(n, 4u));
            CCSpec c; c.kind = CCSpec::FIXEDREL; c.ids = pickSubset(r, n, m); c.fixedPos = r.coin(1, 4);
            if (r.coin(1, 4)) c.ids.push_back(c.ids[0]);      // duplicate id (documented: duplicates removed)
            double sx = q4(r, -40, 40), sy = q4(r, -40, 40);
            for (unsigned i : c.ids) {
                RectSpec &R = s.rects[i]; double w = R.X - R.x, h = R.Y - R.y;
                double cx = s.hx[i] + sx, cy = s.hy[i] + sy;
                R.x = cx - w / 2; R.X = cx + w / 2; R.y = cy - h / 2; R.Y = cy + h / 2;
            }
            s.ccs.push_back(c); allowFixedRel = false; break; }
        default: {            // page boundary (soft)
            if (!allowPage) break;
            CCSpec c; c.kind = CCSpec::PAGEBOUNDS;
            c.xLow = q4(r, -300, -100); c.xHigh = q4(r, 100, 300); c.yLow = q4(r, -300, -100); c.yHigh = q4(r, 100, 300);
            const double ws[] = {100, 100, 1, 0};
            c.weight = ws[r.range(0, 3)];
            for (unsigned i : pickSubset(r, n, (unsigned) r.range(1, n))) {
                CCSpec::PShape p; p.id = i; p.hw = (s.rects[i].X - s.rects[i].x) / 2; p.hh = (s.rects[i].Y - s.rects[i].y) / 2; c.shapes.push_back(p); }
            s.ccs.push_back(c); allowPage = false; break; }
        }
    }
}

// A jointly satisfiable mix whose *equalities* are non-redundant: every node takes part in at most
// one equality-type constraint per dimension (alignment membership, equality separation,
// fixed-relative group), so the equality system is a forest. VPSC's incremental satisfy() is known
// to declare some redundant-but-consistent equality systems unsatisfiable; this generator keeps that
// (separately reported) weakness out of scenario classes that must be quiet on the clean tree.
inline void genForestSatisfiable(vh::Rng &r, Scene &s, unsigned count) {
    unsigned n = (unsigned) s.rects.size();
    // `used`: node is in an equality group in that dimension; `ineq`: node is in an inequality there.
    // Equalities and inequalities never share a node in a dimension (VPSC's incremental satisfy()
    // cannot always split a block across an inequality to admit a consistent equality: C01-static-eq).
    std::vector<bool> used[2], ineq[2];
    for (int d = 0; d < 2; ++d) { used[d].assign(n, false); ineq[d].assign(n, false); }
    auto hd = [&](int d, unsigned i) { return d == 0 ? s.hx[i] : s.hy[i]; };
    auto takeFree = [&](int d, unsigned m) { std::vector<unsigned> out;
        for (unsigned i : pickSubset(r, n, n)) if (!used[d][i] && !ineq[d][i] && out.size() < m) out.push_back(i);
        for (unsigned i : out) used[d][i] = true; return out; };
    for (unsigned k = 0; k < count; ++k) {
        int d = (int) r.range(0, 1);
        switch ((int) r.range(0, 6)) {
        case 0: case 1: {   // inequality separation
            std::vector<unsigned> fr; for (unsigned i : pickSubset(r, n, n)) if (!used[d][i] && fr.size() < 2) fr.push_back(i);
            if (fr.size() < 2) break;
            unsigned a = fr[0], b = fr[1]; ineq[d][a] = ineq[d][b] = true;
            if (hd(d, a) > hd(d, b)) std::swap(a, b);
            double diff = hd(d, b) - hd(d, a);
            CCSpec c; c.kind = CCSpec::SEPARATION; c.dim = d; c.l = a; c.r = b; c.eq = false;
            c.gap = r.coin() ? diff / 2 : (r.coin() ? 0 : -q4(r, 0, 20)); if (c.gap > diff) c.gap = diff;
            s.ccs.push_back(c); break; }
        case 2: {           // alignment over free nodes
            std::vector<unsigned> nodes = takeFree(d, (unsigned) r.range(1, 3));
            if (nodes.empty()) break;
            double p = q4(r, -100, 100);
            addAlignment(s, d, p, nodes, false, q4(r, -100, 100)); break; }
        case 3: {           // boundary
            CCSpec c; c.kind = CCSpec::BOUNDARY; c.dim = d; double b = q4(r, -100, 100); c.pos = b;
            for (unsigned i : pickSubset(r, n, (unsigned) r.range(1, std::min(n, 4u)))) {
                if (used[d][i]) continue;
                ineq[d][i] = true;
                double h = hd(d, i);
                c.offs.push_back(std::make_pair(i, h < b ? (h - b) / 2 : (h - b) / 2)); }
            s.ccs.push_back(c); break; }
        case 4: {           // separation between two alignments over free nodes
            std::vector<unsigned> n1 = takeFree(d, (unsigned) r.range(1, 2)), n2 = takeFree(d, (unsigned) r.range(1, 2));
            if (n1.empty() || n2.empty()) break;
            double p1 = q4(r, -80, 80), p2 = p1 + q4(r, 0, 60);
            size_t a1 = addAlignment(s, d, p1, n1, false, p1), a2 = addAlignment(s, d, p2, n2, false, p2);
            CCSpec c; c.kind = CCSpec::SEPALIGN; c.dim = d; c.l = (unsigned) a1; c.r = (unsigned) a2; c.eq = true;
            c.gap = p2 - p1; s.ccs.push_back(c); break; }
        case 5: {           // distribution / multi-separation over single-node alignments
            std::vector<size_t> al; double p = q4(r, -80, 80), step = q4(r, 1, 30);
            for (int j = 0; j < 3; ++j) { std::vector<unsigned> nn = takeFree(d, 1); if (nn.empty()) break;
                al.push_back(addAlignment(s, d, p, nn, false, p)); p += step; }
            if (al.size() < 2) break;
            CCSpec c; c.kind = r.coin() ? CCSpec::DISTRIBUTION : CCSpec::MULTISEP; c.dim = d; c.gap = step; c.eq = true;
            for (size_t j = 0; j + 1 < al.size(); ++j) c.pairs.push_back(std::make_pair((unsigned) al[j], (unsigned) al[j + 1]));
            s.ccs.push_back(c); break; }
        default: {          // fixed-relative group over nodes free in both dimensions
            std::vector<unsigned> ids;
            for (unsigned i : pickSubset(r, n, n)) if (!used[0][i] && !used[1][i] && !ineq[0][i] && !ineq[1][i] && ids.size() < 3) ids.push_back(i);
            if (ids.size() < 2) break;
            for (unsigned i : ids) used[0][i] = used[1][i] = true;
            CCSpec c; c.kind = CCSpec::FIXEDREL; c.ids = ids; c.fixedPos = false;
            double sx = q4(r, -40, 40), sy = q4(r, -40, 40);
            for (unsigned i : ids) { RectSpec &R = s.rects[i]; double w = R.X - R.x, h = R.Y - R.y;
                double cx = s.hx[i] + sx, cy = s.hy[i] + sy; R.x = cx - w / 2; R.X = cx + w / 2; R.y = cy - h / 2; R.Y = cy + h / 2; }
            s.ccs.push_back(c); break; }
        }
    }
}

// An unsatisfiable gadget among fresh constraints (independent of h).
inline void plantUnsat(vh::Rng &r, Scene &s) {
    unsigned n = (unsigned) s.rects.size();
    if (n < 2) return;
    int d = (int) r.range(0, 1);
    int t = (int) r.range(0, 4);
    if (n < 3 && t == 0) t = 1;
    auto sep = [&](unsigned a, unsigned b, double g, bool eq) { CCSpec c; c.kind = CCSpec::SEPARATION; c.dim = d; c.l = a; c.r = b; c.gap = g; c.eq = eq; s.ccs.push_back(c); };
    std::vector<unsigned> p = pickSubset(r, n, std::min(n, 4u));
    switch (t) {
    case 0: {   // cycle a<b<c(<d)<a with positive gaps
        unsigned m = (unsigned) std::min<size_t>(p.size(), (size_t) r.range(3, 4));
        for (unsigned i = 0; i < m; ++i) sep(p[i], p[(i + 1) % m], q4(r, 1, 20), false);
        break; }
    case 1:     // a + g1 <= b and b + g2 <= a
        sep(p[0], p[1], q4(r, 1, 20), false); sep(p[1], p[0], q4(r, 0, 20), false); break;
    case 2: {   // two different equalities on the same pair
        double g = q4(r, -20, 20); sep(p[0], p[1], g, true); sep(p[0], p[1], g + q4(r, 1, 10), true); break; }
    case 3: {   // aligned nodes that must also be separated (tests/unsatisfiable.cpp)
        CCSpec a; a.kind = CCSpec::ALIGNMENT; a.dim = d; a.pos = q4(r, -20, 20);
        a.offs.push_back(std::make_pair(p[0], 0.0)); a.offs.push_back(std::make_pair(p[1], 0.0)); s.ccs.push_back(a);
        sep(p[0], p[1], q4(r, 1, 20), false); break; }
    default: {  // boundary: node left of the line by 10 and right of it by 10 through an equality
        CCSpec b; b.kind = CCSpec::BOUNDARY; b.dim = d; b.pos = 0;
        b.offs.push_back(std::make_pair(p[0], -q4(r, 1, 10))); b.offs.push_back(std::make_pair(p[1], q4(r, 1, 10))); s.ccs.push_back(b);
        sep(p[1], p[0], q4(r, 0, 10), r.coin()); break; }
    }
    s.planted = true;
}

// random order of the constraint list (references between constraints are remapped)
inline void shuffleCCs(vh::Rng &r, Scene &s) {
    size_t m = s.ccs.size();
    std::vector<unsigned> perm; for (unsigned i = 0; i < m; ++i) perm.push_back(i);
    r.shuffle(perm);                       // new position j holds old constraint perm[j]
    std::vector<unsigned> where(m);        // old index -> new index
    for (unsigned j = 0; j < m; ++j) where[perm[j]] = j;
    std::vector<CCSpec> out;
    for (unsigned j = 0; j < m; ++j) {
        CCSpec c = s.ccs[perm[j]];
        if (c.kind == CCSpec::SEPALIGN) { c.l = where[c.l]; c.r = where[c.r]; }
        if (c.kind == CCSpec::MULTISEP || c.kind == CCSpec::DISTRIBUTION)
            for (auto &p : c.pairs) { p.first = where[p.first]; p.second = where[p.second]; }
        out.push_back(c);
    }
    s.ccs.swap(out);
}

inline void printScene(const Scene &s) {
    printRects(s.rects);
    for (size_t i = 0; i < s.ccs.size(); ++i) printCC(i, s.ccs[i]);
    for (size_t i = 0; i < s.edges.size(); ++i) {
        printf("edge %u %u", s.edges[i].first, s.edges[i].second);
        if (!s.elen.empty()) printf(" %s", H(s.elen[i]));
        printf("\n");
    }
    printf("ideal %s\ngraph %s\nstart %s\nplanted %d\n", H(s.ideal), s.graphKind.c_str(), s.startKind.c_str(), (int) s.planted);
}

inline void printOut(const vpsc::Rectangles &rs) {
    for (size_t i = 0; i < rs.size(); ++i)
        printf("out %zu %s %s %s %s\n", i, H(rs[i]->getMinX()), H(rs[i]->getMaxX()), H(rs[i]->getMinY()), H(rs[i]->getMaxY()));
}

inline void printUnsat(int dim, const cola::UnsatisfiableConstraintInfos &u, const cola::CompoundConstraints &ccs) {
    // one line per distinct (left,right,sep,eq,cc)
    std::set<std::string> seen;
    for (auto *i : u) {
        char b[200];
        snprintf(b, sizeof b, "unsat %d %u %u %s %d %ld", dim, i->leftVarIndex, i->rightVarIndex, H(i->separation), (int) i->equality, ccIndex(ccs, i->cc));
        if (seen.insert(b).second) printf("%s\n", b);
    }
}

} // namespace c07
#endif
