// C04: libavoid's OWN polyline search space, dumped from the live router, and an (untrusted) exact
// optimiser over it.  Used to tell a failure of the A* search (the route is not the cheapest path of the
// graph the search itself runs on) from the known limitation that the visibility graph is pruned for
// Euclidean shortest paths.
//
// Search space of AStarPathPrivate::search() for a polyline connector (src S, target T), read off makepath.cpp:
//   state  = (vertex v, previous vertex p)            (start state: (S, none))
//   move   (v, p) -> (w, v)  iff  {v, w} is an enabled edge of the visibility graph with non-zero length,
//                                  w != p,  w is not a connector endpoint other than T,
//                                  p = none  or  validateBendPoint(p, v, w)           (connector.cpp)
//   cost   = |vw| + segmentPenalty * b,  b = 0 first leg or p, v, w collinear straight on; 2 doubling back; else 1
//   T is never expanded.
// Lines emitted per case (all vertices of router->vertices, index = position in that list):
//   ov <i> <x> <y> <shPrev index | -1> <shNext index | -1> <1 if connector endpoint>
//   oe <u> <v>                  every enabled visibility edge of non-zero length, once (u < v)
// and per connector whose route is dearer than the geometric oracle optimum:
//   own  <conn> <S> <T>
//   owit <conn> <m> i_0 .. i_{m-1}          cheapest path of the own search space (untrusted Dijkstra)
//   opot <conn> <default> <k> (v p pi)*k    potential over the states (p = n: none), scaled to be exactly feasible
// For the A* model tie (classes that ask for it) additionally, per case:
//   oa <v> <k> (w dist)*k       the enabled edges of v in visList order (= examination order of the search), getDist()
// and per connector:
//   as   <conn> <S> <T>
//   oh   <conn> h_0 .. h_{n-1}  euclideanDist(vertex, target) as the library computes it (the heuristic)
//   pop  <conn> <len> v_0 .. v_{len-1}   one line per popped node, in expansion order: the vertices of its prevNode chain
//                               (v_0 the node itself ... v_{len-1} the source), as reported by the library's own
//                               DebugHandler::updateCurrentSearchPath
#ifndef VERIF_C04_OWN_H
#define VERIF_C04_OWN_H
#include "avoid_scene.h"
#include <map>
#include <queue>
#include <limits>
#include "libavoid/debughandler.h"

namespace own {
using namespace Avoid;
typedef long long i64;
struct LP { i64 x, y; };
static inline LP toLP(const Point &p) { return LP{(i64) llround(p.x * 64), (i64) llround(p.y * 64)}; }
static inline i64 crossL(const LP &a, const LP &b, const LP &c) { return (b.x - a.x) * (c.y - a.y) - (c.x - a.x) * (b.y - a.y); }
static inline int sgn(i64 v) { return v > 0 ? 1 : v < 0 ? -1 : 0; }

struct Graph {
    std::vector<VertInf *> vs;
    std::map<const VertInf *, long> idx;
    std::vector<LP> P; std::vector<Point> PD;
    std::vector<long> prev, next; std::vector<char> isConn;
    std::vector<std::vector<long> > adj;        // enabled, non-zero edges in visList order
    std::vector<std::vector<double> > dist;     // their getDist()
};

static inline Graph read(Router *router) {
    Graph g;
    for (VertInf *v = router->vertices.connsBegin(); v != router->vertices.end(); v = v->lstNext) { g.idx[v] = (long) g.vs.size(); g.vs.push_back(v); }
    size_t n = g.vs.size();
    g.adj.resize(n); g.dist.resize(n);
    for (size_t i = 0; i < n; ++i) {
        VertInf *v = g.vs[i];
        g.P.push_back(toLP(v->point)); g.PD.push_back(v->point);
        g.isConn.push_back(v->id.isConnPt() ? 1 : 0);
        g.prev.push_back(v->shPrev && g.idx.count(v->shPrev) ? g.idx[v->shPrev] : -1);
        g.next.push_back(v->shNext && g.idx.count(v->shNext) ? g.idx[v->shNext] : -1);
        for (EdgeInfList::const_iterator e = v->visList.begin(); e != v->visList.end(); ++e) {
            if ((*e)->isDisabled() || (*e)->getDist() == 0) continue;
            VertInf *w = (*e)->otherVert(v);
            if (g.idx.count(w)) { g.adj[i].push_back(g.idx[w]); g.dist[i].push_back((*e)->getDist()); }
        }
    }
    return g;
}

static inline void dump(const Graph &g) {
    for (size_t i = 0; i < g.vs.size(); ++i)
        printf("ov %zu %s %s %ld %ld %d\n", i, vh::hx(g.PD[i].x).c_str(), vh::hx(g.PD[i].y).c_str(), g.prev[i], g.next[i], (int) g.isConn[i]);
    for (size_t i = 0; i < g.vs.size(); ++i) for (long w : g.adj[i]) if ((long) i < w) printf("oe %zu %ld\n", i, w);
}

// validateBendPoint(a, b, c) of connector.cpp, exact integer arithmetic (coordinates are multiples of 1/64)
static inline bool bendOk(const Graph &g, long a, long b, long c) {
    if (g.prev[b] < 0 || g.next[b] < 0) return false;       // b is not a shape corner: no bend there
    const LP &A = g.P[a], &B = g.P[b], &C = g.P[c], &D = g.P[g.prev[b]], &E = g.P[g.next[b]];
    int abc = sgn(crossL(A, B, C));
    if (abc == 0) return true;
    int abe = sgn(crossL(A, B, E)), abd = sgn(crossL(A, B, D)), bce = sgn(crossL(B, C, E)), bcd = sgn(crossL(B, C, D));
    if (abe > 0) return abc > 0 && abd >= 0 && bce >= 0;
    if (abd < 0) return abc < 0 && abe <= 0 && bcd <= 0;
    return false;
}
// bends charged by cost() at b between a and c: 0 collinear straight on, 2 doubling back, else 1
static inline int bendCount(const Graph &g, long a, long b, long c) {
    const LP &A = g.P[a], &B = g.P[b], &C = g.P[c];
    if (crossL(A, B, C) != 0) return 1;
    i64 dot = (B.x - A.x) * (C.x - B.x) + (B.y - A.y) * (C.y - B.y);
    return dot > 0 ? 0 : 2;
}
static inline double len(const Graph &g, long u, long v) { double dx = g.PD[u].x - g.PD[v].x, dy = g.PD[u].y - g.PD[v].y; return std::sqrt(dx * dx + dy * dy); }

// Dijkstra over the states; returns the optimum, fills path and the state distances (index v * (n + 1) + p, p = n: none)
static inline double solve(const Graph &g, long S, long T, double penalty, std::vector<long> &path, std::vector<double> &dist) {
    const double INF = std::numeric_limits<double>::infinity();
    size_t n = g.vs.size(), NS = n * (n + 1);
    dist.assign(NS, INF);
    std::vector<long> from(NS, -1);
    typedef std::pair<double, size_t> QE;
    std::priority_queue<QE, std::vector<QE>, std::greater<QE> > pq;
    dist[S * (n + 1) + n] = 0; pq.push(QE(0, S * (n + 1) + n));
    long goal = -1; double best = INF;
    while (!pq.empty()) {
        QE t = pq.top(); pq.pop();
        if (t.first > dist[t.second]) continue;
        long v = (long) (t.second / (n + 1)), p = (long) (t.second % (n + 1));
        if (v == T) { if (goal < 0) { goal = (long) t.second; best = t.first; } continue; }     // T is never expanded
        for (long w : g.adj[v]) {
            if (w == p) continue;
            if (g.isConn[w] && w != T) continue;
            double c = len(g, v, w);
            if (p != (long) n) { if (!bendOk(g, p, v, w)) continue; c += penalty * bendCount(g, p, v, w); }
            size_t ns = (size_t) w * (n + 1) + (size_t) v;
            if (t.first + c < dist[ns]) { dist[ns] = t.first + c; from[ns] = (long) t.second; pq.push(QE(dist[ns], ns)); }
        }
    }
    path.clear();
    for (long st = goal; st >= 0; st = from[st]) path.push_back(st / (long) (n + 1));
    std::reverse(path.begin(), path.end());
    return best;
}

static inline void emitCert(const Graph &g, unsigned conn, long S, long T, double penalty) {
    const double INF = std::numeric_limits<double>::infinity();
    std::vector<long> path; std::vector<double> dist;
    solve(g, S, T, penalty, path, dist);
    size_t n = g.vs.size();
    printf("own %u %ld %ld\n", conn, S, T);
    printf("owit %u %zu", conn, path.size());
    for (long v : path) printf(" %ld", v);
    printf("\n");
    double mx = 0; size_t cnt = 0;
    for (double d : dist) if (d < INF) { mx = std::max(mx, d); ++cnt; }
    printf("opot %u %s %zu", conn, vh::hx(mx * (1.0 - 1e-10)).c_str(), cnt);
    for (size_t s = 0; s < dist.size(); ++s) if (dist[s] < INF)
        printf(" %zu %zu %s", s / (n + 1), s % (n + 1), vh::hx(dist[s] * (1.0 - 1e-10)).c_str());
    printf("\n");
}

// cost of a polyline as the property counts it (bends = direction changes), in doubles
static inline double routeCost(const std::vector<Point> &ps, double penalty) {
    double c = 0; int nb = 0;
    for (size_t i = 1; i < ps.size(); ++i) {
        c += std::sqrt((ps[i].x - ps[i - 1].x) * (ps[i].x - ps[i - 1].x) + (ps[i].y - ps[i - 1].y) * (ps[i].y - ps[i - 1].y));
        if (i + 1 < ps.size()) {
            LP a = toLP(ps[i - 1]), b = toLP(ps[i]), d = toLP(ps[i + 1]);
            i64 dot = (b.x - a.x) * (d.x - b.x) + (b.y - a.y) * (d.y - b.y);
            if (!(crossL(a, b, d) == 0 && dot > 0)) ++nb;
        }
    }
    return c + penalty * nb;
}

// records, per search (keyed by the points of its start and target vertex), the popped nodes
struct PopTap : public Avoid::DebugHandler {
    struct Search { Point s, t; std::vector<std::vector<Point> > chains; };
    std::vector<Search> searches;
    void beginningSearchWithEndpoints(VertInf *s, VertInf *t) override { Search x; x.s = s->point; x.t = t->point; searches.push_back(x); }
    void updateCurrentSearchPath(PolyLine p) override {
        if (searches.empty() || p.size() == 0) return;
        searches.back().chains.push_back(p.ps);
    }
};

static inline void dumpAdj(const Graph &g) {
    for (size_t i = 0; i < g.vs.size(); ++i) {
        printf("oa %zu %zu", i, g.adj[i].size());
        for (size_t j = 0; j < g.adj[i].size(); ++j) printf(" %ld %s", g.adj[i][j], vh::hx(g.dist[i][j]).c_str());
        printf("\n");
    }
}

// index of the vertex at point p as the search of the connector (S, T) sees it: a shape corner, or S / T
static inline long vertexAt(const Graph &g, const Point &p, long S, long T) {
    for (size_t i = 0; i < g.vs.size(); ++i) if (!g.isConn[i] && g.PD[i].x == p.x && g.PD[i].y == p.y) return (long) i;
    if (g.PD[S].x == p.x && g.PD[S].y == p.y) return S;
    if (g.PD[T].x == p.x && g.PD[T].y == p.y) return T;
    return -2;
}

static inline void emitAStar(const Graph &g, const PopTap &tap, unsigned conn, long S, long T) {
    printf("as %u %ld %ld\n", conn, S, T);
    printf("oh %u", conn);
    for (size_t i = 0; i < g.vs.size(); ++i) printf(" %s", vh::hx(euclideanDist(g.PD[i], g.PD[T])).c_str());
    printf("\n");
    const PopTap::Search *x = nullptr;
    for (auto &q : tap.searches) if (q.s.x == g.PD[S].x && q.s.y == g.PD[S].y && q.t.x == g.PD[T].x && q.t.y == g.PD[T].y) x = &q;   // the last such search
    if (!x) return;
    for (auto &ch : x->chains) {
        printf("pop %u %zu", conn, ch.size());
        for (auto &q : ch) printf(" %ld", vertexAt(g, q, S, T));
        printf("\n");
    }
}
}   // namespace own
#endif
