// C13 harness, constraint dump (tie of the TopologyConstraints constructor's scan and of the two
// satisfy() rewrites to Model/TopoCons.lean).  Included by c13.cpp after `g_cyclic` / `hx`.
//
//   KD <dim> <n>                                     a dump follows (n = all constraints incl. those of cyclic edges)
//   KS <e> <seg> <node> <ri> <nodeLeft> <pos> <p> <g> <u> <v> <w>
//                                                    StraightConstraint stored in segment <seg> of edge <e>, in list order;
//                                                    pos = scan position; p,g,u,v,w,nodeLeft = members of its TriConstraint
//   KB <e> <pt> <leftOf> <u> <v> <w> <p> <g>         BendConstraint of the <pt>-th EdgePoint of edge <e>
// Everything is read through public members (TopologyConstraints::constraints, StraightConstraint::{segment,node,ri,pos},
// BendConstraint::bendPoint, TopologyConstraint::c).  Constraints of cyclic edges (cluster boundaries) are not printed.
#ifndef VERIF_C13_CONS_H
#define VERIF_C13_CONS_H
#include <map>

// cs != nullptr (after a construction): the non-overlap separation constraints the scan pushed to `cs`
//   KC <left var id> <right var id> <gap>        left + gap <= right   (variable id == node id in this harness)
static void printConstraints(const topology::TopologyConstraints &t, const topology::Edges &edges, int dim,
                             const vpsc::Constraints *cs = nullptr) {
    std::vector<topology::TopologyConstraint *> ts;
    t.constraints(ts);
    std::map<const topology::Segment *, std::pair<unsigned, size_t> > segIdx;
    std::map<const topology::EdgePoint *, std::pair<unsigned, size_t> > ptIdx;
    for (size_t i = 0; i < edges.size(); ++i) {
        const topology::Edge *e = edges[i];
        if (g_cyclic.count(e->id)) continue;
        size_t idx = 0, cap = e->nSegments + 8;
        topology::Segment *s = e->firstSegment;
        ptIdx[s->start] = std::make_pair(e->id, (size_t) 0);
        while (s && idx < cap) {
            segIdx[s] = std::make_pair(e->id, idx);
            ptIdx[s->end] = std::make_pair(e->id, idx + 1);
            if (s == e->lastSegment) break;
            s = s->end->outSegment; ++idx;
        }
    }
    printf("KD %d %zu\n", dim, ts.size());
    if (cs) {
        printf("KN %zu\n", cs->size());
        for (size_t i = 0; i < cs->size(); ++i)
            printf("KC %d %d %s\n", (*cs)[i]->left->id, (*cs)[i]->right->id, hx((*cs)[i]->gap).c_str());
    }
    for (size_t i = 0; i < ts.size(); ++i) {
        const topology::TriConstraint *c = ts[i]->c;
        if (topology::StraightConstraint *sc = dynamic_cast<topology::StraightConstraint *>(ts[i])) {
            std::map<const topology::Segment *, std::pair<unsigned, size_t> >::iterator it = segIdx.find(sc->segment);
            if (it == segIdx.end()) continue;
            printf("KS %u %zu %u %d %d %s %s %s %u %u %u\n", it->second.first, it->second.second, sc->node->id, (int) sc->ri,
                   (int) c->leftOf, hx(sc->pos).c_str(), hx(c->p).c_str(), hx(c->g).c_str(), c->u->id, c->v->id, c->w->id);
        } else if (topology::BendConstraint *bc = dynamic_cast<topology::BendConstraint *>(ts[i])) {
            std::map<const topology::EdgePoint *, std::pair<unsigned, size_t> >::iterator it = ptIdx.find(bc->bendPoint);
            if (it == ptIdx.end()) continue;
            printf("KB %u %zu %d %u %u %u %s %s\n", it->second.first, it->second.second, (int) c->leftOf,
                   c->u->id, c->v->id, c->w->id, hx(c->p).c_str(), hx(c->g).c_str());
        }
    }
    fflush(stdout);
}

//   F <dim> <finalPosition of variable 0> <1> ...   what the VPSC projection inside the last solve() returned (Node::finalPos());
//                                               printed after the KD block of a `solve` state: with the constraints and rectangles of
//                                               the previous state it determines minTAlpha, the constraint that is satisfied and the move
static void printFinalPositions(const vpsc::Variables &vs, int dim) {
    printf("F %d", dim);
    for (size_t i = 0; i < vs.size(); ++i) printf(" %s", hx(vs[i]->finalPosition).c_str());
    printf("\n");
    fflush(stdout);
}
#endif
