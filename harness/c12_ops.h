// C12, op-level correspondence (harness mode `--mode ops`): the hyperedge tree objects of
// libavoid/hyperedgetree.h are built directly and the primitives of hyperedgetree.cpp and the private
// rewriting steps of HyperedgeImprover (removeZeroLengthEdges(node, ignored), moveJunctionAlongCommonEdge)
// are called on them one at a time.  Before every call the operation is printed; after it the complete
// heap state is dumped.  The Lean driver replays the operation of Model/HyperTree.lean on the state
// before and compares with the state after (exactly for primitives, up to renaming of the objects the
// library allocated itself for the rewrites), and checks the structural invariant on every state.
//
// Line formats (i = step index, 0 = initial state):
//   hop <i> <kind> <args..>           split e src x y | replace e old new | ndisc n e | edisc e | splice self old |
//                                     contract e target source | deln n | dele e | setpt n x y |
//                                     rzle node ignored|- | move junction
//   hst <i> <mode> <anchor|-> <next> <nextJ> <nextC> <canMajor>      mode: all (registry dump) | dfs (from anchor)
//   hn <i> <id> <x> <y> <junction|-> <finalVertex|-> <isConnectorSource> <isPinDummyEndpoint> <edge ids..>
//   he <i> <id> <e1|-> <e2|-> <conn|-> <hasFixedRoute>
//   himp <i> <what> <ids..>           roots | jmap j:n.. | newj | delj | newc | delc | fixedj | fixedc
//   hret <i> <newSelf|-> <mapChanged>
#ifndef VERIF_C12_OPS_H
#define VERIF_C12_OPS_H
#include "common.h"
#include "libavoid/libavoid.h"
#include "libavoid/hyperedgetree.h"
#include "libavoid/hyperedgeimprover.h"
#include <map>
#include <set>
#include <sstream>

namespace c12ops {
using namespace Avoid;

// ---- standard-conforming access to private members of HyperedgeImprover (explicit instantiation) ----
template <typename Tag, typename Tag::type M> struct Rob { friend typename Tag::type get(Tag) { return M; } };
#define C12_ROB(NAME, TYPE, MEMBER) \
    struct NAME { typedef TYPE HyperedgeImprover::*type; friend type get(NAME); }; \
    template struct Rob<NAME, &HyperedgeImprover::MEMBER>;
C12_ROB(TJunctions, JunctionHyperedgeTreeNodeMap, m_hyperedge_tree_junctions)
C12_ROB(TRoots, JunctionSet, m_hyperedge_tree_roots)
C12_ROB(TNewJ, JunctionRefList, m_new_junctions)
C12_ROB(TDelJ, JunctionRefList, m_deleted_junctions)
C12_ROB(TNewC, ConnRefList, m_new_connectors)
C12_ROB(TDelC, ConnRefList, m_deleted_connectors)
C12_ROB(TMajor, bool, m_can_make_major_changes)
struct TRzle { typedef void (HyperedgeImprover::*type)(HyperedgeTreeNode *, HyperedgeTreeEdge *); friend type get(TRzle); };
template struct Rob<TRzle, &HyperedgeImprover::removeZeroLengthEdges>;
struct TMove { typedef HyperedgeTreeNode *(HyperedgeImprover::*type)(HyperedgeTreeNode *, bool &); friend type get(TMove); };
template struct Rob<TMove, &HyperedgeImprover::moveJunctionAlongCommonEdge>;

struct World {
    Router *router;
    HyperedgeImprover imp;
    std::vector<HyperedgeTreeNode *> nodes;     // registry of live objects the harness knows
    std::vector<HyperedgeTreeEdge *> edges;
    std::map<HyperedgeTreeNode *, long> nid;
    std::map<HyperedgeTreeEdge *, long> eid;
    std::map<JunctionRef *, long> jid;
    std::map<ConnRef *, long> cid;
    std::map<long, JunctionRef *> jById;
    std::map<long, ConnRef *> cById;
    std::set<long> fixedJ, fixedC;
    long next, nextJ, nextC;
    bool major;
    World() : router(new Router(OrthogonalRouting)), next(0), nextJ(1), nextC(1), major(false) {
        imp.setRouter(router);
    }
    HyperedgeTreeNode *nodeById(long id) { for (auto &p : nid) if (p.second == id) return p.first; return nullptr; }
    HyperedgeTreeEdge *edgeById(long id) { for (auto &p : eid) if (p.second == id) return p.first; return nullptr; }
    JunctionRef *newJunction(double x, double y, bool fixed) {
        JunctionRef *j = new JunctionRef(router, Point(x, y));
        if (fixed) { j->setPositionFixed(true); fixedJ.insert(nextJ); }
        jid[j] = nextJ; jById[nextJ] = j; ++nextJ; return j;
    }
    ConnRef *newConn(bool fixed) {
        ConnRef *c = new ConnRef(router);
        if (fixed) {
            PolyLine pl; pl.ps.push_back(Point(0, 0)); pl.ps.push_back(Point(1, 0));
            c->setFixedRoute(pl); fixedC.insert(nextC);
        }
        cid[c] = nextC; cById[nextC] = c; ++nextC; return c;
    }
    HyperedgeTreeNode *newNode(double x, double y) {
        HyperedgeTreeNode *n = new HyperedgeTreeNode();
        n->point = Point(x, y);
        nodes.push_back(n); nid[n] = next++; return n;
    }
    HyperedgeTreeEdge *newEdge(HyperedgeTreeNode *a, HyperedgeTreeNode *b, ConnRef *c) {
        HyperedgeTreeEdge *e = new HyperedgeTreeEdge(a, b, c);
        edges.push_back(e); eid[e] = next++; return e;
    }
    long idOf(HyperedgeTreeNode *n) {
        if (!n) return -1;
        auto it = nid.find(n);
        if (it != nid.end()) return it->second;
        nid[n] = next; return next++;      // (the registry itself is maintained by rediscover / the case code)
    }
    long idOf(HyperedgeTreeEdge *e) {
        if (!e) return -1;
        auto it = eid.find(e);
        if (it != eid.end()) return it->second;
        eid[e] = next; return next++;
    }
    long idOf(JunctionRef *j) {
        if (!j) return -1;
        auto it = jid.find(j);
        if (it != jid.end()) return it->second;
        jid[j] = nextJ; jById[nextJ] = j; return nextJ++;
    }
    long idOf(ConnRef *c) {
        if (!c) return -1;
        auto it = cid.find(c);
        if (it != cid.end()) return it->second;
        cid[c] = nextC; cById[nextC] = c; return nextC++;
    }
};

inline std::string opt(long v) { if (v < 0) return "-"; std::ostringstream o; o << v; return o.str(); }

// After a rewrite the library may have freed and allocated tree objects: rebuild the registry from a
// traversal that starts at a node known to survive.  Pointers not met are dropped from the maps.
inline void rediscover(World &w, HyperedgeTreeNode *anchor) {
    std::vector<HyperedgeTreeNode *> ns;
    std::vector<HyperedgeTreeEdge *> es;
    std::set<HyperedgeTreeNode *> seenN;
    std::set<HyperedgeTreeEdge *> seenE;
    std::vector<HyperedgeTreeNode *> stack(1, anchor);
    seenN.insert(anchor);
    while (!stack.empty()) {
        HyperedgeTreeNode *n = stack.back(); stack.pop_back();
        ns.push_back(n);
        for (HyperedgeTreeEdge *e : n->edges) {
            if (seenE.insert(e).second) es.push_back(e);
            HyperedgeTreeNode *ends[2] = { e->ends.first, e->ends.second };
            for (HyperedgeTreeNode *m : ends) if (m && seenN.insert(m).second) stack.push_back(m);
        }
    }
    std::map<HyperedgeTreeNode *, long> nid2;
    std::map<HyperedgeTreeEdge *, long> eid2;
    for (HyperedgeTreeNode *n : ns) { auto it = w.nid.find(n); if (it != w.nid.end()) nid2[n] = it->second; }
    for (HyperedgeTreeEdge *e : es) { auto it = w.eid.find(e); if (it != w.eid.end()) eid2[e] = it->second; }
    w.nid.swap(nid2); w.eid.swap(eid2);
    w.nodes = ns; w.edges = es;
    for (HyperedgeTreeNode *n : ns) w.idOf(n);
    for (HyperedgeTreeEdge *e : es) w.idOf(e);
}

inline void dump(World &w, long i, const char *mode, HyperedgeTreeNode *anchor) {
    // new junction / connector objects get their numbers in creation order
    for (JunctionRef *j : w.imp.*get(TNewJ())) w.idOf(j);
    for (ConnRef *c : w.imp.*get(TNewC())) w.idOf(c);
    // make sure every object has a number before anything is printed
    for (size_t k = 0; k < w.nodes.size(); ++k) w.idOf(w.nodes[k]);
    for (size_t k = 0; k < w.edges.size(); ++k) w.idOf(w.edges[k]);
    printf("hst %ld %s %s %ld %ld %ld %d\n", i, mode, opt(anchor ? w.idOf(anchor) : -1).c_str(), w.next, w.nextJ,
           w.nextC, (int) w.major);
    for (HyperedgeTreeNode *n : w.nodes) {
        printf("hn %ld %ld %s %s %s %s %d %d", i, w.idOf(n), vh::hx(n->point.x).c_str(), vh::hx(n->point.y).c_str(),
               opt(w.idOf(n->junction)).c_str(), n->finalVertex ? "1" : "-", (int) n->isConnectorSource,
               (int) n->isPinDummyEndpoint);
        for (HyperedgeTreeEdge *e : n->edges) printf(" %ld", w.idOf(e));
        printf("\n");
    }
    for (HyperedgeTreeEdge *e : w.edges) {
        printf("he %ld %ld %s %s %s %d\n", i, w.idOf(e), opt(w.idOf(e->ends.first)).c_str(),
               opt(w.idOf(e->ends.second)).c_str(), opt(w.idOf(e->conn)).c_str(), (int) e->hasFixedRoute);
    }
    printf("himp %ld roots", i);
    for (JunctionRef *j : w.imp.*get(TRoots())) printf(" %ld", w.idOf(j));
    printf("\nhimp %ld jmap", i);
    for (auto &p : w.imp.*get(TJunctions())) printf(" %ld:%ld", w.idOf(p.first), w.idOf(p.second));
    printf("\nhimp %ld newj", i);
    for (JunctionRef *j : w.imp.*get(TNewJ())) printf(" %ld", w.idOf(j));
    printf("\nhimp %ld delj", i);
    for (JunctionRef *j : w.imp.*get(TDelJ())) printf(" %ld", w.idOf(j));
    printf("\nhimp %ld newc", i);
    for (ConnRef *c : w.imp.*get(TNewC())) printf(" %ld", w.idOf(c));
    printf("\nhimp %ld delc", i);
    for (ConnRef *c : w.imp.*get(TDelC())) printf(" %ld", w.idOf(c));
    printf("\nhimp %ld fixedj", i);
    for (long j : w.fixedJ) printf(" %ld", j);
    printf("\nhimp %ld fixedc", i);
    for (long c : w.fixedC) printf(" %ld", c);
    printf("\n");
    fflush(stdout);
}

inline void freeAll(World &w) {
    for (HyperedgeTreeEdge *e : w.edges) delete e;
    for (HyperedgeTreeNode *n : w.nodes) delete n;
    w.edges.clear(); w.nodes.clear();
    // connectors that never became active are not owned by the router
    for (auto &p : w.cById) w.router->deleteConnector(p.second);
    delete w.router;
    w.router = nullptr;
}

// ------------------------------------------------------------------------------------------------
// generators

static const int STEP[] = { 0, 0, 10, 10, 20, -10, -20, 30 };

// An improver-shaped tree: hubs (junctions / terminals) joined by connector paths of 1..4 segments;
// coordinates on a coarse grid with many coincidences (zero-length segments, overlapping collinear
// first segments at a junction), a few oblique segments.
struct Hub { HyperedgeTreeNode *node; int x, y; bool isJunction; };

inline HyperedgeTreeNode *genTree(World &w, vh::Rng &r, int nHubs, bool odd) {
    std::vector<Hub> hubs;
    int x0 = (int) r.range(-3, 3) * 10, y0 = (int) r.range(-3, 3) * 10;
    HyperedgeTreeNode *root = w.newNode(x0, y0);
    root->junction = w.newJunction(x0, y0, r.coin(1, 6));
    hubs.push_back({ root, x0, y0, true });
    // decide which hubs are junctions: hub 0 is; others with probability 1/3 (they then get children later)
    for (int h = 1; h < nHubs; ++h) {
        // parent: a junction hub
        std::vector<int> js;
        for (size_t q = 0; q < hubs.size(); ++q) if (hubs[q].isJunction) js.push_back((int) q);
        Hub par = hubs[js[r.next() % js.size()]];
        bool isJ = r.coin(1, 3) && h + 2 < nHubs;
        ConnRef *conn = w.newConn(r.coin(1, 12));
        int segs = (int) r.range(1, 4);
        int x = par.x, y = par.y;
        HyperedgeTreeNode *prev = par.node;
        bool towardsParent = r.coin();            // connector runs child -> parent: the far end is its source
        bool horiz = r.coin();
        for (int s = 0; s < segs; ++s) {
            int d = STEP[r.next() % 8];
            if (r.coin(1, 12)) { x += d; y += STEP[r.next() % 8]; }        // oblique
            else if (horiz) x += d; else y += d;
            horiz = !horiz;
            HyperedgeTreeNode *n = w.newNode(x, y);
            w.newEdge(prev, n, conn);
            prev = n;
        }
        if (isJ) prev->junction = w.newJunction(x, y, r.coin(1, 6));
        else {
            prev->isConnectorSource = towardsParent;
            if (r.coin(1, 10)) prev->isPinDummyEndpoint = true;
        }
        if (!towardsParent && segs > 0 && par.node->junction == nullptr) par.node->isConnectorSource = true;
        hubs.push_back({ prev, x, y, isJ });
    }
    if (odd) {
        // shapes the improver itself never builds but the functions accept
        HyperedgeTreeNode *n = w.nodes[r.next() % w.nodes.size()];
        if (!n->junction && r.coin()) n->junction = w.newJunction(n->point.x, n->point.y, false);
        HyperedgeTreeEdge *e = w.edges[r.next() % w.edges.size()];
        if (r.coin(1, 3)) e->hasFixedRoute = !e->hasFixedRoute;
    }
    return root;
}

inline void registerImprover(World &w, HyperedgeTreeNode *root, bool major) {
    w.major = major;
    w.imp.*get(TMajor()) = major;
    for (HyperedgeTreeNode *n : w.nodes) if (n->junction) (w.imp.*get(TJunctions()))[n->junction] = n;
    (w.imp.*get(TRoots())).insert(root->junction);
}

// ------------------------------------------------------------------------------------------------
// case classes

inline void casePrimitives(vh::Rng &r, bool thorough) {
    World w;
    genTree(w, r, (int) r.range(2, thorough ? 7 : 5), true);
    w.router->processTransaction();          // the junctions become live obstacles of the router
    dump(w, 0, "all", nullptr);
    int nops = (int) r.range(2, thorough ? 10 : 6);
    for (int i = 1; i <= nops; ++i) {
        if (w.edges.empty() || w.nodes.size() < 2) break;
        int kind = (int) r.range(0, 9);
        HyperedgeTreeEdge *e = w.edges[r.next() % w.edges.size()];
        HyperedgeTreeNode *n = w.nodes[r.next() % w.nodes.size()];
        HyperedgeTreeNode *m = w.nodes[r.next() % w.nodes.size()];
        bool attached = e->ends.first && e->ends.second;
        if (kind <= 2 && attached) {                        // split from one of its ends
            HyperedgeTreeNode *src = r.coin() ? e->ends.first : e->ends.second;
            int x = (int) r.range(-4, 4) * 5, y = (int) r.range(-4, 4) * 5;
            printf("hop %d split %ld %ld %s %s\n", i, w.idOf(e), w.idOf(src), vh::hx(x).c_str(), vh::hx(y).c_str());
            fflush(stdout);
            e->splitFromNodeAtPoint(src, Point(x, y));
            HyperedgeTreeNode *split = e->ends.second;
            w.nodes.push_back(split); w.nid[split] = w.next++;
            HyperedgeTreeEdge *ne = split->edges.front();
            w.edges.push_back(ne); w.eid[ne] = w.next++;
        } else if (kind == 3 && attached) {                 // contraction sequence used by both rewrites
            HyperedgeTreeNode *tg = r.coin() ? e->ends.first : e->ends.second;
            HyperedgeTreeNode *src = e->followFrom(tg);
            if (tg == src) { printf("hop %d nop\n", i); }
            else {
                printf("hop %d contract %ld %ld %ld\n", i, w.idOf(e), w.idOf(tg), w.idOf(src));
                fflush(stdout);
                e->disconnectEdge();
                delete e;
                w.edges.erase(std::find(w.edges.begin(), w.edges.end(), e)); w.eid.erase(e);
                tg->spliceEdgesFrom(src);
                delete src;
                w.nodes.erase(std::find(w.nodes.begin(), w.nodes.end(), src)); w.nid.erase(src);
            }
        } else if (kind == 4 && attached) {                 // replaceNode (possibly with a node that is not an end)
            HyperedgeTreeNode *old = r.coin(3, 4) ? (r.coin() ? e->ends.first : e->ends.second) : n;
            if (m == old || m == e->ends.first || m == e->ends.second) { printf("hop %d nop\n", i); }
            else {
                printf("hop %d replace %ld %ld %ld\n", i, w.idOf(e), w.idOf(old), w.idOf(m));
                fflush(stdout);
                e->replaceNode(old, m);
            }
        } else if (kind == 5 && attached) {                 // edge->disconnectEdge(); delete edge
            printf("hop %d edisc %ld\n", i, w.idOf(e));
            fflush(stdout);
            e->disconnectEdge();
            printf("hop %d dele %ld\n", i, w.idOf(e));
            // (dump between the two is skipped: the edge is dead weight; model does both)
            delete e;
            w.edges.erase(std::find(w.edges.begin(), w.edges.end(), e)); w.eid.erase(e);
        } else if (kind == 6 && n != m) {                   // splice m's edges into n (no common edge, else a self-loop would
            bool adjacent = false;                          //  be created: excluded, the callers remove the joining edge first)
            for (HyperedgeTreeEdge *q : m->edges) if (q->followFrom(m) == n) adjacent = true;
            if (adjacent) { printf("hop %d nop\n", i); }
            else {
                printf("hop %d splice %ld %ld\n", i, w.idOf(n), w.idOf(m));
                fflush(stdout);
                n->spliceEdgesFrom(m);
            }
        } else if (kind == 7) {
            int x = (int) r.range(-4, 4) * 5, y = (int) r.range(-4, 4) * 5;
            printf("hop %d setpt %ld %s %s\n", i, w.idOf(n), vh::hx(x).c_str(), vh::hx(y).c_str());
            n->point = Point(x, y);
        } else {
            printf("hop %d nop\n", i);
        }
        dump(w, i, "all", nullptr);
    }
    freeAll(w);
}

// removeZeroLengthEdges(root, nullptr) on improver-shaped trees, then the junction moves, then again
inline void caseRewrites(vh::Rng &r, bool thorough, int flavour) {
    World w;
    bool major = (flavour % 2) == 1;
    HyperedgeTreeNode *root = genTree(w, r, (int) r.range(3, thorough ? 9 : 7), flavour >= 4 && r.coin(1, 3));
    w.router->processTransaction();          // the junctions become live obstacles of the router
    registerImprover(w, root, major);
    HyperedgeTreeNode *anchor = root;
    rediscover(w, anchor);
    dump(w, 0, "dfs", anchor);
    int i = 0;
    int rounds = (int) r.range(1, 3);
    for (int round = 0; round < rounds; ++round) {
        // --- zero-length edges, from the root junction of the tree
        {
            JunctionSet roots = w.imp.*get(TRoots());
            for (JunctionRef *j : roots) {
                if ((w.imp.*get(TRoots())).count(j) == 0) continue;
                HyperedgeTreeNode *node = (w.imp.*get(TJunctions()))[j];
                ++i;
                printf("hop %d rzle %ld -\n", i, w.idOf(node));
                fflush(stdout);
                (w.imp.*get(TRzle()))(node, nullptr);
                anchor = node;               // `self` of a call that starts at a junction survives
                rediscover(w, anchor);
                dump(w, i, "dfs", anchor);
            }
        }
        // --- junction moves: the caller's loop, junction by junction in id order
        {
            std::vector<long> js;
            for (auto &p : w.imp.*get(TJunctions())) js.push_back(w.idOf(p.first));
            std::sort(js.begin(), js.end());
            for (size_t q = 0; q < js.size(); ++q) {
                JunctionRef *j = w.jById[js[q]];
                JunctionHyperedgeTreeNodeMap &jm = w.imp.*get(TJunctions());
                if (jm.find(j) == jm.end()) continue;
                for (int guard = 0; guard < 50; ++guard) {
                    HyperedgeTreeNode *node = jm[j];
                    bool changed = false;
                    ++i;
                    printf("hop %d move %ld\n", i, js[q]);
                    fflush(stdout);
                    HyperedgeTreeNode *res = (w.imp.*get(TMove()))(node, changed);
                    if (res) jm[j] = res;
                    anchor = res ? res : node;
                    rediscover(w, anchor);
                    printf("hret %d %s %d\n", i, opt(res ? w.idOf(res) : -1).c_str(), (int) changed);
                    dump(w, i, "dfs", anchor);
                    if (changed) {
                        // new junctions join the work list (the library restarts its map iteration)
                        for (auto &p : jm) {
                            long id = w.idOf(p.first);
                            if (std::find(js.begin(), js.end(), id) == js.end()) js.push_back(id);
                        }
                    }
                    if (!res) break;
                }
            }
        }
        // --- emulate a segment shift: move an inner bend node onto one of its neighbours
        if (round + 1 < rounds) {
            for (int t = 0; t < 3; ++t) {
                HyperedgeTreeNode *n = w.nodes[r.next() % w.nodes.size()];
                if (n->edges.size() != 2 || n->junction) continue;
                HyperedgeTreeNode *o = n->edges.front()->followFrom(n);
                ++i;
                printf("hop %d setpt %ld %s %s\n", i, w.idOf(n), vh::hx(o->point.x).c_str(), vh::hx(o->point.y).c_str());
                n->point = o->point;
                dump(w, i, "dfs", anchor);
            }
        }
    }
    freeAll(w);
}

inline const char *opsTag(int klass) {
    static const char *T[] = { "ops-prim", "ops-rzle-minor", "ops-rzle-major", "ops-move-minor", "ops-move-major",
                               "ops-odd-minor", "ops-odd-major" };
    return T[klass % 7];
}

inline void runOpsCase(const vh::Args &a, long k) {
    int klass = (int) (k % 7);
    vh::Rng r = vh::caseRng(a.seed, (uint64_t) k, 12);
    vh::beginCase(k, opsTag(klass));
    bool thorough = a.tier == "thorough";
    if (klass == 0) casePrimitives(r, thorough);
    else caseRewrites(r, thorough, klass - 1);
    vh::endCase();
}

inline int opsMain(const vh::Args &a) {
    long n = ((a.tier == "thorough") ? 6000 : 700) * a.scale;
    if (a.n >= 0) n = a.n;
    for (long k = 0; k < n; ++k) {
        if (!a.want(k)) continue;
        runOpsCase(a, k);
    }
    return 0;
}

} // namespace c12ops
#endif
