// C12, op-level correspondence (harness mode `--mode ops`): the hyperedge tree objects of
// libavoid/hyperedgetree.h are built directly and the primitives of hyperedgetree.cpp and the private
// rewriting steps of HyperedgeImprover (removeZeroLengthEdges(node, ignored), moveJunctionAlongCommonEdge)
// are called on them one at a time.  Before every call the operation is printed; after it the complete
// heap state is dumped.  The Lean driver replays the operation of Model/HyperTree.lean on the state
// before and compares with the state after (exactly for primitives, up to renaming of the objects the
// library allocated itself for the rewrites), and checks the structural invariant on every state.
//
// Line formats (i = step index, 0 = initial state):
//   hop <i> <kind> <args..>           split e src x y | replace e old new | ndisc n e | edisc e | splice self old |
//                                     contract e target source | deln n | dele e | setpt n x y |
//                                     rzle node ignored|- | move junction
//   hst <i> <mode> <anchor|-> <next> <nextJ> <nextC> <canMajor>      mode: all (registry dump) | dfs (from anchor)
//   hn <i> <id> <x> <y> <junction|-> <finalVertex|-> <isConnectorSource> <isPinDummyEndpoint> <edge ids..>
//   he <i> <id> <e1|-> <e2|-> <conn|-> <hasFixedRoute>
//   himp <i> <what> <ids..>           roots | jmap j:n.. | newj | delj | newc | delc | fixedj | fixedc
//   hret <i> <newSelf|-> <mapChanged>
#ifndef VERIF_C12_OPS_H
#define VERIF_C12_OPS_H
#include "common.h"
#include "libavoid/libavoid.h"
#include "libavoid/hyperedgetree.h"
#include "libavoid/hyperedgeimprover.h"
#include <map>
#include <set>
#include <sstream>
#include <unistd.h>
#include <sys/wait.h>

namespace c12ops {
using namespace Avoid;

// ---- standard-conforming access to private members of HyperedgeImprover (explicit instantiation) ----
template <typename Tag, typename Tag::type M> struct Rob { friend typename Tag::type get(Tag) { return M; } };
#define C12_ROB(NAME, TYPE, MEMBER) \
    struct NAME { typedef TYPE HyperedgeImprover::*type; friend type get(NAME); }; \
    template struct Rob<NAME, &HyperedgeImprover::MEMBER>;
C12_ROB(TJunctions, JunctionHyperedgeTreeNodeMap, m_hyperedge_tree_junctions)
C12_ROB(TRoots, JunctionSet, m_hyperedge_tree_roots)
C12_ROB(TNewJ, JunctionRefList, m_new_junctions)
C12_ROB(TDelJ, JunctionRefList, m_deleted_junctions)
C12_ROB(TNewC, ConnRefList, m_new_connectors)
C12_ROB(TDelC, ConnRefList, m_deleted_connectors)
C12_ROB(TMajor, bool, m_can_make_major_changes)
struct TRzle { typedef void (HyperedgeImprover::*type)(HyperedgeTreeNode *, HyperedgeTreeEdge *); friend type get(TRzle); };
template struct Rob<TRzle, &HyperedgeImprover::removeZeroLengthEdges>;
struct TMove { typedef HyperedgeTreeNode *(HyperedgeImprover::*type)(HyperedgeTreeNode *, bool &); friend type get(TMove); };
template struct Rob<TMove, &HyperedgeImprover::moveJunctionAlongCommonEdge>;

struct TUpd { typedef void (ConnRef::*type)(const unsigned int, const ConnEnd &); friend type get(TUpd); };
template <typename Tag, typename Tag::type M> struct RobC { friend typename Tag::type get(Tag) { return M; } };
template struct RobC<TUpd, &ConnRef::updateEndPoint>;
// the route as written (ConnRef::displayRoute() would regenerate an EMPTY display route from m_route)
struct TDisp { typedef PolyLine ConnRef::*type; friend type get(TDisp); };
template struct RobC<TDisp, &ConnRef::m_display_route>;

struct PendingEnds { ConnRef *conn; ConnEnd src, dst; };

struct World {
    Router *router;
    HyperedgeImprover imp;
    std::vector<HyperedgeTreeNode *> nodes;     // registry of live objects the harness knows
    std::vector<HyperedgeTreeEdge *> edges;
    std::map<HyperedgeTreeNode *, long> nid;
    std::map<HyperedgeTreeEdge *, long> eid;
    std::map<JunctionRef *, long> jid;
    std::map<ConnRef *, long> cid;
    std::map<long, JunctionRef *> jById;
    std::map<long, ConnRef *> cById;
    std::set<long> fixedJ, fixedC;
    long next, nextJ, nextC;
    bool major;
    std::vector<PendingEnds> pending;          // connector ends to attach once the junctions are live
    World() : router(new Router(OrthogonalRouting)), next(0), nextJ(1), nextC(1), major(false) {
        // the router's own improver must leave the scene alone: the tree under test is built by the harness
        router->setRoutingOption(improveHyperedgeRoutesMovingJunctions, false);
        router->setRoutingOption(improveHyperedgeRoutesMovingAddingAndDeletingJunctions, false);
        imp.setRouter(router);
    }
    HyperedgeTreeNode *nodeById(long id) { for (auto &p : nid) if (p.second == id) return p.first; return nullptr; }
    HyperedgeTreeEdge *edgeById(long id) { for (auto &p : eid) if (p.second == id) return p.first; return nullptr; }
    JunctionRef *newJunction(double x, double y, bool fixed) {
        JunctionRef *j = new JunctionRef(router, Point(x, y));
        if (fixed) { j->setPositionFixed(true); fixedJ.insert(nextJ); }
        jid[j] = nextJ; jById[nextJ] = j; ++nextJ; return j;
    }
    ConnRef *newConn(bool fixed, const ConnEnd *src = nullptr, const ConnEnd *dst = nullptr) {
        ConnRef *c = new ConnRef(router);
        // a connector with a fixed route stays unattached (point ends from setFixedRoute): the write-back
        // then meets a connector without destination ConnEnd
        if (src && dst && !fixed) pending.push_back(PendingEnds{ c, *src, *dst });
        if (fixed) {
            PolyLine pl; pl.ps.push_back(Point(0, 0)); pl.ps.push_back(Point(1, 0));
            c->setFixedRoute(pl); fixedC.insert(nextC);
        }
        cid[c] = nextC; cById[nextC] = c; ++nextC; return c;
    }
    HyperedgeTreeNode *newNode(double x, double y) {
        HyperedgeTreeNode *n = new HyperedgeTreeNode();
        n->point = Point(x, y);
        nodes.push_back(n); nid[n] = next++; return n;
    }
    HyperedgeTreeEdge *newEdge(HyperedgeTreeNode *a, HyperedgeTreeNode *b, ConnRef *c) {
        HyperedgeTreeEdge *e = new HyperedgeTreeEdge(a, b, c);
        edges.push_back(e); eid[e] = next++; return e;
    }
    long idOf(HyperedgeTreeNode *n) {
        if (!n) return -1;
        auto it = nid.find(n);
        if (it != nid.end()) return it->second;
        nid[n] = next; return next++;      // (the registry itself is maintained by rediscover / the case code)
    }
    long idOf(HyperedgeTreeEdge *e) {
        if (!e) return -1;
        auto it = eid.find(e);
        if (it != eid.end()) return it->second;
        eid[e] = next; return next++;
    }
    long idOf(JunctionRef *j) {
        if (!j) return -1;
        auto it = jid.find(j);
        if (it != jid.end()) return it->second;
        jid[j] = nextJ; jById[nextJ] = j; return nextJ++;
    }
    long idOf(ConnRef *c) {
        if (!c) return -1;
        auto it = cid.find(c);
        if (it != cid.end()) return it->second;
        cid[c] = nextC; cById[nextC] = c; return nextC++;
    }
};

inline std::string opt(long v) { if (v < 0) return "-"; std::ostringstream o; o << v; return o.str(); }

// After a rewrite the library may have freed and allocated tree objects: rebuild the registry from a
// traversal that starts at a node known to survive.  Pointers not met are dropped from the maps.
inline void rediscover(World &w, HyperedgeTreeNode *anchor) {
    std::vector<HyperedgeTreeNode *> ns;
    std::vector<HyperedgeTreeEdge *> es;
    std::set<HyperedgeTreeNode *> seenN;
    std::set<HyperedgeTreeEdge *> seenE;
    std::vector<HyperedgeTreeNode *> stack(1, anchor);
    seenN.insert(anchor);
    while (!stack.empty()) {
        HyperedgeTreeNode *n = stack.back(); stack.pop_back();
        ns.push_back(n);
        for (HyperedgeTreeEdge *e : n->edges) {
            if (seenE.insert(e).second) es.push_back(e);
            HyperedgeTreeNode *ends[2] = { e->ends.first, e->ends.second };
            for (HyperedgeTreeNode *m : ends) if (m && seenN.insert(m).second) stack.push_back(m);
        }
    }
    std::map<HyperedgeTreeNode *, long> nid2;
    std::map<HyperedgeTreeEdge *, long> eid2;
    for (HyperedgeTreeNode *n : ns) { auto it = w.nid.find(n); if (it != w.nid.end()) nid2[n] = it->second; }
    for (HyperedgeTreeEdge *e : es) { auto it = w.eid.find(e); if (it != w.eid.end()) eid2[e] = it->second; }
    w.nid.swap(nid2); w.eid.swap(eid2);
    w.nodes = ns; w.edges = es;
    for (HyperedgeTreeNode *n : ns) w.idOf(n);
    for (HyperedgeTreeEdge *e : es) w.idOf(e);
}

inline void dump(World &w, long i, const char *mode, HyperedgeTreeNode *anchor) {
    // new junction / connector objects get their numbers in creation order
    for (JunctionRef *j : w.imp.*get(TNewJ())) w.idOf(j);
    for (ConnRef *c : w.imp.*get(TNewC())) w.idOf(c);
    // make sure every object has a number before anything is printed
    for (size_t k = 0; k < w.nodes.size(); ++k) w.idOf(w.nodes[k]);
    for (size_t k = 0; k < w.edges.size(); ++k) w.idOf(w.edges[k]);
    printf("hst %ld %s %s %ld %ld %ld %d\n", i, mode, opt(anchor ? w.idOf(anchor) : -1).c_str(), w.next, w.nextJ,
           w.nextC, (int) w.major);
    for (HyperedgeTreeNode *n : w.nodes) {
        printf("hn %ld %ld %s %s %s %s %d %d", i, w.idOf(n), vh::hx(n->point.x).c_str(), vh::hx(n->point.y).c_str(),
               opt(w.idOf(n->junction)).c_str(), n->finalVertex ? "1" : "-", (int) n->isConnectorSource,
               (int) n->isPinDummyEndpoint);
        for (HyperedgeTreeEdge *e : n->edges) printf(" %ld", w.idOf(e));
        printf("\n");
    }
    for (HyperedgeTreeEdge *e : w.edges) {
        printf("he %ld %ld %s %s %s %d\n", i, w.idOf(e), opt(w.idOf(e->ends.first)).c_str(),
               opt(w.idOf(e->ends.second)).c_str(), opt(w.idOf(e->conn)).c_str(), (int) e->hasFixedRoute);
    }
    printf("himp %ld roots", i);
    for (JunctionRef *j : w.imp.*get(TRoots())) printf(" %ld", w.idOf(j));
    printf("\nhimp %ld jmap", i);
    for (auto &p : w.imp.*get(TJunctions())) printf(" %ld:%ld", w.idOf(p.first), w.idOf(p.second));
    printf("\nhimp %ld newj", i);
    for (JunctionRef *j : w.imp.*get(TNewJ())) printf(" %ld", w.idOf(j));
    printf("\nhimp %ld delj", i);
    for (JunctionRef *j : w.imp.*get(TDelJ())) printf(" %ld", w.idOf(j));
    printf("\nhimp %ld newc", i);
    for (ConnRef *c : w.imp.*get(TNewC())) printf(" %ld", w.idOf(c));
    printf("\nhimp %ld delc", i);
    for (ConnRef *c : w.imp.*get(TDelC())) printf(" %ld", w.idOf(c));
    printf("\nhimp %ld fixedj", i);
    for (long j : w.fixedJ) printf(" %ld", j);
    printf("\nhimp %ld fixedc", i);
    for (long c : w.fixedC) printf(" %ld", c);
    printf("\n");
    fflush(stdout);
}

// `HyperedgeTreeNode::listJunctionsAndConnectors(nullptr, …)` from `anchor`, for the driver to compare with
// the model's `listNode` on the very same state
inline void dumpList(World &w, long i, HyperedgeTreeNode *anchor) {
    JunctionRefList js; ConnRefList cs;
    anchor->listJunctionsAndConnectors(nullptr, js, cs);
    printf("hlist %ld J", i);
    for (JunctionRef *j : js) printf(" %ld", w.idOf(j));
    printf(" C");
    for (ConnRef *c : cs) printf(" %s", opt(w.idOf(c)).c_str());
    printf("\n");
}

inline void freeAll(World &w) {
    for (HyperedgeTreeEdge *e : w.edges) delete e;
    for (HyperedgeTreeNode *n : w.nodes) delete n;
    w.edges.clear(); w.nodes.clear();
    // connectors that never became active are not owned by the router
    for (auto &p : w.cById) w.router->deleteConnector(p.second);
    delete w.router;
    w.router = nullptr;
}

// ------------------------------------------------------------------------------------------------
// generators

static const int STEP[] = { 0, 0, 10, 10, 20, -10, -20, 30 };

// An improver-shaped tree: hubs (junctions / terminals) joined by connector paths of 1..4 segments;
// coordinates on a coarse grid with many coincidences (zero-length segments, overlapping collinear
// first segments at a junction), a few oblique segments.
struct Hub { HyperedgeTreeNode *node; int x, y; bool isJunction; };

inline HyperedgeTreeNode *genTree(World &w, vh::Rng &r, int nHubs, bool odd) {
    std::vector<Hub> hubs;
    int x0 = (int) r.range(-3, 3) * 10, y0 = (int) r.range(-3, 3) * 10;
    HyperedgeTreeNode *root = w.newNode(x0, y0);
    root->junction = w.newJunction(x0, y0, r.coin(1, 6));
    hubs.push_back({ root, x0, y0, true });
    // decide which hubs are junctions: hub 0 is; others with probability 1/3 (they then get children later)
    for (int h = 1; h < nHubs; ++h) {
        // parent: a junction hub
        std::vector<int> js;
        for (size_t q = 0; q < hubs.size(); ++q) if (hubs[q].isJunction) js.push_back((int) q);
        Hub par = hubs[js[r.next() % js.size()]];
        bool isJ = r.coin(1, 3) && h + 2 < nHubs;
        bool fixedConn = r.coin(1, 12);
        int segs = (int) r.range(1, 4);
        int x = par.x, y = par.y;
        bool towardsParent = r.coin();            // connector runs child -> parent: the far end is its source
        bool horiz = r.coin();
        std::vector<std::pair<int, int> > pts;
        for (int s = 0; s < segs; ++s) {
            int d = STEP[r.next() % 8];
            if (r.coin(1, 12)) { x += d; y += STEP[r.next() % 8]; }        // oblique
            else if (horiz) x += d; else y += d;
            horiz = !horiz;
            pts.push_back(std::make_pair(x, y));
        }
        JunctionRef *childJ = isJ ? w.newJunction(x, y, r.coin(1, 6)) : nullptr;
        // the connector really is attached: to the parent junction and to the child junction / a free point
        ConnEnd parentEnd(par.node->junction);
        ConnEnd childEnd = childJ ? ConnEnd(childJ) : ConnEnd(Point(x, y));
        ConnRef *conn = towardsParent ? w.newConn(fixedConn, &childEnd, &parentEnd)
                                      : w.newConn(fixedConn, &parentEnd, &childEnd);
        HyperedgeTreeNode *prev = par.node;
        for (size_t s = 0; s < pts.size(); ++s) {
            HyperedgeTreeNode *n = w.newNode(pts[s].first, pts[s].second);
            w.newEdge(prev, n, conn);
            prev = n;
        }
        if (isJ) prev->junction = childJ;
        else {
            prev->isConnectorSource = towardsParent;
            if (r.coin(1, 10)) prev->isPinDummyEndpoint = true;
        }
        if (!towardsParent && segs > 0 && par.node->junction == nullptr) par.node->isConnectorSource = true;
        hubs.push_back({ prev, x, y, isJ });
    }
    if (odd) {
        // shapes the improver itself never builds but the functions accept
        HyperedgeTreeNode *n = w.nodes[r.next() % w.nodes.size()];
        if (!n->junction && r.coin()) n->junction = w.newJunction(n->point.x, n->point.y, false);
        HyperedgeTreeEdge *e = w.edges[r.next() % w.edges.size()];
        if (r.coin(1, 3)) e->hasFixedRoute = !e->hasFixedRoute;
    }
    return root;
}

inline void registerImprover(World &w, HyperedgeTreeNode *root, bool major) {
    w.major = major;
    w.imp.*get(TMajor()) = major;
    for (HyperedgeTreeNode *n : w.nodes) if (n->junction) (w.imp.*get(TJunctions()))[n->junction] = n;
    (w.imp.*get(TRoots())).insert(root->junction);
}

// ------------------------------------------------------------------------------------------------
// case classes

inline void casePrimitives(vh::Rng &r, bool thorough) {
    World w;
    genTree(w, r, (int) r.range(2, thorough ? 7 : 5), true);
    w.router->processTransaction();          // the junctions become live obstacles of the router
    dump(w, 0, "all", nullptr);
    int nops = (int) r.range(2, thorough ? 10 : 6);
    for (int i = 1; i <= nops; ++i) {
        if (w.edges.empty() || w.nodes.size() < 2) break;
        int kind = (int) r.range(0, 9);
        bool stopAfterThis = false;
        HyperedgeTreeEdge *e = w.edges[r.next() % w.edges.size()];
        HyperedgeTreeNode *n = w.nodes[r.next() % w.nodes.size()];
        HyperedgeTreeNode *m = w.nodes[r.next() % w.nodes.size()];
        bool attached = e->ends.first && e->ends.second;
        if (kind <= 2 && attached) {                        // split from one of its ends
            HyperedgeTreeNode *src = r.coin() ? e->ends.first : e->ends.second;
            int x = (int) r.range(-4, 4) * 5, y = (int) r.range(-4, 4) * 5;
            printf("hop %d split %ld %ld %s %s\n", i, w.idOf(e), w.idOf(src), vh::hx(x).c_str(), vh::hx(y).c_str());
            fflush(stdout);
            e->splitFromNodeAtPoint(src, Point(x, y));
            HyperedgeTreeNode *split = e->ends.second;
            w.nodes.push_back(split); w.nid[split] = w.next++;
            HyperedgeTreeEdge *ne = split->edges.front();
            w.edges.push_back(ne); w.eid[ne] = w.next++;
        } else if (kind == 3 && attached) {                 // contraction sequence used by both rewrites
            HyperedgeTreeNode *tg = r.coin() ? e->ends.first : e->ends.second;
            HyperedgeTreeNode *src = e->followFrom(tg);
            // a second edge between the two ends (possible after a splice made a cycle) would become a self-loop of `tg`,
            // and a later disconnect of it reads the freed `src`: the callers only contract tree edges
            bool parallel = false;
            for (HyperedgeTreeEdge *q : src->edges) if (q != e && q->followFrom(src) == tg) parallel = true;
            if (tg == src || parallel) { printf("hop %d nop\n", i); }
            else {
                printf("hop %d contract %ld %ld %ld\n", i, w.idOf(e), w.idOf(tg), w.idOf(src));
                fflush(stdout);
                e->disconnectEdge();
                delete e;
                w.edges.erase(std::find(w.edges.begin(), w.edges.end(), e)); w.eid.erase(e);
                tg->spliceEdgesFrom(src);
                delete src;
                w.nodes.erase(std::find(w.nodes.begin(), w.nodes.end(), src)); w.nid.erase(src);
            }
        } else if (kind == 4 && attached) {                 // replaceNode (possibly with a node that is not an end)
            HyperedgeTreeNode *old = r.coin(3, 4) ? (r.coin() ? e->ends.first : e->ends.second) : n;
            if (m == old || m == e->ends.first || m == e->ends.second) { printf("hop %d nop\n", i); }
            else {
                printf("hop %d replace %ld %ld %ld\n", i, w.idOf(e), w.idOf(old), w.idOf(m));
                fflush(stdout);
                // replaceNode with a node that is not an end leaves `m` listing an edge that does not point to it: the
                // call itself is compared with the model, but further primitives on that ill-formed heap would be
                // invalid use (a later contraction frees a node that an edge still points to): the case ends here
                if (old != e->ends.first && old != e->ends.second) stopAfterThis = true;
                e->replaceNode(old, m);
            }
        } else if (kind == 5 && attached) {                 // edge->disconnectEdge(); delete edge
            printf("hop %d edisc %ld\n", i, w.idOf(e));
            fflush(stdout);
            e->disconnectEdge();
            printf("hop %d dele %ld\n", i, w.idOf(e));
            // (dump between the two is skipped: the edge is dead weight; model does both)
            delete e;
            w.edges.erase(std::find(w.edges.begin(), w.edges.end(), e)); w.eid.erase(e);
        } else if (kind == 6 && n != m) {                   // splice m's edges into n (no common edge, else a self-loop would
            bool adjacent = false;                          //  be created: excluded, the callers remove the joining edge first)
            for (HyperedgeTreeEdge *q : m->edges) if (q->followFrom(m) == n) adjacent = true;
            if (adjacent) { printf("hop %d nop\n", i); }
            else {
                printf("hop %d splice %ld %ld\n", i, w.idOf(n), w.idOf(m));
                fflush(stdout);
                n->spliceEdgesFrom(m);
            }
        } else if (kind == 7) {
            int x = (int) r.range(-4, 4) * 5, y = (int) r.range(-4, 4) * 5;
            printf("hop %d setpt %ld %s %s\n", i, w.idOf(n), vh::hx(x).c_str(), vh::hx(y).c_str());
            n->point = Point(x, y);
        } else {
            printf("hop %d nop\n", i);
        }
        dump(w, i, "all", nullptr);
        if (stopAfterThis) break;
    }
    freeAll(w);
}

// `treeRoot->updateConnEnds(nullptr, true, changed)` as in HyperedgeImprover::execute (there only when major
// changes are allowed): the connectors' ends before and after, and the changed list.
//   hop <i> upd <root>;  hends <i> <conn>:<S>:<D> ..  (S, D = J<junction> | E | O);  hends2 <i> ..;  hchg <i> <conn> ..
inline std::string endStr(World &w, const ConnEnd &e) {
    if (e.type() == ConnEndJunction && e.junction()) { std::ostringstream o; o << "J" << w.idOf(e.junction()); return o.str(); }
    if (e.type() == ConnEndEmpty) return "E";
    return "O";
}
inline void printEnds(World &w, const char *key, int i, const std::set<ConnRef *> &conns) {
    printf("%s %d", key, i);
    for (auto &p : w.cById) {
        if (!conns.count(p.second)) continue;
        std::pair<ConnEnd, ConnEnd> ce = p.second->endpointConnEnds();
        printf(" %ld:%s:%s", p.first, endStr(w, ce.first).c_str(), endStr(w, ce.second).c_str());
    }
    printf("\n");
}
inline void updateEnds(World &w, int i) {
    JunctionSet &roots = w.imp.*get(TRoots());
    if (roots.empty()) return;
    JunctionHyperedgeTreeNodeMap &jm = w.imp.*get(TJunctions());
    if (jm.find(*roots.begin()) == jm.end()) return;
    HyperedgeTreeNode *root = jm[*roots.begin()];
    rediscover(w, root);
    std::set<ConnRef *> conns;
    for (HyperedgeTreeEdge *e : w.edges) { if (!e->conn) return; conns.insert(e->conn); }
    printf("hop %d upd %ld\n", i, w.idOf(root));
    printEnds(w, "hends", i, conns);
    fflush(stdout);
    ConnRefList changed;
    root->updateConnEnds(nullptr, true, changed);
    printEnds(w, "hends2", i, conns);
    printf("hchg %d", i);
    for (ConnRef *c : changed) printf(" %ld", w.idOf(c));
    printf("\n");
    dump(w, i, "dfs", root);
}

// The conversion back: `root->writeEdgesToConns(nullptr, 0); root->writeEdgesToConns(nullptr, 1);` as at the end
// of HyperedgeImprover::execute (without updateConnEnds: the destination ends the connectors really have are
// printed, the model gets them as input).  Run in a child process: the library asserts
// `conn->m_dst_connend` when a connector without destination ConnEnd reaches a branching node.
//   hop <i> write <root node>;  hdst <i> <conn>:<junction|-> ..;  hroute <i> <conn> <x> <y> ..;  hwrite <i> ok|abort
inline void writeBack(World &w, int i) {
    JunctionSet &roots = w.imp.*get(TRoots());
    if (roots.empty()) return;
    JunctionHyperedgeTreeNodeMap &jm = w.imp.*get(TJunctions());
    if (jm.find(*roots.begin()) == jm.end()) return;
    HyperedgeTreeNode *root = jm[*roots.begin()];
    rediscover(w, root);
    printf("hop %d write %ld\n", i, w.idOf(root));
    std::set<ConnRef *> conns;
    for (HyperedgeTreeEdge *e : w.edges) if (e->conn) conns.insert(e->conn);
    printf("hdst %d", i);
    for (auto &p : w.cById) {
        if (!conns.count(p.second)) continue;
        ConnEnd d = p.second->endpointConnEnds().second;
        if (d.type() == ConnEndJunction) printf(" %ld:%ld", p.first, w.idOf(d.junction()));
        else if (d.type() == ConnEndShapePin) printf(" %ld:-", p.first);
    }
    printf("\n");
    dump(w, i, "dfs", root);
    fflush(stdout); fflush(stderr);
    pid_t pid = fork();
    if (pid == 0) {
        FILE *devnull = fopen("/dev/null", "w");
        if (devnull) dup2(fileno(devnull), 2);          // the expected assertion message is not an error
        root->writeEdgesToConns(nullptr, 0);
        root->writeEdgesToConns(nullptr, 1);
        for (auto &p : w.cById) {
            if (!conns.count(p.second)) continue;
            printf("hroute %d %ld", i, p.first);
            const PolyLine &pl = p.second->*get(TDisp());
            for (size_t q = 0; q < pl.size(); ++q) printf(" %s %s", vh::hx(pl.ps[q].x).c_str(), vh::hx(pl.ps[q].y).c_str());
            printf("\n");
        }
        printf("hwrite %d ok\n", i);
        fflush(stdout);
        _exit(0);
    }
    int status = 0;
    waitpid(pid, &status, 0);
    if (!(WIFEXITED(status) && WEXITSTATUS(status) == 0)) printf("hwrite %d abort\n", i);
    fflush(stdout);
}

// removeZeroLengthEdges(root, nullptr) on improver-shaped trees, then the junction moves, then again
inline void caseRewrites(vh::Rng &r, bool thorough, int flavour) {
    World w;
    bool major = (flavour % 2) == 1;
    HyperedgeTreeNode *root = genTree(w, r, (int) r.range(3, thorough ? 9 : 7), flavour >= 4 && r.coin(1, 3));
    w.router->processTransaction();          // the junctions become live obstacles of the router
    // attach the connectors the way the improver itself does (ConnRef::updateEndPoint): never routed
    for (PendingEnds &pe : w.pending) {
        (pe.conn->*get(TUpd()))(VertID::src, pe.src);
        (pe.conn->*get(TUpd()))(VertID::tar, pe.dst);
    }
    registerImprover(w, root, major);
    HyperedgeTreeNode *anchor = root;
    rediscover(w, anchor);
    dump(w, 0, "dfs", anchor);
    int i = 0;
    int rounds = (int) r.range(1, 3);
    for (int round = 0; round < rounds; ++round) {
        // --- zero-length edges, from the root junction of the tree
        {
            JunctionSet roots = w.imp.*get(TRoots());
            for (JunctionRef *j : roots) {
                if ((w.imp.*get(TRoots())).count(j) == 0) continue;
                HyperedgeTreeNode *node = (w.imp.*get(TJunctions()))[j];
                ++i;
                printf("hop %d rzle %ld -\n", i, w.idOf(node));
                fflush(stdout);
                (w.imp.*get(TRzle()))(node, nullptr);
                anchor = node;               // `self` of a call that starts at a junction survives
                rediscover(w, anchor);
                dump(w, i, "dfs", anchor);
                dumpList(w, i, anchor);
            }
        }
        // --- junction moves: the caller's loop, junction by junction in id order
        {
            std::vector<long> js;
            for (auto &p : w.imp.*get(TJunctions())) js.push_back(w.idOf(p.first));
            std::sort(js.begin(), js.end());
            for (size_t q = 0; q < js.size(); ++q) {
                JunctionRef *j = w.jById[js[q]];
                JunctionHyperedgeTreeNodeMap &jm = w.imp.*get(TJunctions());
                if (jm.find(j) == jm.end()) continue;
                for (int guard = 0; guard < 50; ++guard) {
                    HyperedgeTreeNode *node = jm[j];
                    bool changed = false;
                    ++i;
                    printf("hop %d move %ld\n", i, js[q]);
                    fflush(stdout);
                    HyperedgeTreeNode *res = (w.imp.*get(TMove()))(node, changed);
                    if (res) jm[j] = res;
                    anchor = res ? res : node;
                    rediscover(w, anchor);
                    printf("hret %d %s %d\n", i, opt(res ? w.idOf(res) : -1).c_str(), (int) changed);
                    dump(w, i, "dfs", anchor);
                    dumpList(w, i, anchor);
                    if (changed) {
                        // new junctions join the work list (the library restarts its map iteration)
                        for (auto &p : jm) {
                            long id = w.idOf(p.first);
                            if (std::find(js.begin(), js.end(), id) == js.end()) js.push_back(id);
                        }
                    }
                    if (!res) break;
                }
            }
        }
        // --- emulate a segment shift: move an inner bend node onto one of its neighbours
        if (round + 1 < rounds) {
            for (int t = 0; t < 3; ++t) {
                HyperedgeTreeNode *n = w.nodes[r.next() % w.nodes.size()];
                if (n->edges.size() != 2 || n->junction) continue;
                HyperedgeTreeNode *o = n->edges.front()->followFrom(n);
                ++i;
                printf("hop %d setpt %ld %s %s\n", i, w.idOf(n), vh::hx(o->point.x).c_str(), vh::hx(o->point.y).c_str());
                n->point = o->point;
                dump(w, i, "dfs", anchor);
            }
        }
    }
    updateEnds(w, ++i);
    writeBack(w, ++i);
    freeAll(w);
}


// ------------------------------------------------------------------------------------------------
// Stage dumps from inside HyperedgeImprover::execute() (guarded hook, tools/briefs/hook_c12.patch).
// Compiled only when the library's header announces the hook; without it the scene stream simply
// carries no h* lines.  Every hooked call (removeZeroLengthEdges(root, nullptr) per tree root,
// moveJunctionAlongCommonEdge per call) yields a pair of states of the tree that contains the node;
// a pair is emitted when the call changed something (and for every 8th call that did not).
//   hop <2m> resync        the driver adopts state 2m without comparing (start of a new pair)
//   hop <2m+1> rzle <node> - | move <junction>
#ifdef ADAPTAGRAMS_VERIF_HYPERTREE_HOOK
struct HookState {
    std::map<HyperedgeTreeNode *, long> nid;
    std::map<HyperedgeTreeEdge *, long> eid;
    long next = 0;
    long pairs = 0, calls = 0, lines = 0;
    std::vector<std::string> before;      // lines of the state before, without the step index
    std::string beforeHead;
    long movedJunction = -1;
    long nodeAtCall = -1;
    long nextJ = 0, nextC = 0;
};
inline HookState &hookState() { static HookState h; return h; }

struct HookDump { std::string head; std::vector<std::string> lines; };

inline HookDump hookDump(HookState &h, HyperedgeImprover *imp, HyperedgeTreeNode *anchor, JunctionRef *movedJ,
                         HyperedgeTreeNode *movedTo, Router *router) {
    std::vector<HyperedgeTreeNode *> ns;
    std::vector<HyperedgeTreeEdge *> es;
    std::set<HyperedgeTreeNode *> seenN;
    std::set<HyperedgeTreeEdge *> seenE;
    std::vector<HyperedgeTreeNode *> stack(1, anchor);
    seenN.insert(anchor);
    while (!stack.empty()) {
        HyperedgeTreeNode *n = stack.back(); stack.pop_back();
        ns.push_back(n);
        for (HyperedgeTreeEdge *e : n->edges) {
            if (seenE.insert(e).second) es.push_back(e);
            HyperedgeTreeNode *ends[2] = { e->ends.first, e->ends.second };
            for (HyperedgeTreeNode *m : ends) if (m && seenN.insert(m).second) stack.push_back(m);
        }
    }
    auto nId = [&](HyperedgeTreeNode *n) -> long {
        if (!n) return -1;
        auto it = h.nid.find(n);
        if (it != h.nid.end()) return it->second;
        h.nid[n] = h.next; return h.next++;
    };
    auto eId = [&](HyperedgeTreeEdge *e) -> long {
        auto it = h.eid.find(e);
        if (it != h.eid.end()) return it->second;
        h.eid[e] = h.next; return h.next++;
    };
    // drop pointers that are no longer part of the tree (freed objects)
    for (auto it = h.nid.begin(); it != h.nid.end();) { if (!seenN.count(it->first)) it = h.nid.erase(it); else ++it; }
    for (auto it = h.eid.begin(); it != h.eid.end();) { if (!seenE.count(it->first)) it = h.eid.erase(it); else ++it; }
    for (HyperedgeTreeNode *n : ns) nId(n);
    for (HyperedgeTreeEdge *e : es) eId(e);
    HookDump d;
    std::ostringstream o;
    std::set<JunctionRef *> carried;
    std::set<long> fixedJ, fixedC;
    for (HyperedgeTreeNode *n : ns) {
        o.str("");
        o << "hn @ " << nId(n) << " " << vh::hx(n->point.x) << " " << vh::hx(n->point.y) << " "
          << opt(n->junction ? (long) n->junction->id() : -1) << " " << (n->finalVertex ? "1" : "-") << " "
          << (int) n->isConnectorSource << " " << (int) n->isPinDummyEndpoint;
        for (HyperedgeTreeEdge *e : n->edges) o << " " << eId(e);
        d.lines.push_back(o.str());
        if (n->junction) { carried.insert(n->junction); if (n->junction->positionFixed()) fixedJ.insert(n->junction->id()); }
    }
    for (HyperedgeTreeEdge *e : es) {
        o.str("");
        o << "he @ " << eId(e) << " " << opt(nId(e->ends.first)) << " " << opt(nId(e->ends.second)) << " "
          << opt(e->conn ? (long) e->conn->id() : -1) << " " << (int) e->hasFixedRoute;
        d.lines.push_back(o.str());
        if (e->conn && e->conn->hasFixedRoute()) fixedC.insert(e->conn->id());
    }
    o.str(""); o << "himp @ roots";
    for (JunctionRef *j : imp->*get(TRoots())) if (carried.count(j)) o << " " << j->id();
    d.lines.push_back(o.str());
    o.str(""); o << "himp @ jmap";
    for (auto &p : imp->*get(TJunctions())) {
        if (p.first == movedJ) continue;
        if (seenN.count(p.second)) o << " " << p.first->id() << ":" << nId(p.second);
    }
    if (movedJ && movedTo) o << " " << movedJ->id() << ":" << nId(movedTo);
    d.lines.push_back(o.str());
    o.str(""); o << "himp @ newj"; for (JunctionRef *j : imp->*get(TNewJ())) o << " " << j->id(); d.lines.push_back(o.str());
    o.str(""); o << "himp @ delj"; for (JunctionRef *j : imp->*get(TDelJ())) o << " " << j->id(); d.lines.push_back(o.str());
    o.str(""); o << "himp @ newc"; for (ConnRef *c : imp->*get(TNewC())) o << " " << c->id(); d.lines.push_back(o.str());
    o.str(""); o << "himp @ delc"; for (ConnRef *c : imp->*get(TDelC())) o << " " << c->id(); d.lines.push_back(o.str());
    o.str(""); o << "himp @ fixedj"; for (long j : fixedJ) o << " " << j; d.lines.push_back(o.str());
    o.str(""); o << "himp @ fixedc"; for (long c : fixedC) o << " " << c; d.lines.push_back(o.str());
    o.str("");
    o << "hst @ dfs " << nId(anchor) << " " << h.next << " " << h.nextJ << " " << h.nextC << " "
      << (int) (imp->*get(TMajor()));
    d.head = o.str();
    (void) router;
    return d;
}

inline void printAt(const std::string &line, long step) {
    size_t at = line.find('@');
    printf("%s%ld%s\n", line.substr(0, at).c_str(), step, line.substr(at + 1).c_str());
}

C12_ROB(TRouter, Router *, m_router)

inline void hookCallback(HyperedgeImprover *imp, const char *stage, int phase, HyperedgeTreeNode *node,
                         HyperedgeTreeNode *result) {
    HookState &h = hookState();
    Router *router = imp->*get(TRouter());
    bool isMove = stage[0] == 'm';
    if (stage[0] == 'w') {
        // after both passes of writeEdgesToConns for the tree rooted at `node`: the tree, the destination
        // ends the connectors have, and the routes as written
        if (h.pairs >= 40 || h.lines > 12000) return;
        h.nid.clear(); h.eid.clear(); h.next = 0;
        h.nextJ = router->newObjectId(); h.nextC = h.nextJ + 1;
        HookDump d = hookDump(h, imp, node, nullptr, nullptr, router);
        long s0 = 2 * h.pairs, s1 = s0 + 1;
        if (h.pairs > 0) printf("hop %ld resync\n", s0);
        printAt(d.head, s0);
        for (const std::string &l : d.lines) printAt(l, s0);
        printf("hop %ld write %ld\n", s1, h.nid[node]);
        std::set<ConnRef *> conns;
        for (auto &p : h.eid) if (p.first->conn) conns.insert(p.first->conn);
        printf("hdst %ld", s1);
        for (ConnRef *c : conns) {
            ConnEnd e2 = c->endpointConnEnds().second;
            if (e2.type() == ConnEndJunction) printf(" %u:%u", c->id(), e2.junction()->id());
            else if (e2.type() == ConnEndShapePin) printf(" %u:-", c->id());
        }
        printf("\n");
        printAt(d.head, s1);
        for (const std::string &l : d.lines) printAt(l, s1);
        for (ConnRef *c : conns) {
            printf("hroute %ld %u", s1, c->id());
            const PolyLine &pl = c->*get(TDisp());
            for (size_t q = 0; q < pl.size(); ++q) printf(" %s %s", vh::hx(pl.ps[q].x).c_str(), vh::hx(pl.ps[q].y).c_str());
            printf("\n");
        }
        printf("hwrite %ld ok\n", s1);
        fflush(stdout);
        h.lines += (long) (2 * d.lines.size());
        ++h.pairs;
        return;
    }
    if (phase == 0) {
        h.nid.clear(); h.eid.clear(); h.next = 0;
        // ids the router will give to the next new junction and connector (JunctionRef first, then ConnRef)
        h.nextJ = router->newObjectId(); h.nextC = h.nextJ + 1;
        JunctionRef *j = node->junction;
        HookDump d = hookDump(h, imp, node, isMove ? j : nullptr, isMove ? node : nullptr, router);
        h.before = d.lines; h.beforeHead = d.head;
        h.movedJunction = j ? (long) j->id() : -1;
        h.nodeAtCall = h.nid[node];
        return;
    }
    ++h.calls;
    HyperedgeTreeNode *anchor = result ? result : node;
    JunctionRef *movedJ = nullptr;
    if (isMove) {
        // the junction this call was made for: the one `node` carried at phase 0
        for (auto &p : imp->*get(TJunctions())) if ((long) p.first->id() == h.movedJunction) movedJ = p.first;
    }
    h.nextJ = router->newObjectId(); h.nextC = h.nextJ + 1;
    HookDump d = hookDump(h, imp, anchor, movedJ, isMove ? anchor : nullptr, router);
    bool changed = (d.lines != h.before);
    if (!changed && (h.calls % 8) != 0) return;
    if (h.pairs >= 40 || h.lines > 12000) return;       // bound the stream per case
    long s0 = 2 * h.pairs, s1 = s0 + 1;
    if (h.pairs > 0) printf("hop %ld resync\n", s0);
    printAt(h.beforeHead, s0);
    for (const std::string &l : h.before) printAt(l, s0);
    if (isMove) printf("hop %ld move %ld\n", s1, h.movedJunction);
    else printf("hop %ld rzle %ld -\n", s1, h.nodeAtCall);
    if (isMove) printf("hret %ld %s x\n", s1, opt(result ? h.nid[result] : -1).c_str());
    printAt(d.head, s1);
    for (const std::string &l : d.lines) printAt(l, s1);
    fflush(stdout);
    h.lines += (long) (h.before.size() + d.lines.size());
    ++h.pairs;
}

inline void installHook() { hyperedgeTreeVerifHook = &hookCallback; }
#else
inline void installHook() {}
#endif

// The closed witnesses of Props/C12Ops (side conditions of the terminal-set theorems), run against the real
// code: exStar (junction on a terminal), exZeroTail (zero-length last segment at a source terminal),
// exOverTerminal (a second connector running over a terminal's end point).
inline void caseWitness(int which) {
    World w;
    HyperedgeTreeNode *root = w.newNode(0, 0);
    root->junction = w.newJunction(0, 0, false);
    ConnRef *c1 = w.newConn(false), *c2 = w.newConn(false), *c3 = w.newConn(false);
    if (which == 0) {
        HyperedgeTreeNode *t1 = w.newNode(0, 0), *t2 = w.newNode(10, 0), *t3 = w.newNode(0, 10);
        w.newEdge(root, t1, c1); w.newEdge(root, t2, c2); w.newEdge(root, t3, c3);
    } else if (which == 1) {
        HyperedgeTreeNode *b = w.newNode(10, 0), *t = w.newNode(10, 0), *t3 = w.newNode(0, 10), *t4 = w.newNode(0, -10);
        t->isConnectorSource = true;
        w.newEdge(root, b, c1); w.newEdge(b, t, c1); w.newEdge(root, t3, c2); w.newEdge(root, t4, c3);
    } else {
        HyperedgeTreeNode *t1 = w.newNode(10, 0), *b = w.newNode(10, 0), *t3 = w.newNode(10, 10), *t4 = w.newNode(0, -10);
        w.newEdge(root, t1, c1); w.newEdge(root, b, c2); w.newEdge(b, t3, c2); w.newEdge(root, t4, c3);
    }
    w.router->processTransaction();
    registerImprover(w, root, false);
    rediscover(w, root);
    dump(w, 0, "dfs", root);
    if (which < 2) {
        printf("hop 1 rzle %ld -\n", w.idOf(root));
        fflush(stdout);
        (w.imp.*get(TRzle()))(root, nullptr);
        rediscover(w, root);
        dump(w, 1, "dfs", root);
    } else {
        bool changed = false;
        printf("hop 1 move %ld\n", w.idOf(root->junction));
        fflush(stdout);
        JunctionRef *j = root->junction;
        HyperedgeTreeNode *res = (w.imp.*get(TMove()))(root, changed);
        if (res) (w.imp.*get(TJunctions()))[j] = res;
        HyperedgeTreeNode *anchor = res ? res : root;
        rediscover(w, anchor);
        printf("hret 1 %s %d\n", opt(res ? w.idOf(res) : -1).c_str(), (int) changed);
        dump(w, 1, "dfs", anchor);
    }
    freeAll(w);
}

inline const char *opsTag(int klass) {
    static const char *T[] = { "ops-prim", "ops-rzle-minor", "ops-rzle-major", "ops-move-minor", "ops-move-major",
                               "ops-odd-minor", "ops-odd-major", "ops-witness" };
    return T[klass % 8];
}

inline void runOpsCase(const vh::Args &a, long k) {
    // the three fixed witnesses are cases 7, 15, 23; the random classes cycle otherwise
    int klass = (k == 7 || k == 15 || k == 23) ? 7 : (int) (k % 7);
    vh::Rng r = vh::caseRng(a.seed, (uint64_t) k, 12);
    vh::beginCase(k, opsTag(klass));
    bool thorough = a.tier == "thorough";
    if (klass == 0) casePrimitives(r, thorough);
    else if (klass == 7) caseWitness((int) (k / 8));
    else caseRewrites(r, thorough, klass - 1);
    vh::endCase();
}

inline int opsMain(const vh::Args &a) {
    long n = ((a.tier == "thorough") ? 6000 : 700) * a.scale;
    if (a.n >= 0) n = a.n;
    for (long k = 0; k < n; ++k) {
        if (!a.want(k)) continue;
        runOpsCase(a, k);
    }
    return 0;
}

} // namespace c12ops
#endif
