// C19 correspondence harness: libdialect graph decompositions vs the Lean model/checkers.
//   peel-*   : dialect::peel on connected simple graphs, then Tree::symmetricLayout on every
//              peeled tree (node boxes dumped for the overlap checker)
//   comps-*  : Graph::getConnComps on arbitrary (mostly disconnected) simple graphs
//   layout-* : Tree::symmetricLayout fed directly with rooted trees of 5..60 nodes (random, lopsided,
//              uneven caterpillars/spiders, the 14-node witness family), all four growth directions
//   plan-*   : OrthoPlanariser::planarise on orthogonally routed graphs
//              (plan-manual: routes set by hand on an integer grid, many crossings/bundles;
//               plan-routed: routes from LeaflessOrthoRouter on a leafless graph)
// Ids printed are the library's own node ids (global counter), so id order = creation order.
#include "common.h"
#include <map>
#include <set>
#include <memory>
#include <string>
#include <vector>
#include <deque>
#include <list>
#include <sstream>
#include <iostream>
#include <fstream>
#include <functional>
#include <algorithm>
#include <limits>
#include <utility>
#include <iterator>
#include <cmath>
#include <cstdio>
#include <cstdlib>
#include <cstring>
#include <cassert>
#include <stdexcept>
#include <numeric>
#include <queue>
#include <stack>
#include <unordered_map>
#include <unordered_set>
#include <tuple>
#include <array>
#include <bitset>
#include <iomanip>
#include <typeinfo>
#include <exception>
#include <climits>
#include <cfloat>
#include <ctime>
#include <cstdarg>
#include <cstddef>
#include <cstdint>
#include <complex>
#include <valarray>
// Harness only: the exact tie of Tree::symmetricLayout (Model/TreeLayout.lean) also compares the root
// tree's per-rank bounds m_boundsByRank and m_lb/m_ub, which have no accessor. All standard headers are
// included above, so the redefinition only touches the adaptagrams headers (no layout change: access
// specifiers do not reorder members with g++).
#define private public
#include "libdialect/commontypes.h"
#include "libdialect/graphs.h"
#include "libdialect/peeling.h"
#include "libdialect/trees.h"
#include "libdialect/planarise.h"
#include "libdialect/routing.h"
#include "libdialect/opts.h"
#include "libdialect/ortho.h"
#undef private

using namespace dialect;
typedef std::pair<int, int> IP;

struct GSpec {
    int n = 0;
    std::vector<IP> edges;
    std::set<IP> have;
    bool add(int u, int v) {
        if (u == v) return false;
        IP k(std::min(u, v), std::max(u, v));
        if (have.count(k)) return false;
        have.insert(k);
        edges.push_back(IP(u, v));
        return true;
    }
    int newNode() { return n++; }
};

// ---- structural generators (indices 0..n-1; relabelled afterwards) -------------------------
static void genTree(vh::Rng &r, GSpec &g, int n, int shape) {
    // shape 0: random recursive tree, 1: path, 2: star, 3: caterpillar, 4: binary-ish, 5: spider
    int base = g.n;
    for (int i = 0; i < n; ++i) g.newNode();
    for (int i = 1; i < n; ++i) {
        int p;
        switch (shape) {
        case 1: p = i - 1; break;
        case 2: p = 0; break;
        case 3: p = (i <= n / 2) ? i - 1 : (int) r.range(0, n / 2); break;
        case 4: p = (i - 1) / 2; break;
        case 5: { int legs = 3; p = (i <= legs) ? 0 : i - legs; break; }
        default: p = (int) r.range(0, i - 1);
        }
        g.add(base + p, base + i);
    }
}

static void hangTrees(vh::Rng &r, GSpec &g, int extra) {
    // attach `extra` new nodes, each to a uniformly chosen existing node (core or tree node)
    for (int i = 0; i < extra; ++i) {
        int p = (int) r.range(0, g.n - 1);
        int v = g.newNode();
        g.add(p, v);
    }
}

static void genCycle(GSpec &g, int n) {
    int base = g.n;
    for (int i = 0; i < n; ++i) g.newNode();
    for (int i = 0; i < n; ++i) g.add(base + i, base + (i + 1) % n);
}

static void genRandomConnected(vh::Rng &r, GSpec &g, int n, int extraEdges) {
    genTree(r, g, n, 0);
    for (int i = 0, tries = 0; i < extraEdges && tries < 20 * extraEdges + 20; ++tries)
        if (g.add((int) r.range(0, n - 1), (int) r.range(0, n - 1))) ++i;
}

static void genLeafless(vh::Rng &r, GSpec &g, int n, int extraEdges) {
    // cycle plus chords: every degree >= 2
    genCycle(g, n);
    for (int i = 0, tries = 0; i < extraEdges && tries < 20 * extraEdges + 20; ++tries)
        if (g.add((int) r.range(0, n - 1), (int) r.range(0, n - 1))) ++i;
}

// ---- build a dialect::Graph from a spec with random labelling / edge order -----------------
struct Built {
    Graph_SP G;
    std::vector<Node_SP> nodes;   // by creation order (= ascending id)
    std::vector<int> lab;         // spec index -> creation index
};

static Built build(vh::Rng &r, const GSpec &g, bool shuffleLabels = true) {
    Built b;
    b.G = std::make_shared<Graph>();
    b.lab.resize(g.n);
    for (int i = 0; i < g.n; ++i) b.lab[i] = i;
    if (shuffleLabels) r.shuffle(b.lab);
    for (int i = 0; i < g.n; ++i) {
        double w = 10 + 2 * r.range(0, 15), h = 10 + 2 * r.range(0, 15);
        Node_SP u = Node::allocate(w, h);
        b.G->addNode(u);
        b.nodes.push_back(u);
    }
    std::vector<IP> es = g.edges;
    r.shuffle(es);
    printf("n");
    for (auto &u : b.nodes) printf(" %u", u->id());
    printf("\n");
    for (auto &e : es) {
        int u = b.lab[e.first], v = b.lab[e.second];
        if (r.coin()) std::swap(u, v);
        b.G->addEdge(b.nodes[u], b.nodes[v]);
        printf("e %u %u\n", b.nodes[u]->id(), b.nodes[v]->id());
    }
    fflush(stdout);
    return b;
}

static void dumpGraph(const char *nk, const char *ek, long idx, const Graph &H) {
    printf("%s %ld", nk, idx);
    for (auto p : H.getNodeLookup()) printf(" %u", p.first);
    printf("\n");
    for (auto p : H.getEdgeLookup())
        printf("%s %ld %u %u\n", ek, idx, p.second->getSourceEnd()->id(), p.second->getTargetEnd()->id());
}

static const char *dirName(CardinalDir d) {
    switch (d) { case CardinalDir::EAST: return "E"; case CardinalDir::SOUTH: return "S";
                 case CardinalDir::WEST: return "W"; default: return "N"; }
}

// round down to a multiple of 1/grid (dyadic for grid = 8)
static double dy(double v, double grid) { return std::floor(v * grid) / grid; }

// ---- peel + symmetric layout -----------------------------------------------------------------
static void runPeel(vh::Rng &r, const GSpec &g) {
    Built b = build(r, g);
    double iel = b.G->getIEL();
    Trees trees = peel(*b.G);
    printf("peeled %zu\n", trees.size());
    dumpGraph("core_n", "core_e", 0, *b.G);
    printf("core_roots");
    for (auto p : b.G->getNodeLookup()) if (p.second->isRoot()) printf(" %u", p.first);
    printf("\n");
    long i = 0;
    for (Tree_SP t : trees) {
        printf("tree %ld %u %zu\n", i, t->getRootNodeID(), t->size());
        dumpGraph("tn", "te", i, *t->underlyingGraph());
        printf("troots %ld", i);
        for (auto p : t->underlyingGraph()->getNodeLookup()) if (p.second->isRoot()) printf(" %u", p.first);
        printf("\n");
        ++i;
    }
    fflush(stdout);
    // symmetric layout of every tree (validator-only part)
    static const CardinalDir dirs[4] = {CardinalDir::NORTH, CardinalDir::EAST, CardinalDir::SOUTH, CardinalDir::WEST};
    i = 0;
    for (Tree_SP t : trees) {
        CardinalDir d = dirs[r.range(0, 3)];
        // rankSep is the distance between the centre lines of consecutive ranks (trees.cpp:
        // baseTrans = rankSep), so it has to be at least the largest node extent for ranks not to
        // run into each other; HOLA passes IEL/4 and IEL (IEL = 2 * average node dimension).
        double maxDim = 0;
        for (auto p : t->underlyingGraph()->getNodeLookup()) {
            dimensions dm = p.second->getDimensions();
            maxDim = std::max(maxDim, std::max(dm.first, dm.second));
        }
        double nodeSep, rankSep;
        // HOLA's choice IEL/4, IEL rounded down to multiples of 1/8 (dyadic, so that the exact tie with the
        // Lean model of symmetricLayout applies to the peeled trees as well)
        if (r.coin()) { nodeSep = dy(iel / 4, 8); rankSep = std::max(dy(iel, 8), maxDim); }
        else { nodeSep = (double) r.range(1, 40) / 2.0; rankSep = maxDim + (double) r.range(0, 120) / 2.0; }
        bool convex = r.coin();
        for (auto p : t->underlyingGraph()->getNodeLookup()) {
            dimensions dm = p.second->getDimensions();
            printf("psz %ld %u %s %s\n", i, p.first, vh::hx(dm.first).c_str(), vh::hx(dm.second).c_str());
            printf("pkids %ld %u", i, p.first);
            for (Node_SP c : p.second->getChildren()) printf(" %u", c->id());
            printf("\n");
        }
        printf("layout %ld %s %s %s %d\n", i, dirName(d), vh::hx(nodeSep).c_str(), vh::hx(rankSep).c_str(), (int) convex);
        printf("exactp %ld\n", i);
        fflush(stdout);
        t->symmetricLayout(d, nodeSep, rankSep, convex);
        for (auto p : t->underlyingGraph()->getNodeLookup()) {
            BoundingBox bb = p.second->getBoundingBox();
            printf("box %ld %u %s %s %s %s\n", i, p.first, vh::hx(bb.x).c_str(), vh::hx(bb.X).c_str(),
                   vh::hx(bb.y).c_str(), vh::hx(bb.Y).c_str());
            Avoid::Point c = p.second->getCentre();
            printf("pctr %ld %u %s %s\n", i, p.first, vh::hx(c.x).c_str(), vh::hx(c.y).c_str());
        }
        for (size_t rk = 0; rk < t->m_boundsByRank.size(); ++rk)
            printf("prb %ld %zu %s %s\n", i, rk, vh::hx(t->m_boundsByRank[rk][0]).c_str(), vh::hx(t->m_boundsByRank[rk][1]).c_str());
        printf("plbub %ld %s %s\n", i, vh::hx(t->m_lb).c_str(), vh::hx(t->m_ub).c_str());
        printf("laid %ld %d\n", i, (int) t->isSymmetrical());
        ++i;
    }
}

static void runComps(vh::Rng &r, const GSpec &g) {
    Built b = build(r, g);
    std::vector<Graph_SP> comps = b.G->getConnComps();
    printf("ncomps %zu\n", comps.size());
    long i = 0;
    for (Graph_SP c : comps) { dumpGraph("cn", "ce", i, *c); ++i; }
}

// ---- planarise -------------------------------------------------------------------------------
static void dumpPlanar(const Graph &Q) {
    for (auto p : Q.getNodeLookup()) {
        Avoid::Point c = p.second->getCentre();
        printf("qn %u %s %s\n", p.first, vh::hx(c.x).c_str(), vh::hx(c.y).c_str());
    }
    for (auto p : Q.getEdgeLookup())
        printf("qe %u %u\n", p.second->getSourceEnd()->id(), p.second->getTargetEnd()->id());
}

static void dumpRouted(const Graph &G) {
    for (auto p : G.getNodeLookup()) {
        Avoid::Point c = p.second->getCentre();
        dimensions d = p.second->getDimensions();
        printf("pn %u %s %s %s %s\n", p.first, vh::hx(c.x).c_str(), vh::hx(c.y).c_str(),
               vh::hx(d.first).c_str(), vh::hx(d.second).c_str());
    }
    for (auto p : G.getEdgeLookup()) {
        Edge_SP e = p.second;
        printf("pe %u %u", e->getSourceEnd()->id(), e->getTargetEnd()->id());
        for (Avoid::Point q : e->getRoute()) printf(" %s %s", vh::hx(q.x).c_str(), vh::hx(q.y).c_str());
        printf("\n");
    }
    fflush(stdout);
}

static void runPlanManual(vh::Rng &r, int n, int m) {
    // every node gets its own row and its own column (multiples of 40), so no route passes
    // through a third node; bends lie on node rows/columns or on half-grid channels.
    GSpec g;
    genRandomConnected(r, g, n, m);
    Graph_SP G = std::make_shared<Graph>();
    std::vector<int> col(n), row(n);
    for (int i = 0; i < n; ++i) col[i] = row[i] = i;
    r.shuffle(col); r.shuffle(row);
    std::vector<Node_SP> nodes;
    for (int i = 0; i < n; ++i) {
        Node_SP u = Node::allocate(40.0 * col[i], 40.0 * row[i], 16, 16);
        G->addNode(u);
        nodes.push_back(u);
    }
    for (auto &e : g.edges) {
        Node_SP a = nodes[e.first], b = nodes[e.second];
        Edge_SP ed = G->addEdge(a, b);
        Avoid::Point A = a->getCentre(), B = b->getCentre();
        std::vector<Avoid::Point> rt;
        rt.push_back(A);
        int kind = (int) r.range(0, 3);
        if (kind == 0) rt.push_back(Avoid::Point(B.x, A.y));             // H then V
        else if (kind == 1) rt.push_back(Avoid::Point(A.x, B.y));        // V then H
        else if (kind == 2) {                                            // H V H through a channel column
            double mcol = 40.0 * r.range(-1, n - 1) + 20.0;
            if (r.coin(1, 3)) mcol += 4.0 * r.range(-2, 2);
            rt.push_back(Avoid::Point(mcol, A.y)); rt.push_back(Avoid::Point(mcol, B.y));
        } else {                                                         // V H V through a channel row
            double mrow = 40.0 * r.range(-1, n - 1) + 20.0;
            if (r.coin(1, 3)) mrow += 4.0 * r.range(-2, 2);
            rt.push_back(Avoid::Point(A.x, mrow)); rt.push_back(Avoid::Point(B.x, mrow));
        }
        rt.push_back(B);
        ed->setRoute(rt);
    }
    dumpRouted(*G);
    OrthoPlanariser op(G);
    Graph_SP Q = op.planarise();
    dumpPlanar(*Q);
}

// Routing is only input preparation for this property. libavoid's nudging stage aborts on some
// valid leafless inputs (COLA_ASSERT / stale index in orthogonal.cpp:3040-3041, reported to the
// C10/C15 owners), so the routing is first tried in a forked child; if the child dies the case
// is emitted as `plan-routed-skip` (counted in the statistics), otherwise the parent repeats
// the (deterministic) routing and planarises.
#include <unistd.h>
#include <sys/wait.h>
static bool routeLeafless(Graph_SP G) {
    HolaOpts opts;
    LeaflessOrthoRouter lor(G, opts);
    lor.setShapeBufferDistanceIELScalar(0.125);
    lor.route();
    return true;
}

struct RoutedSpec { GSpec g; std::vector<double> cx, cy; };

static Graph_SP buildRouted(const RoutedSpec &rs) {
    Graph_SP G = std::make_shared<Graph>();
    std::vector<Node_SP> nodes;
    for (int i = 0; i < rs.g.n; ++i) {
        Node_SP u = Node::allocate(rs.cx[i], rs.cy[i], 30, 30);
        G->addNode(u);
        nodes.push_back(u);
    }
    for (auto &e : rs.g.edges) G->addEdge(nodes[e.first], nodes[e.second]);
    return G;
}

static bool runPlanRouted(vh::Rng &r, long k, int n, int m) {
    RoutedSpec rs;
    genLeafless(r, rs.g, n, m);
    // nodes on a jittered grid, far enough apart for the router
    int side = 1; while (side * side < n) ++side;
    std::vector<int> cell(side * side);
    for (size_t i = 0; i < cell.size(); ++i) cell[i] = (int) i;
    r.shuffle(cell);
    for (int i = 0; i < n; ++i) {
        rs.cx.push_back(120.0 * (cell[i] % side) + 4.0 * r.range(-5, 5));
        rs.cy.push_back(120.0 * (cell[i] / side) + 4.0 * r.range(-5, 5));
    }
    fflush(stdout); fflush(stderr);
    pid_t pid = fork();
    if (pid == 0) {
        Graph_SP Gc = buildRouted(rs);
        routeLeafless(Gc);
        _exit(0);
    }
    int status = 0;
    if (pid > 0) waitpid(pid, &status, 0);
    bool routerOk = (pid > 0) && WIFEXITED(status) && WEXITSTATUS(status) == 0;
    vh::beginCase(k, routerOk ? "plan-routed" : "plan-routed-skip");
    for (int i = 0; i < n; ++i) printf("rn %d %s %s 30 30\n", i, vh::hx(rs.cx[i]).c_str(), vh::hx(rs.cy[i]).c_str());
    for (auto &e : rs.g.edges) printf("re %d %d\n", e.first, e.second);
    if (!routerOk) {
        printf("kind skip\nreason router-died status %d\n", status);
        vh::endCase();
        return false;
    }
    printf("kind plan\n");
    fflush(stdout);
    Graph_SP G = buildRouted(rs);
    routeLeafless(G);
    dumpRouted(*G);
    OrthoPlanariser op(G);
    Graph_SP Q = op.planarise();
    dumpPlanar(*Q);
    vh::endCase();
    return true;
}

#include "c19_planarise.h"   // planx-* classes: exact tie of OrthoPlanariser with Model/Planarise.lean (appended last in main)

// ---- Tree::symmetricLayout fed directly (strict class) ------------------------------------------
// parent[i] for i >= 1 (node 0 is the root); edges are directed parent -> child as Tree expects.
static void genLayoutTree(vh::Rng &r, int shape, int n, std::vector<int> &parent) {
    parent.assign(1, -1);
    auto add = [&](int p) { parent.push_back(p); return (int) parent.size() - 1; };
    auto star = [&](int p, int leaves) { int c = add(p); for (int i = 0; i < leaves; ++i) add(c); return c; };
    auto path = [&](int p, int len) { for (int i = 0; i < len; ++i) p = add(p); return p; };
    switch (shape) {
    case 0:   // random recursive tree
        for (int i = 1; i < n; ++i) add((int) r.range(0, i - 1));
        break;
    case 1:   // lopsided: prefer recent (deep) nodes, occasional fan-out
        for (int i = 1; i < n; ++i) { int lo = std::max(0, i - 1 - (int) r.range(0, 3)); add((int) r.range(lo, i - 1)); }
        break;
    case 2: { // caterpillar with uneven legs
        int spine = std::max(2, n / 3); int last = 0; std::vector<int> sp(1, 0);
        for (int i = 1; i < spine; ++i) { last = add(last); sp.push_back(last); }
        while ((int) parent.size() < n) { int at = sp[r.range(0, spine - 1)]; int len = (int) r.range(1, 3);
            for (int j = 0; j < len && (int) parent.size() < n; ++j) at = add(at); }
        break; }
    case 3: { // the witness family: root with several children carrying stars / star+leaf / paths
        int kids = (int) r.range(3, 6);
        for (int c = 0; c < kids && (int) parent.size() < n; ++c) {
            int kind = (int) r.range(0, 3);
            if (kind == 0) star(0, (int) r.range(1, 4));
            else if (kind == 1) { int v = add(0); star(v, (int) r.range(1, 3)); int extra = (int) r.range(1, 2); for (int j = 0; j < extra; ++j) add(v); }
            else if (kind == 2) path(0, (int) r.range(1, 3));
            else { int v = add(0); path(v, (int) r.range(1, 2)); star(v, (int) r.range(1, 3)); }
        }
        break; }
    case 4: { // spider with uneven legs, some legs ending in a fan
        int legs = (int) r.range(3, 7);
        for (int l = 0; l < legs && (int) parent.size() < n; ++l) { int e = path(0, (int) r.range(1, 5)); if (r.coin(1, 3)) for (int j = 0, f = (int) r.range(2, 3); j < f; ++j) add(e); }
        break; }
    case 6: { // deep path with a few side leaves / short side paths
        int last = 0;
        while ((int) parent.size() < n) {
            last = add(last);
            if (r.coin(1, 5) && (int) parent.size() < n) { int s = add(last); if (r.coin(1, 3) && (int) parent.size() < n) add(s); }
        }
        break; }
    case 7: { // star, optionally with a second level under some of the leaves
        std::vector<int> lv;
        int k = std::max(1, (int) r.range(n / 2, n - 1));
        for (int i = 0; i < k && (int) parent.size() < n; ++i) lv.push_back(add(0));
        while ((int) parent.size() < n && !lv.empty()) add(lv[r.range(0, (long) lv.size() - 1)]);
        break; }
    case 8: { // nested lopsided subtrees of pairwise different shape, so that asymmetric subtrees are
              // placed on the negative side (Tree::flip) at two levels
        int kids = (int) r.range(2, 6);
        for (int c = 0; c < kids && (int) parent.size() < n; ++c) {
            int v = add(0);
            int sub = (int) r.range(1, 4);
            for (int j = 0; j < sub && (int) parent.size() < n; ++j) {
                int u = add(v);
                // child j: a path of length j hanging on one side and a fan of c+1 leaves on the other
                int e = u; for (int q = 0; q < j && (int) parent.size() < n; ++q) e = add(e);
                for (int q = 0; q <= c && (int) parent.size() < n; ++q) add(u);
                if (r.coin(1, 3) && (int) parent.size() < n) add(e);
            }
        }
        break; }
    case 10: { // pairs of subtrees that computeIsomString cannot tell apart although they are not isomorphic
               // (its class counter k is never incremented, so a tuple only records leaf / non-leaf children):
               // T1 = {x:{p_a,q_b}, y:{p_a,q_b}},  T2 = {x:{p_a,p_a}, y:{q_b,q_b}}  (p_a = node with a leaves)
        int kids = (int) r.range(2, 4);
        auto fan = [&](int p, int leaves) { int c = add(p); for (int i = 0; i < leaves; ++i) add(c); return c; };
        for (int c = 0; c < kids; ++c) {
            int a = (int) r.range(1, 2), b = a + (int) r.range(1, 2);
            int kind = (int) r.range(0, 3);
            if (kind == 3) { path(0, (int) r.range(1, 3)); continue; }
            int v = add(0), x = add(v), y = add(v);
            if (kind == 0 || (kind == 2 && c % 2 == 0)) { fan(x, a); fan(x, b); fan(y, a); fan(y, b); }
            else { fan(x, a); fan(x, a); fan(y, b); fan(y, b); }
        }
        break; }
    case 9:   // tiny trees: 1..4 nodes (single leaf = early return, one child, two children …)
        for (int i = 1; i < n; ++i) add((int) r.range(0, i - 1));
        break;
    default: { // two-level random: random subtrees of random recursive shape hung under a few hubs
        int hubs = (int) r.range(2, 5); std::vector<int> hub;
        for (int h = 0; h < hubs; ++h) hub.push_back(add(0));
        while ((int) parent.size() < n) { int base = hub[r.range(0, hubs - 1)]; int sz = (int) r.range(1, 8); std::vector<int> loc(1, base);
            for (int j = 0; j < sz && (int) parent.size() < n; ++j) loc.push_back(add(loc[r.range(0, (long) loc.size() - 1)])); }
        break; }
    }
}

// sizeMode 0: all 30x30; 1: even integers 10..40; 2: anisotropic (one dimension up to 25x the other);
//          3: multiples of 1/4 in (0, 50]
// sepMode  0: the three classic choices (10/50, IEL-based, random) with rankSep >= largest extent;
//          1: arbitrary dyadic values incl. nodeSep = 0, rankSep = 0 and rankSep below the node extents
//             (overlap between ranks is then expected - known finding C14-tree-rank-distance - and the
//             driver only checks the exact tie there)
// All sizes and separations are dyadic with few bits, so every double operation of symmetricLayout is
// exact and the model (Rat) must reproduce every coordinate exactly.

static void runLayout(vh::Rng &r, const std::vector<int> &parent, int dirIdx, int sizeMode, int sepMode = 0, int convexNum = 3) {
    static const CardinalDir dirs[4] = {CardinalDir::NORTH, CardinalDir::EAST, CardinalDir::SOUTH, CardinalDir::WEST};
    int n = (int) parent.size();
    Graph_SP G = std::make_shared<Graph>();
    std::vector<Node_SP> ns;
    double maxDim = 0;
    for (int i = 0; i < n; ++i) {
        double w, h;
        switch (sizeMode) {
        case 0: w = h = 30; break;
        case 1: w = 10 + 2 * r.range(0, 15); h = 10 + 2 * r.range(0, 15); break;
        case 2: { double a = 2 * r.range(1, 8), b = 2 * r.range(10, 100); if (r.coin()) std::swap(a, b);
                  if (r.coin(1, 4)) b = a; w = a; h = b; break; }
        case 4: { // tall-root witness: the root is 100 long along the growth direction, everything else 10x10
                  bool vert = (dirIdx & 1) == 0;   // dirs[] = N, E, S, W
                  w = h = 10; if (i == 0) { if (vert) h = 100; else w = 100; } break; }
        default: w = r.range(1, 200) / 4.0; h = r.range(1, 200) / 4.0; break;
        }
        maxDim = std::max(maxDim, std::max(w, h));
        Node_SP u = Node::allocate(w, h);
        G->addNode(u);
        ns.push_back(u);
    }
    printf("n");
    for (auto &u : ns) printf(" %u", u->id());
    printf("\n");
    for (int i = 1; i < n; ++i) { G->addEdge(ns[parent[i]], ns[i]); printf("e %u %u\n", ns[parent[i]]->id(), ns[i]->id()); }
    printf("root %u\n", ns[0]->id());
    for (auto &u : ns) {
        dimensions dm = u->getDimensions();
        printf("sz %u %s %s\n", u->id(), vh::hx(dm.first).c_str(), vh::hx(dm.second).c_str());
        printf("kids %u", u->id());
        for (Node_SP c : u->getChildren()) printf(" %u", c->id());
        printf("\n");
    }
    // what the ordering of the c-trees reads, for the subtree rooted at every node: m_depth, m_breadth and
    // computeIsomString() (compared with Model/TreeLayout.lean `Key`; "s:" keeps an empty string a token)
    for (auto &u : ns) {
        Tree tv(G, u);
        printf("isomv %u %u %u s:%s\n", u->id(), tv.m_depth, tv.m_breadth, tv.computeIsomString().c_str());
    }
    double nodeSep, rankSep;
    if (sepMode == 0) {
        // documented precondition: rankSep (distance between rank centre lines) >= largest node extent
        int pk = (int) r.range(0, 2);
        if (pk == 0) { nodeSep = 10; rankSep = 50; }
        else if (pk == 1) { double iel = G->getIEL(); nodeSep = dy(iel / 4, 8); rankSep = std::max(dy(iel, 8), maxDim); }
        else { nodeSep = (double) r.range(1, 40) / 2.0; rankSep = maxDim + (double) r.range(0, 120) / 2.0; }
    } else if (sepMode == 2) { nodeSep = 5; rankSep = 20;
    } else {
        int pk = (int) r.range(0, 3);
        nodeSep = pk == 0 ? 0 : (double) r.range(0, 160) / 8.0;
        int qk = (int) r.range(0, 3);
        rankSep = qk == 0 ? 0 : qk == 1 ? (double) r.range(0, 8 * (long) maxDim) / 8.0 : maxDim + (double) r.range(0, 240) / 4.0;
    }
    bool convex = r.coin(convexNum, 4);
    CardinalDir d = dirs[dirIdx & 3];
    printf("layout 0 %s %s %s %d\n", dirName(d), vh::hx(nodeSep).c_str(), vh::hx(rankSep).c_str(), (int) convex);
    printf("exact 1\n");
    fflush(stdout);
    Tree tree(G, ns[0]);
    printf("tsize %zu\n", tree.size());
    tree.symmetricLayout(d, nodeSep, rankSep, convex);
    for (auto p : G->getNodeLookup()) {
        BoundingBox bb = p.second->getBoundingBox();
        printf("box 0 %u %s %s %s %s\n", p.first, vh::hx(bb.x).c_str(), vh::hx(bb.X).c_str(),
               vh::hx(bb.y).c_str(), vh::hx(bb.Y).c_str());
    }
    for (auto p : G->getNodeLookup()) {
        Avoid::Point c = p.second->getCentre();
        printf("ctr %u %s %s\n", p.first, vh::hx(c.x).c_str(), vh::hx(c.y).c_str());
    }
    for (size_t rk = 0; rk < tree.m_boundsByRank.size(); ++rk)
        printf("rb %zu %s %s\n", rk, vh::hx(tree.m_boundsByRank[rk][0]).c_str(), vh::hx(tree.m_boundsByRank[rk][1]).c_str());
    printf("lbub %s %s\n", vh::hx(tree.m_lb).c_str(), vh::hx(tree.m_ub).c_str());
    printf("laid 0 %d\n", (int) tree.isSymmetrical());
}

int main(int argc, char **argv) {
    vh::Args a = vh::parseArgs(argc, argv);
    bool thorough = (a.tier == "thorough");
    int maxN = thorough ? 60 : 12;
    long nPeel = (thorough ? 6000 : 1500) * a.scale;
    long nComps = (thorough ? 2000 : 500) * a.scale;
    long nPlanM = (thorough ? 800 : 250) * a.scale;
    long nPlanR = (thorough ? 150 : 40) * a.scale;
    if (a.n >= 0) { nPeel = a.n; nComps = a.n / 3; nPlanM = a.n / 6; nPlanR = a.n / 30; }
    long k = 0;

    // Genuine defect found with this harness (see report / known_findings): peel() on a graph
    // without edges reads m_buckets[1] of a one-element vector (heap-buffer-overflow in
    // NodeBuckets::takeLeaves). Emitted only with --mode edgeless so that the default stream is quiet.
    if (a.mode == "edgeless") {
        if (a.want(0)) {
            vh::Rng r = vh::caseRng(a.seed, 0);
            GSpec g; g.newNode();
            vh::beginCase(0, "peel-edgeless");
            printf("kind peel\n");
            runPeel(r, g);
            vh::endCase();
        }
        return 0;
    }
    // Second finding: a route segment shorter than CompareActiveEvents' tolerance (1.0) gets its
    // CLOSE event sorted before its OPEN event in OrthoPlanariser::computeCrossings, the vertical
    // stays "open" and every later horizontal on that column yields a spurious crossing node with
    // overlapping edges. Minimal hand-made instance, emitted only with --mode shortseg.
    if (a.mode == "shortseg") {
        if (a.want(0)) {
            vh::beginCase(0, "plan-shortseg");
            printf("kind plan\nstrict 1\n");
            Graph_SP G = std::make_shared<Graph>();
            Node_SP A = Node::allocate(0, 0, 16, 16), B = Node::allocate(60, 40, 16, 16),
                    C = Node::allocate(-20, 20, 16, 16), D = Node::allocate(100, 20, 16, 16);
            G->addNode(A); G->addNode(B); G->addNode(C); G->addNode(D);
            Edge_SP ab = G->addEdge(A, B), cd = G->addEdge(C, D);
            std::vector<Avoid::Point> r1;
            r1.push_back(Avoid::Point(0, 0)); r1.push_back(Avoid::Point(20, 0)); r1.push_back(Avoid::Point(20, 0.5));
            r1.push_back(Avoid::Point(60, 0.5)); r1.push_back(Avoid::Point(60, 40));
            ab->setRoute(r1);
            std::vector<Avoid::Point> r2;
            r2.push_back(Avoid::Point(-20, 20)); r2.push_back(Avoid::Point(100, 20));
            cd->setRoute(r2);
            dumpRouted(*G);
            OrthoPlanariser op(G);
            Graph_SP Q = op.planarise();
            dumpPlanar(*Q);
            vh::endCase();
        }
        return 0;
    }
    // fixed small corpus first: K2, P3, P4, P5, triangle, triangle+pendant
    {
        const int fixedN[] = {2, 2, 3, 4, 5, 3, 4};
        for (int f = 0; f < 7; ++f, ++k) {
            if (!a.want(k)) continue;
            vh::Rng r = vh::caseRng(a.seed, k);
            GSpec g;
            const char *tag = "peel-path";
            if (f < 5) genTree(r, g, fixedN[f], 1);
            else if (f == 5) { genCycle(g, 3); tag = "peel-cycle"; }
            else { genCycle(g, 3); hangTrees(r, g, 1); tag = "peel-unicyclic"; }
            vh::beginCase(k, tag);
            printf("kind peel\n");
            runPeel(r, g);
            vh::endCase();
        }
    }
    for (long c = 0; c < nPeel; ++c, ++k) {
        if (!a.want(k)) continue;
        vh::Rng r = vh::caseRng(a.seed, k);
        GSpec g;
        int cls = (int) (c % 10);
        int n = (int) r.range(2, maxN);
        const char *tag;
        switch (cls) {
        case 0: tag = "peel-random"; genRandomConnected(r, g, n, (int) r.range(0, n)); break;
        case 1: tag = "peel-random-dense"; genRandomConnected(r, g, n, (int) r.range(n, 3 * n)); break;
        case 2: tag = "peel-tree"; genTree(r, g, n, 0); break;
        case 3: tag = "peel-path"; genTree(r, g, n, 1); break;
        case 4: tag = "peel-tree-shaped"; genTree(r, g, n, (int) r.range(2, 5)); break;
        case 5: tag = "peel-cycle"; genCycle(g, std::max(3, n)); break;
        case 6: { tag = "peel-unicyclic"; int cy = (int) r.range(3, std::max(3, n / 2 + 1)); genCycle(g, cy);
                  hangTrees(r, g, std::max(0, n - cy)); break; }
        case 7: { tag = "peel-core-hanging"; int cn = (int) r.range(3, std::max(3, n / 2 + 1));
                  genLeafless(r, g, cn, (int) r.range(0, cn)); hangTrees(r, g, std::max(0, n - cn)); break; }
        case 8: { tag = "peel-core-paths";   // long paths hanging off a small core
                  int cn = (int) r.range(3, 4); genCycle(g, cn);
                  int rest = std::max(0, n - cn);
                  while (rest > 0) { int len = (int) r.range(1, rest); int p = (int) r.range(0, cn - 1);
                      for (int j = 0; j < len; ++j) { int v = g.newNode(); g.add(p, v); p = v; } rest -= len; }
                  break; }
        default: tag = "peel-random"; genRandomConnected(r, g, n, (int) r.range(0, 3)); break;
        }
        vh::beginCase(k, tag);
        printf("kind peel\n");
        runPeel(r, g);
        vh::endCase();
    }
    for (long c = 0; c < nComps; ++c, ++k) {
        if (!a.want(k)) continue;
        vh::Rng r = vh::caseRng(a.seed, k);
        GSpec g;
        int cls = (int) (c % 4);
        const char *tag;
        int n = (int) r.range(1, maxN);
        if (cls == 0) {           // sparse random graph, arbitrary
            tag = "comps-sparse";
            for (int i = 0; i < n; ++i) g.newNode();
            int m = (int) r.range(0, n);
            for (int i = 0; i < m; ++i) g.add((int) r.range(0, n - 1), (int) r.range(0, n - 1));
        } else if (cls == 1) {    // union of several connected pieces + isolated nodes
            tag = "comps-pieces";
            int left = n;
            while (left > 0) {
                int sz = (int) r.range(1, left);
                GSpec h; genRandomConnected(r, h, sz, (int) r.range(0, sz));
                int base = g.n; for (int i = 0; i < sz; ++i) g.newNode();
                for (auto &e : h.edges) g.add(base + e.first, base + e.second);
                left -= sz;
            }
        } else if (cls == 2) {    // connected
            tag = "comps-connected"; genRandomConnected(r, g, n, (int) r.range(0, 2 * n));
        } else {                  // forest of paths/cycles
            tag = "comps-forest";
            int left = n;
            while (left > 0) { int sz = (int) r.range(1, left);
                if (sz >= 3 && r.coin()) genCycle(g, sz); else genTree(r, g, sz, (int) r.range(0, 2)); left -= sz; }
        }
        vh::beginCase(k, tag);
        printf("kind comps\n");
        runComps(r, g);
        vh::endCase();
    }
    for (long c = 0; c < nPlanM; ++c, ++k) {
        if (!a.want(k)) continue;
        vh::Rng r = vh::caseRng(a.seed, k);
        int n = (int) r.range(2, thorough ? 24 : 9);
        int m = (int) r.range(0, 2 * n);
        vh::beginCase(k, "plan-manual");
        printf("kind plan\nstrict 1\n");
        runPlanManual(r, n, m);
        vh::endCase();
    }
    for (long c = 0; c < nPlanR; ++c, ++k) {
        if (!a.want(k)) continue;
        vh::Rng r = vh::caseRng(a.seed, k);
        int n = (int) r.range(3, thorough ? 14 : 8);
        int m = (int) r.range(0, n);
        runPlanRouted(r, k, n, m);
    }
    // Tree::symmetricLayout on directly built trees of 5..60 nodes (both tiers), all four growth
    // directions; first the 14-node witness (3-star, star+leaf, two 2-paths) in each direction.
    {
        static const int witness[14] = {-1, 0, 1, 1, 1, 0, 5, 6, 6, 5, 0, 10, 0, 12};
        for (int d = 0; d < 4; ++d, ++k) {
            if (!a.want(k)) continue;
            vh::Rng r = vh::caseRng(a.seed, k);
            std::vector<int> parent(witness, witness + 14);
            vh::beginCase(k, "layout-witness14");
            printf("kind layout\n");
            runLayout(r, parent, d, 0);
            vh::endCase();
        }
    }
    long nLayout = (thorough ? 3000 : 700) * a.scale;
    if (a.n >= 0) nLayout = a.n / 2;
    for (long c = 0; c < nLayout; ++c, ++k) {
        if (!a.want(k)) continue;
        vh::Rng r = vh::caseRng(a.seed, k);
        static const char *tags[6] = {"layout-random", "layout-lopsided", "layout-caterpillar", "layout-family14",
                                      "layout-spider", "layout-hubs"};
        int shape = (int) (c % 6);
        int n = (int) r.range(5, 60);
        std::vector<int> parent;
        genLayoutTree(r, shape, n, parent);
        vh::beginCase(k, tags[shape]);
        printf("kind layout\n");
        { int di = (int) r.range(0, 3); bool uni = r.coin(); runLayout(r, parent, di, uni ? 0 : 1); }
        vh::endCase();
    }
    // exact-tie classes: every shape (plus deep paths, stars, nested lopsided, tiny), anisotropic and
    // quarter-valued sizes, separations incl. 0 and rankSep below the node extents, both convexOrdering
    // values equally likely, all four growth directions.
    long nLayoutX = (thorough ? 3000 : 900) * a.scale;
    if (a.n >= 0) nLayoutX = a.n / 2;
    for (long c = 0; c < nLayoutX; ++c, ++k) {
        if (!a.want(k)) continue;
        vh::Rng r = vh::caseRng(a.seed, k);
        static const char *tags[11] = {"layoutx-random", "layoutx-lopsided", "layoutx-caterpillar", "layoutx-family14",
                                       "layoutx-spider", "layoutx-hubs", "layoutx-deeppath", "layoutx-star",
                                       "layoutx-nested-lopsided", "layoutx-tiny", "layoutx-isomquirk"};
        int shape = (int) (c % 11);
        int n = shape == 9 ? (int) r.range(1, 4) : (int) r.range(5, thorough ? 90 : 40);
        std::vector<int> parent;
        genLayoutTree(r, shape == 5 ? 99 : shape, n, parent);
        vh::beginCase(k, tags[shape]);
        printf("kind layout\n");
        { int di = (int) (c / 11 % 4); int sm = (int) r.range(1, 3); int pm = r.coin(2, 3) ? 1 : 0; runLayout(r, parent, di, sm, pm, 2); }
        vh::endCase();
    }
    // fixed witness (Props/C19Layout.lean `isSymmetrical_flag_unsound`): two non-isomorphic 13-node subtrees
    // T1 = {x:{p1,q2}, y:{p1,q2}}, T2 = {x:{p1,p1}, y:{q2,q2}} with equal computeIsomString form one class of
    // even order, so isSymmetrical() is true although the drawing is not mirror symmetric.
    {
        static const int quirk[27] = {-1, 0, 1, 2, 3, 2, 5, 5, 1, 8, 9, 8, 11, 11, 0, 14, 15, 16, 15, 18, 14, 20, 21, 21, 20, 24, 24};
        for (int d = 0; d < 4; ++d, ++k) {
            if (!a.want(k)) continue;
            vh::Rng r = vh::caseRng(a.seed, k);
            std::vector<int> parent(quirk, quirk + 27);
            vh::beginCase(k, "layoutx-quirk-witness");
            printf("kind layout\n");
            runLayout(r, parent, d, 0);
            vh::endCase();
        }
    }
    // fixed witness of the known finding C14-tree-rank-distance (Props/C19Layout.lean
    // `tall_root_overlaps_child`): root 10x100 (along the growth direction), one 10x10 child, nodeSep 5,
    // rankSep 20: the child's box lies inside the root's box. The driver only ties these cases exactly (the
    // extent hypothesis is off) and counts the overlap.
    {
        static const int tall[2] = {-1, 0};
        for (int d = 0; d < 4; ++d, ++k) {
            if (!a.want(k)) continue;
            vh::Rng r = vh::caseRng(a.seed, k);
            std::vector<int> parent(tall, tall + 2);
            vh::beginCase(k, "layoutx-tallroot-witness");
            printf("kind layout\n");
            runLayout(r, parent, d, 4, 2);
            vh::endCase();
        }
    }
    k = runPlanX(a, k, thorough);   // planx-* (harness/c19_planarise.h); keep last so earlier case indices do not move
    return 0;
}
